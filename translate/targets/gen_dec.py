"""Gen_dec.v: the decimal <-> binary conversion core of values/numbers.py (C07).

Regenerated from /repo on every run, on top of gen/Gen_mbf.v (the same translator and idiom layer,
translate/targets/gen_mbf.py, imported read-only):

  dec_div_den          Float._div_den        (same text as Gen_mbf.mbf_div_den; regenerated here so that the
                                             name of its loop is fixed by this file)
  mbf_div10_den        Float._div10_den      (division by the class constant _ten + renormalisation loop)
  mbf_to_decimal_core  Float.to_decimal      the statements from `tden = lim_top._denormalise()` to
                                             `return num, exp10` (both scaling loops, both carry
                                             roundings, the final rounding to an integer); the choice of
                                             lim_bot / lim_top by `digits` is glue (model/Decimal.v)
  mbf_to_str_carry     Float.to_str          the renormalisation `if abs(mantissa) >= 10**self.digits:`
                                             (fixes/D07a.patch); REFUSES on a tree without it
  mbf_from_decimal     Float.from_decimal    whole method; its two loops run |exp10| times, the fuel is
                                             S |exp10| (never exhausted)
  Single_sigil, Single_exp_sign, Double_sigil, Double_exp_sign, dec_BLANKS, dec_SEPARATORS,
  dec_single_digits (the constant of `digits - zeros > 7` in str_to_decimal)

The prerequisite methods (_denormalise, _div_den, _add_den, _mul10_den, _apply_carry_den, from_int,
_normalise, ...) are translated again here only to learn their signatures; their text is discarded and
Gen_dec.v imports gen.Gen_mbf, so a divergence is a Coq type error (fail closed).

Additional idioms (this file):
  self.new().from_bytes(E).m(..)       -> the pure method m applied to the buffer E   (E : bytes)
  X = self.from_int(E)._denormalise()  -> self.from_int(E) ; X = self._denormalise()  (from_int returns self)
  10 ** E                              -> Z.pow 10 E   (E an int expression; Python agrees for E >= 0, and
                                          the only use is 10**self.digits with the class constant digits > 0)
"""
import ast
import copy
import os

from py2v import Refuse, HEADER, read_errors, refuse, coq_value
from targets import gen_mbf

OUT = 'Gen_dec.v'
SOURCES = ['pcbasic/basic/values/numbers.py']


def is_new_from_bytes(n):
    """self.new().from_bytes(E) -> E, else None"""
    if (isinstance(n, ast.Call) and isinstance(n.func, ast.Attribute) and n.func.attr == 'from_bytes'
            and len(n.args) == 1 and not n.keywords):
        v = n.func.value
        if (isinstance(v, ast.Call) and isinstance(v.func, ast.Attribute) and v.func.attr == 'new'
                and isinstance(v.func.value, ast.Name) and v.func.value.id == 'self' and not v.args
                and not v.keywords):
            return n.args[0]
    return None


class DecModule(gen_mbf.MbfModule):
    """MbfModule + the chained call `X = self.from_int(E)._denormalise()`."""

    def find(self, qualname):
        node = gen_mbf.MbfModule.find(self, qualname)
        if isinstance(node, ast.FunctionDef) and not getattr(node, '_dec_done', False):
            node.body = self.unchain(node.body)
            ast.fix_missing_locations(node)
            node._dec_done = True
        return node

    def unchain(self, body):
        out = []
        for s in body:
            for fld in ('body', 'orelse'):
                sub = getattr(s, fld, None)
                if isinstance(sub, list) and sub and isinstance(sub[0], ast.stmt):
                    setattr(s, fld, self.unchain(sub))
            if (isinstance(s, ast.Assign) and isinstance(s.value, ast.Call)
                    and isinstance(s.value.func, ast.Attribute) and not s.value.args):
                inner = s.value.func.value
                if (isinstance(inner, ast.Call) and isinstance(inner.func, ast.Attribute)
                        and isinstance(inner.func.value, ast.Name) and inner.func.value.id == 'self'
                        and inner.func.attr in gen_mbf.SELF_RETURNING):
                    first = ast.copy_location(ast.Expr(value=inner), s)
                    s2 = copy.copy(s)
                    s2.value = ast.Call(func=ast.Attribute(value=ast.Name(id='self', ctx=ast.Load()),
                                                           attr=s.value.func.attr, ctx=ast.Load()),
                                        args=[], keywords=[])
                    out += [first, ast.copy_location(s2, s)]
                    continue
            out.append(s)
        return out


class DecTranslator(gen_mbf.MbfTranslator):

    def hook_expr(self, node, env):
        if isinstance(node, ast.BinOp) and isinstance(node.op, ast.Pow) \
                and isinstance(node.left, ast.Constant) and node.left.value == 10 \
                and not isinstance(node.right, ast.Constant):
            e = self.as_Z(self.expr(node.right, env))
            return '(Z.pow 10 %s)' % e, 'Z'
        return gen_mbf.MbfTranslator.hook_expr(self, node, env)

    def hook_call(self, node, env):
        f = node.func
        if isinstance(f, ast.Attribute):
            buf = is_new_from_bytes(f.value)
            if buf is not None:
                fn = self.funcs.get('self.' + f.attr)
                if fn is None or fn.monadic or fn.state_out or node.keywords \
                        or len(node.args) != len(fn.params):
                    refuse(node, 'unsupported method %s on self.new().from_bytes(..)' % f.attr)
                b = self.expr(buf, env)
                if b[1] != 'list Z':
                    refuse(node, 'from_bytes of non-bytes')
                args = []
                for a in fn.state_in:
                    if a == 'self._buffer':
                        args.append(b[0])
                    elif a in env:
                        args.append(env[a][0])
                    else:
                        refuse(node, 'state %s not available' % a)
                for a, (pn, pt) in zip(node.args, fn.params):
                    t = self.expr(a, env)
                    args.append(self.as_Z(t) if pt == 'Z' else self.as_bool(t) if pt == 'bool' else t[0])
                return '(%s %s)' % (fn.coqname, ' '.join(args)), fn.ret_ty
        return gen_mbf.MbfTranslator.hook_call(self, node, env)


def find_threshold(m):
    """the constant K of `if digits - zeros > K and not is_single:` in str_to_decimal"""
    fn = m.find('str_to_decimal')
    found = []
    for n in ast.walk(fn):
        if (isinstance(n, ast.Compare) and len(n.ops) == 1 and isinstance(n.ops[0], ast.Gt)
                and isinstance(n.left, ast.BinOp) and isinstance(n.left.op, ast.Sub)
                and ast.unparse(n.left) == 'digits - zeros'
                and isinstance(n.comparators[0], ast.Constant) and isinstance(n.comparators[0].value, int)):
            found.append(n.comparators[0].value)
    if len(found) != 1:
        raise Refuse('str_to_decimal: `digits - zeros > K` found %d times' % len(found))
    return found[0]


def generate(repo):
    path = os.path.join(repo, SOURCES[0])
    stateful = {'_check_limits', 'from_int', 'from_bytes', '_normalise', 'itrunc', '_bring_to_range',
                'iadd', 'isub', 'imul', '_div_den', '_div10_den'}
    m = DecModule(path, stateful)
    errors = read_errors(repo)
    t = DecTranslator(m, errors=errors)
    for k in gen_mbf.RECORD_ORDER:
        ty = 'list Z' if k in ('pos_max', 'neg_max', '_one', '_ten', '_lim_top', '_lim_bot') else 'Z'
        t.consts['self.' + k] = ('(%s v_C)' % gen_mbf.field(k), ty)
    den = '(Z * Z * bool)'
    # prerequisites: same calls as gen_mbf.generate; only the signatures are kept
    t.method('Value', 'from_bytes', 'mbf_from_bytes', params={'in_bytes': 'list Z'})
    t.method('Float', 'is_zero', 'mbf_is_zero')
    t.method('Float', 'is_negative', 'mbf_is_negative')
    t.method('Float', '_denormalise', 'mbf_denormalise')
    t.method('Float', '_bring_to_range', 'mbf_bring_to_range', buffer=False)
    t.method('Float', '_check_limits', 'mbf_check_limits', params={'neg': 'bool'})
    t.method('Float', 'from_int', 'mbf_from_int')
    t.method('Float', '_normalise', 'mbf_normalise', params={'neg': 'bool'})
    t.method('Float', '_abs_gt_den', 'mbf_abs_gt_den', buffer=False, params={'lden': den, 'rden': den})
    t.method('Float', '_add_den', 'mbf_add_den', buffer=False, params={'lden': den, 'rden': den})
    t.method('Float', '_apply_carry_den', 'mbf_apply_carry_den', buffer=False, params={'den': den})
    t.method('Float', '_mul10_den', 'mbf_mul10_den', buffer=False, params={'den': den})
    t.method('Float', '_div_den', 'mbf_div_den', buffer=False, params={'lden': den, 'rden': den})
    t.out = []
    t.counter = 100          # loop names distinct from Gen_mbf's

    # ---- class constants not in the fconst record
    for cls in ('Single', 'Double'):
        for attr in ('sigil', 'exp_sign'):
            t.add_const('%s.%s' % (cls, attr), m.const_value('%s.%s' % (cls, attr)), coqname='%s_%s' % (cls, attr))
    t.add_const('BLANKS', m.const_value('BLANKS'), coqname='dec_BLANKS')
    t.add_const('SEPARATORS', m.const_value('SEPARATORS'), coqname='dec_SEPARATORS')
    t.emit('Definition dec_single_digits : Z := %d.' % find_threshold(m))

    # ---- the conversion core
    # _div_den once more under a name of this file, so that its loop name does not depend on Gen_mbf's numbering
    t.method('Float', '_div_den', 'dec_div_den', buffer=False, params={'lden': den, 'rden': den})
    t.method('Float', '_div10_den', 'mbf_div10_den', buffer=False, params={'lden': den})
    t.method('Float', 'to_decimal', 'mbf_to_decimal_core',
             params={'lim_bot': 'list Z', 'lim_top': 'list Z'},
             stmts=(r'^tden = lim_top\._denormalise\(\)', r'^return num, exp10'))
    t.method('Float', 'to_str', 'mbf_to_str_carry', buffer=False, params={'mantissa': 'Z', 'exp10': 'Z'},
             stmts=(r'^if abs\(mantissa\) >= 10\*\*self\.digits:', r'^if abs\(mantissa\) >= 10\*\*self\.digits:'),
             ret=['mantissa', 'exp10'])
    t.fuel = '(S (Z.to_nat (Z.abs v_exp10)))'
    t.method('Float', 'from_decimal', 'mbf_from_decimal')
    header = HEADER.replace('lib.Harness.', 'lib.Harness lib.MBFPrims gen.Gen_mbf.')
    return header + '\n'.join(t.out) + '\n'
