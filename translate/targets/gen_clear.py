"""Gen_clear.v: the RESET TABLE of RUN / CLEAR / NEW / CHAIN (C23).

For each method listed in FUNCS the statement list is flattened into guarded operations (types in
theories/lib/ClearTable.v): every statement that touches `self` - component reset calls
`self.X.clear()/reset()/...`, attribute assignments `self.x = <initial value>`, `with self....:` blocks,
raises - in source order, with the `if` tests on the path to it as guard strings.  Statements that only
handle local argument values (`x = next(args)`, `x = values.to_int(x)`, `list(args)`) have no effect on the
session state and are skipped, but only if they match the whitelisted shapes; anything else REFUSES.

The meaning of the strings is given by model/ClearChain.v, which fails closed on unknown ones; so a reset
call dropped from the code drops out of the table and breaks the proof of C23_reset, and a new kind of
statement either refuses here or is Unsupported there.
"""
import ast
import os
from py2v import Module, HEADER, Refuse, refuse, read_errors, zlit

OUT = 'Gen_clear.v'

FUNCS = [
    ('pcbasic/basic/implementation.py', 'Implementation',
     ['_clear_all', 'clear_', 'new_', 'run_', 'chain_']),
    ('pcbasic/basic/interpreter.py', 'Interpreter',
     ['clear', 'clear_stacks_and_pointers', '_clear_stacks', '_init_error_trapping']),
    ('pcbasic/basic/memory/memory.py', 'DataSegment', ['clear', 'clear_deftype', 'hold_garbage']),
    ('pcbasic/basic/memory/scalars.py', 'Scalars', ['clear']),
    ('pcbasic/basic/memory/arrays.py', 'Arrays', ['clear', 'clear_base']),
    ('pcbasic/basic/values/randomiser.py', 'Randomiser', ['clear']),
    ('pcbasic/basic/values/strings.py', 'StringSpace', ['clear', 'rebuild']),
    ('pcbasic/basic/parser/userfunctions.py', 'UserFunctionManager', ['clear']),
]
SOURCES = [f for f, _, _ in FUNCS]
ERRORS = ['IFC', 'OUT_OF_MEMORY', 'UNDEFINED_LINE_NUMBER', 'SUBSCRIPT_OUT_OF_RANGE', 'DUPLICATE_DEFINITION',
          'OUT_OF_STRING_SPACE', 'STRING_TOO_LONG', 'FILE_NOT_FOUND']


def cstr(s):
    if '"' in s or '\n' in s:
        raise Refuse('string not representable: %r' % s)
    return '"%s"' % s


def self_path(node):
    """'a.b.c' for the attribute chain self.a.b.c, else None."""
    parts = []
    while isinstance(node, ast.Attribute):
        parts.append(node.attr)
        node = node.value
    if isinstance(node, ast.Name) and node.id == 'self' and parts:
        return '.'.join(reversed(parts))
    return None


def touches_self(node):
    return any(isinstance(n, ast.Name) and n.id == 'self' for n in ast.walk(node))


def local_value_ok(v):
    """whitelisted right-hand sides of assignments to local names (no effect on session state)."""
    if touches_self(v):
        return False
    if isinstance(v, ast.Constant):
        return True
    if isinstance(v, ast.Name):
        return True
    if isinstance(v, ast.Tuple):
        return all(local_value_ok(e) for e in v.elts)
    if isinstance(v, ast.IfExp):
        return local_value_ok(v.test) and local_value_ok(v.body) and local_value_ok(v.orelse)
    if isinstance(v, ast.Call):
        f = ast.unparse(v.func)
        if f in ('next', 'values.next_string', 'values.to_int', 'round', 'video_size.to_value'):
            return all(local_value_ok(a) for a in v.args) and all(local_value_ok(k.value) for k in v.keywords)
    return False


class Extractor(object):
    def __init__(self, errors):
        self.errors = errors

    def args(self, call):
        out = []
        for a in call.args:
            out.append('APos %s' % cstr(ast.unparse(a)))
        for k in call.keywords:
            if k.arg is None:
                refuse(call, '**kwargs')
            out.append('AKw %s %s' % (cstr(k.arg), cstr(ast.unparse(k.value))))
        return '[' + '; '.join(out) + ']'

    def rhs(self, v):
        if isinstance(v, ast.Constant):
            if v.value is None:
                return 'RNone'
            if isinstance(v.value, bool):
                return 'RBool %s' % ('true' if v.value else 'false')
            if isinstance(v.value, int):
                return 'RInt %s' % zlit(v.value)
        if isinstance(v, ast.List) and not v.elts:
            return 'REmptyList'
        if isinstance(v, ast.Dict) and not v.keys:
            return 'REmptyDict'
        if isinstance(v, ast.Call) and ast.unparse(v) == 'set()':
            return 'REmptySet'
        return 'RExpr %s' % cstr(ast.unparse(v))

    def error_number(self, node):
        """raise error.BASICError(error.X) -> number"""
        if (isinstance(node, ast.Call) and ast.unparse(node.func) == 'error.BASICError'
                and len(node.args) == 1 and not node.keywords):
            a = node.args[0]
            if isinstance(a, ast.Attribute) and ast.unparse(a.value) == 'error' and a.attr in self.errors:
                return self.errors[a.attr]
        refuse(node, 'unsupported raise %s' % ast.unparse(node))

    def stmts(self, body, guards, out):
        for i, s in enumerate(body):
            self.stmt(s, guards, out, first=(i == 0))

    def emit(self, guards, op, out):
        out.append('{| g_guards := [%s]; g_op := %s |}' % ('; '.join(cstr(g) for g in guards), op))

    def stmt(self, s, guards, out, first=False):
        if isinstance(s, ast.Pass):
            return
        if isinstance(s, ast.Expr):
            v = s.value
            if isinstance(v, ast.Constant) and isinstance(v.value, str):
                return                                  # docstring / string statement
            if isinstance(v, ast.Yield) and v.value is None:
                self.emit(guards, 'OYield', out)
                return
            if isinstance(v, ast.Call):
                p = self_path(v.func)
                if p is not None:
                    self.emit(guards, 'OCall %s %s' % (cstr(p), self.args(v)), out)
                    return
                f = ast.unparse(v.func)
                if f in ('list', 'next') and ast.unparse(v) in ('list(args)', 'next(args)'):
                    return                              # drain the argument generator
                if f == 'error.throw_if' and not touches_self(v) and 1 <= len(v.args) <= 2 and not v.keywords:
                    err = self.errors['IFC']
                    if len(v.args) == 2:
                        a = v.args[1]
                        if not (isinstance(a, ast.Attribute) and a.attr in self.errors):
                            refuse(s, 'unsupported throw_if error')
                        err = self.errors[a.attr]
                    self.emit(guards + [ast.unparse(v.args[0])], 'ORaise %s' % zlit(err), out)
                    return
            refuse(s, 'unsupported expression statement %s' % ast.unparse(s))
        if isinstance(s, ast.Assign):
            if len(s.targets) != 1:
                refuse(s, 'chained assignment')
            t = s.targets[0]
            targets = t.elts if isinstance(t, ast.Tuple) else [t]
            paths = [self_path(x) for x in targets]
            if all(p is not None for p in paths):
                if isinstance(t, ast.Tuple):
                    if not (isinstance(s.value, ast.Tuple) and len(s.value.elts) == len(targets)):
                        refuse(s, 'tuple assignment from a non-tuple')
                    vals = s.value.elts
                else:
                    vals = [s.value]
                for p, v in zip(paths, vals):
                    if touches_self(v) and not isinstance(v, ast.Call):
                        refuse(s, 'assignment from another attribute')
                    self.emit(guards, 'OAssign %s (%s)' % (cstr(p), self.rhs(v)), out)
                return
            if all(isinstance(x, ast.Name) for x in targets):
                names = [x.id for x in targets]
                v = s.value
                if isinstance(v, ast.Call) and self_path(v.func) is not None:
                    self.emit(guards, 'OBind [%s] %s %s' % (
                        '; '.join(cstr(n) for n in names), cstr(self_path(v.func)), self.args(v)), out)
                    return
                if local_value_ok(v):
                    return                              # local argument handling only
            refuse(s, 'unsupported assignment %s' % ast.unparse(s))
        if isinstance(s, ast.If):
            test = ast.unparse(s.test)
            self.stmts(s.body, guards + [test], out)
            if s.orelse:
                self.stmts(s.orelse, guards + ['!' + test], out)
            return
        if isinstance(s, ast.Try):
            if (not s.finalbody and len(s.handlers) == 1 and not s.orelse
                    and ast.unparse(s.handlers[0].type) == 'StopIteration'
                    and len(s.handlers[0].body) == 1 and isinstance(s.handlers[0].body[0], ast.Pass)):
                self.stmts(s.body, guards + ['<args>'], out)
                return
            if s.finalbody and not s.handlers and not s.orelse:
                self.stmts(s.body, guards, out)
                self.stmts(s.finalbody, guards + ['<finally>'], out)
                return
            refuse(s, 'unsupported try statement')
        if isinstance(s, ast.With):
            if len(s.items) != 1:
                refuse(s, 'with: several items')
            ce = s.items[0].context_expr
            p = self_path(ce.func) if isinstance(ce, ast.Call) else None
            if p is None:
                refuse(s, 'with: not a call on self')
            self.emit(guards, 'OEnter %s %s' % (cstr(p), self.args(ce)), out)
            self.stmts(s.body, guards, out)
            self.emit(guards, 'OExit %s' % cstr(p), out)
            return
        if isinstance(s, ast.Raise):
            self.emit(guards, 'ORaise %s' % zlit(self.error_number(s.exc)), out)
            return
        refuse(s, 'unsupported statement %s' % type(s).__name__)

    def function(self, node):
        a = node.args
        if a.vararg or a.kwarg or a.kwonlyargs or a.posonlyargs:
            refuse(node, 'unsupported parameter kinds')
        names = [x.arg for x in a.args]
        if not names or names[0] != 'self':
            refuse(node, 'not a method')
        names = names[1:]
        defaults = [None] * (len(names) - len(a.defaults)) + list(a.defaults)
        params = []
        for n, d in zip(names, defaults):
            params.append('(%s, %s)' % (cstr(n), 'RExpr "<required>"' if d is None else self.rhs(d)))
        out = []
        self.stmts(node.body, [], out)
        return params, out


def generate(repo):
    errors = read_errors(repo)
    ex = Extractor(errors)
    lines = [HEADER, 'From Coq Require Import String.', 'From PCB Require Import lib.ClearTable.',
             'Local Open Scope string_scope.', '']
    for en in ERRORS:
        if en not in errors:
            raise Refuse('error.%s not found' % en)
        lines.append('Definition err_%s : Z := %s.' % (en, zlit(errors[en])))
    lines.append('')
    names = []
    for path, cls, funcs in FUNCS:
        m = Module(os.path.join(repo, path))
        for f in funcs:
            node = m.find('%s.%s' % (cls, f))
            if not isinstance(node, ast.FunctionDef):
                raise Refuse('%s.%s is not a function' % (cls, f))
            params, body = ex.function(node)
            coqname = 'tbl_%s_%s' % (cls, f.strip('_'))
            lines.append('(* %s: %s.%s *)' % (path, cls, f))
            lines.append('Definition %s : fn := {| fn_params := [%s]; fn_body := [' % (coqname, '; '.join(params)))
            lines.append(';\n'.join('  ' + b for b in body))
            lines.append(']|}.\n')
            names.append(('%s.%s' % (cls, f), coqname))
    lines.append('Definition clear_tables : list (string * fn) := [')
    lines.append(';\n'.join('  (%s, %s)' % (cstr(k), v) for k, v in names))
    lines.append('].')
    return '\n'.join(lines) + '\n'
