"""Gen_tokens.v: keyword<->token tables of base/tokens.py per syntax and the byte sets the tokeniser and
lister consult (C17).  TABLE DUMPER: imports the /repo modules and prints Coq literals; the tuples that are
written inline in tokeniser.py / lister.py are pulled out of the Python AST and evaluated (fail closed)."""
import ast
import importlib
import os
import sys

from py2v import HEADER, Refuse

OUT = 'Gen_tokens.v'
SOURCES = ['pcbasic/basic/base/tokens.py', 'pcbasic/basic/converter/tokeniser.py',
           'pcbasic/basic/converter/lister.py', 'pcbasic/basic/base/codestream.py']
SYNTAXES = ('advanced', 'pcjr', 'tandy')


def _fresh_import(repo, name):
    """import `name` from `repo` (not from whatever pcbasic is already loaded)."""
    saved_path = list(sys.path)
    saved_mods = {k: v for k, v in sys.modules.items() if k == 'pcbasic' or k.startswith('pcbasic.')}
    for k in saved_mods:
        del sys.modules[k]
    sys.path.insert(0, repo)
    try:
        return importlib.import_module(name)
    finally:
        sys.path[:] = saved_path
        for k in [k for k in sys.modules if k == 'pcbasic' or k.startswith('pcbasic.')]:
            del sys.modules[k]
        sys.modules.update(saved_mods)


def zl(b):
    return '[' + ';'.join('%d' % x for x in bytearray(b)) + ']'


def zll(seq):
    return '[' + '; '.join(zl(b) for b in seq) + ']'


def pairs(items):
    return '[\n  ' + ';\n  '.join('(%s, %s)' % (zl(a), zl(b)) for a, b in items) + '\n]'


def _func(tree, cls, name):
    for n in tree.body:
        if isinstance(n, ast.ClassDef) and n.name == cls:
            for f in n.body:
                if isinstance(f, ast.FunctionDef) and f.name == name:
                    return f
    raise Refuse('%s.%s not found' % (cls, name))


def _memberships(func, left_name, ns):
    """values of the right-hand sides of `left_name in X` / `left_name not in X` inside func, in source order."""
    found = []
    for n in ast.walk(func):
        if (isinstance(n, ast.Compare) and len(n.ops) == 1 and isinstance(n.ops[0], (ast.In, ast.NotIn))
                and isinstance(n.left, ast.Name) and n.left.id == left_name):
            found.append(n)
    found.sort(key=lambda n: (n.lineno, n.col_offset))
    vals = []
    for n in found:
        code = compile(ast.Expression(n.comparators[0]), '<gen_tokens>', 'eval')
        try:
            vals.append(eval(code, dict(ns)))
        except Exception:
            vals.append(None)       # e.g. `word in self._keyword_to_token`: not a literal set
    return vals


def _all_bytes_tuple(v):
    return isinstance(v, tuple) and all(isinstance(x, bytes) for x in v)


def generate(repo):
    tk = _fresh_import(repo, 'pcbasic.basic.base.tokens')
    tokmod = _fresh_import(repo, 'pcbasic.basic.converter.tokeniser')
    cs = _fresh_import(repo, 'pcbasic.basic.base.codestream')
    tk2 = tokmod.tk          # the tokens module instance the tokeniser module was built with
    out = [HEADER]
    out.append('(* keyword <-> token dictionaries of TokenKeywordDict(syntax), in dict order *)')
    for syn in SYNTAXES:
        d = tk.TokenKeywordDict(syn)
        for k, v in list(d.to_keyword.items()) + list(d.to_token.items()):
            if not isinstance(k, bytes) or not isinstance(v, bytes):
                raise Refuse('non-bytes entry in TokenKeywordDict(%s)' % syn)
        out.append('Definition to_keyword_%s : list (list Z * list Z) := %s.' % (syn, pairs(d.to_keyword.items())))
        out.append('Definition to_token_%s : list (list Z * list Z) := %s.' % (syn, pairs(d.to_token.items())))
    out.append('Definition tk_syntaxes : list (list (list Z * list Z) * list (list Z * list Z)) :=\n  [%s].'
               % '; '.join('(to_keyword_%s, to_token_%s)' % (s, s) for s in SYNTAXES))
    # single constants
    names = ['T_UINT_PROC', 'T_UINT', 'T_OCT', 'T_HEX', 'T_BYTE', 'T_INT', 'T_SINGLE', 'T_DOUBLE', 'C_0', 'C_10',
             'REM', 'O_REM', 'PRINT', 'ELSE', 'WHILE', 'O_PLUS', 'TAB', 'SPC', 'USR', 'FN', 'DATA',
             'KW_REM', 'KW_O_REM', 'KW_DATA', 'KW_ELSE', 'KW_WHILE', 'KW_SPC', 'KW_TAB', 'KW_FN', 'KW_USR',
             'KW_GOTO', 'KW_GOSUB', 'KW_PRINT']
    for n in names:
        v = getattr(tk, n)
        if not isinstance(v, bytes):
            raise Refuse('tokens.%s is not bytes' % n)
        out.append('Definition tk_%s : list Z := %s.' % (n, zl(v)))
    for n in ['DIGITS', 'UPPERCASE', 'LOWERCASE', 'LETTERS', 'ALPHANUMERIC', 'HEXDIGITS', 'OCTDIGITS', 'NAME_CHARS']:
        out.append('Definition tk_%s : list Z := %s.' % (n, zl(getattr(tk, n))))
    for n in ['NUMBER', 'LINE_NUMBER', 'OPERATOR', 'COMMENT', 'END_LINE', 'DIGIT']:
        v = getattr(tk, n)
        if not _all_bytes_tuple(v):
            raise Refuse('tokens.%s is not a tuple of bytes' % n)
        out.append('Definition tk_%s : list (list Z) := %s.' % (n, zll(v)))
    pb = tk.PLUS_BYTES
    out.append('Definition tk_PLUS_BYTES : list (list Z * Z) := [%s].'
               % '; '.join('(%s, %d)' % (zl(k), v) for k, v in pb.items()))
    # tokeniser class attributes
    T = tokmod.Tokeniser
    if not _all_bytes_tuple(T._linenum_words):
        raise Refuse('Tokeniser._linenum_words')
    out.append('Definition tok_linenum_words : list (list Z) := %s.' % zll(T._linenum_words))
    out.append('Definition tok_ascii_operators : list Z := %s.' % zl(T._ascii_operators))
    out.append('Definition cs_blanks : list Z := %s.' % zl(cs.CodeStream.blanks))
    out.append('Definition cs_plain_end_line : list (list Z) := %s.' % zll(tokmod.PlainTextStream.end_line))
    # inline tuples of tokeniser._tokenise_word and lister._detokenise_keyword_into
    # `self` stands for the class, so that tuples hoisted into class attributes (self._xyz) still evaluate;
    # instance attributes (self._keyword_to_token) do not and are skipped
    listmod = _fresh_import(repo, 'pcbasic.basic.converter.lister')
    ns = {'tk': tk2, 'self': T}
    lns = {'tk': listmod.tk, 'self': listmod.Lister}
    ttree = ast.parse(open(os.path.join(repo, SOURCES[1])).read())
    wsets = _memberships(_func(ttree, 'Tokeniser', '_tokenise_word'), 'word', ns)
    # word in self._keyword_to_token  (not evaluable) is skipped by the evaluator -> handle explicitly
    out.append('Definition tok_no_longer_name : list (list Z) := %s.' % zll(_one_tuple(wsets, 'word not in (...)')))
    ltree = ast.parse(open(os.path.join(repo, SOURCES[2])).read())
    f = _func(ltree, 'Lister', '_detokenise_keyword_into')
    tsets = _memberships(f, 'token', lns)
    nsets = _memberships(f, 'next_char', lns)
    if len(tsets) != 2 or len(nsets) != 1 or not all(_all_bytes_tuple(v) for v in tsets + nsets):
        raise Refuse('lister._detokenise_keyword_into: unexpected membership tests (%d token, %d next_char)'
                     % (len(tsets), len(nsets)))
    out.append('Definition lst_no_space_before : list (list Z) := %s.' % zll(tsets[0]))
    out.append('Definition lst_no_space_after_token : list (list Z) := %s.' % zll(tsets[1]))
    out.append('Definition lst_no_space_after_next : list (list Z) := %s.' % zll(nsets[0]))
    return '\n'.join(out) + '\n'


def _one_tuple(vals, what):
    c = [v for v in vals if _all_bytes_tuple(v)]
    if len(c) != 1:
        raise Refuse('tokeniser._tokenise_word: expected exactly one evaluable `%s`, found %d' % (what, len(c)))
    return c[0]
