"""Gen_codepages.v: TABLE DUMPER for C41.

Imports the codepage loader of the repo under test in a fresh interpreter (PYTHONPATH=<repo>), builds a real
`Codepage` object for every shipped codepage (plus the built-in default), and prints the tables as they are
*after* `Codepage.__init__` as Coq literals over Z:

  rc_c2u1        the 256 single-byte entries of _cp_to_unicode (index = byte; -1 = see rc_c2u1n)
  rc_c2u1n       single-byte entries whose value is a cluster of several code points
  rc_u2c_multi   _unicode_to_cp restricted to the clusters that have more than one preimage (the winner);
                 for clusters with exactly one preimage _unicode_to_cp is CHECKED HERE to be the reverse of
                 _cp_to_unicode (fail closed), so  rc_c2u* + rc_u2c_multi  is a lossless encoding of it
  rc_lead/rc_trail, rc_box_left0/1, rc_box_right0/1, rc_subst, rc_invsubst, rc_clusters, rc_dbcs

The two-byte entries of the DBCS pages (~130 000) go to Gen_codepages_dbcs.v (target gen_codepages_dbcs).
Keys are `keycodes`: one byte b -> b ; two bytes l,t -> 65536 + 256*l + t.
The dumper refuses (py2v.Refuse) when a table has a shape the Coq model does not cover (keys of other lengths,
values that are not NFC-normal, sets with multi-byte members, ...).
"""
import json
import os
import subprocess
import sys

from py2v import Refuse

OUT = 'Gen_codepages.v'
SOURCES = ['pcbasic/basic/codepage.py', 'pcbasic/data/codepages/__init__.py', 'pcbasic/data/codepages/*.ucp']

PY = '/venv/bin/python'

_DUMP = r'''
import json, sys, unicodedata
from pcbasic.data.codepages import CODEPAGES, read_codepage
from pcbasic.basic.codepage import Codepage

def bad(msg):
    print(json.dumps({'refuse': msg}))
    sys.exit(0)

def kc(name, k):
    if not isinstance(k, bytes) or len(k) not in (1, 2):
        bad('%s: codepage key %r is not a 1- or 2-byte sequence' % (name, k))
    return k[0] if len(k) == 1 else 65536 + 256 * k[0] + k[1]

def b1(name, what, s):
    res = []
    for k in s:
        if not isinstance(k, bytes) or len(k) != 1:
            bad('%s: %s member %r is not a single byte' % (name, what, k))
        res.append(k[0])
    return sorted(res)

def ucs(name, v):
    if not isinstance(v, str) or len(v) == 0:
        bad('%s: unicode value %r is not a non-empty str' % (name, v))
    if unicodedata.normalize('NFC', v) != v:
        bad('%s: table value %r is not NFC-normal' % (name, v))
    return [ord(c) for c in v]

pages = []
names = sorted(CODEPAGES)
if len(set(names)) != len(names):
    bad('duplicate codepage names')
for name in ['default'] + names:
    cp = Codepage(None if name == 'default' else read_codepage(name))
    if cp.box_protect is not True:
        bad('default box_protect changed')
    c2u = cp._cp_to_unicode
    one = {}
    two = []
    for k, v in c2u.items():
        code = kc(name, k)
        if len(k) == 1:
            one[k[0]] = ucs(name, v)
        else:
            two.append([code, ucs(name, v)])
    if sorted(one) != list(range(256)):
        bad('%s: single-byte entries are not exactly 0..255' % name)
    # the inverse table
    pre = {}
    for k, v in c2u.items():
        pre.setdefault(v, []).append(k)
    u2c = cp._unicode_to_cp
    if set(u2c) != set(pre):
        bad('%s: _unicode_to_cp keys are not the values of _cp_to_unicode' % name)
    multi = []
    for v, ks in pre.items():
        if len(ks) == 1:
            if u2c[v] != ks[0]:
                bad('%s: _unicode_to_cp[%r] is not the unique preimage' % (name, v))
        else:
            multi.append([ucs(name, v), kc(name, u2c[v])])
    multi.sort()
    subst = sorted([kc(name, k), ucs(name, v)] for k, v in cp._substitutes.items())
    for k in cp._substitutes:
        if len(k) != 1:
            bad('%s: substitute key %r not single byte' % (name, k))
    invsubst = sorted([ucs(name, v), kc(name, k)] for v, k in cp._inverse_substitutes.items())
    clusters = [ucs(name, v) for v in cp._unicode_clusters]
    if len(cp._box_left) != 2 or len(cp._box_right) != 2:
        bad('%s: box sets changed shape' % name)
    pages.append({
        'name': name, 'dbcs': bool(cp.dbcs),
        'one': [one[b] for b in range(256)], 'two': sorted(two),
        'multi': multi, 'lead': b1(name, 'lead', cp.lead), 'trail': b1(name, 'trail', cp.trail),
        'bl0': b1(name, 'box_left', cp._box_left[0]), 'bl1': b1(name, 'box_left', cp._box_left[1]),
        'br0': b1(name, 'box_right', cp._box_right[0]), 'br1': b1(name, 'box_right', cp._box_right[1]),
        'subst': subst, 'invsubst': invsubst, 'clusters': clusters,
    })
    if bool(cp.dbcs) != (len(two) > 0):
        bad('%s: dbcs flag does not say whether there are two-byte entries' % name)
print(json.dumps({'pages': pages}))
'''


def load_tables(repo):
    env = dict(os.environ)
    env['PYTHONPATH'] = repo
    env['PYTHONHASHSEED'] = '0'
    env['PYTHONDONTWRITEBYTECODE'] = '1'
    p = subprocess.run([PY, '-c', _DUMP], env=env, stdout=subprocess.PIPE, stderr=subprocess.PIPE,
                       timeout=300, universal_newlines=True)
    if p.returncode != 0:
        raise Refuse('codepage dumper failed on %s:\n%s' % (repo, p.stderr[-2000:]))
    data = json.loads(p.stdout.strip().splitlines()[-1])
    if 'refuse' in data:
        raise Refuse(data['refuse'])
    return data['pages']


def zl(l):
    return '[' + ';'.join(str(x) for x in l) + ']'


def ident(name):
    return 'cp_' + ''.join(c if c.isalnum() else '_' for c in name)


GEN_HEADER = '''(* GENERATED by /verif/translate/targets/gen_codepages.py on every run from the real Codepage objects of
   /repo (tables as they are after Codepage.__init__) - do not edit *)
From Coq Require Import ZArith List Bool String.
Import ListNotations.
Open Scope Z_scope.
'''

RECORD = '''
(* keycode of a codepage point: one byte b -> b ; two bytes l,t -> 65536 + 256*l + t *)
Record raw_codepage := {
  rc_name : string;
  rc_dbcs : bool;                          (* Codepage.dbcs *)
  rc_c2u1 : list Z;                        (* _cp_to_unicode[bytes([i])] for i = 0..255; -1: see rc_c2u1n *)
  rc_c2u1n : list (Z * list Z);            (* single-byte entries whose value has several code points *)
  rc_u2c_multi : list (list Z * Z);        (* _unicode_to_cp on clusters with more than one preimage *)
  rc_lead : list Z;  rc_trail : list Z;    (* Codepage.lead / .trail *)
  rc_box_left0 : list Z;  rc_box_left1 : list Z;     (* Codepage._box_left[0], [1] *)
  rc_box_right0 : list Z;  rc_box_right1 : list Z;   (* Codepage._box_right[0], [1] *)
  rc_subst : list (Z * list Z);            (* _substitutes *)
  rc_invsubst : list (list Z * Z);         (* _inverse_substitutes *)
  rc_clusters : list (list Z)              (* _unicode_clusters, in matching order *)
}.
'''


def pairs_zl(ps):
    """[(Z, list Z)]"""
    return '[' + ';'.join('(%d,%s)' % (k, zl(v)) for k, v in ps) + ']'


def pairs_lz(ps):
    """[(list Z, Z)]"""
    return '[' + ';'.join('(%s,%d)' % (zl(v), k) for v, k in ps) + ']'


def generate(repo):
    pages = load_tables(repo)
    out = [GEN_HEADER, RECORD]
    for p in pages:
        one = [(v[0] if len(v) == 1 else -1) for v in p['one']]
        onen = [(b, v) for b, v in enumerate(p['one']) if len(v) != 1]
        out.append('Definition %s : raw_codepage := {|\n  rc_name := "%s"%%string; rc_dbcs := %s;\n'
                   '  rc_c2u1 := %s;\n  rc_c2u1n := %s;\n  rc_u2c_multi := %s;\n'
                   '  rc_lead := %s;\n  rc_trail := %s;\n'
                   '  rc_box_left0 := %s; rc_box_left1 := %s; rc_box_right0 := %s; rc_box_right1 := %s;\n'
                   '  rc_subst := %s; rc_invsubst := %s;\n  rc_clusters := %s |}.\n' % (
                       ident(p['name']), p['name'], 'true' if p['dbcs'] else 'false',
                       zl(one), pairs_zl(onen), pairs_lz(p['multi']), zl(p['lead']), zl(p['trail']),
                       zl(p['bl0']), zl(p['bl1']), zl(p['br0']), zl(p['br1']),
                       pairs_zl(p['subst']), pairs_lz(p['invsubst']),
                       '[' + ';'.join(zl(c) for c in p['clusters']) + ']'))
    out.append('(* every shipped codepage (pcbasic.data.codepages.CODEPAGES) and the built-in default *)')
    out.append('Definition raw_codepages : list raw_codepage :=\n  [%s].\n' % '; '.join(ident(p['name']) for p in pages))
    out.append('Definition n_codepages : Z := %d.\n' % len(pages))
    return '\n'.join(out)
