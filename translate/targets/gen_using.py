"""Gen_using.v: constants and pure integer arithmetic of PRINT USING (C08).

Regenerated from /repo on every run:
  * error numbers IFC / TYPE_MISMATCH (base/error.py),
  * the digit-position limit of NumberField.format (`digits_before + decimals > 24`), read from the AST,
  * translated by py2v (statement selections of the methods, free names become parameters):
      NumberField.format        : the digit position given up for the sign in ^^^^ fields
      Float.to_str_scientific   : work_digits, the renormalisation after a rounding carry, radix_position
      Float.to_str_fixed        : n_work and the rounding of values below one unit of the last decimal
      Float._scientific_notation: the exponent shown
  * table dumper: the limit byte strings of Float.to_decimal(k), k < digits (see limit_tables).
The translator refuses when one of these statements disappears or leaves the pure integer subset.
"""
import ast
import os
from py2v import Module, Translator, HEADER, read_errors, Refuse, zlit

OUT = 'Gen_using.v'
SOURCES = ['pcbasic/basic/devices/formatter.py', 'pcbasic/basic/values/numbers.py', 'pcbasic/basic/base/error.py']


class UsingTranslator(Translator):
    """py2v plus: 10**x for a variable exponent (Z.pow), int(bool), self.digits as a parameter."""

    def hook_expr(self, node, env):
        if isinstance(node, ast.BinOp) and isinstance(node.op, ast.Pow) \
                and isinstance(node.left, ast.Constant) and node.left.value == 10:
            e = self.as_Z(self.expr(node.right, env))
            return '(10 ^ %s)' % e, 'Z'
        return None

    def hook_call(self, node, env):
        if isinstance(node.func, ast.Name) and node.func.id == 'int' and len(node.args) == 1 and not node.keywords:
            t = self.expr(node.args[0], env)
            if t[1] == 'bool':
                return '(b2z %s)' % t[0], 'Z'
            if t[1] == 'Z':
                return t
        return None


def digit_limit(m):
    fn = m.find('NumberField.format')
    if not isinstance(fn, ast.FunctionDef):
        raise Refuse('NumberField.format is not a function')
    found = []
    for n in ast.walk(fn):
        if isinstance(n, ast.If) and isinstance(n.test, ast.Compare) and len(n.test.ops) == 1 \
                and isinstance(n.test.ops[0], ast.Gt) and isinstance(n.test.left, ast.BinOp) \
                and isinstance(n.test.left.op, ast.Add) \
                and ast.unparse(n.test.left) == 'digits_before + decimals' \
                and isinstance(n.test.comparators[0], ast.Constant) \
                and isinstance(n.test.comparators[0].value, int) \
                and len(n.body) == 1 and isinstance(n.body[0], ast.Raise) \
                and ast.unparse(n.body[0]) == 'raise error.BASICError(error.IFC)':
            found.append(n.test.comparators[0].value)
    if len(found) != 1:
        raise Refuse('NumberField.format: expected exactly one `if digits_before + decimals > N: raise IFC`, found %d'
                     % len(found))
    return found[0]


def limit_tables(repo):
    """Table dumper: the (lim_bot, lim_top) byte strings Float.to_decimal(k) builds for k = 0 .. digits-1
    (`from_int(10**(k-1))._just_under()`, `from_int(10**k)._just_under()`; k <= 0: 0 and just under 1),
    computed by the repository's own from_int/_just_under.  The AST of to_decimal is checked to still have
    that three-way branch."""
    import importlib
    import sys
    m = Module(os.path.join(repo, SOURCES[1]))
    fn = m.find('Float.to_decimal')
    src = ast.unparse(fn)
    for needle in ('if digits >= self.digits:', 'elif digits > 0:',
                   'lim_bot = self.new().from_int(10 ** (digits - 1))._just_under()',
                   'lim_top = self.new().from_int(10 ** digits)._just_under()',
                   'lim_bot = self.new().from_int(0)', 'lim_top = self.new().from_int(1)._just_under()',
                   'lim_bot = self.new().from_bytes(self._lim_bot)', 'lim_top = self.new().from_bytes(self._lim_top)'):
        if needle not in src:
            raise Refuse('Float.to_decimal: limit selection changed (%r not found)' % needle)
    saved = {k: v for k, v in sys.modules.items() if k == 'pcbasic' or k.startswith('pcbasic.')}
    for k in saved:
        del sys.modules[k]
    sys.path.insert(0, repo)
    try:
        numbers = importlib.import_module('pcbasic.basic.values.numbers')

        class V(object):
            error_handler = None
        out = []
        for cls, nm in ((numbers.Single, 'single'), (numbers.Double, 'double')):
            x = cls(None, V())
            rows = []
            for k in range(0, cls.digits):
                if k > 0:
                    lb = x.new().from_int(10 ** (k - 1))._just_under()
                    lt = x.new().from_int(10 ** k)._just_under()
                else:
                    lb = x.new().from_int(0)
                    lt = x.new().from_int(1)._just_under()
                rows.append('(%s, %s)' % (coq_bytes(lb.to_bytes()), coq_bytes(lt.to_bytes())))
            out.append('Definition using_limits_%s : list (list Z * list Z) :=\n  [%s].' % (nm, ';\n   '.join(rows)))
        return out
    finally:
        sys.path.remove(repo)
        for k in [k for k in sys.modules if k == 'pcbasic' or k.startswith('pcbasic.')]:
            del sys.modules[k]
        sys.modules.update(saved)


def coq_bytes(b):
    return '[' + '; '.join(str(x) for x in bytearray(b)) + ']'


def generate(repo):
    mf = Module(os.path.join(repo, SOURCES[0]))
    mn = Module(os.path.join(repo, SOURCES[1]))
    errs = read_errors(repo)
    out = []
    for name in ('IFC', 'TYPE_MISMATCH'):
        if name not in errs:
            raise Refuse('error.%s not found' % name)
        out.append('Definition using_%s : Z := %s.' % (name, zlit(errs[name])))
    out.append('Definition using_max_digits : Z := %s.' % zlit(digit_limit(mf)))
    # precision of the two float types
    for cls, nm in (('Single', 'single'), ('Double', 'double')):
        out.append('Definition using_digits_%s : Z := %s.' % (nm, zlit(mn.const_value('%s.digits' % cls))))

    out += limit_tables(repo)

    tf = UsingTranslator(mf, prefix='using_')
    tf.function('NumberField.format', coqname='using_sci_before',
                param_types={'has_dollar': 'bool', 'digits_before': 'Z'},
                stmts=(r'^if not has_dollar:', r'^if not has_dollar:'), ret=['digits_before'])
    out += tf.out

    tn = UsingTranslator(mn, prefix='using_')
    tn.function('Float.to_str_scientific', coqname='using_work_digits',
                param_types={'digits_precision': 'Z', 'digits_requested': 'Z'},
                stmts=(r'^work_digits = ', r'^work_digits = '), ret=['work_digits'])
    tn.function('Float.to_str_scientific', coqname='using_sci_carry',
                param_types={'work_digits': 'Z', 'mantissa': 'Z', 'exponent': 'Z'},
                stmts=(r'^if work_digits > 0 and ', r'^radix_position = '), ret=['mantissa', 'radix_position'])
    tn.function('Float.to_str_fixed', coqname='using_n_work',
                param_types={'self.digits': 'Z', 'n_after': 'Z', 'n_decimals': 'Z'},
                stmts=(r'^n_work = ', r'^n_work = '), ret=['n_work'])
    tn.function('Float.to_str_fixed', coqname='using_round_small',
                param_types={'self.digits': 'Z', 'n_work': 'Z', 'mantissa': 'Z', 'n_decimals': 'Z'},
                stmts=(r'^round_up = ', r'^mantissa, exp10 = int\(round_up\)'), ret=['mantissa', 'exp10'])
    tn.function('Float._scientific_notation', coqname='using_sci_exponent',
                param_types={'exp10': 'Z', 'digits_to_dot': 'Z'},
                stmts=(r'^exponent = ', r'^exponent = '), ret=['exponent'])
    out += tn.out
    return HEADER + '\n'.join(out) + '\n'
