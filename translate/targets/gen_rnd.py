"""Gen_rnd.v: constants and integer arithmetic of values/randomiser.py (C39).

Regenerated from the current source on every run:
  rnd_step / rnd_period / rnd_multiplier / rnd_increment   class constants of Randomiser
  rnd_clear   s        = the seed after clear()            (state method, assigns self._seed)
  rnd_cycle   s        = the seed after _cycle()           (state method)
  rnd_reseed_tail s n  = the seed after the arithmetic tail of reseed(), from `self._seed &= 0xff`
                         to `self._seed %= self._period`, n being the signed 16-bit number derived from
                         the argument bytes (that derivation and rnd_ handle objects: hand model + tie)
"""
import os
from py2v import Module, Translator, HEADER, Refuse

OUT = 'Gen_rnd.v'
SOURCES = ['pcbasic/basic/values/randomiser.py']


def generate(repo):
    m = Module(os.path.join(repo, SOURCES[0]))
    try:
        return _generate(m, 'method')
    except Refuse as first:
        # the same arithmetic written with a pure helper `_cycle(seed) -> next seed` and a one-line reseed
        try:
            return _generate(m, 'pure')
        except Refuse:
            raise first


def _generate(m, shape):
    t = Translator(m, prefix='rnd_')
    for name in ('_step', '_period', '_multiplier', '_increment'):
        coqname = t.add_const('self.' + name, m.const_value('Randomiser.' + name), coqname='rnd_' + name[1:])
        t.consts['Randomiser.' + name] = t.consts['self.' + name]
    t.function('Randomiser.clear', coqname='rnd_clear', state=['self._seed'])
    if shape == 'method':
        t.function('Randomiser._cycle', coqname='rnd_cycle', state=['self._seed'])
        t.function('Randomiser.reseed', coqname='rnd_reseed_tail', state=['self._seed'],
                   param_types={'n': 'Z'},
                   stmts=(r'^self\._seed &= 0xff', r'^self\._seed %= self\._period'))
    else:
        t.function('Randomiser._cycle', coqname='rnd_cycle', param_types={'seed': 'Z'})
        sel = r'^self\._seed = \(self\._cycle\(self\._seed & 0xff\)'
        t.function('Randomiser.reseed', coqname='rnd_reseed_tail', state=['self._seed'],
                   param_types={'n': 'Z'}, stmts=(sel, sel))
    return HEADER + '\n'.join(t.out) + '\n'
