"""Gen_guard.v: the PROTECTION GUARD TABLE of pcbasic (C16).

For every method that reads program bytes, writes program bytes or touches the `protected` flag this
extractor records, from the Python AST of /repo's current source,

  g_<method> : gkind   the guard `if <protected-expr>: raise error.BASICError(error.IFC)` found among the
                       TOP-LEVEL statements of the method body, classified by its exact condition:
                         GNone        no mention of `.protected` anywhere in the method
                         GProt        <p>.protected
                         GProtNotRun  <p>.protected and not self.interpreter.run_mode
                         GProtNotP    <p>.protected and mode != b'P'      (mode = g.filetype assigned before)
                         GProtMerge   <p>.protected and merge             (merge = next(args) first argument)
  the flag writers    every assignment to an attribute called `protected` in pcbasic/basic/**.py must be one
                       of the three known sites (Program.erase, Program.load [P branch], DataSegment.
                       _set_basic_memory) with a recognised right-hand side; anything else REFUSES
  call structure       which program primitive each statement callback reaches (list_ -> list_lines, ...),
                       exactly the expected set of primitive names per callback, else REFUSE
  reader census        all call sites of the text-reading primitives, emitted as a list of strings which
                       props/C16.v compares with the audited list

Fail-closed rules for a guard: it must be a top-level `if` without `else`; its body is `raise
error.BASICError(error.IFC)` optionally preceded by `console.write(b'%d\\r' % (<parameter>,))` (EDIT echoes
the number the user typed); every statement in front of it must be an assignment / `list(args)` / an `if`
that only raises, and must not mention any name through which program bytes or an output channel can be
reached (SENSITIVE).  `.protected` must not occur anywhere else in the method.
"""
import ast
import os
from py2v import Module, HEADER, Refuse, refuse, read_errors

OUT = 'Gen_guard.v'

P_PROGRAM = 'pcbasic/basic/program.py'
P_MACHINE = 'pcbasic/basic/machine.py'
P_IMPL = 'pcbasic/basic/implementation.py'
P_INTERP = 'pcbasic/basic/interpreter.py'
P_MEMORY = 'pcbasic/basic/memory/memory.py'
P_STRINGS = 'pcbasic/basic/values/strings.py'
SOURCES = [P_PROGRAM, P_MACHINE, P_IMPL, P_INTERP, P_MEMORY, P_STRINGS]

# (file, class, method, coq name)
GUARDED = [
    (P_PROGRAM, 'Program', 'list_lines', 'g_list_lines'),
    (P_PROGRAM, 'Program', 'edit', 'g_edit'),
    (P_PROGRAM, 'Program', 'save', 'g_save'),
    (P_PROGRAM, 'Program', 'store_line', 'g_store_line'),
    (P_PROGRAM, 'Program', 'merge', 'g_merge'),
    (P_PROGRAM, 'Program', 'delete', 'g_delete'),
    (P_PROGRAM, 'Program', 'renum', 'g_renum'),
    (P_PROGRAM, 'Program', 'get_memory', 'g_get_memory'),
    (P_PROGRAM, 'Program', 'get_memory_block', 'g_get_memory_block'),
    (P_PROGRAM, 'Program', 'set_memory', 'g_set_memory'),
    (P_MACHINE, 'Memory', 'peek_', 'g_peek'),
    (P_MACHINE, 'Memory', 'poke_', 'g_poke'),
    (P_MACHINE, 'Memory', 'bload_', 'g_bload'),
    (P_MACHINE, 'Memory', 'bsave_', 'g_bsave'),
    (P_IMPL, 'Implementation', 'chain_', 'g_chain'),
    (P_IMPL, 'Implementation', 'list_', 'g_cb_list'),
    (P_IMPL, 'Implementation', 'edit_', 'g_cb_edit'),
    (P_IMPL, 'Implementation', 'save_', 'g_cb_save'),
    (P_IMPL, 'Implementation', 'merge_', 'g_cb_merge'),
    (P_IMPL, 'Implementation', 'delete_', 'g_cb_delete'),
    (P_IMPL, 'Implementation', '_show_prompt', 'g_cb_show_prompt'),
    (P_IMPL, 'Implementation', '_store_line', 'g_cb_store_line'),
    (P_IMPL, 'Implementation', '_auto_step', 'g_cb_auto_step'),
    (P_INTERP, 'Interpreter', 'llist_', 'g_cb_llist'),
    (P_INTERP, 'Interpreter', 'renum_', 'g_cb_renum'),
    (P_INTERP, 'Interpreter', 'read_', 'g_read'),
]

# names through which program bytes or an output channel can be reached; none may occur before a guard
SENSITIVE = {
    'bytecode', '_program_code', 'lister', 'detokenise_line', 'console', '_console', 'files',
    '_files', 'open', 'write', 'write_line', 'list_line', 'read', 'getvalue', '_get_memory',
    '_get_memory_block', '_set_memory', '_set_memory_block', 'get_memory', 'get_memory_block', 'set_memory',
    'list_lines', 'edit', 'save', 'merge', 'load', 'store_line', 'delete', 'renum', 'erase', 'protect',
    'unprotect', 'queues', 'lpt1_file', 'memory', 'rebuild_line_dict', 'truncate',
}

# primitive names per callback: the callback must mention exactly these (of PRIMS) - the call structure
PRIMS = {'list_lines', 'edit', 'save', 'merge', 'load', 'store_line', 'delete', 'renum', 'erase',
         'bytecode', '_program_code', '_get_memory', '_get_memory_block', '_set_memory', '_set_memory_block',
         'get_memory', 'get_memory_block', 'set_memory', 'detokenise_line', 'protect', 'unprotect', 'lister'}
CALLS = [
    (P_IMPL, 'Implementation', 'list_', {'list_lines'}),
    (P_IMPL, 'Implementation', 'edit_', set()),                 # only requests the prompt
    (P_IMPL, 'Implementation', '_show_prompt', {'edit'}),
    (P_IMPL, 'Implementation', 'save_', {'save', 'bytecode'}),   # bytecode: len() for the cassette header
    (P_IMPL, 'Implementation', 'merge_', {'merge'}),
    (P_IMPL, 'Implementation', 'delete_', {'delete'}),
    (P_IMPL, 'Implementation', 'load_', {'load'}),
    (P_IMPL, 'Implementation', 'new_', {'erase'}),
    (P_IMPL, 'Implementation', 'run_', {'load'}),
    (P_IMPL, 'Implementation', 'chain_', {'load', 'merge', 'delete'}),
    (P_IMPL, 'Implementation', '_store_line', {'store_line'}),
    (P_IMPL, 'Implementation', '_auto_step', {'store_line'}),
    (P_INTERP, 'Interpreter', 'llist_', {'list_lines'}),
    (P_INTERP, 'Interpreter', 'renum_', {'renum'}),
    (P_INTERP, 'Interpreter', 'read_', {'_program_code'}),
    (P_MACHINE, 'Memory', 'peek_', {'_get_memory'}),
    (P_MACHINE, 'Memory', 'poke_', {'_set_memory'}),
    (P_MACHINE, 'Memory', 'bload_', {'_set_memory_block'}),
    (P_MACHINE, 'Memory', 'bsave_', {'_get_memory_block'}),
    (P_PROGRAM, 'Program', 'merge', {'store_line'}),
    (P_PROGRAM, 'Program', 'list_lines', {'bytecode', 'lister', 'detokenise_line'}),
    (P_PROGRAM, 'Program', 'edit', {'bytecode', 'lister', 'detokenise_line'}),
    (P_PROGRAM, 'Program', 'save', {'bytecode', 'lister', 'detokenise_line', 'protect'}),
]

# call sites of these attribute names anywhere under pcbasic/basic are listed in the census
CENSUS = ['list_lines', 'detokenise_line', 'get_memory_block', '_get_memory_block', '_get_memory', 'protect']


def names_in(node):
    out = set()
    for n in ast.walk(node):
        if isinstance(n, ast.Attribute):
            out.add(n.attr)
        elif isinstance(n, ast.Name):
            out.add(n.id)
    return out


def mentions_protected(node):
    return any(isinstance(n, ast.Attribute) and n.attr == 'protected' for n in ast.walk(node))


def is_protected_expr(e):
    """self.protected | self.program.protected | self._memory.program.protected"""
    return isinstance(e, ast.Attribute) and e.attr == 'protected' and ast.unparse(e) in (
        'self.protected', 'self.program.protected', 'self._memory.program.protected', 'self._program.protected')


def is_raise_ifc(s):
    return (isinstance(s, ast.Raise) and s.cause is None and isinstance(s.exc, ast.Call)
            and ast.unparse(s.exc) == 'error.BASICError(error.IFC)')


def body_stmts(fn):
    body = list(fn.body)
    if body and isinstance(body[0], ast.Expr) and isinstance(body[0].value, ast.Constant) \
            and isinstance(body[0].value.value, str):
        body = body[1:]
    return body


def params_of(fn):
    return [a.arg for a in fn.args.args]


def attrs_in(node):
    return set(n.attr for n in ast.walk(node) if isinstance(n, ast.Attribute))


def harmless_prefix(s):
    """statement allowed in front of a guard"""
    if attrs_in(s) & SENSITIVE:
        return False
    if set(n.id for n in ast.walk(s) if isinstance(n, ast.Name)) & {'console', 'open', 'print'}:
        return False
    if isinstance(s, ast.Assign):
        return True
    if isinstance(s, ast.Expr) and ast.unparse(s) == 'list(args)':
        return True
    if isinstance(s, ast.If):
        return all(isinstance(b, ast.Raise) or harmless_prefix(b) for b in s.body + s.orelse)
    return False


def assigned_before(body, idx, target_src, value_src):
    for s in body[:idx]:
        if isinstance(s, ast.Assign) and len(s.targets) == 1 and ast.unparse(s.targets[0]) == target_src \
                and ast.unparse(s.value) == value_src:
            return True
    return False


# callbacks in which the guard may sit inside the branch that reaches the primitive (line entry): the guard
# must then dominate every use of the primitive
NESTED_TARGET = {'_store_line': 'store_line', '_auto_step': 'store_line'}


def nested_guard(fn, target):
    """Find `if <protected>: raise` nested under if/try blocks; return (block, index) of the guard after checking
    that everything executed before it is harmless and that every use of `target` comes after it in its block."""
    def search(stmts, before):
        for i, st_ in enumerate(stmts):
            if isinstance(st_, ast.If) and mentions_protected(st_.test):
                return stmts, i, before + stmts[:i]
            if not mentions_protected(st_):
                continue
            if isinstance(st_, ast.If):
                if attrs_in(st_.test) & SENSITIVE:
                    refuse(st_, '%s: sensitive test above the guard' % fn.name)
                for blk in (st_.body, st_.orelse):
                    if any(mentions_protected(x) for x in blk):
                        return search(blk, before + stmts[:i])
            elif isinstance(st_, ast.Try):
                if any(mentions_protected(x) for x in st_.body):
                    return search(st_.body, before + stmts[:i])
            refuse(st_, '%s: .protected in an unsupported position' % fn.name)
        refuse(fn, '%s: guard not found' % fn.name)
    block, i, before = search(body_stmts(fn), [])
    for st_ in before:
        ok = harmless_prefix(st_) or (isinstance(st_, ast.If) and not (attrs_in(st_) & SENSITIVE)
                                      and all(isinstance(b, (ast.Return, ast.Raise)) for b in st_.body + st_.orelse))
        if not ok:
            refuse(st_, '%s: statement before the nested guard is not harmless: %s' % (fn.name, ast.unparse(st_)[:80]))
    uses = sum(1 for n in ast.walk(fn) if isinstance(n, ast.Attribute) and n.attr == target)
    after = sum(1 for st_ in block[i + 1:] for n in ast.walk(st_) if isinstance(n, ast.Attribute) and n.attr == target)
    if uses == 0 or uses != after:
        refuse(fn, '%s: the nested guard does not dominate every use of %s' % (fn.name, target))
    return block, i


def classify(fn):
    """-> (kind, echo)"""
    body = body_stmts(fn)
    idx = [i for i, s in enumerate(body) if isinstance(s, ast.If) and mentions_protected(s.test)]
    total = sum(1 for n in ast.walk(fn) if isinstance(n, ast.Attribute) and n.attr == 'protected')
    if not idx and total == 1 and fn.name in NESTED_TARGET:
        body, i0 = nested_guard(fn, NESTED_TARGET[fn.name])
        body = [body[i0]]          # checked above: treat the guard as the first statement of its block
        idx = [0]
    if not idx:
        if total:
            refuse(fn, '%s mentions .protected outside a top-level guard' % fn.name)
        return 'GNone', False
    if len(idx) > 1 or total != 1:
        refuse(fn, '%s: more than one use of .protected' % fn.name)
    i = idx[0]
    g = body[i]
    if g.orelse:
        refuse(g, '%s: guard has an else branch' % fn.name)
    for s in body[:i]:
        if not harmless_prefix(s):
            refuse(s, '%s: statement before the guard is not harmless: %s' % (fn.name, ast.unparse(s)[:80]))
    # guard body
    echo = False
    gb = list(g.body)
    if len(gb) == 2:
        e = gb[0]
        ok = (isinstance(e, ast.Expr) and isinstance(e.value, ast.Call)
              and ast.unparse(e.value.func) == 'console.write' and len(e.value.args) == 1
              and not e.value.keywords and isinstance(e.value.args[0], ast.BinOp)
              and isinstance(e.value.args[0].op, ast.Mod)
              and isinstance(e.value.args[0].left, ast.Constant) and e.value.args[0].left.value == b'%d\r'
              and isinstance(e.value.args[0].right, ast.Tuple) and len(e.value.args[0].right.elts) == 1
              and isinstance(e.value.args[0].right.elts[0], ast.Name)
              and e.value.args[0].right.elts[0].id in params_of(fn))
        if not ok:
            refuse(e, '%s: unexpected statement inside the guard: %s' % (fn.name, ast.unparse(e)[:80]))
        echo = True
        gb = gb[1:]
    if len(gb) != 1 or not is_raise_ifc(gb[0]):
        refuse(g, '%s: guard body is not `raise error.BASICError(error.IFC)`' % fn.name)
    t = g.test
    if is_protected_expr(t):
        return 'GProt', echo
    if isinstance(t, ast.BoolOp) and isinstance(t.op, ast.And) and len(t.values) == 2 and is_protected_expr(t.values[0]):
        c = t.values[1]
        if isinstance(c, ast.UnaryOp) and isinstance(c.op, ast.Not) and ast.unparse(c.operand) in ('self.interpreter.run_mode', 'self.run_mode'):
            return 'GProtNotRun', echo
        if (isinstance(c, ast.Compare) and len(c.ops) == 1 and isinstance(c.ops[0], ast.NotEq)
                and ast.unparse(c.left) == 'mode' and isinstance(c.comparators[0], ast.Constant)
                and c.comparators[0].value == b'P'):
            if not assigned_before(body, i, 'mode', 'g.filetype') or params_of(fn) != ['self', 'g']:
                refuse(g, '%s: `mode` is not g.filetype' % fn.name)
            return 'GProtNotP', echo
        if isinstance(c, ast.Name) and c.id == 'merge':
            first = body[0]
            if not (isinstance(first, ast.Assign) and ast.unparse(first) == 'merge = next(args)'):
                refuse(g, '%s: `merge` is not the first parsed argument' % fn.name)
            return 'GProtMerge', echo
    refuse(g, '%s: unrecognised guard condition %s' % (fn.name, ast.unparse(t)))


def func_sites(tree):
    """yield (qualname, FunctionDef) for all functions, methods qualified by class"""
    for n in tree.body:
        if isinstance(n, ast.FunctionDef):
            yield n.name, n
        elif isinstance(n, ast.ClassDef):
            for m in n.body:
                if isinstance(m, ast.FunctionDef):
                    yield '%s.%s' % (n.name, m.name), m


def cstr(s):
    if '"' in s or '\n' in s:
        raise Refuse('string not representable: %r' % s)
    return '"%s"%%string' % s


def writers(repo):
    """Every store to an attribute named `protected` / `allow_protect` under pcbasic/basic."""
    res = {}
    allow_sites = []
    base = os.path.join(repo, 'pcbasic', 'basic')
    for root, _, files in sorted(os.walk(base)):
        for f in sorted(files):
            if not f.endswith('.py'):
                continue
            path = os.path.join(root, f)
            rel = os.path.relpath(path, repo)
            tree = ast.parse(open(path).read(), path)
            owned = set()
            for q, fn in func_sites(tree):
                for n in ast.walk(fn):
                    tg = []
                    if isinstance(n, ast.Assign):
                        tg = n.targets
                    elif isinstance(n, (ast.AugAssign, ast.AnnAssign)):
                        tg = [n.target]
                    elif isinstance(n, (ast.Delete,)):
                        tg = n.targets
                    elif isinstance(n, ast.Call) and ast.unparse(n.func) in ('setattr', 'delattr'):
                        if any(isinstance(a, ast.Constant) and a.value in ('protected', 'allow_protect')
                               for a in n.args) or len(n.args) < 2 or not isinstance(n.args[1], ast.Constant):
                            if rel in SOURCES:
                                refuse(n, 'setattr in %s:%s' % (rel, q))
                    for t in tg:
                        for sub in ast.walk(t):
                            if isinstance(sub, ast.Attribute) and sub.attr == 'protected':
                                owned.add(id(sub))
                                res.setdefault('%s:%s' % (rel, q), []).append((fn, n))
                            if isinstance(sub, ast.Attribute) and sub.attr == 'allow_protect':
                                allow_sites.append('%s:%s' % (rel, q))
            # stores outside functions/methods (module or class level) are not expected at all
            for n in ast.walk(tree):
                if isinstance(n, ast.Attribute) and n.attr == 'protected' and isinstance(n.ctx, (ast.Store, ast.Del)) \
                        and id(n) not in owned:
                    raise Refuse('%s: store to .protected outside a method (line %d)' % (rel, n.lineno))
    return res, allow_sites


def writer_table(repo):
    res, allow_sites = writers(repo)
    exp = {P_PROGRAM + ':Program.erase', P_PROGRAM + ':Program.load', P_MEMORY + ':DataSegment._set_basic_memory'}
    if set(res) != exp:
        raise Refuse('writers of .protected are %s, expected %s' % (sorted(res), sorted(exp)))
    if allow_sites != [P_PROGRAM + ':Program.__init__']:
        raise Refuse('writers of .allow_protect are %s' % allow_sites)
    out = {}
    # erase: self.protected = False, unconditionally at top level
    (fn, n), = res[P_PROGRAM + ':Program.erase']
    if n not in fn.body or ast.unparse(n) != 'self.protected = False':
        refuse(n, 'Program.erase: unexpected flag write %s' % ast.unparse(n))
    out['w_erase'] = 'WFalse'
    # load: first statement self.erase(); in the branch `elif g.filetype == b'P'`: self.protected = self.allow_protect
    (fn, n), = res[P_PROGRAM + ':Program.load']
    body = body_stmts(fn)
    if ast.unparse(body[0]) != 'self.erase()':
        refuse(fn, 'Program.load does not start with self.erase()')
    if ast.unparse(n) != 'self.protected = self.allow_protect':
        refuse(n, 'Program.load: unexpected flag write %s' % ast.unparse(n))
    found = False
    node = body[1]
    while isinstance(node, ast.If):
        if n in node.body:
            if ast.unparse(node.test) != "g.filetype == b'P'":
                refuse(node, 'Program.load: flag write under %s' % ast.unparse(node.test))
            found = True
            break
        node = node.orelse[0] if len(node.orelse) == 1 else None
    if not found:
        refuse(n, 'Program.load: flag write is not in the P branch of the file type chain')
    out['w_load_P'] = 'WAllow'
    # _set_basic_memory: if addr == self.protection_flag_addr and self.program.allow_protect: ... = (val != 0)
    (fn, n), = res[P_MEMORY + ':DataSegment._set_basic_memory']
    body = body_stmts(fn)
    if not (len(body) == 1 and isinstance(body[0], ast.If) and not body[0].orelse and body[0].body == [n]):
        refuse(fn, 'DataSegment._set_basic_memory: unexpected shape')
    test = ast.unparse(body[0].test)
    if test == 'addr == self.protection_flag_addr and self.program.allow_protect':
        out['poke_needs_allow'] = 'true'
    elif test == 'addr == self.protection_flag_addr':
        out['poke_needs_allow'] = 'false'
    else:
        refuse(fn, 'DataSegment._set_basic_memory: condition %s' % test)
    if ast.unparse(n) != 'self.program.protected = val != 0':
        refuse(n, 'DataSegment._set_basic_memory: value %s' % ast.unparse(n))
    out['w_poke'] = 'WValNonzero'
    return out, sorted(res)


def census(repo):
    sites = []
    base = os.path.join(repo, 'pcbasic', 'basic')
    for root, _, files in sorted(os.walk(base)):
        for f in sorted(files):
            if not f.endswith('.py'):
                continue
            path = os.path.join(root, f)
            rel = os.path.relpath(path, os.path.join(repo, 'pcbasic', 'basic'))
            tree = ast.parse(open(path).read(), path)
            for q, fn in func_sites(tree):
                for n in ast.walk(fn):
                    if isinstance(n, ast.Call) and isinstance(n.func, ast.Attribute) and n.func.attr in CENSUS:
                        if n.func.attr == 'protect' and ast.unparse(n.func) != 'converter.protect':
                            continue
                        s = '%s %s:%s' % (n.func.attr, rel, q)
                        if s not in sites:
                            sites.append(s)
    return sorted(sites)


def generate(repo):
    errors = read_errors(repo)
    mods = {}
    for p in SOURCES:
        mods[p] = Module(os.path.join(repo, p))
    out = [HEADER, 'From Coq Require Import String.',
           '(* guard kinds: see translate/targets/gen_guard.py *)',
           'Inductive gkind := GNone | GProt | GProtNotRun | GProtNotP | GProtMerge.',
           'Inductive wkind := WFalse | WTrue | WAllow | WValNonzero.',
           'Definition guard_err : Z := %d.   (* error.IFC *)' % errors['IFC'], '']
    echo_of = {}
    for path, cls, meth, coq in GUARDED:
        fn = mods[path].find('%s.%s' % (cls, meth))
        if not isinstance(fn, ast.FunctionDef):
            raise Refuse('%s.%s is not a method' % (cls, meth))
        kind, echo = classify(fn)
        echo_of[coq] = echo
        out.append('Definition %s : gkind := %s.   (* %s %s.%s *)' % (coq, kind, path, cls, meth))
    for coq, echo in echo_of.items():
        if echo and coq != 'g_edit':
            raise Refuse('%s: echo in a guard other than edit' % coq)
    out.append('Definition g_edit_echo : bool := %s.   (* the guard of edit() first echoes the typed line number *)'
               % ('true' if echo_of['g_edit'] else 'false'))
    # memory routing guards live in the callers (peek_ etc.); the program accessors themselves must be GNone or
    # a recognised kind - nothing else to do.  Flag readers: _get_basic_memory returns protected * 254
    fn = mods[P_MEMORY].find('DataSegment._get_basic_memory')
    reads = [n for n in ast.walk(fn) if isinstance(n, ast.Attribute) and n.attr == 'protected']
    if len(reads) != 1:
        raise Refuse('DataSegment._get_basic_memory: %d uses of .protected' % len(reads))
    ret = [n for n in ast.walk(fn) if isinstance(n, ast.Return) and n.value is not None and mentions_protected(n.value)]
    if len(ret) != 1 or ast.unparse(ret[0].value) != 'self.program.protected * 254':
        raise Refuse('DataSegment._get_basic_memory: unexpected flag read')
    out.append('Definition flag_peek_value : Z := 254.   (* PEEK(1450) = protected * 254 *)')
    out.append('Definition flag_addr : Z := %d.' % mods[P_MEMORY].const_value('DataSegment.protection_flag_addr'))
    wt, wsites = writer_table(repo)
    out.append('')
    out.append('(* flag writers: exactly these sites assign .protected anywhere under pcbasic/basic *)')
    out.append('Definition flag_writer_sites : list string := [%s].' % '; '.join(cstr(s) for s in wsites))
    for k in ('w_erase', 'w_load_P', 'w_poke'):
        out.append('Definition %s : wkind := %s.' % (k, wt[k]))
    out.append('Definition poke_needs_allow : bool := %s.' % wt['poke_needs_allow'])
    # call structure
    for path, cls, meth, expected in CALLS:
        fn = mods[path].find('%s.%s' % (cls, meth))
        got = names_in(fn) & PRIMS
        if meth in ('merge', 'list_lines', 'edit', 'save') and cls == 'Program':
            got -= {meth}
        if meth == 'save_':
            got |= {'bytecode'}      # only len(bytecode) for the cassette header; optional
        if got != expected:
            raise Refuse('%s.%s reaches %s, expected %s' % (cls, meth, sorted(got), sorted(expected)))
    out.append('')
    out.append('(* call structure checked by the extractor (refuses on any difference): %s *)' % '; '.join(
        '%s.%s -> {%s}' % (c, m, ','.join(sorted(e))) for _, c, m, e in CALLS))
    # NEW: erase is called unconditionally at top level; LOAD: program.load inside `with files.open`
    fn = mods[P_IMPL].find('Implementation.new_')
    if not any(ast.unparse(s) == 'self.program.erase()' for s in body_stmts(fn)):
        raise Refuse('Implementation.new_ does not call self.program.erase() unconditionally')
    out.append('Definition new_erases : bool := true.')
    out.append('Definition load_erases_first : bool := true.')
    # FIELD: a string descriptor is only created inside the FIELD buffer.  Field.attach_var must check
    # `offset + length > len(self._buffer)` (raise FIELD overflow) at top level BEFORE the descriptor is packed /
    # assigned; the last FIELD buffer ends exactly at code_start and StringSpace.view reads descriptors at
    # addresses >= code_start from the program code without any guard.
    fn = mods[P_MEMORY].find('Field.attach_var')
    body = body_stmts(fn)
    mk = [i for i, st_ in enumerate(body) if {'pack', 'set_variable', 'from_bytes'} & names_in(st_)]
    if not mk:
        raise Refuse('Field.attach_var: no descriptor creation found')
    bounded = False
    for st_ in body[:mk[0]]:
        if (isinstance(st_, ast.If) and not st_.orelse
                and ast.unparse(st_.test) in ('offset + length > len(self._buffer)',
                                              'length + offset > len(self._buffer)')
                and len(st_.body) == 1 and isinstance(st_.body[0], ast.Raise)
                and ast.unparse(st_.body[0].exc) == 'error.BASICError(error.FIELD_OVERFLOW)'):
            bounded = True
        elif isinstance(st_, ast.If) and 'len' in names_in(st_.test) and '_buffer' in names_in(st_.test):
            raise Refuse('Field.attach_var: unrecognised bound check %s' % ast.unparse(st_.test))
    out.append('Definition field_bounded : bool := %s.   (* Field.attach_var refuses a descriptor that leaves '
               'the FIELD buffer before creating it *)' % ('true' if bounded else 'false'))
    out.append('Definition field_overflow_err : Z := %d.' % errors['FIELD_OVERFLOW'])
    # the string reader is unguarded (that is why the bound above carries the property)
    fn = mods[P_STRINGS].find('StringSpace.view')
    if mentions_protected(fn):
        raise Refuse('StringSpace.view now mentions .protected: model it')
    out.append('')
    out.append('(* census of the call sites of %s under pcbasic/basic *)' % ', '.join(CENSUS))
    out.append('Definition reader_sites : list string := [\n  %s].' % ';\n  '.join(cstr(s) for s in census(repo)))
    return '\n'.join(out) + '\n'
