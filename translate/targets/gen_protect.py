"""Gen_protect.v: keys and per-byte arithmetic of converter/protect.py (C15)."""
import os
from py2v import Module, Translator, HEADER, read_errors

OUT = 'Gen_protect.v'
SOURCES = ['pcbasic/basic/converter/protect.py']


def generate(repo):
    m = Module(os.path.join(repo, SOURCES[0]))
    t = Translator(m, prefix='protect_')
    t.add_const('KEY1', m.const_value('KEY1'))
    t.add_const('KEY2', m.const_value('KEY2'))
    # the arithmetic between `c = ord(s)` and `outs.write(int2byte(c % 256))`, inclusive of neither:
    # translated as a function of (index, c); the written byte is c % 256 and the next index is in the
    # statement after the write.
    for fn in ('unprotect', 'protect'):
        body_owner = fn
        t.function(fn, coqname='protect_%s_step' % fn, param_types={'index': 'Z', 'c': 'Z'},
                   stmts=(r'^c -= ', r'^c \+= '), ret=['c'])
        t.function(fn, coqname='protect_%s_next' % fn, param_types={'index': 'Z'},
                   stmts=(r'^index = \(', r'^index = \('), ret=['index'])
    return HEADER + '\n'.join(t.out) + '\n'
