"""Gen_data.v: TABLE DUMPER for C22 (READ/DATA/RESTORE).

Imports base/tokens.py, base/error.py and base/codestream.py of the repo under test in a fresh interpreter
(PYTHONPATH=<repo>) and prints, as Coq literals over Z, the constants the hand model theories/model/Data.v
of the DATA scanner is built on:

  data_tk_DATA, data_tk_REM      the one-byte tokens the scanner compares with
  data_PLUS_BYTES                tokens.PLUS_BYTES (token lead byte -> number of payload bytes to skip)
  data_END_STATEMENT/END_LINE    the non-empty members; that b'' (end of stream) is a member is CHECKED here
  data_blanks                    CodeStream.blanks
  data_DIGITS/HEXDIGITS/OCTDIGITS
  data_STX, data_OUT_OF_DATA, data_UNDEFINED_LINE_NUMBER

The dumper refuses (py2v.Refuse) when a table has a shape the model does not cover (multi-byte keys,
b'' not an end-of-statement marker, ...).
"""
import json
import os
import subprocess

from py2v import Refuse, HEADER

OUT = 'Gen_data.v'
SOURCES = ['pcbasic/basic/base/tokens.py', 'pcbasic/basic/base/error.py', 'pcbasic/basic/base/codestream.py']

PY = '/venv/bin/python'

_DUMP = r'''
import json, sys
from pcbasic.basic.base import tokens as tk
from pcbasic.basic.base import error
from pcbasic.basic.base.codestream import CodeStream, TokenisedStream

def bad(msg):
    print(json.dumps({'refuse': msg}))
    sys.exit(0)

def one(name, b):
    if not isinstance(b, bytes) or len(b) != 1:
        bad('%s = %r is not a single byte' % (name, b))
    return b[0]

def members(name, tup, need_empty):
    if not isinstance(tup, tuple):
        bad('%s is not a tuple' % name)
    if need_empty != (b'' in tup):
        bad('%s: membership of the empty string (end of stream) changed' % name)
    return sorted(one(name, x) for x in tup if x != b'')

plus = []
for k, v in tk.PLUS_BYTES.items():
    if not isinstance(v, int) or v < 0 or v > 16:
        bad('PLUS_BYTES value %r' % (v,))
    plus.append([one('PLUS_BYTES key', k), v])
if not isinstance(CodeStream.blanks, bytes):
    bad('CodeStream.blanks is not bytes')
if TokenisedStream.end_line != tk.END_LINE:
    bad('TokenisedStream.end_line is not tokens.END_LINE')
print(json.dumps({
    'DATA': one('DATA', tk.DATA), 'REM': one('REM', tk.REM),
    'PLUS_BYTES': sorted(plus),
    'END_STATEMENT': members('END_STATEMENT', tk.END_STATEMENT, True),
    'END_LINE': members('END_LINE', tk.END_LINE, True),
    'blanks': list(CodeStream.blanks),
    'DIGITS': list(tk.DIGITS), 'HEXDIGITS': list(tk.HEXDIGITS), 'OCTDIGITS': list(tk.OCTDIGITS),
    'STX': error.STX, 'OUT_OF_DATA': error.OUT_OF_DATA,
    'UNDEFINED_LINE_NUMBER': error.UNDEFINED_LINE_NUMBER,
}))
'''


def zl(l):
    return '[' + '; '.join(str(int(x)) for x in l) + ']'


def generate(repo):
    env = dict(os.environ)
    env['PYTHONPATH'] = repo
    env['PYTHONHASHSEED'] = '0'
    env['PYTHONDONTWRITEBYTECODE'] = '1'
    p = subprocess.run([PY, '-c', _DUMP], env=env, stdout=subprocess.PIPE, stderr=subprocess.PIPE,
                       timeout=120, universal_newlines=True)
    if p.returncode != 0:
        raise Refuse('token table dumper failed on %s:\n%s' % (repo, p.stderr[-2000:]))
    d = json.loads(p.stdout.strip().splitlines()[-1])
    if 'refuse' in d:
        raise Refuse(d['refuse'])
    out = [HEADER.rstrip('\n')]
    out.append('(* pcbasic/basic/base/tokens.py, error.py, codestream.py: constants used by the DATA scanner *)')
    out.append('Definition data_tk_DATA : Z := %d.' % d['DATA'])
    out.append('Definition data_tk_REM : Z := %d.' % d['REM'])
    out.append('Definition data_PLUS_BYTES : list (Z * Z) := [%s].'
               % '; '.join('(%d, %d)' % (k, v) for k, v in d['PLUS_BYTES']))
    for nm in ('END_STATEMENT', 'END_LINE', 'blanks', 'DIGITS', 'HEXDIGITS', 'OCTDIGITS'):
        out.append('Definition data_%s : list Z := %s.' % (nm, zl(d[nm])))
    for nm in ('STX', 'OUT_OF_DATA', 'UNDEFINED_LINE_NUMBER'):
        out.append('Definition data_%s : Z := %d.' % (nm, d[nm]))
    return '\n'.join(out) + '\n'
