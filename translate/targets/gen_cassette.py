"""Gen_cassette.v: record-framing decisions and constants of devices/cassette.py (C29).

Regenerated on every run.  Extracted (fail-closed: any unexpected shape raises Refuse):
  TOKEN_TO_TYPE / TYPE_TO_TOKEN tables
  _flush_record_buffer : the loop exit test on `data`, the chunk size, the count byte of a full record
  _close_record_buffer : the count byte of the final record, the "write only if data" test
  _fill_record_buffer  : record length of a text record, the "is last record" test, the payload length
  _write_record/_write_block/_read_block : the block size
  open_write/open_read : struct formats, magic byte and trailing bytes of the header
"""
import ast
import os
import struct

from py2v import Module, Translator, HEADER, Refuse, refuse, zlit

OUT = 'Gen_cassette.v'
SOURCES = ['pcbasic/basic/devices/cassette.py']


class CasTranslator(Translator):
    """`len(x)` of a byte-string variable is `zlen x`; a byte-string variable used as a truth value is non-emptiness."""

    def hook_call(self, node, env):
        if isinstance(node.func, ast.Name) and node.func.id == 'len' and len(node.args) == 1 \
                and isinstance(node.args[0], ast.Name) and env.get(node.args[0].id, (None, None))[1] == 'list Z':
            return '(zlen %s)' % env[node.args[0].id][0], 'Z'
        return None


def stmts_of(fn):
    body = fn.body
    if body and isinstance(body[0], ast.Expr) and isinstance(getattr(body[0], 'value', None), ast.Constant):
        body = body[1:]
    return body


def find_all(node, pred):
    return sorted((n for n in ast.walk(node) if pred(n)), key=lambda n: (n.lineno, n.col_offset))


def one(nodes, what, where):
    if len(nodes) != 1:
        refuse(where, 'expected exactly one %s, found %d' % (what, len(nodes)))
    return nodes[0]


def int_const(node, what):
    if isinstance(node, ast.Constant) and isinstance(node.value, int) and not isinstance(node.value, bool):
        return node.value
    refuse(node, 'expected an integer literal for %s, got %s' % (what, ast.unparse(node)))


def is_call_to(node, dotted):
    return isinstance(node, ast.Call) and ast.unparse(node.func) == dotted


def generate(repo):
    m = Module(os.path.join(repo, SOURCES[0]))
    t = CasTranslator(m, prefix='cas_')
    out = t.out

    # ---- type tables
    node = m.find('TOKEN_TO_TYPE')
    try:
        tok2type = ast.literal_eval(node.value)
    except Exception:
        refuse(node, 'TOKEN_TO_TYPE is not a literal dict')
    if not (isinstance(tok2type, dict) and all(isinstance(k, int) and isinstance(v, bytes) and len(v) == 1
                                               for k, v in tok2type.items())):
        refuse(node, 'TOKEN_TO_TYPE: expected {int: 1-byte bytes}')
    node2 = m.find('TYPE_TO_TOKEN')
    if ast.unparse(node2.value) != 'dict((reversed(item) for item in TOKEN_TO_TYPE.items()))':
        refuse(node2, 'TYPE_TO_TOKEN: unexpected definition %s' % ast.unparse(node2.value))
    type2tok = dict(reversed(item) for item in tok2type.items())
    out.append('Definition cas_token_to_type : list (Z * Z) := [%s].' % '; '.join(
        '(%s, %d)' % (zlit(k), v[0]) for k, v in tok2type.items()))
    out.append('Definition cas_type_to_token : list (Z * Z) := [%s].' % '; '.join(
        '(%d, %s)' % (k[0], zlit(v)) for k, v in type2tok.items()))

    env_data = {'data': ('v_data', 'list Z')}

    # ---- _flush_record_buffer
    fn = m.find('CassetteStream._flush_record_buffer')
    guard = one([n for n in stmts_of(fn) if isinstance(n, ast.If)], 'top-level if', fn)
    if ast.unparse(guard.test) != "self.filetype not in (b'M', b'B', b'P') and self.rwmode == 'w'" or guard.orelse:
        refuse(guard, '_flush_record_buffer: unexpected guard %s' % ast.unparse(guard.test))
    loop = one([n for n in guard.body if isinstance(n, ast.While)], 'while loop', fn)
    if ast.unparse(loop.test) != 'True' or len(loop.body) != 3:
        refuse(loop, '_flush_record_buffer: unexpected loop shape')
    brk, split, wr = loop.body
    if not (isinstance(brk, ast.If) and len(brk.body) == 1 and isinstance(brk.body[0], ast.Break) and not brk.orelse):
        refuse(brk, '_flush_record_buffer: expected `if <test>: break` first in the loop')
    stop, ty = t.expr(brk.test, env_data)
    out.append('(* %s:%d  if %s: break *)' % (SOURCES[0], brk.lineno, ast.unparse(brk.test)))
    out.append('Definition cas_flush_stop (v_data : list Z) : bool := %s.' % t.as_bool((stop, ty)))
    if not (isinstance(split, ast.Assign) and ast.unparse(split.targets[0]) == '(chunk, data)'
            and isinstance(split.value, ast.Tuple) and len(split.value.elts) == 2):
        refuse(split, '_flush_record_buffer: expected `chunk, data = data[:N], data[N:]`')
    a, b = split.value.elts
    if not (isinstance(a, ast.Subscript) and isinstance(a.slice, ast.Slice) and a.slice.lower is None
            and a.slice.step is None and ast.unparse(a.value) == 'data'
            and isinstance(b, ast.Subscript) and isinstance(b.slice, ast.Slice) and b.slice.upper is None
            and b.slice.step is None and ast.unparse(b.value) == 'data'):
        refuse(split, '_flush_record_buffer: expected `chunk, data = data[:N], data[N:]`')
    n1, n2 = int_const(a.slice.upper, 'chunk size'), int_const(b.slice.lower, 'chunk size')
    if n1 != n2 or n1 <= 0:
        refuse(split, '_flush_record_buffer: chunk sizes differ (%d, %d)' % (n1, n2))
    out.append('Definition cas_chunk : Z := %d.' % n1)
    if not (isinstance(wr, ast.Expr) and is_call_to(wr.value, 'self._write_record') and len(wr.value.args) == 1
            and isinstance(wr.value.args[0], ast.BinOp) and isinstance(wr.value.args[0].op, ast.Add)
            and isinstance(wr.value.args[0].left, ast.Constant) and isinstance(wr.value.args[0].left.value, bytes)
            and ast.unparse(wr.value.args[0].right) == 'chunk'):
        refuse(wr, '_flush_record_buffer: expected `self._write_record(<bytes literal> + chunk)`')
    out.append('Definition cas_full_prefix : list Z := [%s].' % '; '.join(
        str(x) for x in wr.value.args[0].left.value))
    tail = [ast.unparse(s) for s in guard.body[guard.body.index(loop) + 1:]]
    if tail != ['self.record_stream = io.BytesIO()', 'self.record_stream.write(data)', 'self.record_stream.seek(0, 2)']:
        refuse(guard, '_flush_record_buffer: unexpected statements after the loop: %r' % tail)

    # ---- _close_record_buffer
    fn = m.find('CassetteStream._close_record_buffer')
    wrs = find_all(fn, lambda n: is_call_to(n, 'self._write_record'))
    if len(wrs) != 2:
        refuse(fn, '_close_record_buffer: expected two _write_record calls')
    if ast.unparse(wrs[0].args[0]) != 'data':
        refuse(wrs[0], '_close_record_buffer: binary files: expected _write_record(data)')
    arg = wrs[1].args[0]
    if not (isinstance(arg, ast.BinOp) and isinstance(arg.op, ast.Add) and ast.unparse(arg.right) == 'data'
            and is_call_to(arg.left, 'int2byte') and len(arg.left.args) == 1):
        refuse(wrs[1], '_close_record_buffer: expected _write_record(int2byte(<count>) + data)')
    cnt = t.expr(arg.left.args[0], env_data)
    out.append('(* %s:%d  int2byte(%s) + data *)' % (SOURCES[0], wrs[1].lineno, ast.unparse(arg.left.args[0])))
    out.append('Definition cas_final_count (v_data : list Z) : Z := %s.' % t.as_Z(cnt))
    ifs = find_all(fn, lambda n: isinstance(n, ast.If) and any(wrs[1] in ast.walk(s) for s in n.body)
                   and isinstance(n.test, ast.Name))
    test = one(ifs, '`if data:` around the final record', fn)
    out.append('Definition cas_final_present (v_data : list Z) : bool := %s.' % t.as_bool(t.expr(test.test, env_data)))

    # ---- _fill_record_buffer
    fn = m.find('CassetteStream._fill_record_buffer')
    rr = find_all(fn, lambda n: is_call_to(n, 'self._read_record'))
    if len(rr) != 2 or ast.unparse(rr[0].args[0]) != 'self.length':
        refuse(fn, '_fill_record_buffer: expected _read_record(self.length) and _read_record(<const>)')
    reclen = int_const(rr[1].args[0], 'text record length')
    out.append('Definition cas_text_reclen : Z := %d.' % reclen)
    asg = [ast.unparse(n) for n in ast.walk(fn) if isinstance(n, ast.Assign)]
    for want in ('num_bytes = ord(record[0:1])', 'record = record[1:]'):
        if want not in asg:
            refuse(fn, '_fill_record_buffer: missing `%s`' % want)
    last_if = one(find_all(fn, lambda n: isinstance(n, ast.If) and 'num_bytes' in ast.unparse(n.test)),
                  'test on num_bytes', fn)
    env_n = {'num_bytes': ('v_num_bytes', 'Z')}
    out.append('(* %s:%d  if %s: (last record) *)' % (SOURCES[0], last_if.lineno, ast.unparse(last_if.test)))
    out.append('Definition cas_is_last (v_num_bytes : Z) : bool := %s.' % t.as_bool(t.expr(last_if.test, env_n)))
    body = [ast.unparse(s) for s in last_if.body]
    if len(body) != 2 or body[1] != 'self.buffer_complete = True' or last_if.orelse:
        refuse(last_if, '_fill_record_buffer: unexpected body of the last-record branch')
    cut = last_if.body[0]
    if not (isinstance(cut, ast.Assign) and ast.unparse(cut.targets[0]) == 'record'
            and isinstance(cut.value, ast.Subscript) and ast.unparse(cut.value.value) == 'record'
            and isinstance(cut.value.slice, ast.Slice) and cut.value.slice.lower is None
            and cut.value.slice.step is None):
        refuse(cut, '_fill_record_buffer: expected record = record[:<n>]')
    out.append('Definition cas_last_take (v_num_bytes : Z) : Z := %s.' % t.as_Z(t.expr(cut.value.slice.upper, env_n)))

    # ---- block size
    sizes = set()
    fn = m.find('CassetteStream._write_block')
    pads = find_all(fn, lambda n: isinstance(n, ast.AugAssign))
    pad = one(pads, 'padding statement', fn)
    if ast.unparse(pad).replace(' ', '') != 'data+=data[-1:]*(256-len(data))'.replace('256', str(
            int_const(pad.value.right.left, 'block size') if isinstance(pad.value, ast.BinOp) and isinstance(
                pad.value.right, ast.BinOp) else -1)):
        refuse(pad, '_write_block: unexpected padding %s' % ast.unparse(pad))
    sizes.add(int_const(pad.value.right.left, 'block size'))
    fn = m.find('CassetteStream._write_record')
    for n in find_all(fn, lambda n: isinstance(n, ast.Subscript) and isinstance(n.slice, ast.Slice)):
        sizes.add(int_const(n.slice.upper if n.slice.upper is not None else n.slice.lower, 'block size'))
    fn = m.find('CassetteStream._read_block')
    cmp_ = one(find_all(fn, lambda n: isinstance(n, ast.Compare) and ast.unparse(n.left) == 'count'), 'count test', fn)
    sizes.add(int_const(cmp_.comparators[0], 'block size'))
    if len(sizes) != 1:
        refuse(fn, 'block sizes differ between _write_block/_write_record/_read_block: %r' % sorted(sizes))
    out.append('Definition cas_block : Z := %d.' % sizes.pop())

    # ---- header
    fn = m.find('CassetteStream.open_write')
    pk = one(find_all(fn, lambda n: is_call_to(n, 'struct.pack')), 'struct.pack', fn)
    fmt = pk.args[0].value if isinstance(pk.args[0], ast.Constant) else None
    if fmt != '<c8sBHHHBB' or len(pk.args) != 9:
        refuse(pk, 'open_write: unexpected header format %r' % (fmt,))
    names = [ast.unparse(a) for a in pk.args[1:]]
    if names[1] != "name[:8] + b' ' * (8 - len(name))" or names[2:6] != [
            'TYPE_TO_TOKEN[filetype]', 'length', 'seg', 'offs']:
        refuse(pk, 'open_write: unexpected header fields %r' % names)
    magic = pk.args[1].value if isinstance(pk.args[1], ast.Constant) else None
    if not (isinstance(magic, bytes) and len(magic) == 1):
        refuse(pk, 'open_write: unexpected magic')
    out.append('Definition cas_magic : Z := %d.' % magic[0])
    out.append('Definition cas_header_tail : list Z := [%d; %d].' % (
        int_const(pk.args[7], 'header tail'), int_const(pk.args[8], 'header tail')))
    fn = m.find('CassetteStream.open_read')
    up = one(find_all(fn, lambda n: is_call_to(n, 'struct.unpack')), 'struct.unpack', fn)
    if not (isinstance(up.args[0], ast.Constant) and up.args[0].value == '<8sBHHH'
            and ast.unparse(up.args[1]) == 'record[1:16]'):
        refuse(up, 'open_read: unexpected header parse %s' % ast.unparse(up))
    asg = one(find_all(fn, lambda n: isinstance(n, ast.Assign) and n.value is up), 'unpack assignment', fn)
    if ast.unparse(asg.targets[0]) != '(file_trunk, token, self.length, seg, offset)':
        refuse(asg, 'open_read: unexpected header field order %s' % ast.unparse(asg.targets[0]))
    hd = one(find_all(fn, lambda n: isinstance(n, ast.Compare) and 'record[0:1]' in ast.unparse(n)), 'magic test', fn)
    if ast.unparse(hd) != "record[0:1] == b'\\xa5'".replace('\\xa5', '\\x%02x' % magic[0]):
        refuse(hd, 'open_read: magic test %s does not match the magic written' % ast.unparse(hd))
    # ---- CASDevice._search: name comparison and what happens at the end of the tape
    fn = m.find('CASDevice._search')
    tr = one(find_all(fn, lambda n: isinstance(n, ast.Try)), 'try block', fn)
    cond = one(find_all(tr, lambda n: isinstance(n, ast.If) and 'trunk_req' in ast.unparse(n.test)), 'match test', fn)
    src = ast.unparse(cond.test)
    variants = {
        '(not trunk_req or trunk.rstrip() == trunk_req.rstrip()) and (not filetypes_req or filetype in filetypes_req)': -1,
        '(not trunk_req or trunk.rstrip() == trunk_req[:8].rstrip()) and (not filetypes_req or filetype in filetypes_req)': 8,
    }
    if src not in variants:
        refuse(cond, '_search: unexpected match test %s' % src)
    out.append('(* %s:%d  %s *)' % (SOURCES[0], cond.lineno, src))
    out.append('Definition cas_req_name_limit : Z := %s.   (* -1: the requested name is not truncated *)' % zlit(variants[src]))
    # what happens to the data of a skipped file
    skipped = [ast.unparse(x) for x in cond.orelse]
    if 'self.tapestream.skip_data()' in skipped:
        if skipped[-1] != 'self.tapestream.skip_data()' or skipped.count('self.tapestream.skip_data()') != 1:
            refuse(cond, '_search: skip_data() must be the last statement of the Skipped branch')
        sk = m.find('CassetteStream.skip_data')
        body = [ast.unparse(x) for x in stmts_of(sk)]
        if len(body) != 1 or not isinstance(stmts_of(sk)[0], ast.If):
            refuse(sk, 'skip_data: unexpected body')
        iff = stmts_of(sk)[0]
        if ast.unparse(iff.test) != "self.filetype in (b'M', b'B', b'P')" or iff.orelse or len(iff.body) != 1 \
                or not isinstance(iff.body[0], ast.Try):
            refuse(sk, 'skip_data: expected `if self.filetype in (M, B, P): try: ...`')
        trs = iff.body[0]
        hs = [(ast.unparse(h.type), [ast.unparse(x) for x in h.body]) for h in trs.handlers]
        if [ast.unparse(x) for x in trs.body] != ['self._fill_record_buffer()'] or len(hs) != 2 \
                or hs[0] != ('EndOfTape', ['raise']) or hs[1][0] != 'CassetteIOError' \
                or any(not x.startswith('logging.') for x in hs[1][1]) or trs.orelse or trs.finalbody:
            refuse(sk, 'skip_data: unexpected try block')
        skips = 'true'
    else:
        if any('skip' in x or '_fill_record_buffer' in x or '.read(' in x for x in skipped):
            refuse(cond, '_search: unexpected statements in the Skipped branch: %r' % skipped)
        skips = 'false'
    out.append('(* _search passes over the data record of a skipped B/P/M file by reading it (skip_data) *)')
    out.append('Definition cas_search_skips_binary : bool := %s.' % skips)
    if len(tr.handlers) != 1 or ast.unparse(tr.handlers[0].type) != 'EndOfTape':
        refuse(tr, '_search: expected a single `except EndOfTape` handler')
    hb = [ast.unparse(s) for s in tr.handlers[0].body]
    plain = ['self.tapestream.wind(0)', 'raise error.BASICError(error.DEVICE_TIMEOUT)']
    if hb == plain:
        closes = 'false'
    elif hb == ['self.tapestream.close()'] + plain:
        closes = 'true'
    else:
        refuse(tr.handlers[0], '_search: unexpected end-of-tape handler %r' % hb)
    out.append('(* %s:%d  except EndOfTape: %s *)' % (SOURCES[0], tr.handlers[0].lineno, '; '.join(hb)))
    out.append('Definition cas_search_eot_closes : bool := %s.' % closes)
    # ---- bit layer of CAS images: CRC arithmetic and framing constants
    t.function('crc', coqname='cas_crc_xor', param_types={'rem': 'Z', 'd': 'Z'},
               stmts=(r'^rem \^= d << 8', r'^rem \^= d << 8'), ret=['rem'])
    t.function('crc', coqname='cas_crc_bit', param_types={'rem': 'Z'},
               stmts=(r'^rem <<= 1', r'^rem &= 0xffff'), ret=['rem'])
    fn = m.find('crc')
    body = [ast.unparse(x) for x in stmts_of(fn)]
    if len(body) != 3 or not body[0].startswith('rem = ') or body[2] != 'return rem ^ 65535' \
            or not isinstance(stmts_of(fn)[1], ast.For):
        refuse(fn, 'crc: unexpected shape %r' % body)
    out.append('Definition cas_crc_init : Z := %d.' % int_const(stmts_of(fn)[0].value, 'crc init'))
    out.append('Definition cas_crc_final : Z := 65535.')
    outer = stmts_of(fn)[1]
    if ast.unparse(outer.iter) != 'bytearray(data)' or ast.unparse(outer.target) != 'd' or len(outer.body) != 2 \
            or not isinstance(outer.body[1], ast.For) or ast.unparse(outer.body[1].iter) != 'range(8)' \
            or len(outer.body[1].body) != 3:
        refuse(outer, 'crc: unexpected loops')
    fn = m.find('CassetteStream._write_block')
    srcs = [ast.unparse(x) for x in stmts_of(fn)]
    if srcs[1:] != ['for b in iterchar(data):\n    self.bitstream.write_byte(ord(b))', 'crc_word = crc(data)',
                    "lo, hi = (ord(_b) for _b in iterchar(struct.pack('<H', crc_word)))",
                    'self.bitstream.write_byte(hi)', 'self.bitstream.write_byte(lo)']:
        refuse(fn, '_write_block: unexpected body %r' % srcs)
    fn = m.find('CassetteStream._read_block')
    srcs = ' ; '.join(ast.unparse(x) for x in stmts_of(fn))
    for want in ('bytes0, bytes1 = (self.bitstream.read_byte(), self.bitstream.read_byte())',
                 'crc_given = bytes0 * 256 + bytes1', 'crc_calc = crc(data)', 'if crc_given == crc_calc:\n    return data'):
        if want not in srcs:
            refuse(fn, '_read_block: missing `%s`' % want)
    fn = m.find('TapeBitStream.write_leader')
    if [ast.unparse(x) for x in stmts_of(fn)] != ['for _ in range(256):\n    self.write_byte(255)', 'self.write_bit(0)',
                                                  'self.write_byte(22)']:
        refuse(fn, 'write_leader: unexpected body')
    out.append('Definition cas_leader_bytes : Z := 256.')
    out.append('Definition cas_sync_byte : Z := %d.' % m.const_value('TapeBitStream.sync_byte'))
    if m.const_value('TapeBitStream.sync_byte') != 22:
        refuse(fn, 'sync byte written (22) differs from TapeBitStream.sync_byte')
    fn = m.find('TapeBitStream.write_trailer')
    if [ast.unparse(x) for x in stmts_of(fn)] != ['for _ in range(30):\n    self.write_bit(1)', 'self.write_bit(0)']:
        refuse(fn, 'write_trailer: unexpected body')
    out.append('Definition cas_trailer_ones : Z := 30.')
    fn = m.find('TapeBitStream.read_leader')
    cmp_ = one(find_all(fn, lambda n: isinstance(n, ast.Compare) and ast.unparse(n.left) == 'counter'), 'counter test', fn)
    if ast.unparse(cmp_) != 'counter >= 512':
        refuse(cmp_, 'read_leader: unexpected leader length test')
    out.append('Definition cas_min_leader_bits : Z := 512.')
    fn = m.find('TapeBitStream.write_byte')
    if 'bits = [1 if byte & 128 >> i != 0 else 0 for i in range(8)]' not in [ast.unparse(x) for x in stmts_of(fn)]:
        refuse(fn, 'write_byte: unexpected bit order')
    fn = m.find('TapeBitStream.read_byte')
    if 'byte += bit * 128 >> i' not in ast.unparse(fn):
        refuse(fn, 'read_byte: unexpected bit order')
    out.append('Definition cas_intro : list Z := [%s].' % '; '.join(str(x) for x in m.const_value('TapeBitStream.intro')))
    return HEADER + '\n'.join(out) + '\n'
