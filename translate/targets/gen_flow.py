"""Gen_flow.v: error numbers and the FOR/NEXT direction tests of interpreter.py (C19, C21).

Regenerated from /repo on every run:
  * the BASIC error numbers the control-flow model raises (base/error.py),
  * the two *direction tests* of a FOR loop, extracted from the AST of Interpreter.for_ (entry test
    `... if step.sign() >= 0 else ...`) and Interpreter.iterate_loop (`loop_ends = ... if sgn > 0 else ...`),
    as boolean functions of the sign of the step,
  * the operand range of ON n GOTO/GOSUB and ERROR n (error.range_check(lo, hi, ...)).
Anything of another shape is refused (fail-closed)."""
import ast
import os
from py2v import Module, HEADER, Refuse, read_errors, zlit

OUT = 'Gen_flow.v'
SOURCES = ['pcbasic/basic/base/error.py', 'pcbasic/basic/interpreter.py']

ERRORS = ['NEXT_WITHOUT_FOR', 'SYNTAX_ERROR', 'RETURN_WITHOUT_GOSUB', 'OUT_OF_DATA', 'ILLEGAL_FUNCTION_CALL', 'OVERFLOW',
          'UNDEFINED_LINE_NUMBER', 'DIVISION_BY_ZERO', 'NO_RESUME', 'RESUME_WITHOUT_ERROR', 'FOR_WITHOUT_NEXT',
          'WHILE_WITHOUT_WEND', 'WEND_WITHOUT_WHILE']

CMP = {ast.Gt: '>?', ast.GtE: '>=?', ast.Lt: '<?', ast.LtE: '<=?', ast.Eq: '=?'}


def _method(m, name):
    node = m.find('Interpreter.' + name)
    if not isinstance(node, ast.FunctionDef):
        raise Refuse('Interpreter.%s is not a function' % name)
    return node


def _sign_test(test, what):
    """`X >= 0` / `X > 0` with X = step.sign() or sgn  ->  Coq boolean expression in `sgn`."""
    if not (isinstance(test, ast.Compare) and len(test.ops) == 1 and type(test.ops[0]) in CMP):
        raise Refuse('%s: direction test is not a simple comparison' % what)
    left, right = test.left, test.comparators[0]
    ok_left = (isinstance(left, ast.Name) and left.id == 'sgn') or (
        isinstance(left, ast.Call) and isinstance(left.func, ast.Attribute) and left.func.attr == 'sign'
        and isinstance(left.func.value, ast.Name) and left.func.value.id == 'step' and not left.args)
    if not ok_left or not (isinstance(right, ast.Constant) and isinstance(right.value, int)
                           and not isinstance(right.value, bool)):
        raise Refuse('%s: direction test is not `sign <op> constant`' % what)
    return '(sgn %s %s)' % (CMP[type(test.ops[0])], zlit(right.value))


def _is_gt(call, a, b):
    """call is `a.gt(b)`"""
    return (isinstance(call, ast.Call) and isinstance(call.func, ast.Attribute) and call.func.attr == 'gt'
            and isinstance(call.func.value, ast.Name) and call.func.value.id == a
            and len(call.args) == 1 and isinstance(call.args[0], ast.Name) and call.args[0].id == b)


def _entry_test(fn):
    # if (start.gt(stop) if step.sign() >= 0 else stop.gt(start)):
    found = [n for n in ast.walk(fn) if isinstance(n, ast.If) and isinstance(n.test, ast.IfExp)]
    if len(found) != 1:
        raise Refuse('for_: expected exactly one `if (a if c else b):` entry test, found %d' % len(found))
    t = found[0].test
    if not (_is_gt(t.body, 'start', 'stop') and _is_gt(t.orelse, 'stop', 'start')):
        raise Refuse('for_: entry test is not start.gt(stop) / stop.gt(start)')
    return _sign_test(t.test, 'for_')


def _iter_test(fn):
    # loop_ends = counter_view.gt(stop) if sgn > 0 else stop.gt(counter_view)
    found = [n for n in ast.walk(fn) if isinstance(n, ast.Assign) and len(n.targets) == 1
             and isinstance(n.targets[0], ast.Name) and n.targets[0].id == 'loop_ends']
    if len(found) != 1 or not isinstance(found[0].value, ast.IfExp):
        raise Refuse('iterate_loop: expected one `loop_ends = a if c else b`')
    t = found[0].value
    if not (_is_gt(t.body, 'counter_view', 'stop') and _is_gt(t.orelse, 'stop', 'counter_view')):
        raise Refuse('iterate_loop: loop_ends is not counter.gt(stop) / stop.gt(counter)')
    return _sign_test(t.test, 'iterate_loop')


def _range_check(fn, what):
    """the (lo, hi) of the single error.range_check(lo, hi, x) call in fn"""
    found = [n for n in ast.walk(fn) if isinstance(n, ast.Call) and isinstance(n.func, ast.Attribute)
             and n.func.attr == 'range_check']
    if len(found) != 1 or len(found[0].args) != 3:
        raise Refuse('%s: expected one error.range_check(lo, hi, x)' % what)
    lo, hi = found[0].args[0], found[0].args[1]
    if not all(isinstance(x, ast.Constant) and isinstance(x.value, int) for x in (lo, hi)):
        raise Refuse('%s: range_check bounds are not constants' % what)
    return lo.value, hi.value


def generate(repo):
    errs = read_errors(repo)
    out = [HEADER]
    for name in ERRORS:
        if name not in errs:
            raise Refuse('error.py: %s not found' % name)
        out.append('Definition flow_E_%s : Z := %s.' % (name, zlit(errs[name])))
    m = Module(os.path.join(repo, SOURCES[1]))
    out.append('(* Interpreter.for_: the loop is empty when (start > stop if <this> else stop > start) *)')
    out.append('Definition flow_for_dir (sgn : Z) : bool := %s.' % _entry_test(_method(m, 'for_')))
    out.append('(* Interpreter.iterate_loop: loop_ends = (counter > stop if <this> else stop > counter) *)')
    out.append('Definition flow_next_dir (sgn : Z) : bool := %s.' % _iter_test(_method(m, 'iterate_loop')))
    lo, hi = _range_check(_method(m, 'on_jump_'), 'on_jump_')
    out.append('Definition flow_on_lo : Z := %s.\nDefinition flow_on_hi : Z := %s.' % (zlit(lo), zlit(hi)))
    lo, hi = _range_check(_method(m, 'error_'), 'error_')
    out.append('Definition flow_error_lo : Z := %s.\nDefinition flow_error_hi : Z := %s.' % (zlit(lo), zlit(hi)))
    return '\n'.join(out) + '\n'
