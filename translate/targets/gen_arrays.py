"""Gen_arrays.v: flat-index / size / record-layout arithmetic of memory/arrays.py and memory/scalars.py
(C12, C11), regenerated from the AST on every run.

Idioms added here (subclass of py2v.Translator, py2v itself is untouched):
  * a monadic call inside an expression is hoisted into a preceding assignment (evaluation order of the
    pure rest is irrelevant)                                   -> flat_length, _buffer_size, memory_size, varptr
  * `for a, b in zip(x, y): <checks that only raise>`           -> structural Fixpoint over both lists
  * `values.size_bytes(n)` / `TYPE_TO_SIZE[n[-1:]]`             -> table lookup on the last byte of the name
  * `bytearray(n.upper())[:-1]`, `ord(b'A')`                    -> py_droplast (py_upper n), 65
  * `self._memory.var_current()`                                -> a parameter `var_current`
"""
import ast
import copy
import importlib
import os
import textwrap

from py2v import Module, Translator, HEADER, Refuse, refuse, read_errors, Ctx, zlit

OUT = 'Gen_arrays.v'
SOURCES = ['pcbasic/basic/memory/arrays.py', 'pcbasic/basic/memory/scalars.py',
           'pcbasic/basic/values/values.py']

LZ = 'list Z'


class ArrTranslator(Translator):

    # ---- expressions
    def hook_expr(self, node, env):
        # TYPE_TO_SIZE[name[-1:]]
        if isinstance(node, ast.Subscript) and isinstance(node.value, ast.Name) \
                and node.value.id == 'TYPE_TO_SIZE' and 'TYPE_TO_SIZE' in self.consts:
            sl = node.slice
            if isinstance(sl, ast.Subscript) and self.is_last_slice(sl.slice):
                base = self.expr(sl.value, env)
                if base[1] == LZ:
                    return '(table_lookup %s (py_last %s))' % (self.consts['TYPE_TO_SIZE'][0], base[0]), 'Z'
            refuse(node, 'unsupported TYPE_TO_SIZE lookup')
        # bytearray(name.upper())[:-1]
        if isinstance(node, ast.Subscript) and isinstance(node.slice, ast.Slice):
            sl = node.slice
            if sl.lower is None and sl.step is None and isinstance(sl.upper, ast.UnaryOp) \
                    and isinstance(sl.upper.op, ast.USub) and isinstance(sl.upper.operand, ast.Constant) \
                    and sl.upper.operand.value == 1:
                base = self.expr(node.value, env)
                if base[1] == LZ:
                    return '(py_droplast %s)' % base[0], LZ
        return None

    @staticmethod
    def is_last_slice(sl):
        return (isinstance(sl, ast.Slice) and sl.upper is None and sl.step is None
                and isinstance(sl.lower, ast.UnaryOp) and isinstance(sl.lower.op, ast.USub)
                and isinstance(sl.lower.operand, ast.Constant) and sl.lower.operand.value == 1)

    def hook_call(self, node, env):
        fname = self.dotted(node.func) if isinstance(node.func, (ast.Attribute, ast.Name)) else None
        if fname == 'values.size_bytes' and len(node.args) == 1 and not node.keywords:
            t = self.expr(node.args[0], env)
            if t[1] != LZ:
                refuse(node, 'size_bytes of a non-name')
            if 'values.size_bytes' not in self.funcs:
                refuse(node, 'values.size_bytes has not been translated')
            return '(%s %s)' % (self.funcs['values.size_bytes'].coqname, t[0]), 'Z'
        if fname == 'self._memory.var_current' and not node.args and not node.keywords:
            if 'var_current' not in env:
                refuse(node, 'var_current() used where no var_current parameter was declared')
            return env['var_current']
        if fname == 'bytearray' and len(node.args) == 1 and not node.keywords:
            t = self.expr(node.args[0], env)
            if t[1] == LZ:
                return t
        if fname == 'ord' and len(node.args) == 1 and isinstance(node.args[0], ast.Constant) \
                and isinstance(node.args[0].value, bytes) and len(node.args[0].value) == 1:
            return zlit(bytearray(node.args[0].value)[0]), 'Z'
        # name.upper()
        if isinstance(node.func, ast.Attribute) and node.func.attr == 'upper' and not node.args:
            t = self.expr(node.func.value, env)
            if t[1] == LZ:
                return '(py_upper %s)' % t[0], LZ
        # any(<cmp> for _d in dims)
        if fname == 'any' and len(node.args) == 1 and isinstance(node.args[0], ast.GeneratorExp):
            g = node.args[0]
            if len(g.generators) == 1 and not g.generators[0].ifs and isinstance(g.generators[0].target, ast.Name):
                it = self.expr(g.generators[0].iter, env)
                if it[1] == LZ:
                    v = g.generators[0].target.id
                    env2 = dict(env)
                    env2[v] = (self.var(v), 'Z')
                    body = self.as_bool(self.expr(g.elt, env2))
                    return '(py_any (fun %s => %s) %s)' % (self.var(v), body, it[0]), 'bool'
            refuse(node, 'unsupported any()')
        return None

    # ---- statements
    def monadic_calls(self, expr_node, top_ok):
        """Monadic/stateful calls inside an expression (excluding the expression itself if top_ok)."""
        found = []
        for n in ast.walk(expr_node):
            if isinstance(n, ast.Call) and isinstance(n.func, (ast.Attribute, ast.Name)):
                fn = self.dotted(n.func)
                if fn in self.funcs and (self.funcs[fn].monadic or self.funcs[fn].state_out):
                    if n is expr_node and top_ok:
                        continue
                    found.append(n)
        return found

    def hook_stmt(self, s, rest, env, ctx, k):
        # hoist monadic calls out of expressions
        if isinstance(s, (ast.Assign, ast.Return, ast.AugAssign)) and s.value is not None:
            top_ok = isinstance(s, ast.Assign)
            if self.monadic_calls(s.value, top_ok):
                # work on a copy: the module AST must stay intact for later selections
                s = copy.deepcopy(s)
                calls = self.monadic_calls(s.value, top_ok)
                pre = []
                mapping = {}
                for c in calls:
                    tmp = self.fresh('hoisted')
                    mapping[id(c)] = tmp
                    a = ast.Assign(targets=[ast.Name(id=tmp, ctx=ast.Store())], value=c)
                    ast.copy_location(a, s)
                    pre.append(a)

                class Repl(ast.NodeTransformer):
                    def visit_Call(self2, n):
                        if id(n) in mapping:
                            return ast.copy_location(ast.Name(id=mapping[id(n)], ctx=ast.Load()), n)
                        return self2.generic_visit(n)
                # nested monadic calls inside hoisted calls are not supported
                for c in calls:
                    for a in c.args:
                        if self.monadic_calls(a, False):
                            refuse(s, 'nested monadic calls')
                new_value = Repl().visit(s.value)
                if isinstance(s, ast.Return):
                    s2 = ast.Return(value=new_value)
                elif isinstance(s, ast.Assign):
                    s2 = ast.Assign(targets=s.targets, value=new_value)
                else:
                    s2 = ast.AugAssign(target=s.target, op=s.op, value=new_value)
                ast.copy_location(s2, s)
                for n in pre + [s2]:
                    ast.fix_missing_locations(n)
                return self.block(pre + [s2] + list(rest), env, ctx, k)
        # for a, b in zip(x, y): checks
        if isinstance(s, ast.For) and isinstance(s.iter, ast.Call) and isinstance(s.iter.func, ast.Name) \
                and s.iter.func.id == 'zip':
            return self.for_zip(s, rest, env, ctx, k)
        return None

    def for_zip(self, s, rest, env, ctx, k):
        if not ctx.monadic or s.orelse or len(s.iter.args) != 2 or s.iter.keywords:
            refuse(s, 'unsupported zip loop')
        if not (isinstance(s.target, ast.Tuple) and len(s.target.elts) == 2
                and all(isinstance(e, ast.Name) for e in s.target.elts)):
            refuse(s, 'unsupported zip loop target')
        for n in ast.walk(s):
            if isinstance(n, (ast.Break, ast.Continue, ast.Return)):
                refuse(n, 'break/continue/return inside zip loop')
        if self.assigned(s.body):
            refuse(s, 'zip loop body assigns variables')
        l1 = self.expr(s.iter.args[0], env)
        l2 = self.expr(s.iter.args[1], env)
        if l1[1] != LZ or l2[1] != LZ:
            refuse(s, 'zip over non-lists')
        a, b = s.target.elts[0].id, s.target.elts[1].id
        va, vb = self.var(a), self.var(b)
        loopname = self.fresh(ctx.fname + '_zip')
        others = [(n, v, t) for (n, v, t) in self.free_vars(env) if n not in (a, b)]
        params = ' '.join('(%s : %s)' % (v, t) for (_, v, t) in others)
        env_b = dict(env)
        env_b[a] = (va, 'Z')
        env_b[b] = (vb, 'Z')
        inner = Ctx(True, fname=ctx.fname, ret_ty='unit', joined=True)
        oargs = ' '.join(v for (_, v, _) in others)

        def again(e):
            return '%s %s l1 l2' % (loopname, oargs)
        body = self.block(list(s.body), env_b, inner, again)
        self.emit('Fixpoint %s %s (l1 l2 : list Z) {struct l1} : res unit :=\n'
                  '  match l1, l2 with\n  | %s :: l1, %s :: l2 =>\n%s\n  | _, _ => Ok tt\n  end.'
                  % (loopname, params, va, vb, textwrap.indent(body, '      ')))
        return ctx.bind_tuple(self, '%s %s %s %s' % (loopname, oargs, l1[0], l2[0]), [],
                              self.block(rest, env, ctx, k), monadic_src=True)


def type_to_size_table(repo):
    """Dump values.TYPE_TO_SIZE by importing the module under `repo` (keys are class attributes)."""
    mod = importlib.import_module('pcbasic.basic.values.values')
    path = os.path.realpath(mod.__file__)
    if not path.startswith(os.path.realpath(repo) + os.sep):
        raise Refuse('pcbasic.basic.values.values was imported from %s, not from %s' % (path, repo))
    tbl = mod.TYPE_TO_SIZE
    items = []
    for key, v in tbl.items():
        if not (isinstance(key, bytes) and len(key) == 1 and isinstance(v, int)):
            raise Refuse('TYPE_TO_SIZE has an unexpected entry %r: %r' % (key, v))
        items.append((bytearray(key)[0], v))
    return items


def generate(repo):
    errors = read_errors(repo)
    out = [HEADER + 'From PCB Require Import lib.ArraysLib.\n']
    # BASIC error numbers used by the hand-written control flow of model/Arrays.v and model/VarMem.v
    for nm in ('IFC', 'OUT_OF_MEMORY', 'SUBSCRIPT_OUT_OF_RANGE', 'DUPLICATE_DEFINITION', 'TYPE_MISMATCH'):
        if nm not in errors:
            raise Refuse('error.%s not found' % nm)
        out.append('Definition err_%s : Z := %d.' % (nm, errors[nm]))

    # --- values.py: size table and size_bytes
    mv = Module(os.path.join(repo, SOURCES[2]))
    tv = ArrTranslator(mv, prefix='values_', errors=errors)
    items = type_to_size_table(repo)
    tv.emit('Definition values_TYPE_TO_SIZE : list (Z * Z) := [%s].'
            % '; '.join('(%d, %d)' % it for it in items))
    tv.consts['TYPE_TO_SIZE'] = ('values_TYPE_TO_SIZE', 'list (Z * Z)')
    f_size = tv.function('size_bytes', coqname='size_bytes', param_types={'name': LZ})
    out += tv.out

    # --- scalars.py
    ms = Module(os.path.join(repo, SOURCES[1]))
    ts = ArrTranslator(ms, prefix='scalars_', errors=errors)
    ts.funcs['values.size_bytes'] = f_size
    ts.function('Scalars._record_size', coqname='scalars_record_size', param_types={'name': LZ})
    ts.function('Scalars._buffer_size', coqname='scalars_buffer_size', param_types={'name': LZ})
    ts.function('Scalars.memory_size', coqname='scalars_memory_size', param_types={'name': LZ})
    # the memory bookkeeping of Scalars.set for a new variable:
    #   name_ptr = var_current(); var_ptr = name_ptr + _record_size(name); self.current += size
    ts.function('Scalars.set', coqname='scalars_set_alloc',
                param_types={'self.current': 'Z', 'var_current': 'Z', 'name': LZ, 'size': 'Z'},
                state=['self.current'], stmts=(r'^name_ptr = self\._memory\.var_current\(\)', r'^self\.current \+= size'),
                ret=['name_ptr', 'var_ptr'])
    ts.function('get_name_in_memory', coqname='get_name_in_memory', param_types={'name': LZ, 'offset': 'Z'})
    out += ts.out

    # --- arrays.py
    ma = Module(os.path.join(repo, SOURCES[0]))
    ta = ArrTranslator(ma, prefix='arrays_', errors=errors)
    ta.funcs['values.size_bytes'] = f_size
    ta.function('Arrays.index', coqname='arrays_index', state=['self._base'],
                param_types={'index': LZ, 'dimensions': LZ})
    ta.function('Arrays._record_size', coqname='arrays_record_size',
                param_types={'name': LZ, 'dimensions': LZ})
    ta.function('Arrays.flat_length', coqname='arrays_flat_length', state=['self._base'],
                param_types={'dimensions': LZ})
    ta.function('Arrays._buffer_size', coqname='arrays_buffer_size', state=['self._base'],
                param_types={'name': LZ, 'dimensions': LZ})
    ta.function('Arrays.memory_size', coqname='arrays_memory_size', state=['self._base'],
                param_types={'name': LZ, 'dimensions': LZ})
    # allocate: name_ptr .. total_bytes
    ta.function('Arrays.allocate', coqname='arrays_allocate_layout',
                param_types={'self._base': 'Z', 'self.current': 'Z', 'name': LZ, 'dimensions': LZ},
                state=['self._base', 'self.current'],
                stmts=(r'^name_ptr = self\.current', r'^total_bytes = '),
                ret=['name_ptr', 'array_ptr', 'array_bytes', 'total_bytes'])
    # allocate: the two `any(...)` range tests (as booleans)
    ta.function('Arrays.allocate', coqname='arrays_allocate_negative',
                param_types={'dimensions': LZ}, stmts=(r'^if any\(_d < 0', r'^if any\(_d < 0'),
                force_monadic=True)
    ta.function('Arrays.allocate', coqname='arrays_allocate_below_base',
                param_types={'self._base': 'Z', 'dimensions': LZ}, state=['self._base'],
                stmts=(r'^elif any\(_d < self\._base', r'^elif any\(_d < self\._base'),
                force_monadic=True)
    # erase_: freed_bytes of the erased array
    ta.function('Arrays.erase_', coqname='arrays_erase_freed',
                param_types={'self._base': 'Z', 'name': LZ, 'dimensions': LZ}, state=['self._base'],
                stmts=(r'^record_len = 1 \+ max', r'^freed_bytes = '), ret=['freed_bytes'])
    # check_dim: rank test and per-subscript classification, in the code's scan order
    ta.function('Arrays.check_dim', coqname='arrays_check_subscripts',
                param_types={'self._base': 'Z', 'index': LZ, 'dimensions': LZ}, state=['self._base'],
                stmts=(r'^if len\(index\) != len\(dimensions\)', r'^for i, d in zip\(index, dimensions\)'))
    # varptr: address of an element
    ta.function('Arrays.varptr', coqname='arrays_varptr_addr',
                param_types={'self._base': 'Z', 'var_current': 'Z', 'array_ptr': 'Z', 'name': LZ,
                             'indices': LZ, 'dimensions': LZ},
                state=['self._base'], stmts=(r'^return \($', r'^return \($'))
    out += ta.out
    return '\n'.join(out) + '\n'
