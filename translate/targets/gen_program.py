"""Gen_program.v: token-length table and byte constants used by the program-memory scans (C13, C14).

Table dumper: evaluates the constant assignments of base/tokens.py, base/codestream.py and base/error.py
with py2v's safe constant evaluator (no import of /repo code) and prints Coq definitions.
Refuses (fail-closed) when a constant is missing or no longer a plain literal/dict of literals."""
import ast
import os
from py2v import Module, HEADER, Refuse, safe_eval, read_errors, zlit

OUT = 'Gen_program.v'
SOURCES = ['pcbasic/basic/base/tokens.py', 'pcbasic/basic/base/codestream.py', 'pcbasic/basic/base/error.py']


def _consts(m):
    env = {}
    for n in m.tree.body:
        if isinstance(n, ast.Assign) and len(n.targets) == 1 and isinstance(n.targets[0], ast.Name):
            try:
                env[n.targets[0].id] = safe_eval(n.value, env)
            except Refuse:
                continue
    return env


def _byte(env, name):
    v = env.get(name)
    if not isinstance(v, bytes) or len(v) != 1:
        raise Refuse('tokens.%s is not a single-byte constant: %r' % (name, v))
    return v[0]


def generate(repo):
    m = Module(os.path.join(repo, SOURCES[0]))
    env = _consts(m)
    node = m.find('PLUS_BYTES')
    if not isinstance(node, ast.Assign) or not isinstance(node.value, ast.Dict):
        raise Refuse('tokens.PLUS_BYTES is not a dict literal')
    table = {}
    for k, v in zip(node.value.keys, node.value.values):
        kk, vv = safe_eval(k, env), safe_eval(v, env)
        if not isinstance(kk, bytes) or len(kk) != 1 or not isinstance(vv, int) or vv < 0:
            raise Refuse('PLUS_BYTES entry %r: %r not understood' % (kk, vv))
        if kk[0] in table:
            raise Refuse('PLUS_BYTES duplicate key %r' % kk)
        table[kk[0]] = vv
    out = [HEADER]
    out.append('(* %s PLUS_BYTES: number of payload bytes that follow a lead byte *)' % SOURCES[0])
    out.append('Definition tk_plus_bytes (c : Z) : Z :=\n  match c with')
    for k in sorted(table):
        out.append('  | %s => %s' % (zlit(k), zlit(table[k])))
    out.append('  | _ => 0\n  end.')
    out.append('Definition tk_plus_bytes_keys : list Z := [%s].' % '; '.join(zlit(k) for k in sorted(table)))
    for name in ('T_UINT', 'REM', 'GOTO', 'ERROR'):
        out.append('Definition tk_%s : Z := %s.' % (name, zlit(_byte(env, name))))
    end_line = env.get('END_LINE')
    if end_line != (b'\0', b''):
        raise Refuse('tokens.END_LINE changed: %r' % (end_line,))
    cm = Module(os.path.join(repo, SOURCES[1]))
    blanks = cm.const_value('CodeStream.blanks')
    if not isinstance(blanks, bytes):
        raise Refuse('CodeStream.blanks is not a bytes literal')
    out.append('Definition cs_blanks : list Z := [%s].' % '; '.join(zlit(b) for b in blanks))
    errs = read_errors(repo)
    for name in ('IFC', 'UNDEFINED_LINE_NUMBER', 'OUT_OF_MEMORY'):
        if name not in errs:
            raise Refuse('error.%s not found' % name)
        out.append('Definition err_%s : Z := %s.' % (name, zlit(errs[name])))
    return '\n'.join(out) + '\n'
