"""Gen_mbf.v: class constants and integer/byte-level methods of values/numbers.py (C03 C04 C05 C06 C07).

Float methods are translated ONCE, generically: every function takes `v_C : fconst` (the record of
class constants of lib/MBFPrims.v, instantiated as `Single_consts` / `Double_consts` from the class
bodies of numbers.Single / numbers.Double) and, when it touches `self._buffer`, the buffer as a
`list Z`; mutating methods return the new buffer (methods that `return self` return only the buffer).

Idiom layer (this file, fail-closed; see lib/MBFPrims.v for the primitives):
  AST normalisation (BufferIdioms) rewrites a closed table of buffer idioms into calls of primitives
      self._buffer[:] = E                         -> self._buffer = E
      self._buffer[-1:] = int2byte(E)             -> self._buffer = __set_byte(self._buffer, -1, E)
      self._buffer[-2:-1] = int2byte(E)           -> self._buffer = __set_byte(self._buffer, -2, E)
      struct.pack_into(self._intformat, self._buffer, 0, E)
                                                  -> self._buffer = __pack_into(self._intsize, self._buffer, E)
      struct.unpack(self._intformat, E)[0]        -> __unpack(self._intsize, E)
      bytearray(E), list(E)                       -> E
      b'\\0' * self.size                           -> __zeros(self.size)
      X[k] op= E   (X a local bytearray)          -> X = __list_set(X, k, X[k] op E)
      for l, r in reversed(list(zip(A, B))): if l > r: return True / elif l < r: return False
      return False                                -> return __zip_rev_gt(A, B)
      return self                                 -> return
      return self.m(..)  (m returns self)         -> self.m(..) ; return
      if [not] self.m(..): (m monadic/stateful)   -> __t = self.m(..) ; if [not] __t:
      self.m(*E)                                  -> (__a, __b, __c) = E ; self.m(__a, __b, __c)
  and the Translator subclass adds: list concatenation, constant slices, calls of pure methods on
  `self` and on other objects of the same class (`rhs.is_zero()`; the object is its buffer), and
  write-tracking of `self._buffer` through method calls.
Anything else (any other use of struct/int2byte/_buffer/slices) is refused by py2v.
"""
import ast
import copy
import os
import struct

from py2v import Module, Translator, Func, Refuse, HEADER, read_errors, refuse, coq_value, zlit

OUT = 'Gen_mbf.v'
SOURCES = ['pcbasic/basic/values/numbers.py']

INTFORMATS = {'<L': 4, '<Q': 8}
FLOAT_CONSTS = ['size', 'digits', 'pos_max', 'neg_max', '_bias', '_shift', '_den_mask', '_den_upper',
                '_carrymask', '_signmask', '_mask', '_posmask', '_one', '_ten', '_lim_top', '_lim_bot']
RECORD_ORDER = ['size', '_intsize', 'digits', '_bias', '_shift', '_den_mask', '_den_upper', '_carrymask',
                '_signmask', '_mask', '_posmask', 'pos_max', 'neg_max', '_one', '_ten', '_lim_top', '_lim_bot']

# methods that end in `return self` (directly or through another such method)
SELF_RETURNING = {'from_int', 'from_bytes', '_normalise', 'itrunc', 'ifloor', 'iadd', 'isub', 'imul',
                  'ineg', 'iabs', 'from_integer'}


def field(name):
    return 'c_' + name.lstrip('_')


def class_consts(m, cls):
    """Evaluate the class-level constant assignments of a Float subclass."""
    node = m.find(cls)
    env = {}
    fmt = None
    for n in node.body:
        if isinstance(n, ast.Assign) and len(n.targets) == 1 and isinstance(n.targets[0], ast.Name):
            name = n.targets[0].id
            if name == '_intformat':
                if not (isinstance(n.value, ast.Constant) and n.value.value in INTFORMATS):
                    refuse(n, 'unknown _intformat')
                fmt = n.value.value
                continue
            if name in ('sigil', 'exp_sign'):
                continue
            from py2v import safe_eval
            env[name] = safe_eval(n.value, env)
    if fmt is None:
        raise Refuse('%s has no _intformat' % cls)
    env['_intsize'] = INTFORMATS[fmt]
    if struct.calcsize(fmt) != env['size']:
        raise Refuse('%s: _intformat %s does not cover the %d-byte buffer' % (cls, fmt, env['size']))
    for k in FLOAT_CONSTS:
        if k not in env:
            raise Refuse('%s.%s not found' % (cls, k))
    return env


def is_self_buffer(n):
    return (isinstance(n, ast.Attribute) and n.attr == '_buffer' and isinstance(n.value, ast.Name)
            and n.value.id == 'self')


def const_int(n):
    if isinstance(n, ast.Constant) and isinstance(n.value, int) and not isinstance(n.value, bool):
        return n.value
    if isinstance(n, ast.UnaryOp) and isinstance(n.op, ast.USub) and isinstance(n.operand, ast.Constant) \
            and isinstance(n.operand.value, int):
        return -n.operand.value
    return None


def name(id_):
    return ast.Name(id=id_, ctx=ast.Load())


def self_attr(attr, ctx=None):
    return ast.Attribute(value=name('self'), attr=attr, ctx=ctx or ast.Load())


def call(fn, args):
    return ast.Call(func=name(fn), args=args, keywords=[])


FOR_TEMPLATE = ast.dump(ast.parse(
    "for l, r in reversed(list(zip(A, B))):\n"
    "    if l > r:\n        return True\n    elif l < r:\n        return False\n").body[0])


class BufferIdioms(ast.NodeTransformer):
    """Rewrite the closed table of buffer idioms (module docstring); leave everything else alone."""

    def __init__(self, stateful):
        self.stateful = stateful   # method names that are monadic or write the buffer
        self.tmp = 0

    def fresh(self, base='t'):
        self.tmp += 1
        return '__%s%d' % (base, self.tmp)

    # --- expressions
    def visit_Call(self, node):
        self.generic_visit(node)
        if isinstance(node.func, ast.Name) and node.func.id in ('bytearray', 'list') and len(node.args) == 1 \
                and not node.keywords and not isinstance(node.args[0], (ast.List, ast.ListComp)):
            return node.args[0]
        return node

    def visit_Subscript(self, node):
        self.generic_visit(node)
        v = node.value
        # struct.unpack(self._intformat, E)[0]
        if (isinstance(v, ast.Call) and isinstance(v.func, ast.Attribute) and v.func.attr == 'unpack'
                and isinstance(v.func.value, ast.Name) and v.func.value.id == 'struct'
                and len(v.args) == 2 and const_int(node.slice) == 0
                and isinstance(v.args[0], ast.Attribute) and v.args[0].attr == '_intformat'
                and isinstance(v.args[0].value, ast.Name) and v.args[0].value.id == 'self'):
            return ast.copy_location(call('__unpack', [self_attr('_intsize'), v.args[1]]), node)
        return node

    def visit_BinOp(self, node):
        self.generic_visit(node)
        if (isinstance(node.op, ast.Mult) and isinstance(node.left, ast.Constant) and node.left.value == b'\0'
                and isinstance(node.right, ast.Attribute) and node.right.attr == 'size'
                and isinstance(node.right.value, ast.Name) and node.right.value.id == 'self'):
            return ast.copy_location(call('__zeros', [node.right]), node)
        return node

    # --- statements
    def stmts(self, body):
        out = []
        i = 0
        while i < len(body):
            s = body[i]
            # for-zip-reversed template followed by `return False`
            if isinstance(s, ast.For):
                probe = copy.deepcopy(s)
                it = probe.iter
                try:
                    a, b = it.args[0].args[0].args
                    it.args[0].args[0].args = [name('A'), name('B')]
                except Exception:
                    a = b = None
                nxt = body[i + 1] if i + 1 < len(body) else None
                if (a is not None and ast.dump(probe) == FOR_TEMPLATE and isinstance(nxt, ast.Return)
                        and isinstance(nxt.value, ast.Constant) and nxt.value.value is False):
                    r = ast.Return(value=call('__zip_rev_gt', [self.visit(a), self.visit(b)]))
                    out.append(ast.copy_location(r, s))
                    i += 2
                    continue
            out.extend(self.stmt(s))
            i += 1
        return out

    def stmt(self, s):
        for fld in ('body', 'orelse'):
            sub = getattr(s, fld, None)
            if isinstance(sub, list) and sub and isinstance(sub[0], ast.stmt):
                setattr(s, fld, self.stmts(sub))
        res = self.stmt1(s)
        for r in res:
            ast.copy_location(r, s)
            ast.fix_missing_locations(r)
        return res

    def method_call(self, n):
        """self.m(...) -> m, else None"""
        if (isinstance(n, ast.Call) and isinstance(n.func, ast.Attribute) and isinstance(n.func.value, ast.Name)
                and n.func.value.id == 'self'):
            return n.func.attr
        return None

    def unstar(self, c, pre):
        """self.m(*E) -> unpack E into temporaries (3-tuples: exp, man, neg)"""
        if len(c.args) == 1 and isinstance(c.args[0], ast.Starred):
            names = [self.fresh('a'), self.fresh('b'), self.fresh('c')]
            tgt = ast.Tuple(elts=[ast.Name(id=x, ctx=ast.Store()) for x in names], ctx=ast.Store())
            pre.append(ast.Assign(targets=[tgt], value=self.visit(c.args[0].value)))
            c.args = [name(x) for x in names]
        return c

    def stmt1(self, s):
        if isinstance(s, ast.Assign) and len(s.targets) == 1 and isinstance(s.targets[0], ast.Subscript) \
                and is_self_buffer(s.targets[0].value) and isinstance(s.targets[0].slice, ast.Slice):
            sl = s.targets[0].slice
            lo = None if sl.lower is None else const_int(sl.lower)
            hi = None if sl.upper is None else const_int(sl.upper)
            val = self.visit(s.value)
            tgt = self_attr('_buffer', ast.Store())
            if sl.step is None and sl.lower is None and sl.upper is None:
                return [ast.Assign(targets=[tgt], value=val)]
            is_i2b = (isinstance(val, ast.Call) and isinstance(val.func, ast.Name) and val.func.id == 'int2byte'
                      and len(val.args) == 1)
            if sl.step is None and is_i2b and (lo, hi) in ((-1, None), (-2, -1)):
                return [ast.Assign(targets=[tgt], value=call(
                    '__set_byte', [self_attr('_buffer'), ast.Constant(value=lo), val.args[0]]))]
            refuse(s, 'unsupported buffer slice assignment %s' % ast.unparse(s))
        if isinstance(s, ast.Expr) and isinstance(s.value, ast.Call):
            c = s.value
            if (isinstance(c.func, ast.Attribute) and c.func.attr == 'pack_into'
                    and isinstance(c.func.value, ast.Name) and c.func.value.id == 'struct'):
                if not (len(c.args) == 4 and ast.unparse(c.args[0]) == 'self._intformat'
                        and is_self_buffer(c.args[1]) and const_int(c.args[2]) == 0):
                    refuse(s, 'unsupported struct.pack_into form')
                return [ast.Assign(targets=[self_attr('_buffer', ast.Store())], value=call(
                    '__pack_into', [self_attr('_intsize'), self_attr('_buffer'), self.visit(c.args[3])]))]
            if self.method_call(c):
                pre = []
                self.unstar(c, pre)
                s.value = self.visit(c)
                return pre + [s]
        if isinstance(s, ast.AugAssign) and isinstance(s.target, ast.Subscript) \
                and isinstance(s.target.value, ast.Name) and const_int(s.target.slice) is not None:
            x = s.target.value.id
            k = ast.Constant(value=const_int(s.target.slice))
            cur = ast.Subscript(value=name(x), slice=k, ctx=ast.Load())
            new = ast.BinOp(left=cur, op=s.op, right=self.visit(s.value))
            return [ast.Assign(targets=[ast.Name(id=x, ctx=ast.Store())], value=call('__list_set', [name(x), k, new]))]
        if isinstance(s, ast.Assign) and len(s.targets) == 1 and isinstance(s.targets[0], ast.Tuple) \
                and self.method_call(s.value) in self.stateful:
            tmp = self.fresh()
            pre = ast.Assign(targets=[ast.Name(id=tmp, ctx=ast.Store())], value=self.visit(s.value))
            s.value = name(tmp)
            return [pre, s]
        if isinstance(s, ast.Return) and isinstance(s.value, ast.Name) and s.value.id == 'self':
            return [ast.Return(value=None)]
        if isinstance(s, ast.Return) and self.method_call(s.value) in SELF_RETURNING:
            pre = []
            c = self.unstar(s.value, pre)
            return pre + [ast.Expr(value=self.visit(c)), ast.Return(value=None)]
        if isinstance(s, ast.If):
            t = s.test
            inner = t.operand if isinstance(t, ast.UnaryOp) and isinstance(t.op, ast.Not) else t
            if self.method_call(inner) in self.stateful:
                tmp = self.fresh()
                pre = ast.Assign(targets=[ast.Name(id=tmp, ctx=ast.Store())], value=self.visit(inner))
                s.test = name(tmp) if inner is t else ast.UnaryOp(op=ast.Not(), operand=name(tmp))
                return [pre, s]
        return [self.visit(s)]


class MbfModule(Module):
    """numbers.py with the buffer idioms of every requested function normalised."""

    def __init__(self, path, stateful):
        Module.__init__(self, path)
        self.stateful = stateful
        self.cache = {}

    def find(self, qualname):
        node = Module.find(self, qualname)
        if isinstance(node, ast.FunctionDef):
            if qualname not in self.cache:
                n2 = copy.deepcopy(node)
                tr = BufferIdioms(self.stateful)
                n2.body = tr.stmts(n2.body)
                ast.fix_missing_locations(n2)
                self.cache[qualname] = n2
            return self.cache[qualname]
        return node


class MbfTranslator(Translator):
    """py2v + typed buffer idioms; objects of the same class are represented by their buffers."""

    def __init__(self, module, **kw):
        Translator.__init__(self, module, **kw)
        prim = lambda coq, params, ret, mon=False: Func(coq, params, ret, mon)
        self.funcs.update({
            '__set_byte': prim('set_byte', [('b', 'list Z'), ('i', 'Z'), ('e', 'Z')], 'list Z', True),
            '__pack_into': prim('pack_into_le', [('n', 'Z'), ('b', 'list Z'), ('e', 'Z')], 'list Z', True),
            '__unpack': prim('unpack_le', [('n', 'Z'), ('l', 'list Z')], 'Z'),
            '__zeros': prim('zeros', [('n', 'Z')], 'list Z'),
            '__list_set': prim('list_set', [('l', 'list Z'), ('i', 'Z'), ('e', 'Z')], 'list Z'),
            '__zip_rev_gt': prim('zip_rev_gt', [('a', 'list Z'), ('b', 'list Z')], 'bool'),
        })

    # objects: `self` and parameters of type list Z stand for their buffers
    def hook_expr(self, node, env):
        if isinstance(node, ast.Name) and node.id == 'self' and 'self._buffer' in env:
            return env['self._buffer']
        if isinstance(node, ast.Attribute) and node.attr == '_buffer' and isinstance(node.value, ast.Name) \
                and node.value.id != 'self' and node.value.id in env and env[node.value.id][1] == 'list Z':
            return env[node.value.id]
        if isinstance(node, ast.Attribute) and isinstance(node.value, ast.Name) and node.value.id != 'self' \
                and node.value.id in env and env[node.value.id][1] == 'list Z' and ('self.' + node.attr) in self.consts:
            # class constant read through another object of the same class (right_in._bias)
            return self.consts['self.' + node.attr]
        if isinstance(node, ast.BinOp) and isinstance(node.op, ast.Add):
            a = self.expr(node.left, env)
            if a[1] == 'list Z':
                b = self.expr(node.right, env)
                if b[1] != 'list Z':
                    refuse(node, 'bytes + non-bytes')
                return '(%s ++ %s)' % (a[0], b[0]), 'list Z'
        if isinstance(node, ast.Subscript) and isinstance(node.slice, ast.Slice):
            sl = node.slice
            if sl.step is not None:
                refuse(node, 'slice with step')
            bounds = []
            for b in (sl.lower, sl.upper):
                if b is None:
                    bounds.append('None')
                elif const_int(b) is not None:
                    bounds.append('(Some %s)' % zlit(const_int(b)))
                else:
                    refuse(node, 'non-constant slice bound')
            base = self.expr(node.value, env)
            if base[1] != 'list Z':
                refuse(node, 'slice of non-bytes')
            return '(py_slice %s %s %s)' % (base[0], bounds[0], bounds[1]), 'list Z'
        return None

    def hook_call(self, node, env):
        f = node.func
        if not (isinstance(f, ast.Attribute) and isinstance(f.value, ast.Name)):
            return None
        obj, meth = f.value.id, f.attr
        fn = self.funcs.get('self.' + meth)
        if fn is None or fn.monadic or fn.state_out:
            return None
        if obj == 'self':
            if not fn.state_in:
                return None
            state = {a: env.get(a) for a in fn.state_in}
        elif obj in env and env[obj][1] == 'list Z':
            state = {a: (env[obj] if a == 'self._buffer' else env.get(a)) for a in fn.state_in}
        else:
            return None
        if node.keywords or len(node.args) != len(fn.params):
            refuse(node, 'call arity mismatch for %s' % meth)
        args = []
        for a in fn.state_in:
            if state[a] is None:
                refuse(node, 'state %s not available for call of %s' % (a, meth))
            args.append(state[a][0])
        for a, (pn, pt) in zip(node.args, fn.params):
            t = self.expr(a, env)
            args.append(self.as_Z(t) if pt == 'Z' else self.as_bool(t) if pt == 'bool' else t[0])
        return '(%s %s)' % (fn.coqname, ' '.join(args)), fn.ret_ty

    def assigned(self, stmts):
        names = Translator.assigned(self, stmts)
        for s in stmts:
            for n in ast.walk(s):
                if isinstance(n, ast.Call) and isinstance(n.func, ast.Attribute) \
                        and isinstance(n.func.value, ast.Name) and n.func.value.id == 'self':
                    fn = self.funcs.get('self.' + n.func.attr)
                    if fn is not None:
                        for a in fn.state_out:
                            if a not in names:
                                names.append(a)
        return names

    def method(self, cls, meth, coqname, buffer=True, params=None, **kw):
        pt = {'v_C': 'fconst', 'self._buffer': 'list Z'}
        pt.update(params or {})
        state = ['v_C'] + (['self._buffer'] if buffer else [])
        return self.function('%s.%s' % (cls, meth), coqname=coqname, param_types=pt, state=state, **kw)

    def var(self, name):
        if name == 'v_C':
            return 'v_C'
        return Translator.var(self, name)


def emit_consts(t, m, cls, coqname):
    env = class_consts(m, cls)
    fields = []
    for k in RECORD_ORDER:
        term, _ = coq_value(env[k])
        fields.append('%s := %s' % (field(k), term))
    t.emit('(* class constants of numbers.%s *)' % cls)
    t.emit('Definition %s : fconst := {|\n  %s |}.' % (coqname, ';\n  '.join(fields)))


def generate(repo):
    path = os.path.join(repo, SOURCES[0])
    stateful = {'_check_limits', 'from_int', 'from_bytes', '_normalise', 'itrunc', '_bring_to_range',
                'iadd', 'isub', 'imul', 'idiv', '_div_den'}
    m = MbfModule(path, stateful)
    errors = read_errors(repo)
    t = MbfTranslator(m, errors=errors)
    # generic constants: self.X -> projection of the record parameter
    for k in RECORD_ORDER:
        ty = 'list Z' if k in ('pos_max', 'neg_max', '_one', '_ten', '_lim_top', '_lim_bot') else 'Z'
        t.consts['self.' + k] = ('(%s v_C)' % field(k), ty)
    emit_consts(t, m, 'Single', 'Single_consts')
    emit_consts(t, m, 'Double', 'Double_consts')
    t.add_const('Integer.pos_max', m.const_value('Integer.pos_max'), coqname='Integer_pos_max')
    t.add_const('Integer.neg_max', m.const_value('Integer.neg_max'), coqname='Integer_neg_max')
    t.add_const('Integer.size', m.const_value('Integer.size'), coqname='Integer_size')

    # ---- Float (generic in v_C)
    t.method('Value', 'from_bytes', 'mbf_from_bytes', params={'in_bytes': 'list Z'})
    t.method('Float', 'is_zero', 'mbf_is_zero')
    t.method('Float', 'is_negative', 'mbf_is_negative')
    t.method('Float', 'sign', 'mbf_sign')
    t.method('Float', '_denormalise', 'mbf_denormalise')
    t.method('Float', '_to_int_den', 'mbf_to_int_den')
    t.method('Float', 'to_int', 'mbf_to_int')
    t.method('Float', 'to_int_truncate', 'mbf_to_int_truncate')
    t.method('Float', 'mantissa', 'mbf_mantissa')
    t.method('Float', '_bring_to_range', 'mbf_bring_to_range', buffer=False)
    t.method('Float', '_check_limits', 'mbf_check_limits', params={'neg': 'bool'})
    t.method('Float', 'from_int', 'mbf_from_int')
    t.method('Float', 'itrunc', 'mbf_itrunc')
    t.method('Float', '_normalise', 'mbf_normalise', params={'neg': 'bool'})
    t.method('Float', '_abs_gt', 'mbf_abs_gt', params={'rhs': 'list Z'})
    # gt / eq: the part after the isinstance promotion dispatch (modelled by hand in model/MBF.v)
    t.method('Float', 'gt', 'mbf_gt', params={'rhs': 'list Z'},
             stmts=(r'^rhsneg = rhs\.is_negative\(\)', r'^return self\._abs_gt\(rhs\)'))
    t.method('Float', 'eq', 'mbf_eq', params={'rhs': 'list Z'},
             stmts=(r'^if self\.is_zero\(\):', r'^return self\._buffer == rhs\._buffer'))
    den = '(Z * Z * bool)'
    t.method('Float', '_abs_gt_den', 'mbf_abs_gt_den', buffer=False, params={'lden': den, 'rden': den})
    t.method('Float', '_add_den', 'mbf_add_den', buffer=False, params={'lden': den, 'rden': den})
    t.method('Float', 'iadd', 'mbf_iadd', params={'right': 'list Z'})
    t.method('Float', 'isub', 'mbf_isub', params={'right': 'list Z'})
    t.method('Float', '_div_den', 'mbf_div_den', buffer=False, params={'lden': den, 'rden': den})
    t.method('Float', 'imul', 'mbf_imul', params={'right_in': 'list Z'})
    t.method('Float', 'idiv', 'mbf_idiv', params={'right_in': 'list Z'})
    t.method('Float', 'ineg', 'mbf_ineg')
    t.method('Float', 'iabs', 'mbf_iabs')
    t.method('Float', '_apply_carry_den', 'mbf_apply_carry_den', buffer=False, params={'den': den})
    t.method('Float', '_mul10_den', 'mbf_mul10_den', buffer=False, params={'den': den})

    # ---- Integer (2-byte buffers; no class record needed)
    ti = MbfTranslator(m, errors=errors)
    ti.out = t.out
    ti.function('Integer.is_zero', coqname='int_is_zero', param_types={'self._buffer': 'list Z'},
                state=['self._buffer'])
    ti.function('Integer.is_negative', coqname='int_is_negative', param_types={'self._buffer': 'list Z'},
                state=['self._buffer'])
    ti.function('Integer.sign', coqname='int_sign', param_types={'self._buffer': 'list Z'},
                state=['self._buffer'])
    ti.function('Integer.gt', coqname='int_gt', param_types={'self._buffer': 'list Z', 'rhs': 'list Z'},
                state=['self._buffer'],
                stmts=(r'^isneg = bytearray\(self\._buffer\)\[-1\] & 0x80',
                       r'^return bytearray\(self\._buffer\)\[0\] > bytearray\(rhs\._buffer\)\[0\]'))
    ti.function('Integer.eq', coqname='int_eq', param_types={'self._buffer': 'list Z', 'rhs': 'list Z'},
                state=['self._buffer'], stmts=(r'^return self\._buffer == rhs\._buffer', r'^return self\._buffer == rhs\._buffer'))
    header = HEADER.replace('lib.Harness.', 'lib.Harness lib.MBFPrims.')
    # provenance comments without path prefix and line numbers: the text (and with it the compiled proofs)
    # stays identical when numbers.py is edited elsewhere or a scratch worktree is checked
    import re
    out = [re.sub(r'^\(\* .*?numbers\.py:\d+ (.*) \*\)$', r'(* numbers.py \1 *)', x) for x in t.out]
    return header + '\n'.join(out) + '\n'
