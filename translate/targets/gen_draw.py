"""Gen_draw.v: the integer pieces of the DRAW interpreter (C33), regenerated from /repo on every run.

From display/graphics.py:
  * Graphics._draw  - the direction table of U D L R E F G H (the statements that turn the command letter and
    the step count into the unscaled offset x1, y1), translated with the command letter as its byte value;
  * Graphics._draw  - every `error.range_check(lo, hi, var)` of the command loop, as constants (the set and
    order of checked names is pinned: anything else refuses);
  * Graphics._draw_step - the two scaling statements `int(math.trunc(scale*s / 4.))`, the test for "no
    rotation", and the 180 degree branch (the 90/270/general branches use floats: excluded by the property);
  * Graphics._draw  - the expression the C command stores as the colour (clamped to the mode's attributes);
  * Graphics._draw_step - the 90/270 degree branches and the aspect/yfac computation are only pinned textually
    (they use doubles; model/Draw.v has an exact integer model of those double operations);
  * Graphics._draw  - the X branch (nesting limit MAX_DRAW_DEPTH) pinned textually, the limit as a constant;
  * Graphics._get_attr_index - the clamp P applies to its fill and border numbers;
  * Graphics.reset  - the initial scale and angle.
From mlparser.py / base/tokens.py (dumped by importing the module): blanks, DIGITS, LETTERS, NAME_CHARS, SIGILS.
From base/error.py: IFC, TYPE_MISMATCH.

Trusted idiom (only here): `int(math.trunc(E / 4.))` with E a Python int is emitted as `Z.quot E 4`.
Python converts E to a double (exact for |E| < 2^53), divides by the power of two 4 (exact) and truncates toward
zero; Z.quot truncates toward zero.  Draw_proofs.v proves |E| < 2^53 for every E the range checks admit.
"""
import ast
import os
from py2v import Module, Translator, HEADER, Refuse, refuse, safe_eval, zlit, read_errors, coq_value

OUT = 'Gen_draw.v'
SOURCES = ['pcbasic/basic/display/graphics.py', 'pcbasic/basic/mlparser.py', 'pcbasic/basic/base/tokens.py',
           'pcbasic/basic/base/error.py']

# names checked by error.range_check in Graphics._draw, in source order -> Coq constant names
EXPECTED_RANGES = [('attr', 'draw_range_attr'), ('scale', 'draw_range_scale'), ('angle', 'draw_range_angle_a'),
                   ('angle', 'draw_range_angle_ta'), ('step', 'draw_range_step'), ('x', 'draw_range_x'),
                   ('y', 'draw_range_y'), ('fill_idx', 'draw_range_fill'), ('border_idx', 'draw_range_border')]


class DrawTranslator(Translator):
    """Idioms: `c in (b'U', b'E', ...)` with c a one-byte string held as its byte value;
    `int(math.trunc(E / 4.))` -> Z.quot E 4 (see module docstring)."""

    def hook_expr(self, node, env):
        if isinstance(node, ast.Compare) and len(node.ops) == 1 and isinstance(node.ops[0], ast.In) \
                and isinstance(node.comparators[0], ast.Tuple):
            x = self.as_Z(self.expr(node.left, env))
            alts = []
            for e in node.comparators[0].elts:
                v = safe_eval(e, {})
                if not (isinstance(v, bytes) and len(v) == 1):
                    refuse(node, 'membership test against something else than one-byte strings')
                alts.append('(Z.eqb %s %s)' % (x, zlit(bytearray(v)[0])))
            if not alts:
                refuse(node, 'empty membership tuple')
            term = alts[-1]
            for a in reversed(alts[:-1]):
                term = '(orb %s %s)' % (a, term)
            return term, 'bool'
        return None

    def hook_call(self, node, env):
        # int(math.trunc(E / 4.))
        if isinstance(node.func, ast.Name) and node.func.id == 'int' and len(node.args) == 1 \
                and not node.keywords and isinstance(node.args[0], ast.Call):
            inner = node.args[0]
            if self.dotted(inner.func) == 'math.trunc' and len(inner.args) == 1 and not inner.keywords:
                q = inner.args[0]
                if isinstance(q, ast.BinOp) and isinstance(q.op, ast.Div) and isinstance(q.right, ast.Constant) \
                        and isinstance(q.right.value, float) and q.right.value == 4.0:
                    num = self.as_Z(self.expr(q.left, env))
                    return '(Z.quot %s 4)' % num, 'Z'
                refuse(node, 'int(math.trunc(..)) of something else than E / 4.')
        return None


def range_checks(fn):
    """(name, lo, hi) of every error.range_check(lo, hi, name) call in a function, in source order."""
    res = []
    calls = [n for n in ast.walk(fn) if isinstance(n, ast.Call)]
    calls.sort(key=lambda n: (n.lineno, n.col_offset))
    for n in calls:
        f = n.func
        if isinstance(f, ast.Attribute) and f.attr == 'range_check' and isinstance(f.value, ast.Name) \
                and f.value.id == 'error':
            if len(n.args) != 3 or n.keywords or not isinstance(n.args[2], ast.Name):
                refuse(n, 'range_check call of unexpected shape')
            res.append((n.args[2].id, safe_eval(n.args[0], {}), safe_eval(n.args[1], {})))
    return res


def if_chain(node):
    """[(test, body)] of an if/elif chain plus the final else body."""
    chain = []
    while True:
        chain.append((node.test, node.body))
        if len(node.orelse) == 1 and isinstance(node.orelse[0], ast.If):
            node = node.orelse[0]
        else:
            return chain, node.orelse


def generate(repo):
    m = Module(os.path.join(repo, SOURCES[0]))
    errs = read_errors(repo)
    t = DrawTranslator(m, prefix='draw_', errors=errs)
    for name in ('IFC', 'TYPE_MISMATCH', 'OVERFLOW', 'OUT_OF_MEMORY', 'STX', 'SUBSCRIPT_OUT_OF_RANGE'):
        if name not in errs:
            raise Refuse('error.%s not found' % name)
        t.emit('Definition draw_%s : Z := %s.' % (name, zlit(errs[name])))

    # --- tables of the macro-language parser (dumped from the imported modules)
    import importlib
    import pcbasic
    if not os.path.realpath(pcbasic.__file__).startswith(os.path.realpath(repo) + os.sep):
        raise Refuse('pcbasic is imported from %s, not from %s' % (pcbasic.__file__, repo))
    tk = importlib.import_module('pcbasic.basic.base.tokens')
    ml = importlib.import_module('pcbasic.basic.mlparser')
    for cname, val in (('ml_blanks', ml.MLParser.blanks), ('ml_digits', tk.DIGITS), ('ml_letters', tk.LETTERS),
                       ('ml_name_chars', tk.NAME_CHARS), ('ml_sigils', b''.join(tk.SIGILS))):
        if not isinstance(val, bytes):
            raise Refuse('%s is not a byte string' % cname)
        t.emit('Definition %s : list Z := %s.' % (cname, coq_value(val)[0]))
    if any(len(s) != 1 for s in tk.SIGILS):
        raise Refuse('SIGILS are not single bytes')

    # --- Graphics._draw: range checks
    fn = m.find('Graphics._draw')
    got = range_checks(fn)
    if [g[0] for g in got] != [e[0] for e in EXPECTED_RANGES]:
        raise Refuse('Graphics._draw: range_check calls changed: %r' % (got,))
    for (name, lo, hi), (_, cname) in zip(got, EXPECTED_RANGES):
        t.emit('Definition %s : Z * Z := (%s, %s).' % (cname, zlit(lo), zlit(hi)))

    # --- Graphics._draw: what the C command stores as the colour (`self._last_attr = <expr>` after the
    #     range check of attr; the other assignment in that branch is the constant 0 of "C;")
    assigns = [n for n in ast.walk(fn) if isinstance(n, ast.Assign) and len(n.targets) == 1
               and t.dotted(n.targets[0]) == 'self._last_attr']
    assigns.sort(key=lambda n: n.lineno)
    if len(assigns) != 2 or not (isinstance(assigns[0].value, ast.Constant) and assigns[0].value.value == 0):
        raise Refuse('Graphics._draw: assignments to self._last_attr changed')
    term, ty = t.expr(assigns[1].value, {'attr': ('v_attr', 'Z'), 'self._num_attr': ('v_num_attr', 'Z')})
    if ty != 'Z':
        raise Refuse('Graphics._draw: colour expression is not an integer')
    t.emit('(* pcbasic/basic/display/graphics.py:%d *)' % assigns[1].lineno)
    t.emit('Definition draw_colour (v_num_attr : Z) (v_attr : Z) : Z := %s.' % term)

    # --- the nesting limit of X substrings (module constant) and its use in _draw
    depth = m.const_value('MAX_DRAW_DEPTH')
    if not isinstance(depth, int) or not 0 <= depth <= 200:
        raise Refuse('MAX_DRAW_DEPTH is not a small integer')
    t.emit('Definition draw_max_depth : nat := %d%%nat.' % depth)
    xsrc = [ast.unparse(n) for n in ast.walk(fn) if isinstance(n, ast.If)
            and ast.unparse(n.test) == "c == b'X'"]
    expect_x = ("if c == b'X':\n    sub = gmls.parse_string()\n    if depth >= MAX_DRAW_DEPTH:\n"
                "        raise error.BASICError(error.OUT_OF_MEMORY)\n    self._draw(sub, depth + 1)")
    if len(xsrc) != 1 or not xsrc[0].startswith(expect_x):
        raise Refuse('Graphics._draw: the X branch changed: %r' % (xsrc,))

    # --- Graphics._get_attr_index (used by P): -1 -> foreground, 0 -> 0, otherwise the clamp
    gai = m.find('Graphics._get_attr_index')
    rets = [n for n in ast.walk(gai) if isinstance(n, ast.Return)]
    rets.sort(key=lambda n: n.lineno)
    tests = [ast.unparse(n.test) for n in ast.walk(gai) if isinstance(n, ast.If)]
    if sorted(tests) != sorted(['attr_index == -1', 'not attr_index']) or len(rets) != 3 \
            or ast.unparse(rets[1]) != 'return 0':
        raise Refuse('Graphics._get_attr_index changed shape')
    term, ty = t.expr(rets[2].value, {'attr_index': ('v_attr_index', 'Z'), 'self._num_attr': ('v_num_attr', 'Z')})
    t.emit('(* pcbasic/basic/display/graphics.py:%d (for attr_index other than -1 and 0) *)' % rets[2].lineno)
    t.emit('Definition draw_attr_index (v_num_attr : Z) (v_attr_index : Z) : Z := %s.' % term)

    # --- Graphics._draw: direction table
    t.function('Graphics._draw', coqname='draw_dir_offset', param_types={'c': 'Z', 'step': 'Z'},
               stmts=(r'^x1, y1 = 0, 0$', r"^if c in \(b'L'"), ret=['x1', 'y1'])

    # --- Graphics._draw_step: scaling, rotation tests
    t.function('Graphics._draw_step', coqname='draw_scaled', param_types={'scale': 'Z', 'sx': 'Z', 'sy': 'Z'},
               stmts=(r'^x1 = int\(math\.trunc\(', r'^y1 = int\(math\.trunc\('), ret=['x1', 'y1'])
    step = m.find('Graphics._draw_step')
    ifs = [s for s in step.body if isinstance(s, ast.If) and 'rotate' in ast.unparse(s.test)]
    if len(ifs) != 1:
        raise Refuse('Graphics._draw_step: expected one rotation if-chain')
    chain, final = if_chain(ifs[0])
    tests = [ast.unparse(c[0]) for c in chain]
    if tests != ['rotate == 0 or rotate == 360', 'rotate == 90', 'rotate == 180', 'rotate == 270']:
        raise Refuse('Graphics._draw_step: rotation cases changed: %r' % (tests,))
    if not (len(chain[0][1]) == 1 and isinstance(chain[0][1][0], ast.Pass)):
        raise Refuse('Graphics._draw_step: the no-rotation branch is not `pass`')
    # the quarter turns go through doubles (pixel aspect ratio): hand-modelled in model/Draw.v (`turn_quarter`)
    # with an exact model of the double operations; the source text is pinned here
    quarter = [ast.unparse(chain[1][1][0]) if len(chain[1][1]) == 1 else None,
               ast.unparse(chain[3][1][0]) if len(chain[3][1]) == 1 else None]
    if quarter != ['x1, y1 = (int(y1 * yfac), -int(x1 // yfac))', 'x1, y1 = (-int(y1 * yfac), int(x1 // yfac))']:
        raise Refuse('Graphics._draw_step: the 90/270 degree branches changed: %r' % (quarter,))
    pre = [ast.unparse(s_) for s_ in step.body if isinstance(s_, ast.Assign)
           and ast.unparse(s_.targets[0]) in ('aspect', 'yfac')]
    if pre != ['aspect = (self._mode.pixel_height * self._screen_aspect[0], '
               'self._mode.pixel_width * self._screen_aspect[1])', 'yfac = float(aspect[1]) / float(aspect[0])']:
        raise Refuse('Graphics._draw_step: aspect / yfac computation changed: %r' % (pre,))
    env = {'rotate': ('v_rotate', 'Z')}
    for cname, node in (('draw_rotate_none', chain[0][0]), ('draw_rotate_half', chain[2][0])):
        term, ty = t.expr(node, env)
        t.emit('(* pcbasic/basic/display/graphics.py:%d *)' % node.lineno)
        t.emit('Definition %s (v_rotate : Z) : %s := %s.' % (cname, ty, term))
    t.function('Graphics._draw_step', coqname='draw_rotated_half', param_types={'x1': 'Z', 'y1': 'Z'},
               stmts=(r'^x1, y1 = -x1, -y1$', r'^x1, y1 = -x1, -y1$'), ret=['x1', 'y1'])
    # what follows the rotation: y1 += y0; x1 += x0
    t.function('Graphics._draw_step', coqname='draw_endpoint',
               param_types={'x0': 'Z', 'y0': 'Z', 'x1': 'Z', 'y1': 'Z'},
               stmts=(r'^y1 \+= y0$', r'^x1 \+= x0$'), ret=['x1', 'y1'])

    # --- Graphics.reset: initial scale and angle
    reset = m.find('Graphics.reset')
    init = {}
    for s in reset.body:
        if isinstance(s, ast.Assign) and len(s.targets) == 1:
            d = t.dotted(s.targets[0])
            if d in ('self._draw_scale', 'self._draw_angle'):
                init[d] = safe_eval(s.value, {})
    if set(init) != {'self._draw_scale', 'self._draw_angle'}:
        raise Refuse('Graphics.reset: initial DRAW scale/angle not found')
    t.emit('Definition draw_reset_scale : Z := %s.' % zlit(init['self._draw_scale']))
    t.emit('Definition draw_reset_angle : Z := %s.' % zlit(init['self._draw_angle']))
    return HEADER + '\n'.join(t.out) + '\n'
