"""Gen_prec.v: the operator tables of parser/operators.py (C18).

PRECEDENCE, OPERATORS, COMBINABLE, UNARY, BINARY are dumped as Coq association lists.  A token (a bytes
string of one or two bytes) is keyed by its big-endian integer value, i.e. one raw token byte `b` has key b and
a combined relational token `b1 b2` (built by the parser with `d += nxt`) has key 256*b1 + b2.
The callbacks of UNARY/BINARY are dumped as small function ids (UN_ID / BIN_ID below, by the name of the
values.py function; `lambda x: x` is 'pos').  The module is evaluated from its AST, fail-closed: any statement
other than the docstring, the two known imports and the five assignments makes the translator refuse.
"""
import ast
import os
from py2v import Module, HEADER, Refuse, read_errors, safe_eval, zlit

OUT = 'Gen_prec.v'
SOURCES = ['pcbasic/basic/parser/operators.py', 'pcbasic/basic/base/tokens.py', 'pcbasic/basic/base/error.py']

UN_ID = {'neg': 1, 'pos': 2, 'not_': 3}
BIN_ID = {'pow': 1, 'mul': 2, 'div': 3, 'intdiv': 4, 'mod_': 5, 'add': 6, 'sub': 7, 'gt': 8, 'eq': 9, 'lt': 10,
          'gte': 11, 'lte': 12, 'neq': 13, 'and_': 14, 'or_': 15, 'xor_': 16, 'eqv_': 17, 'imp_': 18}
# token names the printer of model/Shunting.v spells operators with
TOKEN_NAMES = ['O_CARET', 'O_PLUS', 'O_MINUS', 'O_TIMES', 'O_DIV', 'O_INTDIV', 'MOD', 'O_GT', 'O_EQ', 'O_LT',
               'NOT', 'AND', 'OR', 'XOR', 'EQV', 'IMP']


class _NS(object):
    def __init__(self, d):
        self.__dict__.update(d)


def token_constants(repo):
    m = Module(os.path.join(repo, SOURCES[1]))
    consts = {}
    for n in m.tree.body:
        if isinstance(n, ast.Assign) and len(n.targets) == 1 and isinstance(n.targets[0], ast.Name):
            try:
                v = safe_eval(n.value, consts)
            except Refuse:
                continue
            if isinstance(v, bytes):
                consts[n.targets[0].id] = v
    return consts


def key(tok):
    if not isinstance(tok, bytes) or not 1 <= len(tok) <= 2:
        raise Refuse('operator token %r is not a bytes string of length 1 or 2' % (tok,))
    return int.from_bytes(tok, 'big')


def callback_name(node):
    """values.<name> -> name ; lambda x: x -> 'pos' ; anything else refused."""
    if isinstance(node, ast.Attribute) and isinstance(node.value, ast.Name) and node.value.id == 'values':
        return node.attr
    if isinstance(node, ast.Lambda) and len(node.args.args) == 1 and not node.args.defaults \
            and not node.args.vararg and not node.args.kwarg and not node.args.kwonlyargs \
            and isinstance(node.body, ast.Name) and node.body.id == node.args.args[0].arg:
        return 'pos'
    raise Refuse('line %s: operator callback is neither values.<function> nor the identity lambda'
                 % getattr(node, 'lineno', '?'))


def read_tables(repo):
    m = Module(os.path.join(repo, SOURCES[0]))
    tk = token_constants(repo)
    g = {'__builtins__': {'set': set}, 'tk': _NS(tk)}
    callbacks = {}
    seen = []
    for n in m.tree.body:
        if isinstance(n, ast.Expr) and isinstance(n.value, ast.Constant) and isinstance(n.value.value, str):
            continue
        if isinstance(n, ast.ImportFrom):
            names = [(a.name, a.asname) for a in n.names]
            if (n.module, n.level, names) in (('base', 2, [('tokens', 'tk')]), (None, 2, [('values', None)])):
                continue
            raise Refuse('line %d: unexpected import in operators.py' % n.lineno)
        if not (isinstance(n, ast.Assign) and len(n.targets) == 1 and isinstance(n.targets[0], ast.Name)):
            raise Refuse('line %d: unexpected statement in operators.py' % n.lineno)
        name = n.targets[0].id
        seen.append(name)
        if name in ('UNARY', 'BINARY'):
            if not isinstance(n.value, ast.Dict):
                raise Refuse('%s is not a dict literal' % name)
            tab = []
            for k, v in zip(n.value.keys, n.value.values):
                if k is None:
                    raise Refuse('%s: dict unpacking' % name)
                kk = eval(compile(ast.Expression(k), m.path, 'eval'), g)
                tab.append((key(kk), callback_name(v)))
            if len(set(k for k, _ in tab)) != len(tab):
                raise Refuse('%s: duplicate key' % name)
            callbacks[name] = tab
        elif name in ('PRECEDENCE', 'OPERATORS', 'COMBINABLE'):
            try:
                g[name] = eval(compile(ast.Expression(n.value), m.path, 'eval'), g)
            except Refuse:
                raise
            except Exception as e:
                raise Refuse('cannot evaluate %s: %s: %s' % (name, type(e).__name__, e))
        else:
            raise Refuse('line %d: unexpected assignment to %s in operators.py' % (n.lineno, name))
    if sorted(seen) != sorted(['PRECEDENCE', 'OPERATORS', 'COMBINABLE', 'UNARY', 'BINARY']):
        raise Refuse('operators.py: expected exactly one assignment each of the five tables, got %s' % seen)
    prec = g['PRECEDENCE']
    if not isinstance(prec, dict):
        raise Refuse('PRECEDENCE is not a dict')
    ptab = []
    for (tok, nargs), p in prec.items():
        if not (isinstance(nargs, int) and isinstance(p, int)):
            raise Refuse('PRECEDENCE entry with non-integer arity/precedence')
        ptab.append((key(tok), nargs, p))
    if not isinstance(g['OPERATORS'], (set, frozenset, tuple, list)):
        raise Refuse('OPERATORS is not a collection')
    operators = sorted(key(t) for t in g['OPERATORS'])
    comb = g['COMBINABLE']
    if not isinstance(comb, (tuple, list, set, frozenset)):
        raise Refuse('COMBINABLE is not a collection')
    combinable = [key(t) for t in comb]
    for t in combinable:
        if t > 255:
            raise Refuse('COMBINABLE holds a multi-byte token (the parser peeks one byte)')
    for nm, ids in (('UNARY', UN_ID), ('BINARY', BIN_ID)):
        for k, f in callbacks[nm]:
            if f not in ids:
                raise Refuse('%s: callback values.%s is not in the modelled set' % (nm, f))
    unary = [(k, UN_ID[f]) for k, f in callbacks['UNARY']]
    binary = [(k, BIN_ID[f]) for k, f in callbacks['BINARY']]
    toks = {}
    for nm in TOKEN_NAMES:
        if nm not in tk:
            raise Refuse('tokens.py: %s not found' % nm)
        toks[nm] = key(tk[nm])
    return ptab, operators, combinable, unary, binary, toks


def generate(repo):
    ptab, operators, combinable, unary, binary, toks = read_tables(repo)
    errs = read_errors(repo)
    out = [HEADER]
    out.append('(* operators.py PRECEDENCE: ((token key, nargs), precedence) *)')
    out.append('Definition prec_table : list ((Z * Z) * Z) :=\n  [' + ';\n   '.join(
        '((%s, %s), %s)' % (zlit(k), zlit(n), zlit(p)) for k, n, p in ptab) + '].')
    out.append('Definition prec_operators : list Z := [' + '; '.join(zlit(k) for k in operators) + '].')
    out.append('Definition prec_combinable : list Z := [' + '; '.join(zlit(k) for k in combinable) + '].')
    out.append('(* UNARY / BINARY: (token key, function id); ids: %s / %s *)' % (
        ', '.join('%s=%d' % kv for kv in sorted(UN_ID.items(), key=lambda kv: kv[1])),
        ', '.join('%s=%d' % kv for kv in sorted(BIN_ID.items(), key=lambda kv: kv[1]))))
    out.append('Definition prec_unary : list (Z * Z) := [' + '; '.join('(%s, %s)' % (zlit(k), zlit(f)) for k, f in unary) + '].')
    out.append('Definition prec_binary : list (Z * Z) :=\n  [' + '; '.join('(%s, %s)' % (zlit(k), zlit(f)) for k, f in binary) + '].')
    out.append('(* tokens.py *)')
    for nm in TOKEN_NAMES:
        out.append('Definition prec_tk_%s : Z := %s.' % (nm, zlit(toks[nm])))
    out.append('(* error.py *)')
    for nm in ('STX', 'MISSING_OPERAND', 'TYPE_MISMATCH', 'DIVISION_BY_ZERO', 'OVERFLOW'):
        if nm not in errs:
            raise Refuse('error.py: %s not found' % nm)
        out.append('Definition prec_err_%s : Z := %s.' % (nm, zlit(errs[nm])))
    return '\n'.join(out) + '\n'
