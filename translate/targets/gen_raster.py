"""Gen_raster.v: the request generators of display/graphics.py:Graphics (C30, C31; also C33).

Translated from the AST: _draw_line (Bresenham loop), _draw_straight, _draw_box, _draw_box_filled.
A pixel write `self.graph_view[yidx, xidx] = data` becomes `WReq yidx xidx (Fill data)` consed on the
pseudo-state `self.OUT : list wreq` (most recent first), which is the first parameter and the first component
of the result of every translated method; the viewport fields used by `self.graph_view.cutoff_coord` are the
next parameters (same order as in Gen_viewport.v).

Also emitted, after fail-closed AST checks over the whole of graphics.py:
  raster_store_sites  - every subscript store in graphics.py; each must be `self.graph_view[..] = ..`
                        (line, y-is-slice, x-is-slice); anything else refuses
  raster_pixels_refs  - the only places that hand a pixel buffer to the viewport (init_mode: page 0;
                        set_page: self._apage.pixels with self._apage = self._pages[apagenum])
  raster_guard_<stmt> - the text-mode guard, which must be the first statement of each graphics statement
Idioms added to py2v here: range(a, b, step) loops, one-character string constants (as their code point),
subscript stores on self.graph_view, calls self.graph_view.<viewport method>(..).
"""
import ast
import os
import textwrap

from py2v import Module, Translator, Ctx, HEADER, Refuse, refuse, read_errors
from targets import gen_viewport
from targets.gen_viewport import VPTranslator, IDX

OUT = 'Gen_raster.v'
SOURCES = ['pcbasic/basic/display/graphics.py', 'pcbasic/basic/base/error.py']

OUTVAR = 'self.OUT'
GV_STATE = [a.replace('self.', 'self.graph_view.') for a in gen_viewport.VP_STATE]
STATE = [OUTVAR] + GV_STATE
TYPES = {OUTVAR: 'list wreq', 'self.graph_view._absolute': 'bool'}

# graphics statements whose first statement must be the text-mode guard
GUARDED = ['view_', '_pset_preset', 'line_', 'circle_', 'paint_', 'put_', 'get_', 'draw_', 'window_']
GUARD_SRC = 'if self._mode.is_text_mode:\n    raise error.BASICError(error.IFC)'


def is_gv_store(t):
    return (isinstance(t, ast.Subscript) and isinstance(t.value, ast.Attribute) and t.value.attr == 'graph_view'
            and isinstance(t.value.value, ast.Name) and t.value.value.id == 'self')


class RasterTranslator(VPTranslator):

    def __init__(self, module, vp_funcs, **kw):
        VPTranslator.__init__(self, module, **kw)
        self.vp_funcs = vp_funcs    # name -> Func of Gen_viewport

    # ---- which names a statement list assigns: add the request list
    def assigned(self, stmts):
        names = Translator.assigned(self, stmts)
        for s in stmts:
            for n in ast.walk(s):
                hit = False
                if isinstance(n, ast.Assign) and any(is_gv_store(t) for t in n.targets):
                    hit = True
                if isinstance(n, ast.Call):
                    fn = self.dotted(n.func) if isinstance(n.func, (ast.Attribute, ast.Name)) else None
                    if fn in self.funcs and OUTVAR in self.funcs[fn].state_out:
                        hit = True
                if hit and OUTVAR not in names:
                    names.append(OUTVAR)
        return names

    def hook_expr(self, node, env):
        if isinstance(node, ast.Constant) and isinstance(node.value, str) and len(node.value) == 1:
            return '%d' % ord(node.value), 'Z'
        return VPTranslator.hook_expr(self, node, env)

    def hook_call(self, node, env):
        fname = self.dotted(node.func) if isinstance(node.func, (ast.Attribute, ast.Name)) else None
        if fname and fname.startswith('self.graph_view.'):
            meth = fname[len('self.graph_view.'):]
            if meth not in self.vp_funcs:
                refuse(node, 'call of untranslated viewport method %s' % meth)
            f = self.vp_funcs[meth]
            if node.keywords or len(node.args) != len(f.params):
                refuse(node, 'call arity mismatch for %s' % fname)
            args = [env[a.replace('self.', 'self.graph_view.')][0] for a in f.state_in]
            for a, (pn, pt) in zip(node.args, f.params):
                t = self.expr(a, env)
                args.append(self.as_Z(t) if pt == 'Z' else self.as_bool(t) if pt == 'bool' else t[0])
            return '(%s %s)' % (f.coqname, ' '.join(args)), f.ret_ty
        return VPTranslator.hook_call(self, node, env)

    def index_term(self, e, env):
        if isinstance(e, ast.Slice):
            if e.step is not None:
                refuse(e, 'slice with step in a pixel write')
            lo = 'None' if e.lower is None else '(Some %s)' % self.as_Z(self.expr(e.lower, env))
            hi = 'None' if e.upper is None else '(Some %s)' % self.as_Z(self.expr(e.upper, env))
            return '(ISlice %s %s)' % (lo, hi)
        return '(IInt %s)' % self.as_Z(self.expr(e, env))

    def hook_stmt(self, s, rest, env, ctx, k):
        # error.range_check(lo, hi, v..) / error.throw_if(cond): raise Illegal function call (their bodies are
        # checked against the expected text by check_error_helpers)
        if isinstance(s, ast.Expr) and isinstance(s.value, ast.Call) and ctx.monadic:
            fname = self.dotted(s.value.func)
            args = s.value.args
            if fname == 'error.range_check' and len(args) >= 3 and not s.value.keywords:
                lo = self.as_Z(self.expr(args[0], env))
                hi = self.as_Z(self.expr(args[1], env))
                conds = []
                for a in args[2:]:
                    t = self.expr(a, env)
                    if t[1] == 'option Z':
                        # `v is not None and not lower <= v <= upper`: None passes
                        conds.append('(match %s with None => true | Some ov => (andb (Z.leb %s ov) (Z.leb ov %s)) end)'
                                     % (t[0], lo, hi))
                        continue
                    if t[1] != 'Z':
                        refuse(s, 'range_check on a value of type %s' % t[1])
                    conds.append('(andb (Z.leb %s %s) (Z.leb %s %s))' % (lo, t[0], t[0], hi))
                c = conds[-1]
                for x in reversed(conds[:-1]):
                    c = '(andb %s %s)' % (x, c)
                return 'if %s then (\n%s\n) else Err %d' % (c, self.block(rest, env, ctx, k), self.errors['IFC'])
            if fname == 'error.throw_if' and len(args) == 1 and not s.value.keywords:
                c = self.as_bool(self.expr(args[0], env))
                return 'if %s then Err %d else (\n%s\n)' % (c, self.errors['IFC'], self.block(rest, env, ctx, k))
        if isinstance(s, ast.Assign) and len(s.targets) == 1 and is_gv_store(s.targets[0]):
            t = s.targets[0]
            if not (isinstance(t.slice, ast.Tuple) and len(t.slice.elts) == 2):
                refuse(s, 'pixel write without a [y, x] index pair')
            yi = self.index_term(t.slice.elts[0], env)
            xi = self.index_term(t.slice.elts[1], env)
            val = self.as_Z(self.expr(s.value, env))
            if OUTVAR not in env:
                refuse(s, 'pixel write outside a request-emitting function')
            env2, v = self.bind_name(env, OUTVAR, 'list wreq')
            return 'let %s := (WReq %s %s (Fill %s)) :: %s in\n%s' % (
                v, yi, xi, val, env[OUTVAR][0], self.block(rest, env2, ctx, k))
        return VPTranslator.hook_stmt(self, s, rest, env, ctx, k)

    def for_(self, s, rest, env, ctx, k):
        it = s.iter
        if not (isinstance(it, ast.Call) and isinstance(it.func, ast.Name) and it.func.id == 'range'
                and len(it.args) == 3 and not it.keywords):
            return Translator.for_(self, s, rest, env, ctx, k)
        if not ctx.monadic:
            refuse(s, 'for loop in non-monadic context')
        if s.orelse or not isinstance(s.target, ast.Name):
            refuse(s, 'unsupported for loop')
        for n in ast.walk(s):
            if isinstance(n, (ast.Break, ast.Continue, ast.Return)):
                refuse(n, 'break/continue/return inside for')
        lo = self.as_Z(self.expr(it.args[0], env))
        hi = self.as_Z(self.expr(it.args[1], env))
        st = self.as_Z(self.expr(it.args[2], env))
        carried = [n for n in self.assigned(s.body) if n != s.target.id]
        for n in carried:
            if n not in env:
                refuse(s, 'loop assigns %s which is not defined before the loop' % n)
        loopname = self.fresh(ctx.fname + '_for')
        ivar = self.var(s.target.id)
        stepvar = 'step_' + loopname
        others = [(n, v, t) for (n, v, t) in self.free_vars(env) if n not in carried and n != s.target.id]
        cvars = [(n, env[n][0], env[n][1]) for n in carried]
        params = ' '.join('(%s : %s)' % (v, t) for (_, v, t) in others + cvars)
        tupty = ' * '.join(t for (_, _, t) in cvars) or 'unit'
        env_b = dict(env)
        env_b[s.target.id] = (ivar, 'Z')
        inner = Ctx(True, fname=ctx.fname, ret_ty=tupty, joined=True)

        def again(e):
            args = ' '.join(v for (_, v, _) in others) + ' ' + ' '.join(e[n][0] for n in carried)
            return '%s fuel %s (%s + %s) %s' % (loopname, stepvar, ivar, stepvar, args)
        body = self.block(list(s.body), env_b, inner, again)
        done = 'Ok (%s)' % (', '.join(v for (_, v, _) in cvars) or 'tt')
        self.emit('Fixpoint %s (fuel : nat) (%s : Z) (%s : Z) %s {struct fuel} : res (%s) :=\n'
                  '  match fuel with\n  | O => %s\n  | S fuel =>\n%s\n  end.'
                  % (loopname, stepvar, ivar, params, tupty, done, textwrap.indent(body, '      ')))
        args = ' '.join(v for (_, v, _) in others + cvars)
        env2 = dict(env)
        vs = []
        for (n, _, t) in cvars:
            env2, v = self.bind_name(env2, n, t)
            vs.append(v)
        return ctx.bind_tuple(self, '%s (Z.to_nat (py_range_len %s %s %s)) %s %s %s'
                              % (loopname, lo, hi, st, st, lo, args), vs,
                              self.block(rest, env2, ctx, k), monadic_src=True)

    def method(self, name):
        return Translator.function(self, 'Graphics.' + name, coqname=self.prefix + self.cname(name),
                                   param_types=dict(TYPES), state=STATE)


# ---------------------------------------------------------------------------
# structural checks over the whole file

def local_array_buffer(m, owner, name):
    """Is `name` a local of function `owner` bound exactly once, to self._memory.arrays.view_full_buffer(..)?"""
    fn = m.find(owner)
    binds = []
    for n in ast.walk(fn):
        if isinstance(n, ast.Assign):
            for t in n.targets:
                ts = list(t.elts) if isinstance(t, (ast.Tuple, ast.List)) else [t]
                if any(isinstance(x, ast.Name) and x.id == name for x in ts):
                    binds.append(ast.unparse(n.value))
        elif isinstance(n, (ast.AugAssign, ast.For, ast.comprehension)) and \
                any(isinstance(x, ast.Name) and x.id == name for x in ast.walk(n.target)):
            binds.append('?')
    if name in [a.arg for a in fn.args.args]:
        binds.append('?param')
    return len(binds) == 1 and binds[0].startswith('self._memory.arrays.view_full_buffer(')


def store_sites(m):
    """Every subscript store (assignment, augmented assignment, del) in graphics.py with its enclosing function."""
    sites = []

    def visit(node, owner):
        for child in ast.iter_child_nodes(node):
            o = owner
            if isinstance(child, (ast.FunctionDef, ast.ClassDef)):
                o = (owner + '.' if owner else '') + child.name
            targets = []
            if isinstance(child, ast.Assign):
                targets = list(child.targets)
            elif isinstance(child, (ast.AugAssign, ast.AnnAssign)):
                targets = [child.target]
            elif isinstance(child, ast.Delete):
                targets = list(child.targets)
            elif isinstance(child, (ast.For, ast.comprehension)):
                targets = [child.target]
            elif isinstance(child, (ast.With,)):
                targets = [i.optional_vars for i in child.items if i.optional_vars is not None]
            flat = []
            while targets:
                t = targets.pop()
                if isinstance(t, (ast.Tuple, ast.List)):
                    targets += list(t.elts)
                elif isinstance(t, ast.Starred):
                    targets.append(t.value)
                else:
                    flat.append(t)
            for t in flat:
                if isinstance(t, ast.Subscript):
                    if o == 'GraphicsViewPort.__setitem__' and \
                            ast.unparse(child) == 'self._pixels[self._convert_slice(index)] = data':
                        continue    # the funnel itself (its shape is checked by gen_viewport.setitem_shape)
                    if isinstance(t.value, ast.Name) and o.startswith('Graphics.') and \
                            local_array_buffer(m, o, t.value.id):
                        continue    # GET writes into BASIC array memory, not into a pixel buffer
                    if not is_gv_store(t) or not isinstance(child, ast.Assign):
                        refuse(child, 'subscript store that is not `self.graph_view[..] = ..`: %s'
                               % ast.unparse(child)[:80])
                    if not (isinstance(t.slice, ast.Tuple) and len(t.slice.elts) == 2):
                        refuse(child, 'pixel write without [y, x] pair')
                    ys, xs = (isinstance(e, ast.Slice) for e in t.slice.elts)
                    sites.append((child.lineno, int(ys), int(xs), o))
            visit(child, o)
    visit(m.tree, '')
    return sorted(sites)


def pixel_buffer_refs(m):
    """Every mention of a page's pixel buffer in graphics.py outside the viewport class; fail closed unless they
    are exactly: init_mode `GraphicsViewPort(self._pages[0].pixels)` and set_page
    `self.graph_view.set_page(self._apage.pixels)` preceded by `self._apage = self._pages[apagenum]`;
    and `self.graph_view` itself is assigned only in __init__ (None) and init_mode."""
    g = m.find('Graphics')
    refs = []
    for fn in g.body:
        if not isinstance(fn, ast.FunctionDef):
            continue
        for n in ast.walk(fn):
            if isinstance(n, ast.Attribute) and n.attr in ('pixels', '_pixels', '_pixel_access'):
                refs.append((fn.name, ast.unparse(n), n.lineno))
            if isinstance(n, ast.Assign):
                for t in n.targets:
                    ts = list(t.elts) if isinstance(t, (ast.Tuple, ast.List)) else [t]
                    for tt in ts:
                        d = ast.unparse(tt)
                        if d == 'self.graph_view' and fn.name not in ('__init__', 'init_mode'):
                            refuse(n, 'self.graph_view assigned in Graphics.%s' % fn.name)
                        if d in ('self._apage', 'self._apagenum') and fn.name not in ('__init__', 'set_page'):
                            refuse(n, '%s assigned in Graphics.%s' % (d, fn.name))
                        if d == 'self._pages' and fn.name not in ('__init__', 'init_mode'):
                            refuse(n, 'self._pages assigned in Graphics.%s' % fn.name)
            if isinstance(n, ast.Call) and isinstance(n.func, ast.Attribute) and n.func.attr == 'set_page' \
                    and fn.name != 'set_page':
                refuse(n, 'set_page called from Graphics.%s' % fn.name)
    want = [('init_mode', 'self._pages[0].pixels'), ('set_page', 'self._apage.pixels')]
    got = [(a, b) for a, b, _ in refs]
    if sorted(got) != sorted(want):
        raise Refuse('pixel buffers are referenced at %r, expected exactly %r' % (refs, want))
    sp = m.find('Graphics.set_page')
    body = [ast.unparse(s) for s in sp.body if not (isinstance(s, ast.Expr) and isinstance(s.value, ast.Constant))]
    if body != ['self._apagenum = apagenum', 'self._apage = self._pages[apagenum]',
                'self.graph_view.set_page(self._apage.pixels)']:
        refuse(sp, 'Graphics.set_page changed: %r' % body)
    # module-level functions must not touch pixels at all
    for fn in m.tree.body:
        if isinstance(fn, ast.FunctionDef):
            for n in ast.walk(fn):
                if isinstance(n, ast.Attribute) and n.attr in ('pixels', '_pixels', 'graph_view'):
                    refuse(n, 'module function %s touches pixel buffers' % fn.name)
    return refs


def check_error_helpers(repo):
    """error.range_check / error.throw_if must be the functions the translator hard-codes."""
    em = Module(os.path.join(repo, 'pcbasic/basic/base/error.py'))
    want = {
        'range_check': ('lower, upper, *allvars',
                        'for v in allvars:\n    if v is not None and (not lower <= v <= upper):\n'
                        '        raise BASICError(IFC)'),
        'throw_if': ('bool, err=IFC', 'if bool:\n    raise BASICError(err)'),
    }
    for name, (sig, body) in want.items():
        fn = em.find(name)
        got_body = '\n'.join(ast.unparse(x) for x in fn.body
                             if not (isinstance(x, ast.Expr) and isinstance(x.value, ast.Constant)))
        if ast.unparse(fn.args) != sig or got_body != body:
            refuse(fn, 'error.%s changed: (%s) %r' % (name, ast.unparse(fn.args), got_body))


WRITER_CALLS = {
    # function -> the only self.<method> calls it may contain (besides attribute reads); pixel writes themselves are
    # in raster_store_sites.  _draw_circle/_draw_ellipse: single-pixel stores + pie-slice lines;
    # DRAW: lines and PAINT only
    '_draw_circle': {'_draw_line'},
    '_draw_ellipse': {'_draw_line'},
    '_draw_step': {'_draw_line'},
    '_draw': {'_draw', '_draw_step', '_draw_line', '_flood_fill', '_get_window_logical', '_get_attr_index'},
}


def writer_calls(m):
    """Fail closed unless the drawing loops of CIRCLE and DRAW reach pixels only through single-pixel stores,
    _draw_line and (DRAW P) _flood_fill."""
    res = []
    for name, allowed in sorted(WRITER_CALLS.items()):
        fn = m.find('Graphics.' + name)
        for n in ast.walk(fn):
            if isinstance(n, ast.Call) and isinstance(n.func, ast.Attribute) and \
                    isinstance(n.func.value, ast.Name) and n.func.value.id == 'self':
                if n.func.attr not in allowed:
                    refuse(n, 'Graphics.%s calls self.%s' % (name, n.func.attr))
                res.append((name, n.func.attr))
            if isinstance(n, ast.Attribute) and n.attr == 'graph_view':
                # only as the target of a store (checked by store_sites) - any other use (slicing reads, method
                # calls on the viewport) would be a new channel
                pass
        for n in ast.walk(fn):
            if isinstance(n, ast.Call) and isinstance(n.func, ast.Attribute) and \
                    isinstance(n.func.value, ast.Attribute) and n.func.value.attr == 'graph_view':
                refuse(n, 'Graphics.%s calls a viewport method %s' % (name, n.func.attr))
    return res


def view_order(m):
    """view_: all argument checks precede the single call of _set_view, which is its last statement;
    _set_view contains no raise and no error.* call (it cannot fail between unset() and set())."""
    fn = m.find('Graphics.view_')
    body = [x for x in fn.body if not (isinstance(x, ast.Expr) and isinstance(x.value, ast.Constant))]
    if ast.unparse(body[-1]) != 'self._set_view(x0, y0, x1, y1, absolute, fill, border)':
        refuse(fn, 'view_ does not end with the call of _set_view')
    srcs = [ast.unparse(x) for x in body]
    for need in ('error.range_check(0, 255, fill)', 'error.range_check(0, 255, border)',
                 'error.throw_if(x0 == x1 or y0 == y1)'):
        if need not in srcs:
            refuse(fn, 'view_ lacks the top-level check %s' % need)
    sv = m.find('Graphics._set_view')
    for n in ast.walk(sv):
        if isinstance(n, ast.Raise):
            refuse(n, '_set_view raises')
        if isinstance(n, ast.Attribute) and isinstance(n.value, ast.Name) and n.value.id == 'error':
            refuse(n, '_set_view uses error.%s' % n.attr)
        if isinstance(n, ast.Call) and isinstance(n.func, ast.Attribute) and n.func.attr.startswith('to_'):
            refuse(n, '_set_view converts a value (%s) and may raise' % n.func.attr)


def guard_first(m, name):
    fn = m.find('Graphics.' + name)
    body = [s for s in fn.body if not (isinstance(s, ast.Expr) and isinstance(s.value, ast.Constant)
                                        and isinstance(s.value.value, str))]
    if not body or ast.unparse(body[0]) != GUARD_SRC:
        refuse(fn, 'Graphics.%s does not start with the text-mode guard' % name)
    return fn


def generate(repo):
    m = Module(os.path.join(repo, SOURCES[0]))
    errors = read_errors(repo)
    out = []
    vt = gen_viewport.make_translator(m)          # for the signatures only
    vp_funcs = {}
    for nm in ('cutoff_coord', 'contains', 'get_bounds', '_convert_coords'):
        vp_funcs[nm] = vt.funcs['GraphicsViewPort.' + nm]
    t = RasterTranslator(m, vp_funcs, prefix='raster_', errors=errors)
    # structural data
    sites = store_sites(m)
    t.emit('(* every subscript store in graphics.py, in source order (all are `self.graph_view[y, x] = data`): '
           '(y is a slice, x is a slice) *)')
    t.emit('Definition raster_store_sites : list (Z * Z) := [\n  %s].' % ';\n  '.join(
        '(%d, %d) (* %s *)' % s[1:] for s in sites))
    # the single-pixel owners: CIRCLE / ellipse / line / straight / PSET never write a slice
    for s_ in sites:
        if s_[3] in ('Graphics._draw_circle', 'Graphics._draw_ellipse', 'Graphics._draw_line',
                     'Graphics._draw_straight', 'Graphics._pset_preset') and (s_[1] or s_[2]):
            raise Refuse('%s writes a slice at line %d' % (s_[3], s_[0]))
    refs = pixel_buffer_refs(m)
    t.emit('(* the only mentions of page pixel buffers in class Graphics: %s *)' % ', '.join(
        '%s:%s' % (a, b) for a, b, _ in refs))
    t.emit('Definition raster_pixels_refs : Z := %d.' % len(refs))
    # PSET / PRESET are thin wrappers of _pset_preset
    for nm in ('pset_', 'preset_'):
        fn = m.find('Graphics.' + nm)
        body = [ast.unparse(s) for s in fn.body if not (isinstance(s, ast.Expr) and isinstance(s.value, ast.Constant))]
        if len(body) != 1 or not body[0].startswith('self._pset_preset(args, '):
            refuse(fn, 'Graphics.%s is not a call of _pset_preset' % nm)
    # guards
    for nm in GUARDED:
        guard_first(m, nm)
        t.function('Graphics.' + nm, coqname='raster_guard_' + t.cname(nm).strip('_'),
                   param_types={'self._mode.is_text_mode': 'bool'},
                   stmts=(r'^if self\._mode\.is_text_mode:$', r'^if self\._mode\.is_text_mode:$'))
    t.emit('Definition raster_guarded_statements : Z := %d.' % len(GUARDED))
    # CIRCLE / DRAW reach pixels only through single-pixel stores, _draw_line and _flood_fill
    wc = writer_calls(m)
    t.emit('(* writer calls inside _draw_circle/_draw_ellipse/_draw/_draw_step: %s *)' % ', '.join(
        sorted(set('%s->%s' % x for x in wc))))
    t.emit('Definition raster_writer_calls_checked : Z := %d.' % len(WRITER_CALLS))
    # VIEW: the range checks of the corners (view_)
    check_error_helpers(repo)
    t.function('Graphics.view_', coqname='raster_view_checks',
               param_types={'self._mode.pixel_width': 'Z', 'self._mode.pixel_height': 'Z',
                            'x0': 'Z', 'y0': 'Z', 'x1': 'Z', 'y1': 'Z'},
               stmts=(r'^error\.range_check\(0, self\._mode\.pixel_width-1, x0, x1\)$',
                      r'^error\.throw_if\(x0==x1 or y0 == y1\)$'), force_monadic=True)
    # ... and of the fill and border attributes (None = omitted), which must also happen in view_, i.e. before
    # _set_view touches the viewport or draws: _set_view itself must not be able to raise
    t.function('Graphics.view_', coqname='raster_view_attr_checks',
               param_types={'fill': 'option Z', 'border': 'option Z'},
               stmts=(r'^error\.range_check\(0, 255, fill\)$', r'^error\.range_check\(0, 255, border\)$'),
               force_monadic=True)
    view_order(m)
    # request generators
    t.funcs = {}
    # the single write of PSET/PRESET (last statement of _pset_preset)
    t.function('Graphics._pset_preset', coqname='raster_pset_write',
               param_types=dict(TYPES, x='Z', y='Z', attr='Z'), state=STATE,
               stmts=(r'^self\.graph_view\[y, x\] = attr$', r'^self\.graph_view\[y, x\] = attr$'))
    t.funcs = {}
    t.method('_draw_line')
    t.method('_draw_box_filled')
    t.method('_draw_straight')
    t.method('_draw_box')
    return gen_viewport.stable(HEADER + 'From PCB Require Import lib.GfxPrims gen.Gen_viewport.\n' + '\n'.join(t.out) + '\n')
