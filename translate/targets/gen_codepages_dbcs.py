"""Gen_codepages_dbcs.v: the two-byte entries of _cp_to_unicode of every shipped DBCS codepage (C41).

Same dumper as gen_codepages (real Codepage objects of the repo under test).  The ~130 000 entries are
emitted run-length compressed: (first keycode, [code points of consecutive keycodes]) where the keycode of the
pair l,t is 65536 + 256*l + t; entries whose value is a cluster of several code points go to a separate list.
The Coq model expands the runs (model/Codepage.v: expand_runs).
"""
from py2v import Refuse
from targets import gen_codepages

OUT = 'Gen_codepages_dbcs.v'
SOURCES = gen_codepages.SOURCES


def generate(repo):
    pages = gen_codepages.load_tables(repo)
    out = [gen_codepages.GEN_HEADER.replace('gen_codepages.py', 'gen_codepages_dbcs.py')]
    out.append('(* name -> (runs of single-code-point entries, entries with several code points) *)')
    defs = []
    total = 0
    for p in pages:
        if not p['two']:
            continue
        runs = []
        multi = []
        for k, v in p['two']:
            if len(v) != 1:
                multi.append((k, v))
            elif runs and runs[-1][0] + len(runs[-1][1]) == k:
                runs[-1][1].append(v[0])
            else:
                runs.append((k, [v[0]]))
        total += len(p['two'])
        nm = gen_codepages.ident(p['name']).replace('cp_', 'dbcs_')
        out.append('Definition %s : list (Z * list Z) * list (Z * list Z) :=\n ([%s],\n  %s).\n' % (
            nm, ';\n  '.join('(%d,%s)' % (k, gen_codepages.zl(vs)) for k, vs in runs),
            gen_codepages.pairs_zl(multi)))
        defs.append('("%s"%%string, %s)' % (p['name'], nm))
    out.append('Definition dbcs_tables : list (string * (list (Z * list Z) * list (Z * list Z))) :=\n  [%s].\n'
               % ';\n   '.join(defs))
    out.append('Definition n_dbcs_entries : Z := %d.\n' % total)
    return '\n'.join(out)
