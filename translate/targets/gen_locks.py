"""Gen_locks.v (C26, C25): regenerated from devices/diskfiles.py and devices/files.py on every run.

 (a) from the AST (fail-closed, structural patterns - no dependence on local variable names):
     - the range test inside the `for start_1, stop_1 in ...` loop of Locks._try_record_lock
       (after the `... is None and ... is None` whole-file disjunct)            -> locks_range_conflict
     - the record limits of Files._get_lock_limits and Files._check_pos           -> files_lock_limits_bad,
                                                                                     files_pos_min/max
     - the integer arithmetic of RandomFile._set_record_pos / eof / get / put: seek offset, record
       pointer, end-of-file test, gap test, number of NUL bytes written, seek offset of put
 (b) decision tables dumped by running the real Locks class of the imported module on every
     combination of mode / LOCK clause / ACCESS clause (finite domains): open_file, stored access,
     try_access, the read-only exemption for OUTPUT/APPEND lock holders.
"""
import ast
import importlib
import os
import sys

from py2v import Module, Translator, HEADER, Refuse, refuse, read_errors, zlit

OUT = 'Gen_locks.v'
SOURCES = ['pcbasic/basic/devices/diskfiles.py', 'pcbasic/basic/devices/files.py', 'pcbasic/basic/base/error.py']

MODES = [b'I', b'O', b'A', b'R']                      # code 0..3
LOCKS = [b'', b'SHARED', b'R', b'W', b'RW']           # code 0..4   (b'' stands for None / no clause)
ACCESSES = [b'', b'R', b'W', b'RW']                   # code 0..3


class T(Translator):
    """Adds: `self.lof()` and other opaque calls are refused; attribute names come from env."""
    pass


def is_none_test(node, names):
    """`a is None and b is None` over exactly the given two names (any order)."""
    if not (isinstance(node, ast.BoolOp) and isinstance(node.op, ast.And) and len(node.values) == 2):
        return False
    seen = set()
    for v in node.values:
        if not (isinstance(v, ast.Compare) and len(v.ops) == 1 and isinstance(v.ops[0], ast.Is)
                and isinstance(v.left, ast.Name) and isinstance(v.comparators[0], ast.Constant)
                and v.comparators[0].value is None):
            return False
        seen.add(v.left.id)
    return seen == set(names)


def only(lst, node, what):
    if len(lst) != 1:
        refuse(node, 'expected exactly one %s, found %d' % (what, len(lst)))
    return lst[0]


def is_perm_denied_raise(stmts):
    return (len(stmts) == 1 and isinstance(stmts[0], ast.Raise) and
            ast.unparse(stmts[0].exc) == 'error.BASICError(error.PERMISSION_DENIED)')


def gen_range_predicate(t, m):
    fn = m.find('Locks._try_record_lock')
    args = [a.arg for a in fn.args.args]
    if args[:4] != ['self', 'number', 'start', 'stop']:
        refuse(fn, '_try_record_lock signature changed: %s' % args)
    loops = [n for n in ast.walk(fn) if isinstance(n, ast.For)]
    loop = only(loops, fn, 'for loop in _try_record_lock')
    if not (isinstance(loop.target, ast.Tuple) and len(loop.target.elts) == 2
            and all(isinstance(e, ast.Name) for e in loop.target.elts)) or loop.orelse:
        refuse(loop, 'loop target is not a pair of names')
    s1, e1 = (e.id for e in loop.target.elts)
    if len(loop.body) != 1 or not isinstance(loop.body[0], ast.If) or loop.body[0].orelse:
        refuse(loop, 'loop body is not a single if')
    iff = loop.body[0]
    if not is_perm_denied_raise(iff.body):
        refuse(iff, 'the range test does not raise PERMISSION_DENIED')
    test = iff.test
    if not (isinstance(test, ast.BoolOp) and isinstance(test.op, ast.Or) and len(test.values) >= 2
            and is_none_test(test.values[0], (s1, e1))):
        refuse(iff, 'range test is not `<held> is whole-file or <integer test>`')
    # the loop must be the else-branch of the whole-file request test `stop is None and start is None`
    outer = [n for n in ast.walk(fn) if isinstance(n, ast.If) and loop in n.orelse]
    outer = only(outer, fn, 'if statement with the loop as its else branch')
    if not (is_none_test(outer.test, ('start', 'stop')) and len(outer.orelse) == 1 and len(outer.body) == 1
            and isinstance(outer.body[0], ast.If) and not outer.body[0].orelse
            and is_perm_denied_raise(outer.body[0].body) and isinstance(outer.body[0].test, ast.Name)):
        refuse(outer, 'whole-file request branch changed shape')
    rest = test.values[1:]
    node = rest[0] if len(rest) == 1 else ast.BoolOp(op=ast.Or(), values=rest)
    ast.copy_location(node, test)
    env = {'start': ('start', 'Z'), 'stop': ('stop', 'Z'), s1: ('start_1', 'Z'), e1: ('stop_1', 'Z')}
    term = t.as_bool(t.expr(node, env))
    t.emit('(* diskfiles.py:%d Locks._try_record_lock: test of a requested range against a held range\n'
           '   (after the disjunct "held range is the whole file"): %s *)' % (iff.lineno, ast.unparse(node)))
    t.emit('Definition locks_range_conflict (start stop start_1 stop_1 : Z) : bool :=\n  %s.' % term)


def gen_limits(t, mf):
    fn = mf.find('Files._get_lock_limits')
    ifs = [n for n in fn.body if isinstance(n, ast.If) and len(n.body) == 1 and isinstance(n.body[0], ast.Raise)]
    iff = only(ifs, fn, 'if ...: raise in _get_lock_limits')
    if ast.unparse(iff.body[0].exc) != 'error.BASICError(error.BAD_RECORD_NUMBER)':
        refuse(iff, 'limits test does not raise BAD_RECORD_NUMBER')
    a = [x.arg for x in fn.args.args]
    if len(a) != 3:
        refuse(fn, '_get_lock_limits signature changed')
    env = {a[1]: ('start', 'Z'), a[2]: ('stop', 'Z')}
    term = t.as_bool(t.expr(iff.test, env))
    t.emit('(* files.py:%d Files._get_lock_limits: %s *)' % (iff.lineno, ast.unparse(iff.test)))
    t.emit('Definition files_lock_limits_bad (start stop : Z) : bool :=\n  %s.' % term)
    # both-None -> whole file; missing start -> 1; missing stop -> start: checked structurally
    src = ast.unparse(fn)
    for needle in ('if %s is None and %s is None:\n        return (None, None)' % (a[1], a[2]),
                   'if %s is None:\n        %s = 1' % (a[1], a[1]),
                   'if %s is None:\n        %s = %s' % (a[2], a[2], a[1])):
        if needle not in src:
            refuse(fn, '_get_lock_limits default handling changed (%r not found)' % needle)
    fn = mf.find('Files._check_pos')
    calls = [n for n in ast.walk(fn) if isinstance(n, ast.Call) and ast.unparse(n.func) == 'error.range_check_err']
    c = only(calls, fn, 'range_check_err call in _check_pos')
    from py2v import safe_eval
    lo, hi = safe_eval(c.args[0], {}), safe_eval(c.args[1], {})
    kw = {k.arg: ast.unparse(k.value) for k in c.keywords}
    if kw != {'err': 'error.BAD_RECORD_NUMBER'}:
        refuse(c, '_check_pos does not raise BAD_RECORD_NUMBER')
    t.emit('(* files.py:%d Files._check_pos *)' % c.lineno)
    t.emit('Definition files_pos_min : Z := %s.\nDefinition files_pos_max : Z := %s.' % (zlit(lo), zlit(hi)))


def flatten_mult(node):
    if isinstance(node, ast.BinOp) and isinstance(node.op, ast.Mult):
        return flatten_mult(node.left) + flatten_mult(node.right)
    return [node]


def collect_lets(t, stmts, env, lets):
    """Top-level simple assignments `name = <pure int expr>`; `name = self.lof()` becomes the parameter lof."""
    env = dict(env)
    for s in stmts:
        if isinstance(s, ast.Assign) and len(s.targets) == 1 and isinstance(s.targets[0], ast.Name):
            name = s.targets[0].id
            if ast.unparse(s.value) == 'self.lof()':
                env[name] = ('lof', 'Z')
                continue
            try:
                term = t.as_Z(t.expr(s.value, env))
            except Refuse:
                continue
            v = 'l_' + name
            lets.append((v, term))
            env[name] = (v, 'Z')
    return env


def with_lets(lets, term):
    return ''.join('let %s := %s in ' % (v, tm) for v, tm in lets) + term


def gen_randomfile(t, m):
    base = {'self._recpos': ('recpos', 'Z'), 'self.reclen': ('reclen', 'Z')}
    # --- _set_record_pos(pos): seek((pos-1) * reclen); _recpos = pos - 1
    fn = m.find('RandomFile._set_record_pos')
    env = dict(base)
    env['pos'] = ('pos', 'Z')
    if not (len(fn.body) == 2 and isinstance(fn.body[1], ast.If) and not fn.body[1].orelse and
            ast.unparse(fn.body[1].test) == 'pos is not None'):
        refuse(fn, '_set_record_pos changed shape')
    seeks = [n for n in ast.walk(fn) if isinstance(n, ast.Call) and ast.unparse(n.func) == 'self._fhandle.seek']
    sk = only(seeks, fn, 'seek in _set_record_pos')
    if len(sk.args) != 1 or sk.keywords:
        refuse(sk, 'seek with whence in _set_record_pos')
    asg = [n for n in ast.walk(fn) if isinstance(n, ast.Assign) and ast.unparse(n.targets[0]) == 'self._recpos']
    asg = only(asg, fn, 'assignment of _recpos in _set_record_pos')
    t.emit('(* diskfiles.py:%d RandomFile._set_record_pos *)' % fn.lineno)
    t.emit('Definition rf_setpos_seek (reclen pos : Z) : Z := %s.' % t.as_Z(t.expr(sk.args[0], env)))
    t.emit('Definition rf_setpos_recpos (pos : Z) : Z := %s.' % t.as_Z(t.expr(asg.value, env)))
    # --- eof(): return <test over _recpos, reclen, self.lof()>
    fn = m.find('RandomFile.eof')
    rets = [n for n in fn.body if isinstance(n, ast.Return)]
    r = only(rets, fn, 'return in eof')

    class TL(Translator):
        def hook_call(self, node, env):
            if ast.unparse(node) == 'self.lof()':
                return ('lof', 'Z')
            return None
    tl = TL(m)
    t.emit('(* diskfiles.py:%d RandomFile.eof *)' % fn.lineno)
    t.emit('Definition rf_eof (recpos reclen lof : Z) : bool := %s.' % tl.as_bool(tl.expr(r.value, base)))
    # --- get/put: record checked against the locks, record pointer increment
    for name in ('get', 'put'):
        fn = m.find('RandomFile.' + name)
        if ast.unparse(fn.body[1]) != 'self._set_record_pos(pos)':
            refuse(fn, '%s does not start with _set_record_pos(pos)' % name)
        calls = [n for n in ast.walk(fn) if isinstance(n, ast.Call) and
                 ast.unparse(n.func) == 'self._locks.try_record_access']
        c = only(calls, fn, 'try_record_access in ' + name)
        if len(c.args) != 4 or ast.unparse(c.args[0]) != 'self._number' or \
                ast.unparse(c.args[1]) != ast.unparse(c.args[2]) or \
                ast.unparse(c.args[3]) != {'get': "b'R'", 'put': "b'W'"}[name]:
            refuse(c, 'try_record_access arguments changed in ' + name)
        t.emit('(* diskfiles.py:%d RandomFile.%s: record number checked against the locks *)' % (c.lineno, name))
        t.emit('Definition rf_%s_record (recpos : Z) : Z := %s.' % (name, t.as_Z(t.expr(c.args[1], base))))
        last = fn.body[-1]
        if not (isinstance(last, ast.AugAssign) and ast.unparse(last.target) == 'self._recpos'):
            refuse(fn, '%s does not end with an update of _recpos' % name)
        val = ast.BinOp(left=ast.Attribute(value=ast.Name(id='self', ctx=ast.Load()), attr='_recpos', ctx=ast.Load()),
                        op=last.op, right=last.value)
        ast.copy_location(val, last)
        ast.fix_missing_locations(val)
        t.emit('Definition rf_%s_next (recpos : Z) : Z := %s.' % (name, t.as_Z(t.expr(val, base))))
    # --- put: gap test, number of NUL bytes, seek offset when there is no gap
    fn = m.find('RandomFile.put')
    lets = []
    env = collect_lets(t, fn.body, base, lets)
    withs = [n for n in fn.body if isinstance(n, ast.With)]
    w = only(withs, fn, 'with block in put')
    ifs = [n for n in w.body if isinstance(n, ast.If)]
    iff = only(ifs, fn, 'if inside the with block of put')
    tail = [ast.unparse(x) for x in w.body[1:]]
    if not (w.body[0] is iff and tail[:1] == ['self._fhandle.write(bytes(self._field_file.get_buffer()))']
            and tail[1:] in ([], ['self._fhandle.flush()'])):
        refuse(w, 'with block of put changed shape')
    t.emit('(* RandomFile.put flushes the host stream after the write (the record is visible through other file '
           'numbers) *)')
    t.emit('Definition rf_put_flushes : bool := %s.' % ('true' if len(tail) == 2 else 'false'))
    # --- get: the read in the not-eof branch, with or without an absolute seek before it
    gfn = m.find('RandomFile.get')
    gifs = [n for n in gfn.body if isinstance(n, ast.If) and ast.unparse(n.test) == 'self.eof()']
    gif = only(gifs, gfn, 'if self.eof() in get')
    if not (len(gif.orelse) == 1 and isinstance(gif.orelse[0], ast.With)):
        refuse(gif, 'not-eof branch of get changed shape')
    gb = [ast.unparse(x) for x in gif.orelse[0].body]
    if gb[-1] != 'contents = self._fhandle.read(self.reclen)' or len(gb) > 2:
        refuse(gif, 'not-eof branch of get does not end with the read of one record')
    if len(gb) == 2:
        sk = gif.orelse[0].body[0]
        if not (isinstance(sk, ast.Expr) and isinstance(sk.value, ast.Call) and
                ast.unparse(sk.value.func) == 'self._fhandle.seek' and len(sk.value.args) == 1):
            refuse(sk, 'statement before the read in get is not an absolute seek')
        t.emit('(* RandomFile.get: seek before the read *)')
        t.emit('Definition rf_get_seek (recpos reclen fpos : Z) : Z := %s.' % t.as_Z(t.expr(sk.value.args[0], base)))
    else:
        t.emit('(* RandomFile.get reads at the current stream position *)')
        t.emit('Definition rf_get_seek (recpos reclen fpos : Z) : Z := fpos.')
    t.emit('(* diskfiles.py:%d RandomFile.put: `if %s:` pad from the end of the file *)' % (
        iff.lineno, ast.unparse(iff.test)))
    t.emit('Definition rf_put_gap (recpos reclen lof : Z) : bool := %s.' % with_lets(
        lets, t.as_bool(t.expr(iff.test, env))))
    lets_in = list(lets)
    env_in = collect_lets(t, iff.body, env, lets_in)
    others = [s for s in iff.body if not isinstance(s, ast.Assign)]
    if len(others) != 2 or ast.unparse(others[0]) != 'self._fhandle.seek(0, 2)':
        refuse(iff, 'gap branch of put is not seek(0, 2); write(NULs)')
    wr = others[1]
    if not (isinstance(wr, ast.Expr) and isinstance(wr.value, ast.Call) and
            ast.unparse(wr.value.func) == 'self._fhandle.write' and len(wr.value.args) == 1):
        refuse(wr, 'gap branch of put does not write')
    factors = flatten_mult(wr.value.args[0])
    nul = [f for f in factors if isinstance(f, ast.Constant) and f.value == b'\0']
    if len(nul) != 1 or factors[0] is not nul[0]:
        refuse(wr, 'gap branch of put does not write NUL bytes')
    terms = [t.as_Z(t.expr(f, env_in)) for f in factors[1:]]
    if not terms:
        refuse(wr, 'gap branch writes a single NUL')
    prod = terms[0]
    for x in terms[1:]:
        prod = '(Z.mul %s %s)' % (prod, x)
    t.emit('Definition rf_put_pad (recpos reclen lof : Z) : Z := %s.' % with_lets(lets_in, prod))
    if iff.orelse:
        if not (len(iff.orelse) == 1 and isinstance(iff.orelse[0], ast.Expr) and
                isinstance(iff.orelse[0].value, ast.Call) and
                ast.unparse(iff.orelse[0].value.func) == 'self._fhandle.seek' and
                len(iff.orelse[0].value.args) == 1):
            refuse(iff, 'else branch of put is not a single absolute seek')
        sk = t.as_Z(t.expr(iff.orelse[0].value.args[0], env))
        t.emit('(* else: seek to the record *)')
        t.emit('Definition rf_put_seek (recpos reclen fpos : Z) : Z := %s.' % with_lets(lets, sk))
    else:
        t.emit('(* no else branch: the record is written at the current stream position *)')
        t.emit('Definition rf_put_seek (recpos reclen fpos : Z) : Z := fpos.')


# ---------------------------------------------------------------------------
# decision tables by running the real class

def none_if_empty(b):
    return b if b else None


def err_of(f):
    from pcbasic.basic.base import error
    try:
        f()
        return 0
    except error.BASICError as e:
        return e.err


def gen_tables(t, repo):
    if repo not in sys.path:
        sys.path.insert(0, repo)
    df = importlib.import_module('pcbasic.basic.devices.diskfiles')
    if not os.path.abspath(df.__file__).startswith(os.path.abspath(repo) + os.sep):
        raise Refuse('pcbasic is imported from %s, not from %s' % (df.__file__, repo))

    def fresh(entries):
        lk = df.Locks()
        for num, (mode, lock, acc, lockset) in entries.items():
            p = df.LockingParameters(b'F', mode, none_if_empty(lock), none_if_empty(acc))
            p.lock_set = set(lockset)
            lk._locking_parameters[num] = p
        return lk
    # 1. open_file against one already-open file: error number (0 = accepted), new mode RANDOM
    rows = []
    for lt in LOCKS:
        for ac in ACCESSES:
            for flt in LOCKS:
                for fac in ACCESSES:
                    lk = fresh({1: (b'R', flt, fac, ())})
                    rows.append(err_of(lambda: lk.open_file(b'F', 2, b'R', none_if_empty(lt), none_if_empty(ac))))
    t.emit('(* Locks.open_file(name, 2, RANDOM, lock, access) while #1 has (lock_1, access_1): BASIC error or 0;\n'
           '   index ((lock*4 + access)*5 + lock_1)*4 + access_1; codes: lock 0 none 1 SHARED 2 R 3 W 4 RW;\n'
           '   access 0 none 1 R 2 W 3 RW *)')
    t.emit('Definition locks_open_table : list Z := [%s].' % '; '.join(zlit(x) for x in rows))
    # 2. the same decision does not depend on either mode, except the OUTPUT/APPEND rule
    rows = []
    for mode in MODES:
        for fmode in MODES:
            same = True
            first = None
            for lt in LOCKS:
                for ac in ACCESSES:
                    for flt in LOCKS:
                        for fac in ACCESSES:
                            lk = fresh({1: (fmode, flt, fac, ())})
                            e = err_of(lambda: lk.open_file(b'F', 2, mode, none_if_empty(lt), none_if_empty(ac)))
                            lk2 = fresh({1: (b'R', flt, fac, ())})
                            e2 = err_of(lambda: lk2.open_file(b'F', 2, b'R', none_if_empty(lt), none_if_empty(ac)))
                            if first is None:
                                first = e
                            if mode in (b'O', b'A'):
                                same = same and e == first
                            else:
                                same = same and e == e2
            if not same:
                raise Refuse('Locks.open_file: decision depends on the modes in an unexpected way (%r, %r)' % (mode, fmode))
            rows.append(first if mode in (b'O', b'A') else 0)
    t.emit('(* Locks.open_file: index new_mode*4 + open_mode (0 I 1 O 2 A 3 R): the error raised for every lock/access\n'
           '   combination when the new mode is O or A; 0 = decided by locks_open_table alone (checked by the dumper) *)')
    t.emit('Definition locks_open_mode_table : list Z := [%s].' % '; '.join(zlit(x) for x in rows))
    # 3. access stored for the new file
    rows = []
    for lt in LOCKS:
        for ac in ACCESSES:
            lk = fresh({})
            lk.open_file(b'F', 2, b'R', none_if_empty(lt), none_if_empty(ac))
            st = lk._locking_parameters[2]
            if (st.lock_type or b'') != lt or st.mode != b'R' or st.lock_set != set() or st.name != b'F':
                raise Refuse('Locks.open_file stores unexpected parameters')
            rows.append(ACCESSES.index(st.access or b''))
    t.emit('(* access recorded by Locks.open_file: index lock*4 + access *)')
    t.emit('Definition locks_stored_access_table : list Z := [%s].' % '; '.join(zlit(x) for x in rows))
    # 4. try_access: own ACCESS clause, others' LOCK clause
    rows = []
    for fac in ACCESSES:
        for a in (b'R', b'W'):
            lk = fresh({1: (b'R', b'SHARED', fac, ())})
            rows.append(err_of(lambda: lk.try_access(1, a)))
    t.emit('(* Locks.try_access(1, a) against the own ACCESS clause: index access_1*2 + (0 for R, 1 for W) *)')
    t.emit('Definition locks_own_access_table : list Z := [%s].' % '; '.join(zlit(x) for x in rows))
    rows = []
    for flt in LOCKS:
        for a in (b'R', b'W'):
            lk = fresh({1: (b'R', b'', b'', ()), 2: (b'R', flt, b'RW', ())})
            rows.append(err_of(lambda: lk.try_access(1, a)))
    t.emit('(* Locks.try_access(1, a) against the LOCK clause of another open file: index lock_2*2 + (0 R, 1 W) *)')
    t.emit('Definition locks_other_lock_table : list Z := [%s].' % '; '.join(zlit(x) for x in rows))
    # 5. try_record_access: a record lock held by #2 (mode m) on record 1 blocks R / W access by #1 ?
    rows = []
    for fmode in MODES:
        for a in (b'R', b'W'):
            lk = fresh({1: (b'R', b'', b'', ()), 2: (fmode, b'', b'', ((1, 1),))})
            rows.append(err_of(lambda: lk.try_record_access(1, 1, 1, a)))
    t.emit('(* Locks.try_record_access(1, 1, 1, a) while #2 (mode m) holds (1, 1): index m*2 + (0 R, 1 W) *)')
    t.emit('Definition locks_holder_mode_table : list Z := [%s].' % '; '.join(zlit(x) for x in rows))
    # own locks never block own access; own locks do block an own LOCK request
    lk = fresh({1: (b'R', b'', b'', ((1, 1),))})
    own_access = err_of(lambda: lk.try_record_access(1, 1, 1, b'W'))
    own_lock = err_of(lambda: lk.acquire_record_lock(1, 1, 1))
    t.emit('Definition locks_own_lock_blocks_access : Z := %s.\nDefinition locks_own_lock_blocks_lock : Z := %s.' % (
        zlit(own_access), zlit(own_lock)))


def generate(repo):
    m = Module(os.path.join(repo, SOURCES[0]))
    mf = Module(os.path.join(repo, SOURCES[1]))
    errs = read_errors(repo)
    t = T(m, prefix='locks_', errors=errs)
    for name in ('PERMISSION_DENIED', 'FILE_ALREADY_OPEN', 'PATH_FILE_ACCESS_ERROR', 'BAD_RECORD_NUMBER',
                 'BAD_FILE_NUMBER', 'BAD_FILE_MODE', 'FILE_NOT_FOUND', 'FIELD_OVERFLOW', 'IFC', 'STX'):
        if name not in errs:
            raise Refuse('error.%s not found' % name)
        t.emit('Definition locks_err_%s : Z := %s.' % (name, zlit(errs[name])))
    gen_range_predicate(t, m)
    gen_limits(t, mf)
    gen_randomfile(t, m)
    gen_tables(t, repo)
    return HEADER + '\n'.join(t.out) + '\n'
