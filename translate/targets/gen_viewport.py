"""Gen_viewport.v: the clip arithmetic of display/graphics.py:GraphicsViewPort (C30, C31).

The viewport object is its fields, passed as leading parameters of every translated method:
    _absolute : bool, _rect = (r0, r1, r2, r3) : Z^4, _max_width, _max_height : Z
Translated: width, height (properties), get_bounds, contains, _convert_coords, cutoff_coord and
_convert_slice (argument: a pair of `idx` = int | slice(start, stop) with optional bounds, lib/GfxPrims.v).
Idioms added to py2v here (everything else is refused):
    self._rect[k] (k constant), `return self._rect`, self.width / self.height (property calls),
    self.m(args) for translated methods, isinstance(v, slice), slice(a, b), v.start / v.stop,
    `if v is None: v = e` (option default), `assert v.step is None` (slices carry no step in the model),
    ints flowing into a returned index pair are wrapped as IInt.
"""
import ast
import os

from py2v import Module, Translator, Ctx, HEADER, Refuse, refuse

OUT = 'Gen_viewport.v'
SOURCES = ['pcbasic/basic/display/graphics.py']

CLASS = 'GraphicsViewPort'
VP_STATE = ['self._absolute', 'self._rect0', 'self._rect1', 'self._rect2', 'self._rect3',
            'self._max_width', 'self._max_height']
VP_TYPES = {'self._absolute': 'bool'}
IDX = 'idx'
OPT = 'option Z'
IDXPAIR = '(idx * idx)'


class VPTranslator(Translator):
    """py2v + the idioms of GraphicsViewPort."""

    def var(self, name):
        return 'v_' + name.replace('.', '_')

    # ---- coercions
    def as_Z(self, t):
        term, ty = t
        if ty == IDX:
            return '(idx_int %s)' % term
        return Translator.as_Z(self, t)

    # ---- expressions
    def hook_expr(self, node, env):
        # self._rect[k]
        if isinstance(node, ast.Subscript) and self.dotted(node.value) == 'self._rect':
            if isinstance(node.slice, ast.Constant) and node.slice.value in (0, 1, 2, 3):
                return env['self._rect%d' % node.slice.value]
            refuse(node, 'self._rect subscripted with a non-constant')
        if isinstance(node, ast.Attribute):
            d = self.dotted(node)
            if d == 'self._rect':
                return ('(' + ', '.join(env['self._rect%d' % k][0] for k in range(4)) + ')', '(Z * Z * Z * Z)')
            if d in ('self.width', 'self.height') and d in self.funcs:
                f = self.funcs[d]
                return '(%s %s)' % (f.coqname, ' '.join(env[a][0] for a in f.state_in)), f.ret_ty
            # slice attributes
            if isinstance(node.value, ast.Name) and node.value.id in env and env[node.value.id][1] == IDX:
                if node.attr == 'start':
                    return '(slice_start %s)' % env[node.value.id][0], OPT
                if node.attr == 'stop':
                    return '(slice_stop %s)' % env[node.value.id][0], OPT
        return None

    def hook_call(self, node, env):
        fname = self.dotted(node.func) if isinstance(node.func, (ast.Attribute, ast.Name)) else None
        if fname == 'isinstance' and len(node.args) == 2 and isinstance(node.args[1], ast.Name) \
                and node.args[1].id == 'slice':
            t = self.expr(node.args[0], env)
            if t[1] == IDX:
                return '(is_slice %s)' % t[0], 'bool'
            if t[1] == 'Z':
                return 'false', 'bool'
            refuse(node, 'isinstance(.., slice) on a value of type %s' % t[1])
        if fname == 'slice' and len(node.args) == 2 and not node.keywords:
            a, b = (self.as_Z(self.expr(x, env)) for x in node.args)
            return '(ISlice (Some %s) (Some %s))' % (a, b), IDX
        if fname and fname.startswith('self.') and fname in self.funcs:
            f = self.funcs[fname]
            if f.monadic or f.state_out:
                return None
            if node.keywords or len(node.args) != len(f.params):
                refuse(node, 'call arity mismatch for %s' % fname)
            args = [env[a][0] for a in f.state_in]
            for a, (pn, pt) in zip(node.args, f.params):
                t = self.expr(a, env)
                args.append(self.as_Z(t) if pt == 'Z' else self.as_bool(t) if pt == 'bool' else t[0])
            return '(%s %s)' % (f.coqname, ' '.join(args)), f.ret_ty
        return None

    # ---- statements
    def hook_stmt(self, s, rest, env, ctx, k):
        # assert v.step is None
        if isinstance(s, ast.Assert):
            t = s.test
            if (isinstance(t, ast.Compare) and len(t.ops) == 1 and isinstance(t.ops[0], ast.Is)
                    and isinstance(t.left, ast.Attribute) and t.left.attr == 'step'
                    and isinstance(t.left.value, ast.Name) and env.get(t.left.value.id, (None, None))[1] == IDX
                    and isinstance(t.comparators[0], ast.Constant) and t.comparators[0].value is None):
                return self.block(rest, env, ctx, k)
            refuse(s, 'unsupported assert %s' % ast.unparse(s))
        # if v is None: v = e
        if isinstance(s, ast.If) and not s.orelse and len(s.body) == 1:
            t = s.test
            b = s.body[0]
            if (isinstance(t, ast.Compare) and len(t.ops) == 1 and isinstance(t.ops[0], ast.Is)
                    and isinstance(t.left, ast.Name) and isinstance(t.comparators[0], ast.Constant)
                    and t.comparators[0].value is None):
                name = t.left.id
                if not (isinstance(b, ast.Assign) and len(b.targets) == 1 and isinstance(b.targets[0], ast.Name)
                        and b.targets[0].id == name and name in env and env[name][1] == OPT):
                    refuse(s, 'unsupported `is None` test')
                d = self.as_Z(self.expr(b.value, env))
                env2, v = self.bind_name(env, name, 'Z')
                return 'let %s := opt_default %s %s in\n%s' % (v, env[name][0], d, self.block(rest, env2, ctx, k))
        # return of an index pair: wrap ints
        if isinstance(s, ast.Return) and getattr(ctx, 'idx_pair_result', False) and isinstance(s.value, ast.Tuple) \
                and len(s.value.elts) == 2:
            parts = []
            for e in s.value.elts:
                term, ty = self.expr(e, env)
                if ty == 'Z':
                    term = '(IInt %s)' % term
                elif ty != IDX:
                    refuse(s, 'index pair component of type %s' % ty)
                parts.append(term)
            return ctx.ret(self, ('(' + ', '.join(parts) + ')', IDXPAIR), env)
        return None

    def assign(self, s, target, value, rest, env, ctx, k):
        # `yslice, xslice = slice_tuple` where slice_tuple : (idx * idx)
        return Translator.assign(self, s, target, value, rest, env, ctx, k)

    def method(self, name, param_types=None, idx_pair_result=False):
        """Translate GraphicsViewPort.<name> with the viewport fields as leading parameters."""
        qual = CLASS + '.' + name
        node = self.m.find(qual)
        # properties are plain functions of the fields
        self._idx_pair_result = idx_pair_result
        pt = dict(VP_TYPES)
        pt.update(param_types or {})
        return self.function(qual, coqname=self.prefix + self.cname(name), param_types=pt, state=VP_STATE)

    def function(self, qualname, **kw):
        # mark the context of _convert_slice so that `return` wraps ints (Ctx is created inside function())
        flag = getattr(self, '_idx_pair_result', False)
        if not flag:
            return Translator.function(self, qualname, **kw)
        orig = Ctx.__init__

        def patched(this, *a, **k2):
            orig(this, *a, **k2)
            this.idx_pair_result = True
        Ctx.__init__ = patched
        try:
            return Translator.function(self, qualname, **kw)
        finally:
            Ctx.__init__ = orig
            self._idx_pair_result = False


def check_field_stores(m):
    """Fail closed unless the viewport fields are assigned only where the model assumes:
    _pixels in __init__/set_page; _rect/_absolute/_active in __init__/unset/set; _max_* in __init__."""
    cls = m.find(CLASS)
    allowed = {
        '_pixels': {'__init__', 'set_page'},
        '_rect': {'__init__', 'unset', 'set'},
        '_absolute': {'__init__', 'unset', 'set'},
        '_active': {'__init__', 'unset', 'set'},
        '_max_width': {'__init__'},
        '_max_height': {'__init__'},
    }
    for fn in cls.body:
        if not isinstance(fn, ast.FunctionDef):
            continue
        for n in ast.walk(fn):
            targets = []
            if isinstance(n, ast.Assign):
                targets = n.targets
            elif isinstance(n, (ast.AugAssign, ast.AnnAssign)):
                targets = [n.target]
            flat = []
            for t in targets:
                flat += list(t.elts) if isinstance(t, (ast.Tuple, ast.List)) else [t]
            for t in flat:
                if isinstance(t, ast.Attribute) and isinstance(t.value, ast.Name) and t.value.id == 'self':
                    if t.attr not in allowed:
                        refuse(n, 'GraphicsViewPort assigns unknown field %s' % t.attr)
                    if fn.name not in allowed[t.attr]:
                        refuse(n, 'GraphicsViewPort.%s assigns self.%s' % (fn.name, t.attr))


def setitem_shape(m):
    """Fail closed unless __setitem__ is exactly `self._pixels[self._convert_slice(index)] = data`."""
    fn = m.find(CLASS + '.__setitem__')
    body = [s for s in fn.body if not (isinstance(s, ast.Expr) and isinstance(s.value, ast.Constant))]
    if len(body) != 1 or ast.unparse(body[0]) != 'self._pixels[self._convert_slice(index)] = data':
        refuse(fn, 'GraphicsViewPort.__setitem__ is not the single statement '
                   '`self._pixels[self._convert_slice(index)] = data`')
    args = [a.arg for a in fn.args.args]
    if args != ['self', 'index', 'data']:
        refuse(fn, 'GraphicsViewPort.__setitem__ signature changed')


def make_translator(m, out=None):
    t = VPTranslator(m, prefix='viewport_')
    if out is not None:
        t.out = out
    t.method('width')
    t.method('height')
    t.method('get_bounds')
    t.method('contains')
    t.method('_convert_coords')
    t.method('cutoff_coord')
    t.method('_convert_slice', param_types={'slice_tuple': IDXPAIR}, idx_pair_result=True)
    return t


def stable(text):
    """Drop source line numbers and tree prefixes from the provenance comments, so that an edit elsewhere in the
    file (or running against a scratch worktree) does not change the generated text and force a rebuild."""
    import re
    return re.sub(r'\(\* \S*?(pcbasic/[\w/.]+):\d+ ', r'(* \1 ', text)


def generate(repo):
    m = Module(os.path.join(repo, SOURCES[0]))
    check_field_stores(m)
    setitem_shape(m)
    t = make_translator(m)
    return stable(HEADER + 'From PCB Require Import lib.GfxPrims.\n' + '\n'.join(t.out) + '\n')
