"""Gen_funnel.v: OS error translation table of devices/disk.py, soft error types of FloatErrorHandler, exception
classes caught by float_safe / safe_io / _handle_exceptions (C01)."""
import ast
import errno
import os
from py2v import Module, HEADER, read_errors, Refuse, refuse, zlit

OUT = 'Gen_funnel.v'
SOURCES = ['pcbasic/basic/devices/disk.py', 'pcbasic/basic/values/values.py', 'pcbasic/basic/devices/devicebase.py',
           'pcbasic/basic/implementation.py']

# codes of exception classes in model/Funnel.v
CLASSES = {'ValueError': 1, 'ArithmeticError': 2, 'OverflowError': 3, 'ZeroDivisionError': 4,
           'EnvironmentError': 5, 'OSError': 5, 'IOError': 5,
           'error.BASICError': 10, 'error.Break': 11, 'error.Exit': 12, 'error.Reset': 13}


def handler_classes(node):
    """exception classes named in the `except` clauses of a try statement, in order"""
    res = []
    for h in node.handlers:
        t = h.type
        names = t.elts if isinstance(t, ast.Tuple) else [t]
        row = []
        for n in names:
            s = ast.unparse(n)
            if s not in CLASSES:
                refuse(n, 'unexpected exception class %s' % s)
            row.append(CLASSES[s])
        res.append(row)
    return res


def first_try(fn):
    for n in ast.walk(fn):
        if isinstance(n, ast.Try):
            return n
    refuse(fn, 'no try statement found')


def generate(repo):
    errs = read_errors(repo)
    out = [HEADER]
    # OS_ERROR table
    m = Module(os.path.join(repo, SOURCES[0]))
    node = m.find('OS_ERROR')
    if not isinstance(node.value, ast.Dict):
        raise Refuse('OS_ERROR is not a dict literal')
    rows = []
    for k, v in zip(node.value.keys, node.value.values):
        ks, vs = ast.unparse(k), ast.unparse(v)
        if not ks.startswith('errno.') or not hasattr(errno, ks[6:]):
            refuse(k, 'unexpected OS_ERROR key %s' % ks)
        if not vs.startswith('error.') or vs[6:] not in errs:
            refuse(v, 'unexpected OS_ERROR value %s' % vs)
        rows.append('(%d, %d)' % (getattr(errno, ks[6:]), errs[vs[6:]]))
    out.append('Definition funnel_OS_ERROR : list (Z * Z) := [%s].' % '; '.join(rows))
    # default of handle_oserror
    fn = m.find('handle_oserror')
    default = None
    for n in ast.walk(fn):
        if isinstance(n, ast.Assign) and ast.unparse(n.targets[0]) == 'basic_err' and ast.unparse(n.value).startswith('error.'):
            default = errs[ast.unparse(n.value)[6:]]
    if default is None:
        raise Refuse('handle_oserror: default error not found')
    if not any(isinstance(n, ast.Raise) and ast.unparse(n.exc) == 'error.BASICError(basic_err)' for n in ast.walk(fn)):
        raise Refuse('handle_oserror does not end in raise error.BASICError(basic_err)')
    out.append('Definition funnel_oserror_default : Z := %d.' % default)
    # float_safe: caught classes ; FloatErrorHandler.soft_types and the class -> error mapping
    mv = Module(os.path.join(repo, SOURCES[1]))
    fs = handler_classes(first_try(mv.find('float_safe')))
    out.append('Definition funnel_float_safe_catches : list Z := [%s].' % '; '.join(str(c) for c in fs[0]))
    soft = mv.find('FloatErrorHandler.soft_types')
    softs = []
    for e in soft.value.elts:
        s = ast.unparse(e)
        if not s.startswith('error.') or s[6:] not in errs:
            refuse(e, 'unexpected soft type')
        softs.append(errs[s[6:]])
    out.append('Definition funnel_soft_types : list Z := [%s].' % '; '.join(str(c) for c in softs))
    handle = mv.find('FloatErrorHandler.handle')
    mapping = []
    first_if = [n for n in handle.body if isinstance(n, ast.If)][0]
    cur = first_if
    while True:
        test = ast.unparse(cur.test)
        if not test.startswith('isinstance(e, ') :
            refuse(cur, 'unexpected test in FloatErrorHandler.handle: %s' % test)
        cls = test[len('isinstance(e, '):-1]
        asg = cur.body[-1]
        val = ast.unparse(asg.value)
        if cls not in CLASSES or not val.startswith('error.'):
            refuse(cur, 'unexpected mapping in FloatErrorHandler.handle')
        mapping.append('(%d, %d)' % (CLASSES[cls], errs[val[6:]]))
        if len(cur.orelse) == 1 and isinstance(cur.orelse[0], ast.If):
            cur = cur.orelse[0]
        else:
            break
    out.append('Definition funnel_float_error_map : list (Z * Z) := [%s].' % '; '.join(mapping))
    # safe_io
    md = Module(os.path.join(repo, SOURCES[2]))
    sio = handler_classes(first_try(md.find('safe_io')))
    out.append('Definition funnel_safe_io_catches : list Z := [%s].' % '; '.join(str(c) for c in sio[0]))
    # _handle_exceptions: classes handled, in order
    mi = Module(os.path.join(repo, SOURCES[3]))
    he = handler_classes(first_try(mi.find('Implementation._handle_exceptions')))
    out.append('Definition funnel_handle_exceptions : list (list Z) := [%s].' % '; '.join(
        '[' + '; '.join(str(c) for c in row) + ']' for row in he))
    # error numbers that have a message (valid BASIC errors)
    nums = sorted(set(v for k, v in errs.items() if isinstance(v, int) and 1 <= v <= 255))
    out.append('Definition funnel_error_numbers : list Z := [%s].' % '; '.join(str(n) for n in nums))
    return '\n'.join(out) + '\n'
