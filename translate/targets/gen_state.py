"""Gen_state.v: header layout, expected header values and the accept/reject checks of
pcbasic/basic/state.py:load_session (C40).

* layout/values: dumped by importing pcbasic.basic.state from the repo under check in a subprocess
  (HEADER values depend on the running Python and the package version, exactly as in load_session);
* the checks: the run of `if ...: raise ValueError(...)` statements between the header unpacking and
  `pickle.loads(zlib.decompress(blob))` is translated by py2v (fail-closed) into
  `state_load_check checksum h_<key>... : res unit`;
* the glue around it (read 24 bytes + rest, crc32 & 0xffffffff, struct.unpack into HEADER_KEYS, struct.error ->
  ValueError; save_session's pack) is hand-modelled in model/StateFile.v; this target REFUSES when those
  statements change shape.
"""
import ast
import json
import os
import re
import subprocess
import sys

from py2v import Module, Translator, HEADER, Refuse, refuse

OUT = 'Gen_state.v'
SOURCES = ['pcbasic/basic/state.py', 'pcbasic/basic/base/tokens.py']


def dump_constants(repo):
    code = ('import json, struct; from pcbasic.basic import state; '
            'from pcbasic.basic.base import tokens as tk; '
            'print(json.dumps({"fmt": state.HEADER_FORMAT, "keys": list(state.HEADER_KEYS), '
            '"header": state.HEADER, "size": struct.calcsize(state.HEADER_FORMAT), '
            '"rem": list(tk.REM), "end_line": [list(x) for x in tk.END_LINE], '
            '"end_statement": [list(x) for x in tk.END_STATEMENT], '
            '"plus_bytes": sorted([list(k), v] for k, v in tk.PLUS_BYTES.items())}))')
    env = dict(os.environ)
    env['PYTHONPATH'] = repo
    env['PYTHONDONTWRITEBYTECODE'] = '1'
    p = subprocess.run([sys.executable, '-c', code], env=env, stdout=subprocess.PIPE, stderr=subprocess.PIPE,
                       timeout=120, universal_newlines=True)
    if p.returncode != 0:
        raise Refuse('cannot import pcbasic.basic.state from %s: %s' % (repo, p.stderr[-500:]))
    return json.loads(p.stdout.strip().splitlines()[-1])


class StateTranslator(Translator):
    """header_dict['k'] -> parameter h_k ; HEADER['k'] -> dumped constant state_HEADER_k."""

    keys = ()
    chosen = None

    def hook_expr(self, node, env):
        if (isinstance(node, ast.Subscript) and isinstance(node.value, ast.Name)
                and isinstance(node.slice, ast.Constant) and isinstance(node.slice.value, str)):
            key = node.slice.value
            if node.value.id == 'header_dict':
                if key not in self.keys:
                    refuse(node, 'header_dict[%r]: unknown header key' % key)
                return env['h_' + key]
            if node.value.id == 'HEADER':
                if ('HEADER.' + key) not in self.consts:
                    refuse(node, 'HEADER[%r]: unknown key' % key)
                return self.consts['HEADER.' + key]
        return None

    def select(self, node, body, start_re, end_re):
        return self.chosen


def norm(node):
    return re.sub(r'\s+', ' ', ast.unparse(node))


def split_load_session(fn):
    """-> list of check statements; refuses unless the surrounding glue has the modelled shape."""
    body = [s for s in fn.body
            if not (isinstance(s, ast.Expr) and isinstance(s.value, ast.Constant))]
    texts = [norm(s) for s in body]
    # 0: empty file name; 1: with open(...) reading header and blob; 2: checksum; 3: try/unpack
    want_prefix = [
        r"^if not state_file: raise ValueError\(",
        r"^with open\(state_file, 'rb'\) as in_file: header = in_file\.read\(struct\.calcsize\(HEADER_FORMAT\)\) "
        r"blob = in_file\.read\(\)$",
        r"^checksum = zlib\.crc32\(blob\) & 4294967295$",
        r"^try: header_dict = dict\(zip\(HEADER_KEYS, struct\.unpack\(HEADER_FORMAT, header\)\)\) "
        r"except struct\.error: raise ValueError\(",
    ]
    if len(body) < len(want_prefix) + 2:
        refuse(fn, 'load_session: unexpected shape (too few statements)')
    for i, pat in enumerate(want_prefix):
        if not re.search(pat, texts[i]):
            refuse(body[i], 'load_session: statement %d is not the modelled glue: %s' % (i, texts[i][:120]))
    if not re.search(r"^session = pickle\.loads\(zlib\.decompress\(blob\)\)$", texts[-2]) or \
            texts[-1] != 'return session':
        refuse(body[-2], 'load_session: tail is not `session = pickle.loads(zlib.decompress(blob)); return session`')
    checks = body[len(want_prefix):-2]
    for s in checks:
        ok = (isinstance(s, ast.If) and not s.orelse and len(s.body) == 1 and isinstance(s.body[0], ast.Raise))
        if not ok:
            refuse(s, 'load_session: statement between unpack and unpickle is not `if ..: raise ..`')
    return checks


def check_save_session(fn):
    texts = [norm(s) for s in fn.body
             if not (isinstance(s, ast.Expr) and isinstance(s.value, ast.Constant))]
    want = [
        r"^if not state_file: raise ValueError\(",
        r"^blob = zlib\.compress\(pickle\.dumps\(obj, pickle\.HIGHEST_PROTOCOL\)\)$",
        r"^checksum = zlib\.crc32\(blob\) & 4294967295$",
        r"^header_dict = dict\(checksum=checksum, \*\*HEADER\)$",
        r"^header = struct\.pack\(HEADER_FORMAT, \*\(header_dict\[_key\] for _key in HEADER_KEYS\)\)$",
        r"^with open\(state_file, 'wb'\) as out_file: out_file\.write\(header\) out_file\.write\(blob\)$",
    ]
    if len(texts) != len(want):
        refuse(fn, 'save_session: unexpected number of statements')
    for i, pat in enumerate(want):
        if not re.search(pat, texts[i]):
            refuse(fn, 'save_session: statement %d is not the modelled one: %s' % (i, texts[i][:120]))


def generate(repo):
    m = Module(os.path.join(repo, SOURCES[0]))
    c = dump_constants(repo)
    fmt, keys, header, size = c['fmt'], c['keys'], c['header'], c['size']
    # the hand model decodes little-endian unsigned 4-byte fields
    if not re.match(r'^<[LI]+$', fmt) or len(fmt) - 1 != len(keys) or size != 4 * len(keys):
        raise Refuse('HEADER_FORMAT %r / HEADER_KEYS %r: not a sequence of little-endian 4-byte fields' % (fmt, keys))
    if keys[0] != 'checksum' or sorted(keys[1:]) != sorted(header):
        raise Refuse('HEADER_KEYS %r do not match checksum + HEADER %r' % (keys, sorted(header)))
    for k, v in header.items():
        if not (isinstance(v, int) and 0 <= v < 2 ** 32):
            raise Refuse('HEADER[%r] = %r does not fit an unsigned 4-byte field' % (k, v))
    t = StateTranslator(m, prefix='state_')
    t.keys = tuple(keys)
    t.add_const('header_size', size)
    t.add_const('header_nfields', len(keys))
    for k in keys[1:]:
        t.add_const('HEADER.' + k, header[k])
    # expected values in file order (after the checksum field)
    t.emit('Definition state_header_values : list Z := %s.' % (
        '[' + '; '.join('state_HEADER_%s' % k for k in keys[1:]) + ']'))
    t.emit('(* field order: %s *)' % ', '.join(keys))
    # token constants used by Interpreter.__setstate__ / TokenisedStream.skip_to (model/Resume.v)
    if len(c['rem']) != 1 or any(len(k) != 1 for k, _ in c['plus_bytes']):
        raise Refuse('tokens: REM / PLUS_BYTES keys are not single bytes')
    if sorted(c['end_line']) != [[], [0]] or sorted(c['end_statement']) != [[], [0], [58]]:
        raise Refuse('tokens: END_LINE / END_STATEMENT are not (NUL, EOF) / (NUL, EOF, colon): %r %r' % (
            c['end_line'], c['end_statement']))
    t.add_const('tk_REM', c['rem'][0])
    t.emit('Definition state_tk_plus_bytes : list (Z * Z) := [%s].' % '; '.join(
        '(%d, %d)' % (k[0], v) for k, v in c['plus_bytes']))
    t.chosen = split_load_session(m.find('load_session'))
    check_save_session(m.find('save_session'))
    params = {'checksum': 'Z'}
    for k in keys:
        params['h_' + k] = 'Z'
    t.function('load_session', coqname='state_load_check', param_types=params, stmts=('', ''),
               force_monadic=True)
    return HEADER + '\n'.join(t.out) + '\n'
