"""Gen_dosnames.v: TABLE DUMPER for C27/C28 (model/DosNames.v, model/Paths.v).

Imports devices/disk.py, devices/files.py, base/error.py of the repo under test in a fresh interpreter
(PYTHONPATH=<repo>) and prints as Coq literals over Z:

  dn_allowable        sorted(ALLOWABLE_CHARS)            (disk.py)
  dn_cp               the 256 code points of the default codepage as used by DiskDevice
                      (codepage.bytes_to_unicode(bytes([b]), box_protect=False) of a real Session)
  dn_u2c              the reverse map used by _get_dos_display_name for names that are not legal DOS names
                      (codepage.unicode_to_bytes(chr(u), errors='replace') for u < 0x2800 whose image is
                      not b'?', as pairs (u, byte))
  dn_drive_letters    files.DRIVE_LETTERS, dn_dos_device_files  files.DOS_DEVICE_FILES
  dn_devices          the device names Files creates that are NOT disk drives (SCRN: KYBD: CAS1: ...)
  dn_E_*              the BASIC error numbers raised by the modelled code
  dn_oserr            OS_ERROR restricted to the errno values the posix-lite host model can produce

The dumper refuses (py2v.Refuse) when a table has a shape the model does not cover.
"""
import json
import os
import subprocess

from py2v import Refuse, HEADER

OUT = 'Gen_dosnames.v'
SOURCES = ['pcbasic/basic/devices/disk.py', 'pcbasic/basic/devices/files.py', 'pcbasic/basic/base/error.py',
           'pcbasic/basic/codepage.py']
PY = '/venv/bin/python'

ERRS = ['BAD_FILE_NUMBER', 'FILE_NOT_FOUND', 'BAD_FILE_MODE', 'FILE_ALREADY_OPEN', 'DEVICE_IO_ERROR',
        'FILE_ALREADY_EXISTS', 'BAD_FILE_NAME', 'DEVICE_UNAVAILABLE', 'RENAME_ACROSS_DISKS',
        'PATH_FILE_ACCESS_ERROR', 'PATH_NOT_FOUND', 'PERMISSION_DENIED']

_DUMP = r'''
import json, sys, errno
from pcbasic.basic import Session
from pcbasic.basic.devices import disk, files
from pcbasic.basic.base import error

def bad(msg):
    print(json.dumps({'refuse': msg}))
    sys.exit(0)

out = {}
al = disk.ALLOWABLE_CHARS
if not all(isinstance(c, int) and 0 <= c < 128 for c in al):
    bad('ALLOWABLE_CHARS is not a set of ASCII byte values: %r' % (al,))
out['allowable'] = sorted(al)
with Session(input_streams=None, output_streams=None, devices={'Z': None}) as s:
    s.execute('REM')
    cp = s._impl.codepage
    tab = []
    for b in range(256):
        u = cp.bytes_to_unicode(bytes([b]), box_protect=False)
        if len(u) != 1:
            bad('codepage byte %d maps to %r, not one code point' % (b, u))
        tab.append(ord(u))
    out['cp'] = tab
    # bytewise? (not a DBCS page)
    probe = bytes(range(1, 256))
    if [ord(c) for c in cp.bytes_to_unicode(probe, box_protect=False)] != tab[1:]:
        bad('bytes_to_unicode is not a bytewise map on the default codepage')
    u2c = []
    for u in range(0x2800):
        if 0xd800 <= u < 0xe000:
            continue
        r = cp.unicode_to_bytes(chr(u), errors='replace')
        # (combining marks and other characters whose image is not one byte are outside the model:
        #  the harness never puts them into host file names)
        if len(r) == 1 and (r != b'?' or u == 63):
            u2c.append([u, r[0]])
    out['u2c'] = u2c
    out['devices'] = sorted(list(k[:-1]) for k in s._impl.files._devices.keys()
                            if not (len(k) == 2 and k[:1] in files.DRIVE_LETTERS))
out['drive_letters'] = list(files.DRIVE_LETTERS)
out['dos_device_files'] = [list(x) for x in files.DOS_DEVICE_FILES]
out['errs'] = {k: getattr(error, k) for k in __ERRS__}
out['oserr'] = {k: disk.OS_ERROR.get(getattr(errno, k), error.DEVICE_IO_ERROR)
                for k in ('ENOENT', 'EISDIR', 'ENOTDIR', 'EEXIST', 'ENOTEMPTY', 'EINVAL')}
print(json.dumps(out))
'''


def zl(l):
    return '[' + '; '.join(('(%d)' % x if x < 0 else '%d' % x) for x in l) + ']'


def generate(repo):
    env = dict(os.environ)
    env['PYTHONPATH'] = repo
    env['PYTHONHASHSEED'] = '0'
    env['PYTHONDONTWRITEBYTECODE'] = '1'
    p = subprocess.run([PY, '-c', _DUMP.replace('__ERRS__', repr(ERRS))], env=env, stdout=subprocess.PIPE, stderr=subprocess.PIPE,
                       universal_newlines=True, timeout=120)
    if p.returncode != 0:
        raise Refuse('table dump failed: ' + p.stderr[-2000:])
    d = json.loads(p.stdout.strip().splitlines()[-1])
    if 'refuse' in d:
        raise Refuse(d['refuse'])
    o = [HEADER]
    o.append('Definition dn_allowable : list Z := %s.' % zl(d['allowable']))
    o.append('Definition dn_cp : list Z := %s.' % zl(d['cp']))
    o.append('Definition dn_u2c : list (Z * Z) := [%s].' % '; '.join('(%d, %s)' % (u, '(-1)' if b < 0 else b)
                                                                  for u, b in d['u2c']))
    if len(d['u2c']) > 600:
        raise Refuse('reverse codepage table unexpectedly large: %d' % len(d['u2c']))
    o.append('Definition dn_drive_letters : list Z := %s.' % zl(d['drive_letters']))
    o.append('Definition dn_dos_device_files : list (list Z) := [%s].' % '; '.join(zl(x) for x in d['dos_device_files']))
    o.append('Definition dn_devices : list (list Z) := [%s].' % '; '.join(zl(x) for x in d['devices']))
    for k in ERRS:
        o.append('Definition dn_E_%s : Z := %d.' % (k, d['errs'][k]))
    for k in sorted(d['oserr']):
        o.append('Definition dn_OS_%s : Z := %d.' % (k, d['oserr'][k]))
    return '\n'.join(o) + '\n'
