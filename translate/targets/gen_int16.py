"""Gen_int16.v: numbers.Integer arithmetic on its 2-byte buffer and the integer operator functions of
values.py (C02; also used by C05/C06).

An Integer object is its buffer, a pair of bytes `(lo, hi) : buf16` (lib/Int16Prims.v).  `self._buffer` is the
leading parameter of every translated method; `self._buffer[:] = ...` / `struct.pack_into(.., self._buffer, ..)`
rebind it and `return self` returns the current buffer.  Methods that return another Integer object
(`x.clone()`, `values.new_integer()`, `Integer(None, values)`) are followed in continuation style, so that
`return self.iadd(rhs.clone().ineg())` becomes `bind (ineg rhs) (fun t => iadd self t)`.
Everything that is not one of the idioms below is refused (fail closed).
"""
import ast
import copy
import os

from py2v import Module, Translator, Ctx, HEADER, Refuse, refuse, read_errors, coq_value

OUT = 'Gen_int16.v'
SOURCES = ['pcbasic/basic/values/numbers.py', 'pcbasic/basic/values/values.py']

BUF = 'buf16'
OPERAND = 'operand'
FMT = 'fmt16'
FORMATS = {'<h': 'fmt_h', '<H': 'fmt_H'}


class Meth(object):
    def __init__(self, coqname, node, params, ret_ty, monadic, has_self):
        self.coqname = coqname
        self.node = node            # FunctionDef
        self.params = params        # [(name, type)] without self
        self.ret_ty = ret_ty
        self.monadic = monadic
        self.has_self = has_self


class Int16Translator(Translator):
    """py2v + the idioms of a 2-byte Integer buffer."""

    def __init__(self, module, registry, out, **kw):
        Translator.__init__(self, module, **kw)
        self.methods = registry['methods']      # Integer method name -> Meth
        self.modfuncs = registry['modfuncs']    # values.py function name -> Meth
        self.out = out
        self.float_ctx = False                  # translating a method of class Float
        self.dyn = registry

    # ------------------------------------------------------------------ helpers
    def buf_of(self, node, env):
        """Term of a buffer-valued plain expression (no calls), or None."""
        if isinstance(node, ast.Name):
            if node.id == 'self' and 'self._buffer' in env and not self.float_ctx:
                return env['self._buffer'][0]
            if node.id in env and env[node.id][1] == BUF:
                return env[node.id][0]
            return None
        if isinstance(node, ast.Attribute) and node.attr == '_buffer':
            return self.buf_of(node.value, env)
        return None

    def is_bytearray_of_buf(self, node, env):
        """bytearray(X._buffer) -> buffer term"""
        if (isinstance(node, ast.Call) and isinstance(node.func, ast.Name) and node.func.id == 'bytearray'
                and len(node.args) == 1 and not node.keywords
                and isinstance(node.args[0], ast.Attribute) and node.args[0].attr == '_buffer'):
            return self.buf_of(node.args[0], env)
        return None

    def const_index(self, node):
        if isinstance(node, ast.Constant) and isinstance(node.value, int) and not isinstance(node.value, bool):
            return node.value
        if (isinstance(node, ast.UnaryOp) and isinstance(node.op, ast.USub)
                and isinstance(node.operand, ast.Constant) and isinstance(node.operand.value, int)):
            return -node.operand.value
        return None

    def bind_args(self, node, meth):
        """Match call arguments against the signature (positional, keywords, defaults) -> list of AST nodes."""
        fd = meth.node
        names = [a.arg for a in fd.args.args if a.arg != 'self']
        defaults = dict(zip(names[len(names) - len(fd.args.defaults):], fd.args.defaults))
        if len(node.args) > len(names):
            refuse(node, 'too many arguments for %s' % meth.coqname)
        got = dict(zip(names, node.args))
        for kw in node.keywords:
            if kw.arg is None or kw.arg not in names or kw.arg in got:
                refuse(node, 'bad keyword argument for %s' % meth.coqname)
            got[kw.arg] = kw.value
        res = []
        for n in names:
            if n in got:
                res.append(got[n])
            elif n in defaults:
                res.append(defaults[n])
            else:
                refuse(node, 'missing argument %s for %s' % (n, meth.coqname))
        return res

    def scalar_arg(self, node, ty, env):
        t = self.expr(node, env)
        if ty == 'Z':
            return self.as_Z(t)
        if ty == 'bool':
            return self.as_bool(t)
        if t[1] != ty:
            refuse(node, 'argument of type %s where %s expected' % (t[1], ty))
        return t[0]

    # ------------------------------------------------------------------ expressions
    def hook_expr(self, node, env):
        # struct format strings
        if isinstance(node, ast.Constant) and isinstance(node.value, str) and node.value in FORMATS:
            return FORMATS[node.value], FMT
        # X._buffer
        if isinstance(node, ast.Attribute) and node.attr == '_buffer':
            b = self.buf_of(node, env)
            if b is not None:
                return b, BUF
        # bytearray(X._buffer)[k]
        if isinstance(node, ast.Subscript):
            b = self.is_bytearray_of_buf(node.value, env)
            if b is not None:
                k = self.const_index(node.slice)
                if k in (0, -2):
                    return '(fst %s)' % b, 'Z'
                if k in (1, -1):
                    return '(snd %s)' % b, 'Z'
                refuse(node, 'index into a 2-byte buffer must be a constant in -2..1')
            # struct.unpack(fmt, X._buffer)[0]
            v = node.value
            if (isinstance(v, ast.Call) and self.dotted(v.func) == 'struct.unpack' and len(v.args) == 2
                    and not v.keywords and self.const_index(node.slice) == 0):
                f = self.expr(v.args[0], env)
                b = self.buf_of(v.args[1], env)
                if f[1] == FMT and b is not None:
                    return '(int16_unpack %s %s)' % (f[0], b), 'Z'
                refuse(node, 'unsupported struct.unpack')
        # X._buffer == b'..' ; X._buffer == Y._buffer
        if isinstance(node, ast.Compare) and len(node.ops) == 1 and isinstance(node.ops[0], (ast.Eq, ast.NotEq)):
            sides = [node.left, node.comparators[0]]
            terms = []
            for s in sides:
                b = self.buf_of(s, env) if isinstance(s, ast.Attribute) else None
                if b is None:
                    b = self.is_bytearray_of_buf(s, env)
                if b is None and isinstance(s, ast.Constant) and isinstance(s.value, bytes):
                    if len(s.value) != 2:
                        refuse(node, 'comparison of a 2-byte buffer with a constant of another length')
                    b = '(%d, %d)' % (s.value[0], s.value[1])
                if (b is None and isinstance(s, ast.Call) and isinstance(s.func, ast.Name) and s.func.id == 'bytearray'
                        and len(s.args) == 1 and isinstance(s.args[0], ast.Constant)
                        and isinstance(s.args[0].value, bytes) and len(s.args[0].value) == 2):
                    b = '(%d, %d)' % (s.args[0].value[0], s.args[0].value[1])
                terms.append(b)
            if terms[0] is not None and terms[1] is not None:
                t = '(buf16_eqb %s %s)' % tuple(terms)
                return (t, 'bool') if isinstance(node.ops[0], ast.Eq) else ('(negb %s)' % t, 'bool')
            if (terms[0] is None) != (terms[1] is None):
                refuse(node, 'unsupported comparison involving a buffer')
        # isinstance(x, strings.String)
        if (isinstance(node, ast.Call) and isinstance(node.func, ast.Name) and node.func.id == 'isinstance'
                and len(node.args) == 2 and isinstance(node.args[0], ast.Name)):
            x = node.args[0].id
            cls = self.dotted(node.args[1])
            if x in env and env[x][1] == OPERAND and cls == 'strings.String':
                return '(operand_is_string %s)' % env[x][0], 'bool'
            if x in env and env[x][1] == BUF and cls in ('Float', 'numbers.Float', 'strings.String'):
                # the object is an Integer here
                return 'false', 'bool'
            refuse(node, 'unsupported isinstance')
        # Single(None, self._values).from_bytes(Single.neg_max)  -> the 4 constant bytes
        if (isinstance(node, ast.Call) and isinstance(node.func, ast.Attribute) and node.func.attr == 'from_bytes'
                and isinstance(node.func.value, ast.Call) and isinstance(node.func.value.func, ast.Name)
                and node.func.value.func.id in ('Single', 'Double') and len(node.args) == 1):
            self.check_ctor_args(node.func.value)
            d = self.dotted(node.args[0])
            if d is not None and d in self.consts:
                return self.consts[d]
            refuse(node, 'from_bytes of a non-constant')
        return None

    def check_ctor_args(self, call):
        """Cls(None, self._values): a fresh zero value"""
        if (len(call.args) == 2 and not call.keywords and isinstance(call.args[0], ast.Constant)
                and call.args[0].value is None and self.dotted(call.args[1]) in ('self._values',)):
            return
        refuse(call, 'constructor call is not Cls(None, self._values)')

    def hook_call(self, node, env):
        # scalar-valued (pure) methods on a buffer: x.to_int(..), x.is_zero(), x.is_negative()
        if isinstance(node.func, ast.Attribute) and isinstance(node.func.value, ast.Name):
            obj, name = node.func.value.id, node.func.attr
            if self.float_ctx and obj == 'self':
                if name == 'to_int' and not node.args and not node.keywords and 'cint' in env:
                    return env['cint']
                refuse(node, 'unsupported Float method call')
            b = self.buf_of(node.func.value, env)
            if b is not None and name in self.methods:
                m = self.methods[name]
                if m.ret_ty == BUF or m.monadic:
                    refuse(node, 'object-valued or raising method %s inside an expression' % name)
                args = [self.scalar_arg(a, ty, env) for a, (_, ty) in zip(self.bind_args(node, m), m.params)]
                return '(%s %s)' % (m.coqname, ' '.join([b] + args)), m.ret_ty
        return None

    # ------------------------------------------------------------------ object expressions (CPS)
    def is_obj_expr(self, node, env):
        if isinstance(node, ast.Name):
            return self.buf_of(node, env) is not None
        if isinstance(node, ast.Call):
            f = node.func
            if isinstance(f, ast.Name):
                if f.id == 'Integer':
                    return True
                return f.id in self.modfuncs and self.modfuncs[f.id].ret_ty == BUF
            if isinstance(f, ast.Attribute):
                if f.attr in ('clone', 'new_integer'):
                    return True
                if f.attr in self.methods and self.methods[f.attr].ret_ty == BUF:
                    return self.is_obj_expr(f.value, env) or (
                        isinstance(f.value, ast.Name) and f.value.id in env and env[f.value.id][1] == OPERAND)
        return False

    def obj(self, node, env, ctx, k):
        """Evaluate an Integer-object-valued expression; k(term) continues with its buffer."""
        b = self.buf_of(node, env) if isinstance(node, ast.Name) else None
        if b is not None:
            return k(b)
        if not isinstance(node, ast.Call):
            refuse(node, 'unsupported object expression %s' % ast.unparse(node))
        f = node.func
        if isinstance(f, ast.Name) and f.id == 'Integer':
            self.check_ctor_args(node)
            return k('int16_fresh')
        if isinstance(f, ast.Name) and f.id in self.modfuncs:
            m = self.modfuncs[f.id]
            return self.apply(node, m, None, env, ctx, k)
        if isinstance(f, ast.Attribute):
            if f.attr == 'new_integer' and not node.args and not node.keywords:
                d = self.dotted(f.value)
                if d is not None and d.endswith('._values'):
                    return k('int16_fresh')
                refuse(node, 'unsupported new_integer receiver')
            if f.attr == 'clone' and not node.args and not node.keywords:
                # a copy; buffers are values here
                return self.obj(f.value, env, ctx, k)
            if f.attr in self.methods:
                m = self.methods[f.attr]
                # dynamic dispatch on an operand of unknown class
                if isinstance(f.value, ast.Name) and f.value.id in env and env[f.value.id][1] == OPERAND:
                    if f.attr != 'to_integer':
                        refuse(node, 'method %s on an operand of unknown class' % f.attr)
                    dm = self.dyn.get('dyn_to_integer')
                    if dm is None:
                        refuse(node, 'dynamic to_integer used before its definition')
                    return self.apply(node, dm, env[f.value.id][0], env, ctx, k)
                return self.obj(f.value, env, ctx, lambda r: self.apply(node, m, r, env, ctx, k))
        refuse(node, 'unsupported object expression %s' % ast.unparse(node))

    def apply(self, node, m, recv, env, ctx, k):
        """call m (receiver term recv or None) with the arguments of `node`, object arguments first evaluated
        left to right."""
        argnodes = self.bind_args(node, m)
        terms = []

        def step(i):
            if i == len(argnodes):
                call = '%s %s' % (m.coqname, ' '.join(([recv] if recv is not None else []) + terms))
                if m.ret_ty != BUF:
                    refuse(node, '%s does not return an Integer' % m.coqname)
                if m.monadic:
                    if not ctx.monadic:
                        refuse(node, 'raising call in a non-raising function')
                    v = self.fresh('t')
                    return 'bind (%s) (fun %s =>\n%s)' % (call, v, k(v))
                v = self.fresh('t')
                return 'let %s := %s in\n%s' % (v, call, k(v))
            a, (pn, ty) = argnodes[i], m.params[i]
            if ty == BUF:
                def cont(t):
                    terms.append(t)
                    return step(i + 1)
                return self.obj(a, env, ctx, cont)
            if ty == OPERAND:
                if not (isinstance(a, ast.Name) and a.id in env and env[a.id][1] == OPERAND):
                    refuse(a, 'operand argument must be a parameter')
                terms.append(env[a.id][0])
                return step(i + 1)
            return self.hoist(a, env, ctx, lambda a2, env2: (terms.append(self.scalar_arg(a2, ty, env2)), step(i + 1))[1])
        return step(0)

    def hoist(self, node, env, ctx, k):
        """Pull object-valued receivers of scalar methods (`to_integer(left).to_int(..)`) out of a scalar
        expression, in evaluation order; k(new_node, new_env)."""
        tr = self
        pulled = []

        class V(ast.NodeTransformer):
            def visit_Call(self, n):
                self.generic_visit(n)
                if (isinstance(n.func, ast.Attribute) and n.func.attr in tr.methods
                        and tr.methods[n.func.attr].ret_ty != BUF
                        and not isinstance(n.func.value, ast.Name)):
                    name = '_obj%d' % (len(pulled) + 1)
                    pulled.append((name, n.func.value))
                    n.func.value = ast.copy_location(ast.Name(id=name, ctx=ast.Load()), n.func.value)
                return n
        node2 = V().visit(copy.deepcopy(node))
        ast.fix_missing_locations(node2)

        def step(i, env_i):
            if i == len(pulled):
                return k(node2, env_i)
            name, recv = pulled[i]

            def cont(t):
                e2 = dict(env_i)
                e2[name] = (t, BUF)
                return step(i + 1, e2)
            return self.obj(recv, env_i, ctx, cont)
        return step(0, env)

    # ------------------------------------------------------------------ statements
    def hook_stmt(self, s, rest, env, ctx, k):
        # exit-buffer mode: the function yields the contents of self._buffer at the moment the method is left,
        # whether by `return self` or by `raise error.BASICError(..)` (what the caller's variable then holds)
        if getattr(self, 'exit_mode', False):
            if isinstance(s, ast.Raise):
                exc = s.exc
                if (isinstance(exc, ast.Call) and self.dotted(exc.func) in ('error.BASICError', 'BASICError')
                        and 'self._buffer' in env):
                    return ctx.ret(self, env['self._buffer'], env)
                refuse(s, 'exit-buffer mode: unsupported raise')
            for n in ast.walk(s):
                if isinstance(n, ast.Call) and isinstance(n.func, ast.Attribute) and n.func.attr in self.methods \
                        and self.methods[n.func.attr].monadic:
                    refuse(s, 'exit-buffer mode: call of a raising method')
        # isinstance(rhs, Float) branch of a method whose rhs is an Integer: dead
        if (isinstance(s, ast.If) and isinstance(s.test, ast.Call) and isinstance(s.test.func, ast.Name)
                and s.test.func.id == 'isinstance'):
            t = self.expr(s.test, env)
            if t[0] == 'false':
                return self.block(list(s.orelse) + list(rest), env, ctx, k)
        # return <object expression>
        if isinstance(s, ast.Return) and s.value is not None and self.is_obj_expr(s.value, env):
            return self.obj(s.value, env, ctx, lambda t: ctx.ret(self, (t, BUF), env))
        # self._buffer[:] = bytearray([a, b])
        if (isinstance(s, ast.Assign) and len(s.targets) == 1 and isinstance(s.targets[0], ast.Subscript)):
            tg = s.targets[0]
            if (self.dotted(tg.value) == 'self._buffer' and isinstance(tg.slice, ast.Slice)
                    and tg.slice.lower is None and tg.slice.upper is None and tg.slice.step is None
                    and 'self._buffer' in env and not self.float_ctx):
                v = s.value
                if (isinstance(v, ast.Call) and isinstance(v.func, ast.Name) and v.func.id == 'bytearray'
                        and len(v.args) == 1 and isinstance(v.args[0], ast.List) and len(v.args[0].elts) == 2):
                    if ctx.is_joined or not ctx.monadic:
                        refuse(s, 'buffer assignment inside a joined block / non-raising function')
                    a, b = (self.as_Z(self.expr(e, env)) for e in v.args[0].elts)
                    nv = self.fresh('v_self_buffer')
                    env2 = dict(env)
                    env2['self._buffer'] = (nv, BUF)
                    return 'bind (int16_mkbuf %s %s) (fun %s =>\n%s)' % (a, b, nv, self.block(rest, env2, ctx, k))
            refuse(s, 'unsupported subscript assignment')
        # struct.pack_into(fmt, self._buffer, 0, x)
        if (isinstance(s, ast.Expr) and isinstance(s.value, ast.Call)
                and self.dotted(s.value.func) == 'struct.pack_into'):
            c = s.value
            if (len(c.args) == 4 and not c.keywords and self.dotted(c.args[1]) == 'self._buffer'
                    and self.const_index(c.args[2]) == 0 and 'self._buffer' in env and not self.float_ctx):
                if ctx.is_joined or not ctx.monadic:
                    refuse(s, 'pack_into inside a joined block / non-raising function')
                f = self.expr(c.args[0], env)
                if f[1] != FMT:
                    refuse(s, 'pack_into with unknown format')
                x = self.as_Z(self.expr(c.args[3], env))
                nv = self.fresh('v_self_buffer')
                env2 = dict(env)
                env2['self._buffer'] = (nv, BUF)
                return 'bind (int16_pack %s %s) (fun %s =>\n%s)' % (f[0], x, nv, self.block(rest, env2, ctx, k))
            refuse(s, 'unsupported struct.pack_into')
        # raise ZeroDivisionError(max_val)
        if (isinstance(s, ast.Raise) and isinstance(s.exc, ast.Call) and isinstance(s.exc.func, ast.Name)
                and s.exc.func.id == 'ZeroDivisionError' and len(s.exc.args) == 1):
            if not ctx.monadic:
                refuse(s, 'raise in non-monadic function')
            p = self.expr(s.exc.args[0], env)
            if p[1] != 'list Z':
                refuse(s, 'ZeroDivisionError payload is not a constant float')
            return 'Host (int16_zde %s)' % p[0]
        return None

    # ------------------------------------------------------------------ definitions
    def needs_monadic(self, fd):
        for n in ast.walk(fd):
            if isinstance(n, (ast.Raise, ast.While, ast.For)):
                return True
            if isinstance(n, ast.Subscript) and isinstance(n.ctx, ast.Store):
                return True
            if isinstance(n, ast.Call):
                d = self.dotted(n.func) if isinstance(n.func, (ast.Name, ast.Attribute)) else None
                if d == 'struct.pack_into':
                    return True
                if isinstance(n.func, ast.Attribute) and n.func.attr in self.methods \
                        and self.methods[n.func.attr].monadic:
                    return True
                if isinstance(n.func, ast.Name) and n.func.id in self.modfuncs and self.modfuncs[n.func.id].monadic:
                    return True
                if isinstance(n.func, ast.Attribute) and n.func.attr == 'to_integer' \
                        and isinstance(n.func.value, ast.Name) and n.func.value.id not in ('self',):
                    return True     # possibly dynamic dispatch
        return False

    def method(self, cls, name, types=None, ret=BUF, exit_mode=False):
        """Translate method cls.name; `self._buffer` is the leading parameter."""
        self.exit_mode = exit_mode
        try:
            return self._method(cls, name, types, ret, exit_mode)
        finally:
            self.exit_mode = False

    def _method(self, cls, name, types, ret, exit_mode):
        qual = '%s.%s' % (cls, name)
        fd = self.m.find(qual)
        if not isinstance(fd, ast.FunctionDef):
            raise Refuse('%s is not a method' % qual)
        if fd.decorator_list:
            refuse(fd, 'decorated method')
        types = dict(types or {})
        pt = {'self._buffer': BUF}
        params = []
        for a in fd.args.args:
            if a.arg == 'self':
                continue
            ty = types.get(a.arg, 'Z')
            pt[a.arg] = ty
            params.append((a.arg, ty))
        coqname = self.prefix + name if cls == 'Integer' else self.prefix + cls + '_' + name
        if exit_mode:
            coqname += '_exitbuf'
        mon = self.needs_monadic(fd)
        f = self.function(qual, coqname=coqname, param_types=pt, state=['self._buffer'], force_monadic=mon)
        if f.ret_ty != ret:
            refuse(fd, '%s returns %s, expected %s' % (qual, f.ret_ty, ret))
        m = Meth(coqname, fd, params, f.ret_ty, f.monadic, True)
        if cls == 'Integer' and not exit_mode:
            self.methods[name] = m
        return m

    def float_to_integer(self):
        """Float.to_integer with `self.to_int()` (the CINT-rounded Python int; C03) as parameter `cint`."""
        fd = self.m.find('Float.to_integer')
        self.float_ctx = True
        try:
            coqname = self.prefix + 'Float_to_integer'
            f = self.function('Float.to_integer', coqname=coqname, param_types={'unsigned': 'bool'},
                              state=['cint'], force_monadic=True)
        finally:
            self.float_ctx = False
        if f.ret_ty != BUF or [p for p, _ in f.params] != ['unsigned']:
            refuse(fd, 'unexpected shape of Float.to_integer')
        return Meth(coqname, fd, [('unsigned', 'bool')], BUF, True, True)

    def modfunc(self, name, types, allow_decorators=()):
        fd = self.m.find(name)
        if not isinstance(fd, ast.FunctionDef):
            raise Refuse('%s is not a function' % name)
        decos = [ast.unparse(d) for d in fd.decorator_list]
        if sorted(decos) != sorted(allow_decorators):
            refuse(fd, 'decorators of %s are %s, expected %s' % (name, decos, list(allow_decorators)))
        params = [(a.arg, types.get(a.arg, 'Z')) for a in fd.args.args]
        coqname = self.prefix + 'values_' + name
        f = self.function(name, coqname=coqname, param_types=dict(params), force_monadic=self.needs_monadic(fd))
        if f.ret_ty != BUF:
            refuse(fd, '%s returns %s' % (name, f.ret_ty))
        m = Meth(coqname, fd, params, BUF, f.monadic, False)
        self.modfuncs[name] = m
        return m


def class_has_method(module, cls, name):
    node = module.find(cls)
    return any(isinstance(n, ast.FunctionDef) and n.name == name for n in node.body)


def generate(repo):
    errors = read_errors(repo)
    mn = Module(os.path.join(repo, SOURCES[0]))
    mv = Module(os.path.join(repo, SOURCES[1]))
    ms = Module(os.path.join(repo, 'pcbasic/basic/values/strings.py'))
    registry = {'methods': {}, 'modfuncs': {}}
    out = []
    t = Int16Translator(mn, registry, out, prefix='int16_', errors=errors)
    for c in ('OVERFLOW', 'DIVISION_BY_ZERO', 'TYPE_MISMATCH'):
        t.emit('Definition int16_err_%s : Z := %d.' % (c, errors[c]))
    for c in ('Single.pos_max', 'Single.neg_max'):
        v = mn.const_value(c)
        if len(v) != 4:
            raise Refuse('%s is not 4 bytes' % c)
        t.add_const(c, v)
    if mn.const_value('Integer.size') != 2:
        raise Refuse('Integer.size is not 2')
    ub = {'unsigned': 'bool'}
    t.method('Integer', 'is_zero', ret='bool')
    t.method('Integer', 'is_negative', ret='bool')
    t.method('Integer', 'to_int', ub, ret='Z')
    t.method('Integer', 'from_int', ub)
    t.method('Integer', 'to_integer', ub)
    t.method('Integer', 'ineg')
    t.method('Integer', 'iabs')
    t.method('Integer', 'iadd', {'rhs': BUF})
    # contents of the counter's buffer when iadd is left (by return or by Overflow): used for FOR/NEXT
    t.method('Integer', 'iadd', {'rhs': BUF}, exit_mode=True)
    t.method('Integer', 'isub', {'rhs': BUF})
    t.method('Integer', 'idiv_int', {'rhs': BUF})
    t.method('Integer', 'imod', {'rhs': BUF})
    t.method('Integer', 'gt', {'rhs': BUF}, ret='bool')
    t.method('Integer', 'eq', {'rhs': BUF}, ret='bool')
    fl = t.float_to_integer()
    # Python's dynamic dispatch of `inp.to_integer(unsigned)` on the class of the operand
    if class_has_method(ms, 'String', 'to_integer'):
        raise Refuse('strings.String now has a to_integer method: revisit the dispatch model')
    t.emit("(* dynamic dispatch of x.to_integer(unsigned): Integer / Float / String (AttributeError) *)\n"
           "Definition int16_dyn_to_integer (o : operand) (unsigned : bool) : res buf16 :=\n"
           "  match o with\n"
           "  | OpInt b => %s\n"
           "  | OpFlt c => %s c unsigned\n"
           "  | OpStr => Host host_Other\n"
           "  end."
           % (('%s b unsigned' if registry['methods']['to_integer'].monadic else 'Ok (%s b unsigned)')
              % registry['methods']['to_integer'].coqname, fl.coqname))
    dm = Meth('int16_dyn_to_integer', mn.find('Integer.to_integer'), [('unsigned', 'bool')], BUF, True, True)
    registry['dyn_to_integer'] = dm
    # values.py
    tv = Int16Translator(mv, registry, out, prefix='int16_', errors=errors)
    tv.counter = t.counter
    op = {'inp': OPERAND, 'num': OPERAND, 'left': OPERAND, 'right': OPERAND, 'unsigned': 'bool'}
    tv.modfunc('to_integer', op)
    for fn in ('not_', 'and_', 'or_', 'xor_', 'eqv_', 'imp_'):
        tv.modfunc(fn, op)
    # the float_safe decorator (exception -> error handler) is modelled in model/Int16.v
    for fn in ('intdiv', 'mod_'):
        tv.modfunc(fn, op, allow_decorators=('float_safe',))
    head = HEADER.replace('lib.Harness.', 'lib.Harness lib.Int16Prims.')
    if 'lib.Int16Prims' not in head:
        raise Refuse('header changed')
    return head + '\n'.join(out) + '\n'
