"""Gen_signals.v: the rectangle arithmetic on both sides of the video queue (C35).

Regenerated from /repo on every run:
  * display/buffers.py  VideoBuffer.pixel_to_text_area, text_to_pixel_pos, text_to_pixel_area
    (the page object is its geometry: self._width, self._height, self._font.width, self._font.height are the
    leading parameters);
  * interface/video_sdl2.py  the geometry statements of the reference consumer: font size derived in
    set_mode, the row bands of scroll; and AST shape checks (fail closed) of the slice expressions of
    update / clear_rows / scroll that the hand-written consumer of model/Signals.v follows;
  * display/modes.py  the table of every video mode (pixel and text dimensions, font size), dumped by
    importing the module, so that `cfg_ok` is checked for every mode that exists.
"""
import ast
import importlib
import os
import sys

from py2v import Module, Translator, HEADER, Refuse, refuse

OUT = 'Gen_signals.v'
SOURCES = ['pcbasic/basic/display/buffers.py', 'pcbasic/interface/video_sdl2.py', 'pcbasic/basic/display/modes.py']

VB_STATE = ['self._width', 'self._height', 'self._font.width', 'self._font.height']


class SigTranslator(Translator):
    """py2v + `self.method(args)` calls between the translated geometry methods."""

    def hook_call(self, node, env):
        fname = self.dotted(node.func) if isinstance(node.func, (ast.Attribute, ast.Name)) else None
        if fname and fname.startswith('self.') and fname in self.funcs:
            f = self.funcs[fname]
            if f.monadic or f.state_out or node.keywords or len(node.args) != len(f.params):
                return None
            args = [env[a][0] for a in f.state_in]
            for a in node.args:
                args.append(self.as_Z(self.expr(a, env)))
            return '(%s %s)' % (f.coqname, ' '.join(args)), f.ret_ty
        return None


def body_src(fn):
    """Normalised source of a function body without its docstring."""
    body = [s for s in fn.body if not (isinstance(s, ast.Expr) and isinstance(s.value, ast.Constant))]
    return [ast.unparse(s) for s in body]


def expect(fn, wanted, what):
    got = body_src(fn)
    for w in wanted:
        if w not in got:
            refuse(fn, '%s: statement `%s` not found (reference consumer changed; re-read model/Signals.v)'
                   % (what, w))


def consumer_shapes(m):
    """Fail closed unless the SDL2 handlers still have the slice structure the model's consumer follows."""
    upd = m.find('VideoSDL2.update')
    expect(upd, [
        'pixels = self._canvas_pixels',
        'if y0 + sprite.height > pixels.height or x0 + sprite.width > pixels.width:\n'
        '    sprite = sprite[:pixels.height - y0, :pixels.width - x0]',
        'pixels[y0:y0 + sprite.height, x0:x0 + sprite.width] = sprite',
    ], 'VideoSDL2.update')
    clr = m.find('VideoSDL2.clear_rows')
    expect(clr, [
        'self._canvas_pixels[(start - 1) * self._font_height:stop * self._font_height, '
        '0:self._window_sizer.width] = back_attr',
    ], 'VideoSDL2.clear_rows')
    scr = m.find('VideoSDL2.scroll')
    expect(scr, [
        'pixels = self._canvas_pixels',
        'if direction == -1:\n'
        '    pixels[hi_y0:hi_y1, :] = pixels[lo_y0:lo_y1, :]\n'
        '    pixels[hi_y1:lo_y1, :] = back_attr\n'
        'else:\n'
        '    pixels[lo_y0:lo_y1, :] = pixels[hi_y0:hi_y1, :].copy()\n'
        '    pixels[hi_y0:lo_y0, :] = back_attr',
    ], 'VideoSDL2.scroll')


def emitter_shapes(m):
    """Fail closed unless _submit still sends the pixel rectangle of the text rectangle it is given."""
    sub = m.find('VideoBuffer._submit')
    src = '\n'.join(body_src(sub))
    for w in ('x0, y0 = self.text_to_pixel_pos(top, left)',
              'x1, y1 = self.text_to_pixel_pos(bottom + 1, right + 1)',
              'self._pixels[y0:y1, x0:x1]'):
        if w not in src:
            refuse(sub, 'VideoBuffer._submit: `%s` not found' % w)
    res = m.find('VideoBuffer.resubmit')
    expect(res, ['self._submit(1, 1, self._height, self._width)'], 'VideoBuffer.resubmit')


def mode_table(repo):
    """[(pixel_height, pixel_width, height, width, font_height, font_width)] of every mode in _MODE_INFO."""
    sys.path.insert(0, repo)
    try:
        for k in [k for k in sys.modules if k == 'pcbasic' or k.startswith('pcbasic.')]:
            if not getattr(sys.modules[k], '__file__', '') or not sys.modules[k].__file__.startswith(repo):
                del sys.modules[k]
        modes = importlib.import_module('pcbasic.basic.display.modes')
        rows = []
        names = []
        for name in sorted(modes._MODE_INFO):
            data = dict(**modes._MODE_INFO[name])
            cls = data.pop('layout')
            md = cls(name=name, video_mem_size=262144, **data)
            rows.append((md.pixel_height, md.pixel_width, md.height, md.width, md.font_height, md.font_width))
            names.append(name)
        # every mode an adapter can reach must be in the table
        for adapter, tab in modes._MODES.items():
            for key, name in tab.items():
                if name not in modes._MODE_INFO:
                    raise Refuse('mode %s of adapter %s has no _MODE_INFO entry' % (name, adapter))
        return names, rows
    finally:
        sys.path.remove(repo)


def generate(repo):
    out = [HEADER]
    # ---- emitter geometry
    mb = Module(os.path.join(repo, SOURCES[0]))
    emitter_shapes(mb)
    t = SigTranslator(mb, prefix='vb_')
    for name in ('text_to_pixel_pos', 'text_to_pixel_area', 'pixel_to_text_area'):
        t.function('VideoBuffer.' + name, coqname='vb_' + name, state=VB_STATE)
    out += t.out
    # ---- consumer geometry
    mc = Module(os.path.join(repo, SOURCES[1]))
    consumer_shapes(mc)
    c = SigTranslator(mc, prefix='sdl_')
    c.function('VideoSDL2.set_mode', coqname='sdl_font_size',
               param_types={'canvas_height': 'Z', 'canvas_width': 'Z', 'text_height': 'Z', 'text_width': 'Z'},
               stmts=(r'^self\._font_height = ', r'^self\._font_width = '),
               state=['self._font_height', 'self._font_width'])
    c.function('VideoSDL2.scroll', coqname='sdl_scroll_bands',
               param_types={'self._font_height': 'Z', 'from_line': 'Z', 'scroll_height': 'Z'},
               stmts=(r'^hi_y0, hi_y1 = ', r'^lo_y0, lo_y1 = '),
               ret=['hi_y0', 'hi_y1', 'lo_y0', 'lo_y1'])
    out += c.out
    # ---- mode table
    names, rows = mode_table(repo)
    out.append('(* pcbasic/basic/display/modes.py _MODE_INFO: (pixel_height, pixel_width, height, width, '
               'font_height, font_width) *)')
    out.append('(* %s *)' % ' '.join(names))
    out.append('Definition mode_table : list (Z * Z * Z * Z * Z * Z) :=\n  [' +
               ';\n   '.join('(%d, %d, %d, %d, %d, %d)' % r for r in rows) + '].')
    return '\n'.join(out) + '\n'
