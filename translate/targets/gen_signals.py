"""Gen_signals.v: the rectangle arithmetic on both sides of the video queue (C35).

Regenerated from /repo on every run:
  * display/buffers.py  VideoBuffer.pixel_to_text_area, text_to_pixel_pos, text_to_pixel_area
    (the page object is its geometry: self._width, self._height, self._font.width, self._font.height are the
    leading parameters);
  * interface/video_sdl2.py  the geometry statements of the reference consumer: font size derived in
    set_mode, the row bands of scroll; and AST shape checks (fail closed) of the slice expressions of
    update / clear_rows / scroll that the hand-written consumer of model/Signals.v follows;
  * display/modes.py  the table of every video mode (pixel and text dimensions, font size), dumped by
    importing the module, so that `cfg_ok` is checked for every mode that exists.
"""
import ast
import importlib
import os
import sys

from py2v import Module, Translator, HEADER, Refuse, refuse

OUT = 'Gen_signals.v'
SOURCES = ['pcbasic/basic/display/buffers.py', 'pcbasic/interface/video_sdl2.py', 'pcbasic/basic/display/modes.py',
           'pcbasic/basic/display/textscreen.py', 'pcbasic/basic/machine.py', 'pcbasic/basic/display/framebuffer.py']

VB_STATE = ['self._width', 'self._height', 'self._font.width', 'self._font.height']


class SigTranslator(Translator):
    """py2v + `self.method(args)` calls between the translated geometry methods."""

    def hook_call(self, node, env):
        fname = self.dotted(node.func) if isinstance(node.func, (ast.Attribute, ast.Name)) else None
        if fname and fname.startswith('self.') and fname in self.funcs:
            f = self.funcs[fname]
            if f.monadic or f.state_out or node.keywords or len(node.args) != len(f.params):
                return None
            args = [env[a][0] for a in f.state_in]
            for a in node.args:
                args.append(self.as_Z(self.expr(a, env)))
            return '(%s %s)' % (f.coqname, ' '.join(args)), f.ret_ty
        return None


def body_src(fn):
    """Normalised source of a function body without its docstring."""
    body = [s for s in fn.body if not (isinstance(s, ast.Expr) and isinstance(s.value, ast.Constant))]
    return [ast.unparse(s) for s in body]


def expect(fn, wanted, what):
    got = body_src(fn)
    for w in wanted:
        if w not in got:
            refuse(fn, '%s: statement `%s` not found (reference consumer changed; re-read model/Signals.v)'
                   % (what, w))


def consumer_shapes(m):
    """Fail closed unless the SDL2 handlers still have the slice structure the model's consumer follows."""
    upd = m.find('VideoSDL2.update')
    expect(upd, [
        'pixels = self._canvas_pixels',
        'if y0 + sprite.height > pixels.height or x0 + sprite.width > pixels.width:\n'
        '    sprite = sprite[:pixels.height - y0, :pixels.width - x0]',
        'pixels[y0:y0 + sprite.height, x0:x0 + sprite.width] = sprite',
    ], 'VideoSDL2.update')
    clr = m.find('VideoSDL2.clear_rows')
    expect(clr, [
        'self._canvas_pixels[(start - 1) * self._font_height:stop * self._font_height, '
        '0:self._window_sizer.width] = back_attr',
    ], 'VideoSDL2.clear_rows')
    scr = m.find('VideoSDL2.scroll')
    expect(scr, [
        'pixels = self._canvas_pixels',
        'if direction == -1:\n'
        '    pixels[hi_y0:hi_y1, :] = pixels[lo_y0:lo_y1, :]\n'
        '    pixels[hi_y1:lo_y1, :] = back_attr\n'
        'else:\n'
        '    pixels[lo_y0:lo_y1, :] = pixels[hi_y0:hi_y1, :].copy()\n'
        '    pixels[hi_y0:lo_y0, :] = back_attr',
    ], 'VideoSDL2.scroll')


def emitter_shapes(m):
    """Fail closed unless _submit still sends the pixel rectangle of the text rectangle it is given."""
    sub = m.find('VideoBuffer._submit')
    src = '\n'.join(body_src(sub))
    for w in ('x0, y0 = self.text_to_pixel_pos(top, left)',
              'x1, y1 = self.text_to_pixel_pos(bottom + 1, right + 1)',
              'self._pixels[y0:y1, x0:x1]'):
        if w not in src:
            refuse(sub, 'VideoBuffer._submit: `%s` not found' % w)
    res = m.find('VideoBuffer.resubmit')
    expect(res, ['self._submit(1, 1, self._height, self._width)'], 'VideoBuffer.resubmit')


def mode_table(repo):
    """[(pixel_height, pixel_width, height, width, font_height, font_width)] of every mode in _MODE_INFO."""
    sys.path.insert(0, repo)
    try:
        for k in [k for k in sys.modules if k == 'pcbasic' or k.startswith('pcbasic.')]:
            if not getattr(sys.modules[k], '__file__', '') or not sys.modules[k].__file__.startswith(repo):
                del sys.modules[k]
        modes = importlib.import_module('pcbasic.basic.display.modes')
        rows = []
        names = []
        for name in sorted(modes._MODE_INFO):
            data = dict(**modes._MODE_INFO[name])
            cls = data.pop('layout')
            md = cls(name=name, video_mem_size=262144, **data)
            rows.append((md.pixel_height, md.pixel_width, md.height, md.width, md.font_height, md.font_width))
            names.append(name)
        # every mode an adapter can reach must be in the table
        for adapter, tab in modes._MODES.items():
            for key, name in tab.items():
                if name not in modes._MODE_INFO:
                    raise Refuse('mode %s of adapter %s has no _MODE_INFO entry' % (name, adapter))
        return names, rows
    finally:
        sys.path.remove(repo)


# ---------------------------------------------------------------------------------------------------------
# callers of VideoBuffer in display/textscreen.py (the envelope of the theorems)

def _self_calls(fn):
    """names of self.<m>(...) calls in a function body"""
    out = set()
    for n in ast.walk(fn):
        if isinstance(n, ast.Call) and isinstance(n.func, ast.Attribute) and isinstance(n.func.value, ast.Name) \
                and n.func.value.id == 'self':
            out.add(n.func.attr)
    return out


def _mentions(fn, names):
    for n in ast.walk(fn):
        if isinstance(n, ast.Call) and isinstance(n.func, ast.Attribute) and n.func.attr in names:
            return True
    return False


def no_clear_under_lock(mt):
    """Fail closed unless no code reachable (through self.<method>() calls of TextScreen) from the body of a
    `with self.collect_updates():` block calls clear_rows / clear_row_from / clear_view / clear on anything."""
    cls = mt.find('TextScreen')
    methods = {f.name: f for f in cls.body if isinstance(f, ast.FunctionDef)}
    forbidden = {'clear_rows', 'clear_row_from'}
    roots = []
    for f in methods.values():
        for n in ast.walk(f):
            if isinstance(n, ast.With) and any(
                    isinstance(i.context_expr, ast.Call) and isinstance(i.context_expr.func, ast.Attribute)
                    and i.context_expr.func.attr == 'collect_updates' for i in n.items):
                if f.name == 'collect_updates':
                    continue
                roots.append((f.name, n))
    if len(roots) < 4:
        refuse(cls, 'expected the collect_updates() blocks of write_chars, delete_fullchar, insert_fullchars, '
                    'redraw_bar in TextScreen; found %d' % len(roots))
    for owner, block in roots:
        fake = ast.FunctionDef(name='_', args=None, body=block.body, decorator_list=[])
        seen, todo = set(), list(_self_calls(fake))
        if _mentions(fake, forbidden):
            refuse(block, 'TextScreen.%s clears rows inside collect_updates()' % owner)
        while todo:
            m = todo.pop()
            if m in seen or m not in methods:
                continue
            seen.add(m)
            if _mentions(methods[m], forbidden):
                refuse(methods[m], 'TextScreen.%s (reachable from the collect_updates() block of %s) clears rows: '
                                   'the model assumes clear_rows is never called with pending dirty rows' % (m, owner))
            todo += list(_self_calls(methods[m]))
    return [o for o, _ in roots]


def textscreen_shapes(mt):
    """Fail closed unless the scroll area and the call sites with scroll-area / screen-height arguments are the
    ones modelled in model/Signals.v (sa_* definitions) and proved in range."""
    expect(mt.find('ScrollArea.set'), ['self._active = True', 'self._top = start', 'self._bottom = stop'],
           'ScrollArea.set')
    expect(mt.find('ScrollArea.unset'), ['self.set(1, self._height - 1)', 'self._active = False'],
           'ScrollArea.unset')
    expect(mt.find('ScrollArea.init_mode'), [
        'self._height = mode.height',
        'if self._bottom == self._height:\n    self.set(1, self._height)\nelse:\n    self.unset()'],
        'ScrollArea.init_mode')
    vp = mt.find('TextScreen.view_print_')
    src = '\n'.join(body_src(vp))
    for w in ('if self._tandytext and (not self._bottom_bar.visible):\n        max_line = 25\n    else:\n        max_line = 24',
              'error.range_check(1, max_line, start, stop)', 'error.throw_if(stop < start)',
              'self.scroll_area.set(start, stop)', 'self.scroll_area.unset()'):
        if w not in src:
            refuse(vp, 'TextScreen.view_print_: `%s` not found' % w)
    # no other writer of the scroll area
    for n in ast.walk(mt.tree):
        if isinstance(n, ast.Call) and isinstance(n.func, ast.Attribute) and n.func.attr in ('set', 'unset') \
                and isinstance(n.func.value, ast.Attribute) and n.func.value.attr == 'scroll_area':
            owner = [f.name for f in ast.walk(mt.tree) if isinstance(f, ast.FunctionDef)
                     and any(m is n for m in ast.walk(f))]
            if owner and owner[-1] != 'view_print_':
                refuse(n, 'scroll_area.%s called outside view_print_ (in %s)' % (n.func.attr, owner[-1]))
    def has(fn, stmt):
        src = '\n'.join(body_src(mt.find(fn)))
        if stmt not in src:
            refuse(mt.find(fn), '%s: `%s` not found' % (fn, stmt))
    has('TextScreen.clear_view', 'self._apage.clear_rows(self.scroll_area.top, self.scroll_area.bottom, self._attr)')
    has('TextScreen.clear', 'self._apage.clear_rows(1, self.mode.height, self._attr)')
    has('TextScreen.redraw_bar', 'key_row = self.mode.height')
    has('TextScreen.redraw_bar', 'self._apage.clear_rows(key_row, key_row, self._attr)')
    has('TextScreen.scroll', 'if from_row is None:\n    from_row = self.scroll_area.top')
    has('TextScreen.scroll', 'self._apage.scroll_up(from_row, self.scroll_area.bottom, self._attr)')
    has('TextScreen.scroll_down', 'self._apage.scroll_down(from_row, self.scroll_area.bottom, self._attr)')
    has('TextScreen.__init__', "self._tandytext = capabilities in ('pcjr', 'tandy')")


def tandy_table(repo):
    """modes reachable on the adapters where VIEW PRINT may extend to row 25"""
    sys.path.insert(0, repo)
    try:
        modes = importlib.import_module('pcbasic.basic.display.modes')
        rows = []
        for adapter in ('tandy', 'pcjr'):
            for key, name in sorted(modes._MODES[adapter].items(), key=str):
                data = dict(**modes._MODE_INFO[name])
                cls = data.pop('layout')
                md = cls(name=name, video_mem_size=262144, **data)
                rows.append((md.pixel_height, md.pixel_width, md.height, md.width, md.font_height, md.font_width))
        return rows
    finally:
        sys.path.remove(repo)


def generate(repo):
    out = [HEADER]
    # ---- emitter geometry
    mb = Module(os.path.join(repo, SOURCES[0]))
    emitter_shapes(mb)
    t = SigTranslator(mb, prefix='vb_')
    for name in ('text_to_pixel_pos', 'text_to_pixel_area', 'pixel_to_text_area'):
        t.function('VideoBuffer.' + name, coqname='vb_' + name, state=VB_STATE)
    out += t.out
    # ---- consumer geometry
    mc = Module(os.path.join(repo, SOURCES[1]))
    consumer_shapes(mc)
    c = SigTranslator(mc, prefix='sdl_')
    c.function('VideoSDL2.set_mode', coqname='sdl_font_size',
               param_types={'canvas_height': 'Z', 'canvas_width': 'Z', 'text_height': 'Z', 'text_width': 'Z'},
               stmts=(r'^self\._font_height = ', r'^self\._font_width = '),
               state=['self._font_height', 'self._font_width'])
    c.function('VideoSDL2.scroll', coqname='sdl_scroll_bands',
               param_types={'self._font_height': 'Z', 'from_line': 'Z', 'scroll_height': 'Z'},
               stmts=(r'^hi_y0, hi_y1 = ', r'^lo_y0, lo_y1 = '),
               ret=['hi_y0', 'hi_y1', 'lo_y0', 'lo_y1'])
    out += c.out
    # ---- mode table
    names, rows = mode_table(repo)
    out.append('(* pcbasic/basic/display/modes.py _MODE_INFO: (pixel_height, pixel_width, height, width, '
               'font_height, font_width) *)')
    out.append('(* %s *)' % ' '.join(names))
    out.append('Definition mode_table : list (Z * Z * Z * Z * Z * Z) :=\n  [' +
               ';\n   '.join('(%d, %d, %d, %d, %d, %d)' % r for r in rows) + '].')
    # ---- callers in textscreen.py
    mt = Module(os.path.join(repo, SOURCES[3]))
    owners = no_clear_under_lock(mt)
    textscreen_shapes(mt)
    # the two other collect_updates() users (machine.py video memory writes -> framebuffer.py) never clear rows
    for rel in ('pcbasic/basic/machine.py', 'pcbasic/basic/display/framebuffer.py'):
        mo = Module(os.path.join(repo, rel))
        if _mentions(mo.tree, {'clear_rows', 'clear_row_from', 'clear_view', 'clear_line'}):
            raise Refuse('%s calls a row-clearing method (possibly inside collect_updates())' % rel)
    out.append('(* textscreen.py: no clear_rows/clear_row_from reachable from the collect_updates() blocks of: %s;'
               ' ScrollArea.set/unset/init_mode, view_print_ and the clear_view/clear/redraw_bar/scroll/scroll_down'
               ' call sites have the modelled shape *)' % ', '.join(owners))
    out.append('(* modes of the adapters on which VIEW PRINT may reach row 25 (tandy, pcjr) *)')
    out.append('Definition tandy_mode_table : list (Z * Z * Z * Z * Z * Z) :=\n  [' +
               ';\n   '.join('(%d, %d, %d, %d, %d, %d)' % r for r in tandy_table(repo)) + '].')
    return '\n'.join(out) + '\n'
