"""Gen_keybuf.v: index / length / start / stop arithmetic of inputs/keyboard.py:KeyboardBuffer and the
BIOS-memory view of it in machine.py:Memory._get_low_memory/_set_low_memory (C37).

State convention: `len(self._buffer)` is the Z variable v_self__buflen, `self._start` is v_self__start;
`self._ring_length` is the constant that Keyboard.__init__ passes to KeyboardBuffer (16).
The list operations themselves (append, slices, comprehensions) are hand-modelled in model/KeyBuf.v and
tied by correspondence; every integer expression they use is regenerated here.
"""
import ast
import os
import re
from py2v import Module, Translator, HEADER, Refuse, refuse, safe_eval, zlit

OUT = 'Gen_keybuf.v'
SOURCES = ['pcbasic/basic/inputs/keyboard.py', 'pcbasic/basic/machine.py', 'pcbasic/basic/base/scancode.py']

STATE = ['self._buflen', 'self._start']


class KbTranslator(Translator):
    """Idioms: len(self._buffer) as a state variable, properties of self, `x in (c1, c2)`."""

    def __init__(self, *a, **kw):
        Translator.__init__(self, *a, **kw)
        self.props = {}     # 'self.length' -> Func

    def hook_call(self, node, env):
        if ast.unparse(node) == 'len(self._buffer)' and 'self._buflen' in env:
            return env['self._buflen']
        return None

    def hook_expr(self, node, env):
        if isinstance(node, ast.Attribute):
            d = self.dotted(node)
            if d in self.props and d not in env:
                f = self.props[d]
                args = []
                for a in f.state_in:
                    if a not in env:
                        refuse(node, 'state %s not available for property %s' % (a, d))
                    args.append(env[a][0])
                return '(%s %s)' % (f.coqname, ' '.join(args)), f.ret_ty
        if isinstance(node, ast.Compare) and len(node.ops) == 1 and isinstance(node.ops[0], ast.In) \
                and isinstance(node.comparators[0], ast.Tuple):
            x = self.as_Z(self.expr(node.left, env))
            alts = ['(Z.eqb %s %s)' % (x, zlit(safe_eval(e, {}))) for e in node.comparators[0].elts]
            term = alts[-1]
            for a in reversed(alts[:-1]):
                term = '(orb %s %s)' % (a, term)
            return term, 'bool'
        return None

    def prop(self, qualname, coqname):
        f = self.function(qualname, coqname=coqname, state=STATE)
        self.props['self.' + qualname.split('.')[-1]] = f
        return f

    def emit_expr(self, coqname, node, params, env_extra=None, comment=''):
        """Definition coqname (params) := <translation of expression node>."""
        env = {}
        sig = []
        for py, ty in params:
            env[py] = (self.var(py), ty)
            sig.append('(%s : %s)' % (self.var(py), ty))
        env.update(env_extra or {})
        term, ty = self.expr(node, env)
        self.emit('(* %s:%d %s *)' % (os.path.relpath(self.m.path, '/repo'), node.lineno, comment))
        self.emit('Definition %s %s : %s :=\n  %s.' % (coqname, ' '.join(sig), ty, term))
        return ty


def one(nodes, what, where):
    nodes = list(nodes)
    if len(nodes) != 1:
        raise Refuse('%s: expected exactly one %s, found %d' % (where, what, len(nodes)))
    return nodes[0]


def branch(fn, test_src):
    """The `if`/`elif` of function fn whose test reads test_src."""
    return one((n for n in ast.walk(fn) if isinstance(n, ast.If) and ast.unparse(n.test) == test_src),
               'branch `%s`' % test_src, fn.name)


def slot_branch(fn):
    """The `elif addr in range(1024+off, 1024+off+32)` of the low-memory functions."""
    def ok(n):
        t = getattr(n, 'test', None)
        return (isinstance(n, ast.If) and isinstance(t, ast.Compare) and len(t.ops) == 1
                and isinstance(t.ops[0], ast.In) and ast.unparse(t.left) == 'addr'
                and isinstance(t.comparators[0], ast.Call) and ast.unparse(t.comparators[0].func) == 'range'
                and len(t.comparators[0].args) == 2 and 'key_buffer_offset' in ast.unparse(t))
    return one((n for n in ast.walk(fn) if ok(n)), 'keyboard-slot branch', fn.name)


def assign_value(stmts, target_src, where, nth=0, count=None):
    vals = [s.value for s in stmts if isinstance(s, ast.Assign) and len(s.targets) == 1
            and ast.unparse(s.targets[0]) == target_src]
    if count is not None and len(vals) != count:
        raise Refuse('%s: expected %d assignments to %s, found %d' % (where, count, target_src, len(vals)))
    if nth >= len(vals):
        raise Refuse('%s: assignment %d to %s not found' % (where, nth, target_src))
    return vals[nth]


def generate(repo):
    # ---------------- keyboard.py
    m = Module(os.path.join(repo, SOURCES[0]))
    sc = Module(os.path.join(repo, SOURCES[2]))
    t = KbTranslator(m, prefix='keybuf_')
    # ring length: the literal Keyboard.__init__ passes to KeyboardBuffer(queues, <n>, check_full)
    kinit = m.find('Keyboard.__init__')
    call = one((n for n in ast.walk(kinit) if isinstance(n, ast.Call)
                and ast.unparse(n.func) == 'KeyboardBuffer'), 'KeyboardBuffer(...) call', 'Keyboard.__init__')
    if len(call.args) != 3 or call.keywords:
        refuse(call, 'unexpected KeyboardBuffer(...) arguments')
    t.add_const('self._ring_length', safe_eval(call.args[1], {}), coqname='keybuf_ring_length')
    t.consts['ring_length'] = t.consts['self._ring_length']
    t.add_const('scancode.RETURN', sc.const_value('RETURN'), coqname='keybuf_scan_RETURN')
    # KeyboardBuffer.__init__: initial start index and number of initial (blank) entries
    binit = m.find('KeyboardBuffer.__init__')
    t.emit_expr('keybuf_init_start', assign_value(binit.body, 'self._start', '__init__', count=1), [],
                comment='KeyboardBuffer.__init__ self._start')
    ib = assign_value(binit.body, 'self._buffer', '__init__', count=1)
    if not (isinstance(ib, ast.BinOp) and isinstance(ib.op, ast.Mult) and ast.unparse(ib.left) == "[(b'\\x00\\x00', 0)]"):
        refuse(ib, 'initial buffer is not [(b"\\0\\0", 0)] * n')
    t.emit_expr('keybuf_init_len', ib.right, [], comment='KeyboardBuffer.__init__ len(self._buffer)')

    t.function('KeyboardBuffer._ring_index', coqname='keybuf_ring_index', state=STATE)
    t.prop('KeyboardBuffer.length', 'keybuf_length')
    t.prop('KeyboardBuffer.empty', 'keybuf_empty')
    t.prop('KeyboardBuffer.start', 'keybuf_start')
    t.prop('KeyboardBuffer.stop', 'keybuf_stop')

    # append: the "buffer full" test and the index that receives the uncounted \r
    app = m.find('KeyboardBuffer.append')
    full_if = one((n for n in ast.walk(app) if isinstance(n, ast.If) and 'self._check_full' in ast.unparse(n.test)),
                  'full test', 'append')
    st_params = [('self._buflen', 'Z'), ('self._start', 'Z')]
    t.emit_expr('keybuf_append_full', full_if.test, [('self._check_full', 'bool')] + st_params,
                comment='KeyboardBuffer.append: keystroke is dropped')
    cr = one((s for s in full_if.body if isinstance(s, ast.Assign) and isinstance(s.targets[0], ast.Subscript)
              and ast.unparse(s.targets[0].value) == 'self._buffer'), 'self._buffer[..] = ..', 'append')
    t.emit_expr('keybuf_append_cr_index', cr.targets[0].slice, st_params, comment='KeyboardBuffer.append: index of \\r')
    if not (isinstance(cr.value, ast.Tuple) and len(cr.value.elts) == 2):
        refuse(cr, 'unexpected value stored when full')
    t.emit_expr('keybuf_append_cr_char', cr.value.elts[0], [], comment='char stored when full')
    t.emit_expr('keybuf_append_cr_scan', cr.value.elts[1], [], comment='scancode stored when full')

    # getc / peek: the index read
    for fn in ('getc', 'peek'):
        node = m.find('KeyboardBuffer.' + fn)
        subs = [n for n in ast.walk(node) if isinstance(n, ast.Subscript) and ast.unparse(n.value) == 'self._buffer']
        sub = one(subs, 'self._buffer[..]', fn)
        t.emit_expr('keybuf_%s_index' % fn, sub.slice, st_params, comment='KeyboardBuffer.%s: index read' % fn)
    getc = m.find('KeyboardBuffer.getc')
    adv = one((n for n in ast.walk(getc) if isinstance(n, ast.AugAssign) and ast.unparse(n.target) == 'self._start'),
              'self._start += ..', 'getc')
    advv = ast.BinOp(left=ast.Attribute(value=ast.Name(id='self', ctx=ast.Load()), attr='_start', ctx=ast.Load()),
                     op=adv.op, right=adv.value)
    ast.copy_location(advv, adv)
    ast.fix_missing_locations(advv)
    t.emit_expr('keybuf_getc_next', advv, st_params, comment='KeyboardBuffer.getc: self._start after a successful read')

    # ring_set_boundaries (as repaired by fix D12): pointer normalisation, new start, slice / range bounds
    t.function('KeyboardBuffer.ring_set_boundaries', coqname='keybuf_setb_norm',
               param_types={'newstart': 'Z', 'newstop': 'Z'},
               stmts=(r'^newstart = ', r'^length = '), ret=['newstart', 'newstop', 'length'])
    rsb = m.find('KeyboardBuffer.ring_set_boundaries')
    bufs = [s.value for s in rsb.body if isinstance(s, ast.Assign) and ast.unparse(s.targets[0]) == 'self._buffer']
    if len(bufs) != 2:
        refuse(rsb, 'ring_set_boundaries: expected two assignments to self._buffer')
    keep, lay = bufs
    if not (isinstance(keep, ast.Subscript) and ast.unparse(keep.value) == 'self._buffer'
            and isinstance(keep.slice, ast.Slice) and keep.slice.lower is None and keep.slice.step is None):
        refuse(keep, 'ring_set_boundaries: first assignment is not self._buffer[:n]')
    t.emit_expr('keybuf_setb_keep', keep.slice.upper, st_params, comment='ring_set_boundaries: entries kept')
    ring = assign_value(rsb.body, 'ring', 'ring_set_boundaries', count=1)

    def comp(node, what):
        if not (isinstance(node, ast.ListComp) and len(node.generators) == 1 and not node.generators[0].ifs
                and isinstance(node.generators[0].target, ast.Name)
                and isinstance(node.generators[0].iter, ast.Call)
                and ast.unparse(node.generators[0].iter.func) == 'range'
                and len(node.generators[0].iter.args) == 1):
            refuse(node, 'ring_set_boundaries: %s is not [f(i) for i in range(n)]' % what)
        return node.elt, node.generators[0].target.id, node.generators[0].iter.args[0]
    relt, rvar, rn = comp(ring, 'ring')
    if ast.unparse(relt) != 'self.ring_read(%s)' % rvar:
        refuse(ring, 'ring_set_boundaries: ring is not read with self.ring_read(i)')
    t.emit_expr('keybuf_setb_ring_n', rn, [], comment='ring_set_boundaries: number of ring slots read')
    t.emit_expr('keybuf_setb_start', assign_value(rsb.body, 'self._start', 'ring_set_boundaries', count=1),
                [('newstart', 'Z')], comment='ring_set_boundaries: new self._start')
    lelt, lvar, ln = comp(lay, 'new buffer')
    if not (isinstance(lelt, ast.Subscript) and ast.unparse(lelt.value) == 'ring'):
        refuse(lay, 'ring_set_boundaries: new buffer is not built from ring[..]')
    t.emit_expr('keybuf_setb_slot', lelt.slice, [(lvar, 'Z')], comment='ring_set_boundaries: slot held by a position')
    t.emit_expr('keybuf_setb_newlen', ln, [('self._start', 'Z'), ('length', 'Z')],
                comment='ring_set_boundaries: new len(self._buffer), self._start being the new start')
    out = list(t.out)

    # ---------------- machine.py: BIOS data area view
    mm = Module(os.path.join(repo, SOURCES[1]))
    u = KbTranslator(mm, prefix='keybuf_')
    u.add_const('self.key_buffer_offset', mm.const_value('Memory.key_buffer_offset'), coqname='keybuf_offset')
    view = [('self.keyboard.buf.start', 'Z'), ('self.keyboard.buf.stop', 'Z')]
    get = mm.find('Memory._get_low_memory')
    for addr in (1050, 1051, 1052, 1053):
        br = branch(get, 'addr == %d' % addr)
        ret = one((s for s in br.body if isinstance(s, ast.Return)), 'return', 'addr == %d' % addr)
        u.emit_expr('keybuf_peek_%d' % addr, ret.value, view, comment='_get_low_memory addr == %d' % addr)
    for name, fn in (('peek', get), ('poke', mm.find('Memory._set_low_memory'))):
        br = slot_branch(fn)
        rng = br.test.comparators[0]
        u.emit_expr('keybuf_%s_slot_lo' % name, rng.args[0], [], comment='%s slots: first address' % name)
        u.emit_expr('keybuf_%s_slot_hi' % name, rng.args[1], [], comment='%s slots: end address' % name)
        u.emit_expr('keybuf_%s_slot_index' % name, assign_value(br.body, 'index', name, count=1), [('addr', 'Z')],
                    comment='%s slots: ring index' % name)
        u.emit_expr('keybuf_%s_slot_odd' % name, assign_value(br.body, 'odd', name, count=1), [('addr', 'Z')],
                    comment='%s slots: scancode byte?' % name)
        if name == 'poke':
            inner = one((n for s in br.body for n in ast.walk(s)
                         if isinstance(n, ast.If) and 'value' in ast.unparse(n.test)),
                        'value test', 'poke slots')
            u.emit_expr('keybuf_poke_slot_blank', inner.test, [('value', 'Z')],
                        comment='poke slots: value stored as empty char')
    setf = mm.find('Memory._set_low_memory')
    for addr in (1050, 1052):
        br = branch(setf, 'addr == %d' % addr)
        c = one((n for s in br.body for n in ast.walk(s) if isinstance(n, ast.Call)
                 and ast.unparse(n.func) == 'self.keyboard.buf.ring_set_boundaries'), 'ring_set_boundaries call',
                'addr == %d' % addr)
        if len(c.args) != 2 or c.keywords:
            refuse(c, 'unexpected ring_set_boundaries arguments')
        tup = ast.Tuple(elts=list(c.args), ctx=ast.Load())
        ast.copy_location(tup, c)
        u.emit_expr('keybuf_poke_%d' % addr, tup, view + [('value', 'Z')],
                    comment='_set_low_memory addr == %d: (newstart, newstop)' % addr)
    out += u.out
    text = HEADER + '\n'.join(out) + '\n'
    # source locations relative to the repository root, whichever checkout is translated
    return re.sub(r'\(\* \S*?pcbasic/', '(* pcbasic/', text)
