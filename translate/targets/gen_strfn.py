"""Gen_strfn.v: argument ranges, error numbers and clipping arithmetic of the string functions (C09).

What is regenerated from /repo on every run:
  * the BASIC error numbers used by the string functions (base/error.py),
  * for every modelled function the (lower, upper) bounds of its `error.range_check(lo, hi, var)` calls,
    in source order, read from the AST (refuses when a call is added, removed or made non-constant),
  * the default count of the MID$ statement (`if num is None: num = 255`),
  * String.midset's clipping arithmetic (offset / num) and StringSpace.store's length check,
    translated by py2v.
"""
import ast
import os
from py2v import Module, Translator, HEADER, read_errors, Refuse, zlit

OUT = 'Gen_strfn.v'
SOURCES = ['pcbasic/basic/values/values.py', 'pcbasic/basic/values/strings.py',
           'pcbasic/basic/memory/memory.py', 'pcbasic/basic/base/error.py']

# function -> expected range_check calls in source order: (checked quantity at the time of writing, coq name stem)
# upper bound 'len(s)' is symbolic (the target length) and emitted as lower bound only
RANGES = [
    ('values', 'chr_', [('val', 'chr_val')]),
    ('values', 'StringFunctions.left_', [('stop', 'left_stop')]),
    ('values', 'StringFunctions.right_', [('stop', 'right_stop')]),
    ('values', 'StringFunctions.mid_', [('start', 'mid_start'), ('num', 'mid_num')]),
    ('values', 'StringFunctions.instr_', [('start', 'instr_start')]),
    ('values', 'StringFunctions.string_', [('num', 'string_num'), ('asc_value_or_char.to_int()', 'string_int'),
                                           ('ascval', 'string_asc')]),
    ('strings', 'String.space', [('num', 'space_num')]),
    ('memory', 'DataSegment.mid_', [('num', 'midstmt_num'), ('start', 'midstmt_start')]),
]


class StrTranslator(Translator):
    """py2v plus the two method calls that occur in String.midset's arithmetic, and the two readings of the free
    space (before / after the garbage collection) in DataSegment.check_free."""
    collected = False

    def hook_stmt(self, s, rest, env, ctx, k):
        if isinstance(s, ast.Expr) and isinstance(s.value, ast.Call) and \
                self.dotted(s.value.func) == 'self._collect_garbage' and not s.value.args:
            self.collected = True
            return self.block(rest, env, ctx, k)
        return None

    def hook_call(self, node, env):
        f = self.dotted(node.func) if isinstance(node.func, (ast.Attribute, ast.Name)) else None
        if f == 'self._get_free' and not node.args and 'self.free_before' in env:
            return env['self.free_after'] if self.collected else env['self.free_before']
        if f == 'val.length' and not node.args and 'val_length' in env:
            return env['val_length']
        if f == 'self.length' and not node.args and 'self_length' in env:
            return env['self_length']
        return None


def range_calls(m, qualname):
    fn = m.find(qualname)
    if not isinstance(fn, ast.FunctionDef):
        raise Refuse('%s is not a function' % qualname)
    calls = []
    for n in ast.walk(fn):
        if isinstance(n, ast.Call) and isinstance(n.func, ast.Attribute) and n.func.attr == 'range_check' \
                and isinstance(n.func.value, ast.Name) and n.func.value.id == 'error':
            calls.append(n)
    calls.sort(key=lambda n: (n.lineno, n.col_offset))
    return calls


def const_int(node):
    if isinstance(node, ast.Constant) and isinstance(node.value, int) and not isinstance(node.value, bool):
        return node.value
    if isinstance(node, ast.UnaryOp) and isinstance(node.op, ast.USub):
        v = const_int(node.operand)
        return None if v is None else -v
    return None


def generate(repo):
    mods = {
        'values': Module(os.path.join(repo, SOURCES[0])),
        'strings': Module(os.path.join(repo, SOURCES[1])),
        'memory': Module(os.path.join(repo, SOURCES[2])),
    }
    errs = read_errors(repo)
    out = []
    for name in ('IFC', 'OVERFLOW', 'STRING_TOO_LONG', 'TYPE_MISMATCH', 'OUT_OF_STRING_SPACE'):
        if name not in errs:
            raise Refuse('error.%s not found' % name)
        out.append('Definition strfn_%s : Z := %s.' % (name, zlit(errs[name])))
    # error.range_check itself must still be the inclusive-range test raising IFC
    em = Module(os.path.join(repo, SOURCES[3]))
    rc = em.find('range_check')
    src = ast.unparse(rc)
    want = ("if v is not None and (not lower <= v <= upper):", "raise BASICError(IFC)")
    if not all(w in src for w in want):
        raise Refuse('error.range_check is no longer the inclusive range test raising IFC:\n' + src)
    for modname, qual, expect in RANGES:
        m = mods[modname]
        calls = range_calls(m, qual)
        if len(calls) != len(expect):
            raise Refuse('%s: expected %d range_check calls, found %d' % (qual, len(expect), len(calls)))
        out.append('(* %s:%d %s *)' % (SOURCES[['values', 'strings', 'memory'].index(modname)],
                                       m.find(qual).lineno, qual))
        for call, (var, stem) in zip(calls, expect):
            if len(call.args) != 3 or call.keywords:
                raise Refuse('%s: range_check with %d arguments' % (qual, len(call.args)))
            # (the name of the checked variable is not compared: a rename is harmless, and a check moved to
            #  another quantity is caught by the correspondence run)
            lo, hi = const_int(call.args[0]), const_int(call.args[1])
            if lo is None:
                raise Refuse('%s: non-constant lower bound %s' % (qual, ast.unparse(call.args[0])))
            out.append('Definition strfn_%s_lo : Z := %s.' % (stem, zlit(lo)))
            if hi is not None:
                out.append('Definition strfn_%s_hi : Z := %s.' % (stem, zlit(hi)))
            elif ast.unparse(call.args[1]) == 'len(s)' and stem == 'midstmt_start':
                out.append('(* upper bound of %s: len(s), the length of the target *)' % stem)
            else:
                raise Refuse('%s: non-constant upper bound %s' % (qual, ast.unparse(call.args[1])))
    # MID$ statement: default count
    fn = mods['memory'].find('DataSegment.mid_')
    dflt = None
    for n in ast.walk(fn):
        if isinstance(n, ast.If) and ast.unparse(n.test) == 'num is None' and len(n.body) == 1 \
                and isinstance(n.body[0], ast.Assign) and ast.unparse(n.body[0].targets[0]) == 'num':
            dflt = const_int(n.body[0].value)
    if dflt is None:
        raise Refuse('DataSegment.mid_: default count `if num is None: num = <int>` not found')
    out.append('Definition strfn_midstmt_default_num : Z := %s.' % zlit(dflt))
    # String.midset: offset/num clipping, StringSpace.store: length check
    t = StrTranslator(mods['strings'], prefix='strfn_', errors=errs)
    t.function('String.midset', coqname='strfn_midset_clip',
               param_types={'start': 'Z', 'num': 'Z', 'val_length': 'Z', 'self_length': 'Z'},
               stmts=(r'^offset = start - 1', r'^if offset \+ num > length'), ret=['offset', 'num'])
    t.function('StringSpace.store', coqname='strfn_store_check', param_types={'in_str': 'list Z'},
               stmts=(r'^length = len\(in_str\)', r'^if length > '), ret=['length'])
    # StringSpace.store: the 255-byte limit is tested BEFORE string space is reserved (check_free may collect
    # garbage and raise Out of string space), and the reservation raises OUT_OF_STRING_SPACE
    store = mods['strings'].find('StringSpace.store')
    i_limit = i_free = None
    for i, st in enumerate(store.body):
        src = ast.unparse(st)
        if isinstance(st, ast.If) and ast.unparse(st.test) == 'length > 255' and 'STRING_TOO_LONG' in src \
                and isinstance(st.body[0], ast.Raise) and i_limit is None:
            i_limit = i
        if 'check_free(' in src and i_free is None:
            i_free = i
            if 'self._memory.check_free(length, error.OUT_OF_STRING_SPACE)' not in src:
                raise Refuse('StringSpace.store: reservation is no longer check_free(length, OUT_OF_STRING_SPACE)')
    if i_limit is None or i_free is None or not i_limit < i_free:
        raise Refuse('StringSpace.store: the length > 255 test no longer precedes the free-space reservation')
    t.out.append('(* StringSpace.store: statement %d (limit test) precedes statement %d (check_free) *)'
                 % (i_limit, i_free))
    # DataSegment.check_free: free space read, garbage collected, free space read again
    tm = StrTranslator(mods['memory'], prefix='strfn_', errors=errs)
    tm.function('DataSegment.check_free', coqname='strfn_check_free',
                param_types={'size': 'Z', 'err': 'Z'}, state=['self.free_before', 'self.free_after'],
                force_monadic=True)
    if not tm.collected:
        raise Refuse('DataSegment.check_free no longer collects garbage between the two free-space tests')
    return HEADER + '\n'.join(out) + '\n' + '\n'.join(t.out) + '\n' + '\n'.join(tm.out) + '\n'
