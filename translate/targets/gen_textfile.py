"""Gen_textfile.v: byte classes and error numbers used by the sequential text file code (C24).

Table dumper: imports the /repo modules and prints the constants the hand model model/TextFile.v is
parameterised by (INPUT# whitespace set, soft separator of disk text files, EOF byte written on close,
the BASIC error numbers of the error paths).  Fails closed if a constant changes shape."""
import importlib
import os
import sys

from py2v import HEADER, Refuse

OUT = 'Gen_textfile.v'
SOURCES = ['pcbasic/basic/devices/devicebase.py', 'pcbasic/basic/devices/diskfiles.py',
           'pcbasic/basic/base/error.py']


def _zl(bs):
    return '[' + '; '.join(str(b) for b in bytearray(bs)) + ']'


def generate(repo):
    if repo not in sys.path:
        sys.path.insert(0, repo)
    for name in [n for n in sys.modules if n == 'pcbasic' or n.startswith('pcbasic.')]:
        f = getattr(sys.modules[name], '__file__', '') or ''
        if not os.path.abspath(f).startswith(os.path.abspath(repo) + os.sep):
            del sys.modules[name]
    devicebase = importlib.import_module('pcbasic.basic.devices.devicebase')
    diskfiles = importlib.import_module('pcbasic.basic.devices.diskfiles')
    error = importlib.import_module('pcbasic.basic.base.error')
    if not os.path.abspath(devicebase.__file__).startswith(os.path.abspath(repo) + os.sep):
        raise Refuse('pcbasic imported from %s, not from %s' % (devicebase.__file__, repo))
    ws = devicebase.INPUT_WHITESPACE
    sep = diskfiles.TextFile.soft_sep
    if not isinstance(ws, bytes) or not isinstance(sep, bytes):
        raise Refuse('INPUT_WHITESPACE / soft_sep are no longer bytes')
    out = [HEADER]
    out.append('(* devicebase.INPUT_WHITESPACE *)')
    out.append('Definition tf_INPUT_WHITESPACE : list Z := %s.' % _zl(ws))
    out.append('(* diskfiles.TextFile.soft_sep *)')
    out.append('Definition tf_soft_sep : list Z := %s.' % _zl(sep))
    for nm in ('INPUT_PAST_END', 'BAD_FILE_MODE', 'BAD_FILE_NUMBER', 'FILE_ALREADY_OPEN', 'FILE_NOT_FOUND'):
        v = getattr(error, nm)
        if not isinstance(v, int):
            raise Refuse('error.%s is not an int' % nm)
        out.append('Definition tf_err_%s : Z := %d.' % (nm, v))
    return '\n'.join(out) + '\n'
