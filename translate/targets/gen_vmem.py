"""Gen_vmem.v: video memory mappers of display/framebuffer.py and the mode table of display/modes.py (C34).

Regenerated from the AST (inside `Section Mapper` over a mode record `m : vmode`, every `self._xxx` attribute
of a memory mapper is the corresponding field of `m`):
  _MemoryMapper.num_pages                       -> vmem_num_pages
  CGA/EGA/Tandy6MemoryMapper._get_coords        -> vmem_cga_get_coords / vmem_ega_get_coords / vmem_tandy6_get_coords
  (method resolution by mapper class            -> vmem_get_coords, emitted here: dispatch on vm_kind)
  GraphicsMemoryMapper._coord_ok                -> vmem_coord_ok
  GraphicsMemoryMapper._walk_memory             -> vmem_walk_memory  (generator: `yield t` appends t to the
                                                   result list; the while loop is a Fixpoint on fuel)
  TextMemoryMapper.get_memory / set_memory      -> vmem_text_get_split / vmem_text_get_cell / vmem_text_get_skip
                                                   (and the same three for set_memory): the address arithmetic
                                                   statements and the test of the `if page < 0` guard
  Tandy6MemoryMapper.get_memory                 -> vmem_tandy6_first / vmem_tandy6_half_len
  machine.Memory._get_memory_block              -> vmem_video_len
  machine.Memory.bload_                         -> vmem_bload_glue / vmem_bload_addr: segment and offset taken from
                                                   the file header resp. the statement (`offset is None` is the
                                                   boolean parameter offset_is_none), and the load address
Dumped by importing display/modes.py in the checked tree (every entry of _MODE_INFO is instantiated the way
modes.get_mode does and the attributes of its memory mapper are read back): vmode_<name> and vmem_mode_table.
Anything else in these functions is refused.
"""
import ast
import json
import os
import subprocess

from py2v import Module, Translator, Func, HEADER, Refuse, refuse

OUT = 'Gen_vmem.v'
SOURCES = ['pcbasic/basic/display/framebuffer.py', 'pcbasic/basic/display/modes.py', 'pcbasic/basic/machine.py']

PY = '/venv/bin/python'
YIELD = '__yield'
SPAN_TY = 'list (Z * Z * Z * Z * Z)'

KINDS = {'CGAMemoryMapper': 0, 'EGAMemoryMapper': 1, 'Tandy6MemoryMapper': 2, 'TextMemoryMapper': 3}

FIELDS = [
    ('vm_kind', 'Z'), ('vm_seg', 'Z'), ('vm_page_size', 'Z'), ('vm_bank_size', 'Z'), ('vm_interleave', 'Z'),
    ('vm_bytes_per_row', 'Z'), ('vm_ppb', 'Z'), ('vm_bpp', 'Z'), ('vm_width', 'Z'), ('vm_height', 'Z'),
    ('vm_max_pages', 'Z'), ('vm_planes_used', 'list Z'), ('vm_master_mask', 'Z'), ('vm_mem_size', 'Z'),
]

# self attribute -> record field
ATTRS = {
    'self._video_segment': 'vm_seg', 'self._page_size': 'vm_page_size', 'self._bank_size': 'vm_bank_size',
    'self._interleave_times': 'vm_interleave', 'self._bytes_per_row': 'vm_bytes_per_row', 'self._ppb': 'vm_ppb',
    'self._bitsperpixel': 'vm_bpp', 'self._pixel_width': 'vm_width', 'self._pixel_height': 'vm_height',
    'self._text_width': 'vm_width', 'self._text_height': 'vm_height',
    'self._max_pages': 'vm_max_pages', 'self._video_mem_size': 'vm_mem_size',
}

_DUMP = r'''
import json, logging
logging.disable(logging.CRITICAL)
from pcbasic.basic.display import modes

def bad(msg):
    print(json.dumps({'refuse': msg}))
    raise SystemExit(0)

MEM = 262144
res = []
for name in sorted(modes._MODE_INFO):
    data = dict(**modes._MODE_INFO[name])
    cls = data.pop('layout')
    mode = cls(name=name, video_mem_size=MEM, **data)
    mm = mode.memorymap
    kind = type(mm).__name__
    d = {'name': name, 'class': kind}
    def geti(attr, none_ok=False):
        v = getattr(mm, attr)
        if v is None and none_ok:
            return 0
        if isinstance(v, bool) or not isinstance(v, int):
            bad('%s.%s of mode %s is %r, not an int' % (kind, attr, name, v))
        return v
    d['seg'] = geti('_video_segment')
    d['page_size'] = geti('_page_size')
    d['max_pages'] = geti('_max_pages', True)
    if geti('_video_mem_size') != MEM:
        bad('video_mem_size is not passed through to the mapper')
    if mode.is_text_mode:
        d['width'] = geti('_text_width')
        d['height'] = geti('_text_height')
        for k in ('bank_size', 'interleave', 'bytes_per_row', 'ppb', 'bpp', 'master_mask'):
            d[k] = 0
        d['planes_used'] = []
    else:
        d['bank_size'] = geti('_bank_size')
        d['interleave'] = geti('_interleave_times')
        d['bytes_per_row'] = geti('_bytes_per_row')
        d['ppb'] = geti('_ppb')
        d['bpp'] = geti('_bitsperpixel')
        d['width'] = geti('_pixel_width')
        d['height'] = geti('_pixel_height')
        if (d['width'], d['height']) != (mode.pixel_width, mode.pixel_height):
            bad('mapper and mode disagree on the pixel dimensions of %s' % name)
        if hasattr(mm, '_planes_used'):
            d['planes_used'] = [int(p) for p in mm._planes_used]
            d['master_mask'] = geti('_master_plane_mask')
        else:
            d['planes_used'] = []
            d['master_mask'] = 0
    res.append(d)
adapters = {}
for ad, tab in modes._MODES.items():
    adapters[ad] = sorted(set(tab.values()))
print(json.dumps({'modes': res, 'adapters': adapters}))
'''


def dump_modes(repo):
    env = dict(os.environ)
    env['PYTHONPATH'] = repo
    env['PYTHONHASHSEED'] = '0'
    env['PYTHONDONTWRITEBYTECODE'] = '1'
    p = subprocess.run([PY, '-c', _DUMP], env=env, stdout=subprocess.PIPE, stderr=subprocess.PIPE,
                       timeout=120, universal_newlines=True)
    if p.returncode != 0:
        raise Refuse('mode table dumper failed on %s:\n%s' % (repo, p.stderr[-2000:]))
    d = json.loads(p.stdout.strip().splitlines()[-1])
    if 'refuse' in d:
        raise Refuse(d['refuse'])
    return d


def mode_ident(name):
    return 'vmode_' + ''.join(c if c.isalnum() else '_' for c in name)


class VmemTranslator(Translator):
    """py2v + generator `yield`, n-ary min, attribute-as-record-field and stateless self-method calls."""

    def assigned(self, stmts):
        names = Translator.assigned(self, stmts)
        for s in stmts:
            for n in ast.walk(s):
                if isinstance(n, ast.Yield) and YIELD not in names:
                    names.append(YIELD)
        return names

    def loop_vars(self, s, env):
        # names first assigned inside the loop body are local to one iteration (a later read outside the
        # loop is refused as an unknown name because they never enter the environment after the loop)
        return [n for n in self.assigned(s.body) if n in env]

    def while_(self, s, rest, env, ctx, k):
        # loop-carried names must be Coq variables (the yield accumulator starts as the term `nil`)
        lets = []
        env = dict(env)
        for n in self.loop_vars(s, env):
            term, ty = env[n]
            if term != self.var(n):
                env[n] = (self.var(n), ty)
                lets.append('let %s := %s in\n' % (self.var(n), term))
        return ''.join(lets) + Translator.while_(self, s, rest, env, ctx, k)

    def hook_stmt(self, s, rest, env, ctx, k):
        if isinstance(s, ast.Expr) and isinstance(s.value, ast.Yield):
            if s.value.value is None or YIELD not in env:
                refuse(s, 'bare yield / yield outside a generator translated as one')
            term, ty = self.expr(s.value.value, env)
            if 'list ' + ty != SPAN_TY:
                refuse(s, 'yield of a value of type %s' % ty)
            env2, v = self.bind_name(env, YIELD, SPAN_TY)
            return 'let %s := (%s ++ [%s]) in\n%s' % (v, env[YIELD][0], term, self.block(rest, env2, ctx, k))
        return None

    def hook_expr(self, node, env):
        # `name is None` for an optional int that is modelled as (value, <name>_is_none)
        if (isinstance(node, ast.Compare) and len(node.ops) == 1 and isinstance(node.ops[0], (ast.Is, ast.IsNot))
                and isinstance(node.left, ast.Name) and isinstance(node.comparators[0], ast.Constant)
                and node.comparators[0].value is None and node.left.id + '_is_none' in env):
            term, ty = env[node.left.id + '_is_none']
            return (term, ty) if isinstance(node.ops[0], ast.Is) else ('(negb %s)' % term, ty)
        return None

    def hook_call(self, node, env):
        fname = self.dotted(node.func) if isinstance(node.func, (ast.Attribute, ast.Name)) else None
        if fname in ('min', 'max') and len(node.args) > 2 and not node.keywords:
            args = [self.as_Z(self.expr(a, env)) for a in node.args]
            term = args[-1]
            for a in reversed(args[:-1]):
                term = '(Z.%s %s %s)' % (fname, a, term)
            return term, 'Z'
        return None


def generate(repo):
    table = dump_modes(repo)
    m = Module(os.path.join(repo, SOURCES[0]))
    consts = {k: ('(%s m)' % v, 'Z') for k, v in ATTRS.items()}
    t = VmemTranslator(m, prefix='vmem_', consts=consts, fuel='(S (Z.to_nat v_num_bytes))')
    # ---- mappers
    t.function('_MemoryMapper.num_pages', coqname='vmem_num_pages')
    t.consts['self.num_pages'] = ('vmem_num_pages', 'Z')
    t.function('CGAMemoryMapper._get_coords', coqname='vmem_cga_get_coords')
    t.function('EGAMemoryMapper._get_coords', coqname='vmem_ega_get_coords')
    t.function('Tandy6MemoryMapper._get_coords', coqname='vmem_tandy6_get_coords')
    for nm in ('cga', 'ega', 'tandy6'):
        f = t.funcs['%sMemoryMapper._get_coords' % {'cga': 'CGA', 'ega': 'EGA', 'tandy6': 'Tandy6'}[nm]]
        if f.monadic or f.ret_ty.replace(' ', '') != '(Z*Z*Z)' or [p for p, _ in f.params] != ['addr']:
            raise Refuse('unexpected signature of %s' % f.coqname)
    t.emit('(* method resolution of self._get_coords by mapper class (vm_kind: %s) *)'
           % ', '.join('%d = %s' % (v, k) for k, v in sorted(KINDS.items(), key=lambda kv: kv[1])))
    t.emit('Definition vmem_get_coords (v_addr : Z) : (Z * Z * Z) :=\n'
           '  if vm_kind m =? 0 then vmem_cga_get_coords v_addr\n'
           '  else if vm_kind m =? 1 then vmem_ega_get_coords v_addr\n'
           '  else vmem_tandy6_get_coords v_addr.')
    disp = Func('vmem_get_coords', [('addr', 'Z')], '(Z * Z * Z)', False)
    for k in ('_get_coords', 'self._get_coords'):
        t.funcs[k] = disp
    t.function('GraphicsMemoryMapper._coord_ok', coqname='vmem_coord_ok')
    walk = m.find('GraphicsMemoryMapper._walk_memory')
    if [a.arg for a in walk.args.args] != ['self', 'addr', 'num_bytes', 'factor']:
        raise Refuse('unexpected parameters of _walk_memory')
    t.function('GraphicsMemoryMapper._walk_memory', coqname='vmem_walk_memory',
               extra_env={YIELD: ('(@nil (Z * Z * Z * Z * Z))', SPAN_TY)}, ret=[YIELD])
    # ---- text mapper: address arithmetic of the per-byte loops
    for fn in ('get', 'set'):
        q = 'TextMemoryMapper.%s_memory' % fn
        t.function(q, coqname='vmem_text_%s_split' % fn, param_types={'addr': 'Z', 'i': 'Z'},
                   stmts=(r'^page, offset = divmod', r'^page, offset = divmod'), ret=['page', 'offset'])
        t.function(q, coqname='vmem_text_%s_cell' % fn, param_types={'offset': 'Z'},
                   stmts=(r'^row, row_offset = divmod', r'^col = '), ret=['row', 'col'])
        # the guard `if page < 0: continue`
        node = m.find(q)
        guards = [n for n in ast.walk(node) if isinstance(n, ast.If) and len(n.body) == 1
                  and isinstance(n.body[0], ast.Continue) and not n.orelse]
        if len(guards) != 1:
            raise Refuse('%s: expected exactly one `if ..: continue` guard in the byte loop, found %d'
                         % (q, len(guards)))
        term = t.as_bool(t.expr(guards[0].test, {'page': ('v_page', 'Z')}))
        t.emit('(* %s:%d guard of `continue` *)' % (SOURCES[0], guards[0].lineno))
        t.emit('Definition vmem_text_%s_skip (v_page : Z) : bool := %s.' % (fn, term))
    # ---- tandy6: which bytes of a block belong to which plane
    t.function('Tandy6MemoryMapper.get_memory', coqname='vmem_tandy6_first',
               param_types={'plane': 'Z', 'addr': 'Z'}, stmts=(r'^first = ', r'^first = '), ret=['first'])
    t.function('Tandy6MemoryMapper.get_memory', coqname='vmem_tandy6_half_len',
               param_types={'num_bytes': 'Z', 'first': 'Z'}, stmts=(r'^half_len = ', r'^half_len = '),
               ret=['half_len'])
    t.function('Tandy6MemoryMapper.set_memory', coqname='vmem_tandy6_set_first',
               param_types={'plane': 'Z', 'addr': 'Z'}, stmts=(r'^first = ', r'^first = '), ret=['first'])
    body = '\n'.join(t.out)
    # ---- machine.py: the part of a block that is video memory
    m2 = Module(os.path.join(repo, SOURCES[2]))
    vseg = m2.const_value('Memory.video_segment')
    t2 = Translator(m2, prefix='vmem_', consts={'self.video_segment': ('vmem_video_segment', 'Z')})
    t2.emit('Definition vmem_video_segment : Z := %d.' % vseg)
    for fn in ('get', 'set'):
        t2.function('Memory._%s_memory_block' % fn, coqname='vmem_%s_video_len' % fn, param_types={'addr': 'Z'},
                    stmts=(r'^video_len = ', r'^video_len = '), ret=['video_len'])
    # ---- machine.py: where BLOAD puts the block
    t3 = VmemTranslator(m2, prefix='vmem_')
    t3.function('Memory.bload_', coqname='vmem_bload_glue',
                param_types={'g.seg': 'Z', 'g.offset': 'Z', 'offset': 'Z', 'offset_is_none': 'bool'},
                stmts=(r'^seg = g\.seg$', r'^if offset is None:$'), ret=['seg', 'offset'])
    t3.function('Memory.bload_', coqname='vmem_bload_addr', param_types={'seg': 'Z', 'offset': 'Z'},
                stmts=(r'^addr = seg \* 0x10 \+ offset$', r'^addr = seg \* 0x10 \+ offset$'), ret=['addr'])
    # ---- output
    out = [HEADER.rstrip('\n')]
    out.append('(* attributes of a memory mapper object; vm_width/vm_height are pixels (graphics) or cells (text);\n'
               '   vm_max_pages = 0 stands for None *)')
    out.append('Record vmode : Type := mk_vmode {\n  ' +
               ';\n  '.join('%s : %s' % f for f in FIELDS) + '\n}.')
    out.append('Section Mapper.\nVariable m : vmode.')
    out.append(body)
    out.append('End Mapper.')
    out.append('\n'.join(t2.out))
    out.append('\n'.join(t3.out))
    names = []
    for d in table['modes']:
        if d['class'] not in KINDS:
            raise Refuse('mode %s uses unknown memory mapper class %s' % (d['name'], d['class']))
        ident = mode_ident(d['name'])
        if ident in names:
            raise Refuse('mode names collide: %s' % ident)
        names.append(ident)
        vals = {
            'vm_kind': KINDS[d['class']], 'vm_seg': d['seg'], 'vm_page_size': d['page_size'],
            'vm_bank_size': d['bank_size'], 'vm_interleave': d['interleave'],
            'vm_bytes_per_row': d['bytes_per_row'], 'vm_ppb': d['ppb'], 'vm_bpp': d['bpp'],
            'vm_width': d['width'], 'vm_height': d['height'], 'vm_max_pages': d['max_pages'],
            'vm_planes_used': '[' + '; '.join(str(p) for p in d['planes_used']) + ']',
            'vm_master_mask': d['master_mask'], 'vm_mem_size': 'mem',
        }
        out.append('(* %s: %s *)' % (d['name'], d['class']))
        out.append('Definition %s (mem : Z) : vmode := {| %s |}.' % (
            ident, '; '.join('%s := %s' % (f, vals[f]) for f, _ in FIELDS)))
    out.append('Definition vmem_mode_table : list (Z -> vmode) := [%s].' % '; '.join(names))
    return '\n'.join(out) + '\n'
