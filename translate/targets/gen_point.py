"""Gen_point.v: the out-of-range test of POINT(x, y) (display/graphics.py Graphics.point_) and
GraphicsViewPort.is_on_screen (C31).

point_ must end with
    if <test>:
        point = -1
    else:
        point = self.graph_view[y, x]
(fail closed otherwise); <test> is translated as `point_offscreen vp-fields pixel_width pixel_height x y : bool`.
"""
import ast
import os

from py2v import Module, HEADER, Refuse, refuse
from targets import gen_viewport
from targets.gen_raster import RasterTranslator, GV_STATE

OUT = 'Gen_point.v'
SOURCES = ['pcbasic/basic/display/graphics.py']


def generate(repo):
    m = Module(os.path.join(repo, SOURCES[0]))
    vt = gen_viewport.VPTranslator(m, prefix='viewport_')
    vt.method('_convert_coords')
    vt.out = []
    vt.method('is_on_screen')
    fn = m.find('Graphics.point_')
    ifs = [n for n in ast.walk(fn) if isinstance(n, ast.If) and len(n.body) == 1 and len(n.orelse) == 1
           and ast.unparse(n.body[0]) == 'point = -1']
    if len(ifs) != 1 or ast.unparse(ifs[0].orelse[0]) != 'point = self.graph_view[y, x]':
        refuse(fn, 'point_ does not end with `if <test>: point = -1 else: point = self.graph_view[y, x]`')
    test = ifs[0].test
    t = RasterTranslator(m, {'is_on_screen': vt.funcs['GraphicsViewPort.is_on_screen'],
                             'contains': None}, prefix='point_')
    env = {}
    params = []
    for a in GV_STATE:
        ty = 'bool' if a.endswith('_absolute') else 'Z'
        env[a] = (t.var(a), ty)
        params.append((t.var(a), ty))
    for a in ('self._mode.pixel_width', 'self._mode.pixel_height', 'x', 'y'):
        env[a] = (t.var(a), 'Z')
        params.append((t.var(a), 'Z'))
    term, ty = t.expr(test, env)
    if ty != 'bool':
        raise Refuse('POINT range test is not boolean')
    sig = ' '.join('(%s : %s)' % p for p in params)
    text = '\n'.join(vt.out) + '\n'
    text += '(* %s the out-of-range test of POINT *)\n' % SOURCES[0]
    text += 'Definition point_offscreen %s : bool :=\n  %s.\n' % (sig, term)
    return gen_viewport.stable(HEADER + 'From PCB Require Import lib.GfxPrims gen.Gen_viewport.\n' + text)
