#!/usr/bin/env python3
"""
py2v - fail-closed translator from a restricted pure subset of Python (via `ast`) to Gallina.

It is used to REGENERATE theories/gen/*.v from /repo's current source on every run.
Anything outside the accepted subset raises Refuse (the check then reports the broken tie).

Semantics emitted (see lib/PyInt.v):
  Python int -> Z ; bool -> bool
  + - *            -> Z.add Z.sub Z.mul
  // %             -> Z.div Z.modulo      (floor semantics = Python)
  << >>            -> Z.shiftl Z.shiftr   (arithmetic on negatives = Python)
  & | ^ ~          -> Z.land Z.lor Z.lxor Z.lnot
  ** (const exp)   -> Z.pow
  == != < <= > >=  -> Z.eqb ... (Bool.eqb on bools); chained comparisons are conjunctions
  and or not       -> andb orb negb (on bools; ints are coerced by truthiness)
  abs min max      -> Z.abs Z.min Z.max
  x if c else y    -> if c then x else y
  T[i] (T constant tuple/bytes) -> py_nth 0 T i
  statements: assignment, augmented assignment, tuple assignment, if/elif/else, while (fuel),
     for .. in range(..) (fuel = Z.to_nat of the trip count), return, raise (BASICError / host
     exceptions), pass, docstrings, calls of other translated functions.

A function containing `raise`, `while`, `for` or calls of such functions returns `res T`;
otherwise it returns T directly.  Loops become Fixpoints on `fuel : nat`; exhaustion is OutOfFuel.
"""
import ast
import os
import re
import sys
import textwrap


class Refuse(Exception):
    pass


def refuse(node, msg):
    line = getattr(node, 'lineno', '?')
    raise Refuse('line %s: %s' % (line, msg))


COQ_KEYWORDS = {
    'end', 'in', 'let', 'fun', 'match', 'with', 'if', 'then', 'else', 'return', 'as', 'at',
    'fix', 'for', 'forall', 'exists', 'Type', 'Prop', 'Set', 'where', 'using', 'mod', 'by',
}


def zlit(n):
    n = int(n)
    return '(%d)' % n if n < 0 else '%d' % n


def coq_list(items):
    return '[' + '; '.join(items) + ']'


def coq_value(v):
    """Python constant -> (Coq term, type)."""
    if isinstance(v, bool):
        return ('true' if v else 'false'), 'bool'
    if isinstance(v, int):
        return zlit(v), 'Z'
    if isinstance(v, (bytes, bytearray)):
        return coq_list([zlit(b) for b in bytearray(v)]), 'list Z'
    if isinstance(v, (tuple, list)):
        parts = [coq_value(x) for x in v]
        tys = set(t for _, t in parts)
        if len(tys) > 1:
            raise Refuse('heterogeneous tuple constant %r' % (v,))
        ty = tys.pop() if tys else 'Z'
        return coq_list([p for p, _ in parts]), 'list (%s)' % ty if ' ' in ty else 'list ' + ty
    raise Refuse('unsupported constant %r' % (v,))


class Func(object):
    """Signature of a translated function, for calls from later functions."""

    def __init__(self, coqname, params, ret_ty, monadic, state_in=(), state_out=()):
        self.coqname = coqname
        self.params = params          # list of (name, type)
        self.ret_ty = ret_ty          # Coq type of the plain return value ('Z', 'bool', tuple type or 'unit')
        self.monadic = monadic        # returns res T
        self.state_in = state_in      # self attributes read (passed first)
        self.state_out = state_out    # self attributes written (returned first)


class Module(object):
    """A parsed Python source file with its constants."""

    def __init__(self, path):
        self.path = path
        with open(path) as f:
            self.src = f.read()
        self.tree = ast.parse(self.src, path)
        self.lines = self.src.splitlines()

    def find(self, qualname):
        """Find ClassDef/FunctionDef/Assign node by dotted name."""
        parts = qualname.split('.')
        body = self.tree.body
        node = None
        for i, p in enumerate(parts):
            found = None
            for n in body:
                if isinstance(n, (ast.ClassDef, ast.FunctionDef)) and n.name == p:
                    found = n
                elif isinstance(n, ast.Assign) and len(n.targets) == 1 and \
                        isinstance(n.targets[0], ast.Name) and n.targets[0].id == p:
                    found = n
            if found is None:
                raise Refuse('%s: %s not found' % (self.path, qualname))
            node = found
            body = getattr(found, 'body', [])
        return node

    def const_value(self, qualname, env=None):
        """Evaluate a constant assignment with a safe evaluator (ints, bytes, tuples, arithmetic)."""
        node = self.find(qualname)
        if not isinstance(node, ast.Assign):
            raise Refuse('%s is not a constant assignment' % qualname)
        return safe_eval(node.value, env or {})


def safe_eval(node, env):
    """Evaluate constant expressions only."""
    if isinstance(node, ast.Constant):
        if isinstance(node.value, (int, bytes, bool)):
            return node.value
        refuse(node, 'constant of unsupported type')
    if isinstance(node, (ast.Tuple, ast.List)):
        return tuple(safe_eval(e, env) for e in node.elts)
    if isinstance(node, ast.Name):
        if node.id in env:
            return env[node.id]
        refuse(node, 'unknown name %s in constant' % node.id)
    if isinstance(node, ast.UnaryOp) and isinstance(node.op, ast.USub):
        return -safe_eval(node.operand, env)
    if isinstance(node, ast.BinOp):
        a, b = safe_eval(node.left, env), safe_eval(node.right, env)
        ops = {ast.Add: lambda: a + b, ast.Sub: lambda: a - b, ast.Mult: lambda: a * b,
               ast.Pow: lambda: a ** b, ast.LShift: lambda: a << b, ast.RShift: lambda: a >> b,
               ast.FloorDiv: lambda: a // b, ast.Mod: lambda: a % b, ast.BitOr: lambda: a | b,
               ast.BitAnd: lambda: a & b, ast.BitXor: lambda: a ^ b}
        for k, f in ops.items():
            if isinstance(node.op, k):
                return f()
    refuse(node, 'unsupported constant expression')


BINOPS = {
    ast.Add: 'Z.add', ast.Sub: 'Z.sub', ast.Mult: 'Z.mul', ast.FloorDiv: 'Z.div', ast.Mod: 'Z.modulo',
    ast.LShift: 'Z.shiftl', ast.RShift: 'Z.shiftr', ast.BitAnd: 'Z.land', ast.BitOr: 'Z.lor',
    ast.BitXor: 'Z.lxor', ast.Pow: 'Z.pow',
}
CMPOPS_Z = {ast.Eq: 'Z.eqb', ast.Lt: 'Z.ltb', ast.LtE: 'Z.leb', ast.Gt: 'Z.gtb', ast.GtE: 'Z.geb'}

# BASIC error names -> numbers are read from base/error.py by the caller
HOST_EXC = {
    'ValueError': 1, 'KeyError': 2, 'TypeError': 3, 'IndexError': 4, 'OverflowError': 5,
    'ZeroDivisionError': 6,
}


class Translator(object):
    """Translate functions of one module.  Subclass and override the hook_* methods to add idioms."""

    def __init__(self, module, prefix='', consts=None, errors=None, fuel='1000%nat'):
        self.m = module
        self.prefix = prefix
        self.consts = dict(consts or {})   # python name (or 'self.X', 'Class.X') -> (coq term, type)
        self.errors = errors or {}          # error.NAME -> int
        self.funcs = {}                     # python callable name -> Func
        self.out = []                       # emitted Coq text
        self.fuel = fuel
        self.counter = 0

    # ----- naming
    def cname(self, name):
        n = name.replace('.', '_')
        n = re.sub(r'^_+', lambda mo: 'u' * len(mo.group(0)) + '_', n)
        if n in COQ_KEYWORDS:
            n += '_'
        return n

    def var(self, name):
        return 'v_' + name.replace('.', '_')

    def emit(self, text):
        self.out.append(text)

    # ----- constants
    def add_const(self, pyname, value, coqname=None):
        term, ty = coq_value(value)
        coqname = coqname or self.prefix + self.cname(pyname)
        self.emit('Definition %s : %s := %s.' % (coqname, ty, term))
        self.consts[pyname] = (coqname, ty)
        return coqname

    # ----- expressions: return (term, type) with type in {'Z','bool', 'list Z', other}
    def as_Z(self, t):
        term, ty = t
        if ty == 'Z':
            return term
        if ty == 'bool':
            return '(b2z %s)' % term
        raise Refuse('expected int, got %s: %s' % (ty, term))

    def as_bool(self, t):
        term, ty = t
        if ty == 'bool':
            return term
        if ty == 'Z':
            return '(z2b %s)' % term
        if ty.startswith('list'):
            return '(negb (zlen %s =? 0))' % term
        raise Refuse('expected bool, got %s: %s' % (ty, term))

    def hook_expr(self, node, env):
        """Override: return (term, type) for an idiom or None."""
        return None

    def expr(self, node, env):
        h = self.hook_expr(node, env)
        if h is not None:
            return h
        if isinstance(node, ast.Constant):
            if isinstance(node.value, (bool, int, bytes)):
                return coq_value(node.value)
            refuse(node, 'unsupported literal %r' % (node.value,))
        if isinstance(node, ast.Name):
            if node.id in env:
                return env[node.id]
            if node.id in self.consts:
                return self.consts[node.id]
            if node.id in ('True', 'False'):
                return node.id.lower(), 'bool'
            refuse(node, 'unknown name %s' % node.id)
        if isinstance(node, ast.Attribute):
            dotted = self.dotted(node)
            if dotted is not None:
                if dotted in env:
                    return env[dotted]
                if dotted in self.consts:
                    return self.consts[dotted]
                if dotted.startswith('error.') and dotted[6:] in self.errors:
                    return zlit(self.errors[dotted[6:]]), 'Z'
            refuse(node, 'unknown attribute %s' % ast.unparse(node))
        if isinstance(node, ast.UnaryOp):
            if isinstance(node.op, ast.USub):
                return '(- %s)' % self.as_Z(self.expr(node.operand, env)), 'Z'
            if isinstance(node.op, ast.UAdd):
                return self.as_Z(self.expr(node.operand, env)), 'Z'
            if isinstance(node.op, ast.Invert):
                return '(Z.lnot %s)' % self.as_Z(self.expr(node.operand, env)), 'Z'
            if isinstance(node.op, ast.Not):
                return '(negb %s)' % self.as_bool(self.expr(node.operand, env)), 'bool'
        if isinstance(node, ast.BinOp):
            for k, f in BINOPS.items():
                if isinstance(node.op, k):
                    a = self.as_Z(self.expr(node.left, env))
                    b = self.as_Z(self.expr(node.right, env))
                    if k is ast.Pow:
                        # only non-negative constant exponents
                        try:
                            ev = safe_eval(node.right, {})
                        except Refuse:
                            refuse(node, '** with non-constant exponent')
                        if ev < 0:
                            refuse(node, '** with negative exponent')
                    return '(%s %s %s)' % (f, a, b), 'Z'
            refuse(node, 'unsupported binary operator %s' % type(node.op).__name__)
        if isinstance(node, ast.BoolOp):
            parts = [self.expr(v, env) for v in node.values]
            if all(t == 'bool' for _, t in parts):
                op = 'andb' if isinstance(node.op, ast.And) else 'orb'
                term = parts[-1][0]
                for p, _ in reversed(parts[:-1]):
                    term = '(%s %s %s)' % (op, p, term)
                return term, 'bool'
            refuse(node, 'and/or on non-boolean operands (value semantics not supported)')
        if isinstance(node, ast.Compare):
            operands = [self.expr(node.left, env)] + [self.expr(c, env) for c in node.comparators]
            conj = []
            for i, op in enumerate(node.ops):
                conj.append(self.compare(node, op, operands[i], operands[i + 1]))
            term = conj[-1]
            for c in reversed(conj[:-1]):
                term = '(andb %s %s)' % (c, term)
            return term, 'bool'
        if isinstance(node, ast.IfExp):
            c = self.as_bool(self.expr(node.test, env))
            a, b = self.expr(node.body, env), self.expr(node.orelse, env)
            if a[1] != b[1]:
                refuse(node, 'conditional expression with different branch types')
            return '(if %s then %s else %s)' % (c, a[0], b[0]), a[1]
        if isinstance(node, ast.Tuple):
            parts = [self.expr(e, env) for e in node.elts]
            return '(' + ', '.join(p for p, _ in parts) + ')', '(' + ' * '.join(t for _, t in parts) + ')'
        if isinstance(node, ast.Subscript):
            base = self.expr(node.value, env)
            if base[1] == 'list Z' and not isinstance(node.slice, ast.Slice):
                idx = self.as_Z(self.expr(node.slice, env))
                return '(py_nth 0 %s %s)' % (base[0], idx), 'Z'
            refuse(node, 'unsupported subscript %s' % ast.unparse(node))
        if isinstance(node, ast.Call):
            return self.call(node, env)
        refuse(node, 'unsupported expression %s' % ast.unparse(node))

    def compare(self, node, op, a, b):
        if a[1] == 'bool' and b[1] == 'bool':
            if isinstance(op, ast.Eq):
                return '(Bool.eqb %s %s)' % (a[0], b[0])
            if isinstance(op, ast.NotEq):
                return '(negb (Bool.eqb %s %s))' % (a[0], b[0])
            refuse(node, 'ordering comparison on bools')
        if a[1] == 'list Z' and b[1] == 'list Z':
            if isinstance(op, ast.Eq):
                return '(list_Z_eqb %s %s)' % (a[0], b[0])
            if isinstance(op, ast.NotEq):
                return '(negb (list_Z_eqb %s %s))' % (a[0], b[0])
            refuse(node, 'ordering comparison on byte strings')
        x, y = self.as_Z(a), self.as_Z(b)
        if isinstance(op, ast.NotEq):
            return '(negb (Z.eqb %s %s))' % (x, y)
        for k, f in CMPOPS_Z.items():
            if isinstance(op, k):
                return '(%s %s %s)' % (f, x, y)
        refuse(node, 'unsupported comparison %s' % type(op).__name__)

    def dotted(self, node):
        parts = []
        while isinstance(node, ast.Attribute):
            parts.append(node.attr)
            node = node.value
        if isinstance(node, ast.Name):
            parts.append(node.id)
            return '.'.join(reversed(parts))
        return None

    def hook_call(self, node, env):
        return None

    def call(self, node, env):
        h = self.hook_call(node, env)
        if h is not None:
            return h
        fname = self.dotted(node.func) if isinstance(node.func, (ast.Attribute, ast.Name)) else None
        if fname in ('abs',) and len(node.args) == 1:
            return '(Z.abs %s)' % self.as_Z(self.expr(node.args[0], env)), 'Z'
        if fname in ('min', 'max') and len(node.args) == 2 and not node.keywords:
            a, b = (self.as_Z(self.expr(x, env)) for x in node.args)
            return '(Z.%s %s %s)' % (fname, a, b), 'Z'
        if fname == 'int' and len(node.args) == 1:
            t = self.expr(node.args[0], env)
            return self.as_Z(t), 'Z'
        if fname == 'bool' and len(node.args) == 1:
            return self.as_bool(self.expr(node.args[0], env)), 'bool'
        if fname == 'len' and len(node.args) == 1:
            t = self.expr(node.args[0], env)
            if t[1].startswith('list'):
                return '(zlen %s)' % t[0], 'Z'
        if fname == 'divmod' and len(node.args) == 2:
            a, b = (self.as_Z(self.expr(x, env)) for x in node.args)
            return '(Z.div %s %s, Z.modulo %s %s)' % (a, b, a, b), '(Z * Z)'
        if fname in self.funcs:
            f = self.funcs[fname]
            if f.monadic:
                refuse(node, 'call of monadic function %s inside an expression' % fname)
            if f.state_in or f.state_out:
                refuse(node, 'call of stateful method %s inside an expression' % fname)
            if node.keywords or len(node.args) != len(f.params):
                refuse(node, 'call arity mismatch for %s' % fname)
            args = []
            for a, (pn, pt) in zip(node.args, f.params):
                t = self.expr(a, env)
                args.append(self.as_Z(t) if pt == 'Z' else self.as_bool(t) if pt == 'bool' else t[0])
            return '(%s %s)' % (f.coqname, ' '.join(args)), f.ret_ty
        refuse(node, 'unsupported call %s' % ast.unparse(node))

    # ----- statements
    # A block is translated in continuation style.  `env` maps python names to (coq var, type).
    # `k(env)` produces the Coq term for the rest of the computation.
    # ctx.monadic tells whether terms have type `res T`.

    def has_exit(self, stmts):
        for s in stmts:
            for n in ast.walk(s):
                if isinstance(n, (ast.Return, ast.Raise)):
                    return True
        return False

    def assigned(self, stmts):
        """Names assigned in a statement list (in order of first assignment)."""
        names = []

        def add(t):
            if isinstance(t, ast.Name):
                if t.id not in names:
                    names.append(t.id)
            elif isinstance(t, ast.Attribute):
                d = self.dotted(t)
                if d and d not in names:
                    names.append(d)
            elif isinstance(t, (ast.Tuple, ast.List)):
                for e in t.elts:
                    add(e)
        for s in stmts:
            for n in ast.walk(s):
                if isinstance(n, ast.Assign):
                    for t in n.targets:
                        add(t)
                elif isinstance(n, ast.AugAssign):
                    add(n.target)
                elif isinstance(n, ast.For):
                    add(n.target)
        return names

    def fresh(self, base):
        self.counter += 1
        return '%s_%d' % (base, self.counter)

    def bind_name(self, env, pyname, ty):
        env = dict(env)
        v = self.var(pyname)
        env[pyname] = (v, ty)
        return env, v

    def hook_stmt(self, s, rest, env, ctx, k):
        return None

    def block(self, stmts, env, ctx, k):
        if not stmts:
            return k(env)
        s, rest = stmts[0], stmts[1:]
        h = self.hook_stmt(s, rest, env, ctx, k)
        if h is not None:
            return h
        if isinstance(s, ast.Expr) and isinstance(s.value, ast.Constant) and isinstance(s.value.value, str):
            return self.block(rest, env, ctx, k)
        if isinstance(s, ast.Pass):
            return self.block(rest, env, ctx, k)
        if isinstance(s, ast.Assign):
            if len(s.targets) != 1:
                refuse(s, 'multiple assignment targets')
            return self.assign(s, s.targets[0], s.value, rest, env, ctx, k)
        if isinstance(s, ast.AugAssign):
            val = ast.BinOp(left=self.target_as_expr(s.target), op=s.op, right=s.value)
            ast.copy_location(val, s)
            ast.fix_missing_locations(val)
            return self.assign(s, s.target, val, rest, env, ctx, k)
        if isinstance(s, ast.Return):
            if s.value is None:
                return ctx.ret(self, None, env)
            return ctx.ret(self, self.expr(s.value, env), env)
        if isinstance(s, ast.Raise):
            return ctx.raise_(self, s, env)
        if isinstance(s, ast.If):
            return self.if_(s, rest, env, ctx, k)
        if isinstance(s, ast.While):
            return self.while_(s, rest, env, ctx, k)
        if isinstance(s, ast.For):
            return self.for_(s, rest, env, ctx, k)
        if isinstance(s, ast.Expr) and isinstance(s.value, ast.Call):
            return self.call_stmt(s, rest, env, ctx, k)
        refuse(s, 'unsupported statement %s' % type(s).__name__)

    def target_as_expr(self, t):
        if isinstance(t, ast.Name):
            return ast.Name(id=t.id, ctx=ast.Load())
        if isinstance(t, ast.Attribute):
            return ast.Attribute(value=t.value, attr=t.attr, ctx=ast.Load())
        refuse(t, 'unsupported augmented assignment target')

    def assign(self, s, target, value, rest, env, ctx, k):
        if isinstance(target, (ast.Name, ast.Attribute)):
            name = target.id if isinstance(target, ast.Name) else self.dotted(target)
            if name is None:
                refuse(s, 'unsupported assignment target')
            if isinstance(target, ast.Attribute) and not name.startswith('self.'):
                refuse(s, 'assignment to attribute of non-self object')
            # call of monadic/stateful function on the right-hand side
            if isinstance(value, ast.Call):
                fname = self.dotted(value.func) if isinstance(value.func, (ast.Attribute, ast.Name)) else None
                if fname in self.funcs and (self.funcs[fname].monadic or self.funcs[fname].state_out):
                    return self.call_bind(s, value, name, rest, env, ctx, k)
            term, ty = self.expr(value, env)
            env2, v = self.bind_name(env, name, ty)
            return 'let %s := %s in\n%s' % (v, term, self.block(rest, env2, ctx, k))
        if isinstance(target, ast.Tuple):
            term, ty = self.expr(value, env)
            names = []
            env2 = env
            tys = self.split_tuple_type(ty, len(target.elts), s)
            for e, t in zip(target.elts, tys):
                if not isinstance(e, ast.Name):
                    refuse(s, 'unsupported tuple target')
                env2, v = self.bind_name(env2, e.id, t)
                names.append(v)
            return "let '(%s) := %s in\n%s" % (', '.join(names), term, self.block(rest, env2, ctx, k))
        refuse(s, 'unsupported assignment target')

    def split_tuple_type(self, ty, n, node):
        ty = ty.strip()
        if ty.startswith('(') and ty.endswith(')'):
            parts = [p.strip() for p in ty[1:-1].split('*')]
            if len(parts) == n:
                return parts
        refuse(node, 'cannot unpack type %s into %d names' % (ty, n))

    def if_(self, s, rest, env, ctx, k):
        c = self.as_bool(self.expr(s.test, env))
        if self.has_exit(s.body) or self.has_exit(s.orelse):
            # duplicate the continuation
            a = self.block(list(s.body) + list(rest), env, ctx, k)
            b = self.block(list(s.orelse) + list(rest), env, ctx, k)
            return 'if %s then (\n%s\n) else (\n%s\n)' % (c, a, b)
        names = self.assigned(s.body + s.orelse)
        # types: translate branches with a probe continuation recording the types
        tys = {}

        def probe(e):
            for n in names:
                if n in e:
                    tys.setdefault(n, e[n][1])
            return None
        inner = Ctx(ctx.monadic_inner())
        self.block(list(s.body), env, inner, lambda e: probe(e) or 'tt')
        self.block(list(s.orelse), env, inner, lambda e: probe(e) or 'tt')
        names = [n for n in names if n in tys]
        for n in names:
            if n in env and env[n][1] != tys[n]:
                refuse(s, 'variable %s changes type in if' % n)

        def join(e):
            for n in names:
                if n not in e:
                    refuse(s, 'variable %s assigned in only one branch and not defined before' % n)
            tup = ', '.join(e[n][0] for n in names)
            return ctx.pure_tuple(tup, len(names))
        a = self.block(list(s.body), env, ctx.joined(), join)
        b = self.block(list(s.orelse), env, ctx.joined(), join)
        env2 = dict(env)
        vs = []
        for n in names:
            env2, v = self.bind_name(env2, n, tys[n])
            vs.append(v)
        if not names:
            # no effect at all (e.g. only pass) - still must evaluate for monadic errors
            return ctx.bind_tuple(self, 'if %s then (\n%s\n) else (\n%s\n)' % (c, a, b), [],
                                  self.block(rest, env2, ctx, k))
        return ctx.bind_tuple(self, 'if %s then (\n%s\n) else (\n%s\n)' % (c, a, b), vs,
                              self.block(rest, env2, ctx, k))

    def loop_vars(self, s, env):
        names = [n for n in self.assigned(s.body) if True]
        carried = []
        for n in names:
            if n not in env:
                refuse(s, 'loop assigns %s which is not defined before the loop' % n)
            carried.append(n)
        return carried

    def free_vars(self, env):
        return [(n, v, t) for n, (v, t) in env.items()]

    def while_(self, s, rest, env, ctx, k):
        if not ctx.monadic:
            refuse(s, 'while loop in non-monadic context')
        if s.orelse:
            refuse(s, 'while-else')
        for n in ast.walk(s):
            if isinstance(n, (ast.Break, ast.Continue, ast.Return)):
                refuse(n, 'break/continue/return inside while')
        carried = self.loop_vars(s, env)
        loopname = self.fresh(ctx.fname + '_loop')
        others = [(n, v, t) for (n, v, t) in self.free_vars(env) if n not in carried]
        cvars = [(n, env[n][0], env[n][1]) for n in carried]
        params = ' '.join('(%s : %s)' % (v, t) for (_, v, t) in others + cvars)
        tupty = ' * '.join(t for (_, _, t) in cvars) or 'unit'
        cond = self.as_bool(self.expr(s.test, env))
        inner = Ctx(True, fname=ctx.fname, ret_ty=tupty, joined=True)

        def again(e):
            args = ' '.join(v for (_, v, _) in others) + ' ' + ' '.join(e[n][0] for n in carried)
            return '%s fuel %s' % (loopname, args)
        body = self.block(list(s.body), env, inner, again)
        done = 'Ok (%s)' % (', '.join(v for (_, v, _) in cvars) or 'tt')
        self.emit('Fixpoint %s (fuel : nat) %s {struct fuel} : res (%s) :=\n'
                  '  match fuel with\n  | O => OutOfFuel\n  | S fuel =>\n'
                  '    if %s then (\n%s\n) else %s\n  end.'
                  % (loopname, params, tupty, cond, textwrap.indent(body, '      '), done))
        args = ' '.join(v for (_, v, _) in others + cvars)
        env2 = dict(env)
        vs = []
        for (n, _, t) in cvars:
            env2, v = self.bind_name(env2, n, t)
            vs.append(v)
        return ctx.bind_tuple(self, '%s %s %s' % (loopname, self.fuel, args), vs,
                              self.block(rest, env2, ctx, k), monadic_src=True)

    def for_(self, s, rest, env, ctx, k):
        if not ctx.monadic:
            refuse(s, 'for loop in non-monadic context')
        if s.orelse or not isinstance(s.target, ast.Name):
            refuse(s, 'unsupported for loop')
        it = s.iter
        if not (isinstance(it, ast.Call) and isinstance(it.func, ast.Name) and it.func.id == 'range'
                and 1 <= len(it.args) <= 2 and not it.keywords):
            refuse(s, 'for loop over something else than range(a[, b])')
        for n in ast.walk(s):
            if isinstance(n, (ast.Break, ast.Continue, ast.Return)):
                refuse(n, 'break/continue/return inside for')
        lo = '0' if len(it.args) == 1 else self.as_Z(self.expr(it.args[0], env))
        hi = self.as_Z(self.expr(it.args[-1], env))
        carried = [n for n in self.assigned(s.body) if n != s.target.id]
        for n in carried:
            if n not in env:
                refuse(s, 'loop assigns %s which is not defined before the loop' % n)
        loopname = self.fresh(ctx.fname + '_for')
        ivar = self.var(s.target.id)
        others = [(n, v, t) for (n, v, t) in self.free_vars(env) if n not in carried and n != s.target.id]
        cvars = [(n, env[n][0], env[n][1]) for n in carried]
        params = ' '.join('(%s : %s)' % (v, t) for (_, v, t) in others + cvars)
        tupty = ' * '.join(t for (_, _, t) in cvars) or 'unit'
        env_b = dict(env)
        env_b[s.target.id] = (ivar, 'Z')
        inner = Ctx(True, fname=ctx.fname, ret_ty=tupty, joined=True)

        def again(e):
            args = ' '.join(v for (_, v, _) in others) + ' ' + ' '.join(e[n][0] for n in carried)
            return '%s fuel (%s + 1) %s' % (loopname, ivar, args)
        body = self.block(list(s.body), env_b, inner, again)
        done = 'Ok (%s)' % (', '.join(v for (_, v, _) in cvars) or 'tt')
        self.emit('Fixpoint %s (fuel : nat) (%s : Z) %s {struct fuel} : res (%s) :=\n'
                  '  match fuel with\n  | O => %s\n  | S fuel =>\n%s\n  end.'
                  % (loopname, ivar, params, tupty, done, textwrap.indent(body, '      ')))
        args = ' '.join(v for (_, v, _) in others + cvars)
        env2 = dict(env)
        vs = []
        for (n, _, t) in cvars:
            env2, v = self.bind_name(env2, n, t)
            vs.append(v)
        return ctx.bind_tuple(self, '%s (Z.to_nat (%s - %s)) %s %s' % (loopname, hi, lo, lo, args), vs,
                              self.block(rest, env2, ctx, k), monadic_src=True)

    def call_stmt(self, s, rest, env, ctx, k):
        node = s.value
        fname = self.dotted(node.func) if isinstance(node.func, (ast.Attribute, ast.Name)) else None
        if fname in self.funcs:
            return self.call_bind(s, node, None, rest, env, ctx, k)
        refuse(s, 'unsupported call statement %s' % ast.unparse(s))

    def call_bind(self, s, node, target, rest, env, ctx, k):
        """`target = f(args)` or `f(args)` where f is monadic and/or updates self attributes."""
        fname = self.dotted(node.func)
        f = self.funcs[fname]
        if node.keywords or len(node.args) != len(f.params):
            refuse(s, 'call arity mismatch for %s' % fname)
        args = []
        for a in f.state_in:
            if a not in env:
                refuse(s, 'state attribute %s not available for call of %s' % (a, fname))
            args.append(env[a][0])
        for a, (pn, pt) in zip(node.args, f.params):
            t = self.expr(a, env)
            args.append(self.as_Z(t) if pt == 'Z' else self.as_bool(t) if pt == 'bool' else t[0])
        callterm = '%s %s' % (f.coqname, ' '.join(args))
        env2 = dict(env)
        vs = []
        for a in f.state_out:
            ty = env[a][1] if a in env else 'Z'
            env2, v = self.bind_name(env2, a, ty)
            vs.append(v)
        if f.ret_ty != 'unit':
            if target is not None:
                env2, v = self.bind_name(env2, target, f.ret_ty)
                vs.append(v)
            else:
                vs.append('_')
        elif target is not None:
            refuse(s, 'assignment from function without return value')
        restterm = self.block(rest, env2, ctx, k)
        if f.monadic:
            if not ctx.monadic:
                refuse(s, 'monadic call in non-monadic function')
            return ctx.bind_tuple(self, callterm, vs, restterm, monadic_src=True)
        pat = vs[0] if len(vs) == 1 else "'(" + ', '.join(vs) + ')'
        return 'let %s := %s in\n%s' % (pat, callterm, restterm)

    # ----- functions
    def function(self, qualname, coqname=None, param_types=None, state=None, ret=None, stmts=None,
                 extra_env=None, force_monadic=False):
        """Translate function/method `qualname`.
        state: list of self attributes (python names like 'self._seed') that are mutable state;
               they become leading parameters and (if assigned) leading components of the result.
        stmts: optional (start_regex, end_regex) selecting a consecutive run of top-level statements
               of the body; free names must then be given in param_types.
        """
        node = self.m.find(qualname)
        if not isinstance(node, ast.FunctionDef):
            raise Refuse('%s is not a function' % qualname)
        coqname = coqname or self.prefix + self.cname(qualname)
        body = list(node.body)
        if stmts is not None:
            body = self.select(node, body, *stmts)
        pyparams = [a.arg for a in node.args.args if a.arg != 'self'] if stmts is None else []
        if node.args.vararg or node.args.kwarg or node.args.kwonlyargs:
            refuse(node, 'varargs not supported')
        param_types = dict(param_types or {})
        params = []
        env = dict(extra_env or {})
        state = list(state or [])
        for a in state:
            env[a] = (self.var(a), param_types.get(a, 'Z'))
        order = pyparams if stmts is None else [p for p in param_types if p not in state]
        for p in order:
            ty = param_types.get(p, 'Z')
            env[p] = (self.var(p), ty)
            params.append((p, ty))
        written = [a for a in self.assigned(body) if a in state]
        monadic = force_monadic or any(isinstance(n, (ast.Raise, ast.While, ast.For)) for s in body for n in ast.walk(s))
        if not monadic:
            for s in body:
                for n in ast.walk(s):
                    if isinstance(n, ast.Call):
                        fn = self.dotted(n.func) if isinstance(n.func, (ast.Attribute, ast.Name)) else None
                        if fn in self.funcs and self.funcs[fn].monadic:
                            monadic = True
        ctx = Ctx(monadic, fname=coqname, state_out=written)
        ctx.ret_probe = ret
        # implicit return at end of body
        def fallthrough(e):
            if ret:
                for r in ret:
                    if r not in e:
                        refuse(node, 'result variable %s not defined at end of block' % r)
                if len(ret) == 1:
                    return ctx.ret(self, e[ret[0]], e)
                return ctx.ret(self, ('(' + ', '.join(e[r][0] for r in ret) + ')',
                                      '(' + ' * '.join(e[r][1] for r in ret) + ')'), e)
            return ctx.ret(self, None, e)
        term = self.block(body, env, ctx, fallthrough)
        ret_ty = ctx.ret_ty or 'unit'
        full_ty = ret_ty
        if written:
            comps = [env[a][1] for a in written] + ([ret_ty] if ret_ty != 'unit' else [])
            full_ty = '(' + ' * '.join(comps) + ')' if len(comps) > 1 else comps[0]
        sig = ' '.join('(%s : %s)' % (env[a][0], env[a][1]) for a in state)
        sig += ' ' + ' '.join('(%s : %s)' % (self.var(p), t) for p, t in params)
        self.emit('(* %s:%d %s *)' % (os.path.relpath(self.m.path, '/repo'), node.lineno, qualname))
        self.emit('Definition %s %s : %s :=\n%s.' % (
            coqname, sig.strip(), 'res (%s)' % full_ty if monadic else full_ty, textwrap.indent(term, '  ')))
        f = Func(coqname, params, ret_ty, monadic, state_in=state, state_out=written)
        short = qualname.split('.')[-1]
        self.funcs[qualname] = f
        self.funcs['self.' + short] = f
        self.funcs[short] = f
        return f

    def select(self, node, body, start_re, end_re):
        """Select the unique consecutive run of statements (in any nested statement list of the
        function) from the statement whose first source line matches start_re to the first following
        one (same list) matching end_re."""
        lists = []

        def walk(stmts):
            lists.append(stmts)
            for s in stmts:
                for fld in ('body', 'orelse', 'finalbody'):
                    sub = getattr(s, fld, None)
                    if isinstance(sub, list) and sub and isinstance(sub[0], ast.stmt):
                        walk(sub)
                for h in getattr(s, 'handlers', []) or []:
                    walk(h.body)
        walk(body)
        found = []
        for stmts in lists:
            srcs = [self.m.lines[s.lineno - 1].strip() for s in stmts]
            for i, l in enumerate(srcs):
                if re.search(start_re, l):
                    found.append((stmts, srcs, i))
        if len(found) != 1:
            refuse(node, 'statement selector %r matches %d statements' % (start_re, len(found)))
        stmts, srcs, i = found[0]
        ends = [j for j in range(i, len(srcs)) if re.search(end_re, srcs[j])]
        if not ends:
            refuse(node, 'statement selector end %r not found' % end_re)
        return stmts[i:ends[0] + 1]


class Ctx(object):
    """Return/raise conventions of the function being translated."""

    def __init__(self, monadic, fname='f', state_out=(), ret_ty=None, joined=False):
        self.monadic = monadic
        self.fname = fname
        self.state_out = list(state_out)
        self.ret_ty = ret_ty
        self.is_joined = joined

    def monadic_inner(self):
        return self.monadic

    def joined(self):
        c = Ctx(self.monadic, self.fname, self.state_out, self.ret_ty, joined=True)
        c.parent = self
        return c

    def pure_tuple(self, tup, n):
        t = '(%s)' % tup if n != 1 else tup
        if n == 0:
            t = 'tt'
        return 'Ok %s' % t if self.monadic else t

    def bind_tuple(self, tr, src, vs, rest, monadic_src=None):
        if monadic_src is None:
            monadic_src = self.monadic
        if len(vs) == 0:
            pat = '_'
        elif len(vs) == 1:
            pat = vs[0]
        else:
            pat = "'(" + ', '.join(vs) + ')'
        if monadic_src:
            return 'bind (%s) (fun %s =>\n%s)' % (src, pat, rest)
        return 'let %s := %s in\n%s' % (pat, src, rest)

    def ret(self, tr, t, env):
        if self.is_joined:
            raise Refuse('return inside a joined block of %s' % self.fname)
        comps = []
        for a in self.state_out:
            comps.append(env[a][0])
        if t is not None:
            term, ty = t
            if self.ret_ty is None:
                self.ret_ty = ty
            elif self.ret_ty != ty:
                raise Refuse('function %s returns values of different types (%s, %s)' % (self.fname, self.ret_ty, ty))
            comps.append(term)
        else:
            if self.ret_ty not in (None, 'unit'):
                raise Refuse('function %s falls through without return value' % self.fname)
            self.ret_ty = self.ret_ty or 'unit'
        val = 'tt' if not comps else comps[0] if len(comps) == 1 else '(' + ', '.join(comps) + ')'
        return 'Ok %s' % val if self.monadic else val

    def raise_(self, tr, s, env):
        if not self.monadic:
            raise Refuse('raise in non-monadic function %s' % self.fname)
        exc = s.exc
        if isinstance(exc, ast.Call):
            name = tr.dotted(exc.func)
            if name in ('error.BASICError', 'BASICError') and len(exc.args) >= 1:
                code = tr.as_Z(tr.expr(exc.args[0], env))
                return 'Err %s' % code
            if name in HOST_EXC:
                return 'Host %d' % HOST_EXC[name]
        elif isinstance(exc, ast.Name) and exc.id in HOST_EXC:
            return 'Host %d' % HOST_EXC[exc.id]
        refuse(s, 'unsupported raise %s' % ast.unparse(s))


HEADER = '''(* GENERATED by /verif/translate on every run from /repo - do not edit, not committed as truth *)
From Coq Require Import ZArith List Bool.
From PCB Require Import lib.Result lib.PyInt lib.Harness.
Import ListNotations.
Open Scope Z_scope.
'''


def read_errors(repo):
    m = Module(os.path.join(repo, 'pcbasic/basic/base/error.py'))
    errs = {}
    for n in m.tree.body:
        if isinstance(n, ast.Assign) and len(n.targets) == 1 and isinstance(n.targets[0], ast.Name):
            try:
                v = safe_eval(n.value, errs)
            except Refuse:
                continue
            if isinstance(v, int):
                errs[n.targets[0].id] = v
    return errs


def write_if_changed(path, text):
    try:
        with open(path) as f:
            if f.read() == text:
                return False
    except IOError:
        pass
    tmp = path + '.tmp%d' % os.getpid()
    with open(tmp, 'w') as f:
        f.write(text)
    os.replace(tmp, path)
    return True
