(* C25, FIELD semantics: proofs about model/FieldVars.v *)
From Coq Require Import ZArith List Bool Lia ZifyBool.
From PCB Require Import lib.Result lib.PyInt gen.Gen_locks model.Locks model.RandomFile model.SharedFile
  model.FieldVars proofs.RandomFile_proofs proofs.SharedFrame_proofs proofs.SharedFile_proofs.
Import ListNotations.
Open Scope Z_scope.

(* ---- list facts *)
Lemma ztake_add a b (l : list Z) : 0 <= a -> 0 <= b -> ztake (a + b) l = ztake a l ++ ztake b (zdrop a l).
Proof.
  intros Ha Hb. unfold ztake, zdrop. rewrite Z2Nat.inj_add by assumption.
  generalize (Z.to_nat a) as n. generalize (Z.to_nat b) as m. intros m n. revert l.
  induction n as [|n IH]; intro l; simpl; [reflexivity|]. destruct l as [|x l]; simpl.
  - rewrite firstn_nil. reflexivity.
  - rewrite IH. reflexivity.
Qed.
Lemma zdrop_add a b (l : list Z) : 0 <= a -> 0 <= b -> zdrop (a + b) l = zdrop b (zdrop a l).
Proof.
  intros Ha Hb. unfold zdrop. rewrite Z2Nat.inj_add by assumption.
  generalize (Z.to_nat a) as n. generalize (Z.to_nat b) as m. intros m n. revert l.
  induction n as [|n IH]; intro l; simpl; [reflexivity|]. destruct l as [|x l]; simpl.
  - rewrite skipn_nil. reflexivity.
  - apply IH.
Qed.

(* the values of fields laid out one after the other concatenate to the slice they cover: a PUT writes the
   concatenation of the field values when the widths add up to the record length *)
Fixpoint layout (off : Z) (ws : list Z) : list (Z * Z) :=
  match ws with [] => [] | w :: r => (off, w) :: layout (off + w) r end.
Lemma fields_concat buf ws : forall off, 0 <= off -> Forall (fun w => 0 <= w) ws ->
  concat (map (fun ow => value_in buf (VField (fst ow) (snd ow))) (layout off ws))
  = ztake (fold_right Z.add 0 ws) (zdrop off buf).
Proof.
  induction ws as [|w r IH]; intros off Ho Hw; simpl; [reflexivity|].
  inversion Hw as [|? ? Hw1 Hw2]; subst.
  assert (Hs : 0 <= fold_right Z.add 0 r).
  { clear IH Hw. induction Hw2 as [|x l Hx _ IHl]; simpl; lia. }
  rewrite IH by (try assumption; lia). rewrite ztake_add by assumption. rewrite zdrop_add by assumption.
  reflexivity.
Qed.

(* ---- writing through an attached variable *)
Lemma splice_znth (buf new : list Z) off w i : 0 <= off -> 0 <= w -> off + w <= zlen buf -> zlen new = w -> 0 <= i ->
  znth i (ztake off buf ++ new ++ zdrop (off + w) buf) =
    if (off <=? i) && (i <? off + w) then znth (i - off) new else znth i buf.
Proof.
  intros Ho Hw Hl Hn Hi. rewrite znth_app by assumption. rewrite zlen_ztake.
  destruct (i <? Z.min (Z.max 0 off) (zlen buf)) eqn:E1.
  - replace ((off <=? i) && (i <? off + w)) with false by lia. rewrite znth_ztake by assumption.
    replace (i <? off) with true by lia. reflexivity.
  - rewrite znth_app by lia. destruct (i - Z.min (Z.max 0 off) (zlen buf) <? zlen new) eqn:E2.
    + replace ((off <=? i) && (i <? off + w)) with true by lia. f_equal. lia.
    + replace ((off <=? i) && (i <? off + w)) with false by lia. rewrite znth_zdrop by lia. f_equal. lia.
Qed.
Lemma splice_len (buf new : list Z) off w : 0 <= off -> 0 <= w -> off + w <= zlen buf -> zlen new = w ->
  zlen (ztake off buf ++ new ++ zdrop (off + w) buf) = zlen buf.
Proof. intros. rewrite !zlen_app, zlen_ztake, zlen_zdrop. lia. Qed.

Lemma value_len buf off w : 0 <= off -> 0 <= w -> off + w <= zlen buf -> zlen (value_in buf (VField off w)) = w.
Proof. intros. simpl. rewrite zlen_ztake, zlen_zdrop. lia. Qed.

(* LSET / RSET through an attached variable: the variable reads the justified string, every byte of the
   buffer outside [off, off+w) is untouched - so another variable changes exactly where it overlaps *)
Theorem lset_attached st v off w rj d :
  var_of v st = VField off w -> 0 <= off -> 0 <= w -> off + w <= zlen (i_buf (fv_i st)) ->
  let st' := fst (fstep st (FLset v rj d)) in
  i_buf (fv_i st') = buf_set off w rj d (i_buf (fv_i st)) /\
  value v st' = justify rj w d /\
  zlen (i_buf (fv_i st')) = zlen (i_buf (fv_i st)) /\
  fv_vars st' = fv_vars st /\
  (forall i, 0 <= i -> znth i (i_buf (fv_i st')) =
     if (off <=? i) && (i <? off + w) then znth (i - off) (justify rj w d) else znth i (i_buf (fv_i st))).
Proof.
  intros Hv Ho Hw Hl st'. subst st'. cbn [fstep fst]. unfold store, value. rewrite Hv.
  rewrite value_len by assumption. unfold with_buf. cbn [fv_i i_buf fv_vars].
  set (buf := i_buf (fv_i st)) in *. set (new := justify rj w d).
  assert (Hn : zlen new = w) by (apply zlen_justify; assumption).
  split; [reflexivity|]. split; [|split; [apply splice_len; assumption | split; [reflexivity|]]].
  - unfold var_of. cbn [fv_vars]. fold (var_of v st). rewrite Hv. cbn [value_in].
    apply znth_ext.
    + rewrite zlen_ztake, zlen_zdrop, splice_len by assumption. lia.
    + intros i Hi. rewrite zlen_ztake, zlen_zdrop, splice_len in Hi by assumption.
      rewrite znth_ztake by lia. replace (i <? w) with true by lia. rewrite znth_zdrop by lia.
      rewrite splice_znth by (try assumption; lia).
      replace ((off <=? off + i) && (off + i <? off + w)) with true by lia. f_equal. lia.
  - intros i Hi. apply splice_znth; assumption.
Qed.

(* LET gives the variable a string of its own: its value is the string, the buffer is untouched, and later
   LSET / RSET / MID$= on it never reach the buffer *)
Theorem let_detaches st v d :
  let st' := fst (fstep st (FLet v d)) in
  value v st' = d /\ fv_i st' = fv_i st /\
  (forall rj d', fv_i (fst (fstep st' (FLset v rj d'))) = fv_i st) /\
  (forall start num d', fv_i (fst (fstep st' (FMid v start num d'))) = fv_i st).
Proof.
  intro st'. subst st'. cbn [fstep fst].
  assert (Hv : forall s, var_of v (mkFV (fv_i st) (aset v (VStr s) (fv_vars st))) = VStr s).
  { intro s. unfold var_of. cbn [fv_vars]. rewrite aget_aset_same. reflexivity. }
  split; [unfold value; rewrite Hv; reflexivity|]. split; [reflexivity|]. split.
  - intros rj d'. cbn [fstep fst]. unfold store. rewrite Hv. reflexivity.
  - intros start num d'. cbn [fstep]. repeat (match goal with |- context [if ?c then _ else _] => destruct c end);
      try reflexivity. cbn [fst]. unfold store. rewrite Hv. reflexivity.
Qed.

(* ---- invariant over all histories: attached variables lie inside the buffer, which keeps its size *)
Definition wf_fv (L : Z) (st : fvstate) : Prop :=
  zlen (i_buf (fv_i st)) = field_size /\ rf_reclen (i_file (fv_i st)) = L /\
  forall v off w, aget v (fv_vars st) = Some (VField off w) -> 0 <= off /\ 0 <= w /\ off + w <= field_size.

Lemma aget_aset {A} k k' (x : A) l : aget k' (aset k x l) = if k =? k' then Some x else aget k' l.
Proof.
  destruct (k =? k') eqn:E.
  - apply Z.eqb_eq in E. subst. apply aget_aset_same.
  - apply aget_aset_other. lia.
Qed.

Lemma attach_wf defs : forall off vars, 0 <= off ->
  (forall v o w, aget v vars = Some (VField o w) -> 0 <= o /\ 0 <= w /\ o + w <= field_size) ->
  forall v o w, aget v (fst (attach off defs vars)) = Some (VField o w) -> 0 <= o /\ 0 <= w /\ o + w <= field_size.
Proof.
  induction defs as [|[w0 v0] r IH]; intros off vars Ho H; simpl; [exact H|].
  destruct ((w0 <? 0) || (255 <? w0)) eqn:E1; [exact H|].
  destruct (field_size <? off + w0) eqn:E2; [exact H|].
  apply IH; [lia|]. intros v o w Hg. rewrite aget_aset in Hg. destruct (v0 =? v).
  - inversion Hg; subst. lia.
  - apply (H v o w Hg).
Qed.

Lemma midset_len s start n d : 0 <= n -> (0 < n -> 1 <= start <= zlen s) -> zlen (midset s start n d) = zlen s.
Proof.
  intros Hn Hs. unfold midset. cbv zeta. pose proof (zlen_nonneg d) as Hd. pose proof (zlen_nonneg s) as Hl.
  set (n1 := Z.min n (zlen d)). assert (Hn1 : n1 <= n /\ n1 <= zlen d) by (subst n1; lia).
  destruct (zlen s <? start - 1 + n1) eqn:F.
  - destruct (zlen s - (start - 1) <=? 0) eqn:E; [reflexivity|].
    assert (H0 : 0 < n) by lia. specialize (Hs H0).
    rewrite !zlen_app, !zlen_ztake, zlen_zdrop. lia.
  - destruct (n1 <=? 0) eqn:E; [reflexivity|].
    assert (H0 : 0 < n) by lia. specialize (Hs H0).
    rewrite !zlen_app, !zlen_ztake, zlen_zdrop. lia.
Qed.

Definition fop_ok (o : fop) : Prop := match o with FPut k | FGet k => 1 <= k | _ => True end.

Lemma store_wf L st v new : 1 <= L <= field_size -> wf_fv L st -> zlen new = zlen (value v st) -> wf_fv L (store st v new).
Proof.
  intros HL [Hb [Hr Hv]] Hn. unfold store, value in *. destruct (var_of v st) as [off w|s] eqn:E.
  - assert (Hin : 0 <= off /\ 0 <= w /\ off + w <= field_size).
    { unfold var_of in E. destruct (aget v (fv_vars st)) as [x|] eqn:G; [|discriminate]. subst x. eauto. }
    rewrite value_len in Hn by lia. split; [|split; [exact Hr | exact Hv]].
    unfold with_buf. cbn [fv_i i_buf]. rewrite splice_len; lia.
  - split; [exact Hb|]. split; [exact Hr|]. cbn [fv_vars]. intros v' o w Hg. rewrite aget_aset in Hg.
    destruct (v =? v'); [discriminate | eauto].
Qed.

Lemma fstep_wf L st o : 1 <= L <= field_size -> fop_ok o -> wf_fv L st -> wf_fv L (fst (fstep st o)).
Proof.
  intros HL Hok Hwf. pose proof Hwf as [Hb [Hr Hv]]. destruct o as [defs|v rj d|v start num d|v d|k|k]; cbn [fstep].
  - destruct (attach 0 defs (fv_vars st)) as [vars r] eqn:E. cbn [fst]. split; [exact Hb|]. split; [exact Hr|].
    cbn [fv_vars]. replace vars with (fst (attach 0 defs (fv_vars st))) by (rewrite E; reflexivity).
    apply attach_wf; [lia | exact Hv].
  - cbn [fst]. apply store_wf; try assumption. apply zlen_justify. apply zlen_nonneg.
  - repeat (match goal with |- context [if ?c then _ else _] => destruct c eqn:? end); try exact Hwf.
    cbn [fst]. apply store_wf; try assumption. apply midset_len; lia.
  - cbn [fst]. split; [exact Hb|]. split; [exact Hr|]. cbn [fv_vars]. intros v' o w Hg. rewrite aget_aset in Hg.
    destruct (v =? v'); [discriminate | eauto].
  - cbn [fst istep fv_i i_buf i_file fv_vars]. split; [exact Hb|]. split; [|exact Hv].
    destruct (put_spec (Some k) (i_file (fv_i st)) (i_buf (fv_i st))) as [_ [_ [_ Pl]]]; simpl in *; try lia.
  - cbn [fst istep]. pose proof (get_spec (Some k) (i_file (fv_i st)) (i_buf (fv_i st))) as G. cbv zeta in G.
    destruct (rf_get (Some k) (i_file (fv_i st)) (i_buf (fv_i st))) as [f' buf'].
    destruct G as [_ [_ [Gl [_ Gbuf]]]]; [lia | simpl in *; lia | lia |].
    unfold wf_fv. cbn [fst fv_i i_buf i_file fv_vars]. split; [|split; [rewrite Gl; exact Hr | exact Hv]].
    rewrite Gbuf, zlen_app, view_len, zlen_zdrop by lia. lia.
Qed.

Theorem wf_all_histories L ops : 1 <= L <= field_size -> Forall fop_ok ops -> wf_fv L (frun (fv_init L) ops).
Proof.
  intros HL Hok. assert (H : forall st, wf_fv L st -> wf_fv L (frun st ops)).
  { induction Hok as [|o r Ho _ IH]; intros st Hst; simpl; [exact Hst|]. apply IH. apply fstep_wf; assumption. }
  apply H. unfold wf_fv, fv_init, i_init, field_size. simpl. split; [reflexivity|]. split; [reflexivity|].
  intros v off w Hg. discriminate Hg.
Qed.

(* after a FIELD statement that was accepted, distinct variables are attached one after the other *)
Lemma attach_layout defs : forall off vars vars', attach off defs vars = (vars', Ok tt) ->
  NoDup (map snd defs) ->
  forall i, (i < length defs)%nat ->
    aget (snd (nth i defs (0, 0))) vars' = Some (VField (fst (nth i (layout off (map fst defs)) (0, 0))) (fst (nth i defs (0, 0)))).
Proof.
  induction defs as [|[w0 v0] r IH]; intros off vars vars' Ha Hnd i Hi; simpl in *; [lia|].
  destruct ((w0 <? 0) || (255 <? w0)); [discriminate|]. destruct (field_size <? off + w0); [discriminate|].
  inversion Hnd as [|? ? Hnotin Hnd']; subst. destruct i as [|i].
  - simpl. clear IH Hi.
    assert (Hk : forall defs off vars vars', attach off defs vars = (vars', Ok tt) -> ~ In v0 (map snd defs) ->
                 aget v0 vars' = aget v0 vars).
    { clear. induction defs as [|[w1 v1] r IH]; intros off vars vars' Ha Hn; simpl in *.
      - inversion Ha; reflexivity.
      - destruct ((w1 <? 0) || (255 <? w1)); [discriminate|]. destruct (field_size <? off + w1); [discriminate|].
        rewrite (IH _ _ _ Ha) by tauto. apply aget_aset_other. intro E. apply Hn. left. symmetry. exact E. }
    rewrite (Hk r _ _ _ Ha Hnotin). apply aget_aset_same.
  - simpl. apply (IH (off + w0) _ vars' Ha Hnd' i). lia.
Qed.
