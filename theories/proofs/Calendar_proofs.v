(* calendar round trip civil_from_days (days_from_civil y m d) = (y, m, d) on years 1..2099 by a finite sweep *)
From Coq Require Import ZArith List Bool Lia ZifyBool.
From PCB Require Import lib.Result lib.PyInt model.Clock.
Import ListNotations.
Open Scope Z_scope.

Ltac break_if' :=
  match goal with
  | H : context [if ?c then _ else _] |- _ => destruct c eqn:?
  | |- context [if ?c then _ else _] => destruct c eqn:?
  end.

Definition zrange (lo : Z) (n : nat) : list Z := map (fun k => lo + Z.of_nat k) (seq 0 n).
Lemma zrange_in lo n z : lo <= z < lo + Z.of_nat n -> In z (zrange lo n).
Proof.
  intros H. unfold zrange. apply in_map_iff. exists (Z.to_nat (z - lo)). split; [lia|].
  apply in_seq. lia.
Qed.

Definition civil_ok (y m d : Z) : bool :=
  negb (valid_date y m d) ||
  (let '(y', m', d') := civil_from_days (days_from_civil y m d) in (y' =? y) && (m' =? m) && (d' =? d)).

Lemma civil_sweep :
  forallb (fun y => forallb (fun m => forallb (fun d => civil_ok y m d) (zrange 1 31)) (zrange 1 12))
          (zrange 1 2099) = true.
Proof. vm_compute. reflexivity. Qed.

Lemma civil_roundtrip y m d : 1 <= y <= 2099 -> valid_date y m d = true ->
  civil_from_days (days_from_civil y m d) = (y, m, d).
Proof.
  intros Hy Hv. pose proof civil_sweep as S.
  rewrite forallb_forall in S. specialize (S y (zrange_in 1 2099 y ltac:(lia))).
  assert (Hm : 1 <= m <= 12 /\ 1 <= d <= 31).
  { unfold valid_date in Hv. unfold days_in_month in Hv. repeat break_if'; lia. }
  rewrite forallb_forall in S. specialize (S m (zrange_in 1 12 m ltac:(lia))).
  rewrite forallb_forall in S. specialize (S d (zrange_in 1 31 d ltac:(lia))).
  unfold civil_ok in S. rewrite Hv in S. cbn [negb orb] in S.
  destruct (civil_from_days _) as [[y' m'] d']. f_equal; [f_equal|]; lia.
Qed.

