(* C36: a reference terminal as specification (grid, cursor with deferred wrap, logical-line flags) and the proof
   that Console.write of text over plain characters, CR, LF, TAB, BEL, HOME (11) and CLS (12) refines it. *)
From Coq Require Import ZArith List Bool Lia ZifyBool Arith.
From PCB Require Import lib.Result lib.PyInt model.Cursor proofs.Cursor_lists proofs.Cursor_inv proofs.Cursor_place
  proofs.Cursor_flags.
Import ListNotations.
Open Scope Z_scope.

(* ---- the specification: independent of the code-shaped model *)
Record term := mkterm {
  tg : Z -> Z -> Z;        (* character at (row, column) *)
  tcont : Z -> bool;       (* the row continues on the next row (logical line) *)
  tr : Z;                  (* cursor row *)
  tc : Z                   (* cursor column 1 .. W+1; W+1 = the line is full, wrap pending *)
}.

Section Spec.
Variables W T B : Z.       (* width, first and last row of the scroll window *)

Definition t_scroll (t : term) : term :=
  mkterm (fun R C => if (T <=? R) && (R <? B) then tg t (R + 1) C else if R =? B then 32 else tg t R C)
         (fun R => if (T <=? R) && (R <? B) then tcont t (R + 1) else if R =? B then false else tcont t R)
         (tr t) (tc t).

(* to the first column of the next row; leaving the window at the bottom scrolls it *)
Definition t_down (t : term) : term :=
  if tr t <? B then mkterm (tg t) (tcont t) (tr t + 1) 1
  else mkterm (tg (t_scroll t)) (tcont (t_scroll t)) B 1.

Definition t_setcont (t : term) (r : Z) (b : bool) : term :=
  mkterm (tg t) (fun R => if R =? r then b else tcont t R) (tr t) (tc t).

Definition t_here (t : term) (ch : Z) : term :=
  mkterm (fun R C => if (R =? tr t) && (C =? tc t) then ch else tg t R C) (tcont t) (tr t) (tc t + 1).

(* one printable character *)
Definition t_put (t : term) (ch : Z) : term :=
  let t1 := if tc t >? W then t_down (t_setcont t (tr t) true) else t in
  let t2 := t_here t1 ch in
  if (tc t2 >? W) && tcont t2 (tr t2) then t_down t2 else t2.

Fixpoint t_spaces (t : term) (n : nat) : term :=
  match n with O => t | S k => t_spaces (t_put t 32) k end.

Definition t_char (t : term) (ch : Z) : term :=
  if (ch =? 13) || (ch =? 10) then t_down (t_setcont t (tr t) false)
  else if ch =? 9 then t_spaces t (zn (8 - (Z.min (tc t) W - 1) mod 8))
  else if ch =? 7 then t
  else if ch =? 11 then mkterm (tg t) (tcont t) T 1
  else if ch =? 12 then
    mkterm (fun R C => if (T <=? R) && (R <=? B) then 32 else tg t R C)
           (fun R => if (T <=? R) && (R <=? B) then false else tcont t R) T 1
  else t_put t ch.

Definition t_write (t : term) (str : list Z) : term :=
  match str with
  | [] => t
  | _ => fold_left t_char str (t_setcont t (tr t) false)
  end.

(* what CSRLIN / POS show *)
Definition t_csrlin (t : term) : Z := if (tc t >? W) && (tr t <? B) then tr t + 1 else tr t.
Definition t_pos (t : term) : Z := if tc t >? W then 1 else tc t.
End Spec.

(* the alphabet: everything but the cursor movement codes *)
Definition term_char (c : Z) : bool := negb ((c =? 28) || (c =? 29) || (c =? 30) || (c =? 31)).

(* ---- wrap flags of the model under the buffer operations *)
Lemma wraps_at_set_wrap_same s r b : length (wraps s) = zn (height s) -> 1 <= r <= height s ->
  wraps_at (set_wrap s r b) r = b.
Proof.
  intros Hl Hr. unfold wraps_at, set_wrap. setters. proj. rewrite upd_length. rewrite !pyidx_nonneg by lia.
  rewrite nth_upd by (rewrite Hl; unfold zn; lia). rewrite Nat.eqb_refl. reflexivity.
Qed.

Lemma wraps_scroll_up_window s a b r : length (wraps s) = zn (height s) -> 1 <= a <= b -> b < height s ->
  a <= r <= b -> wraps_at (b_scroll_up s a b) r = if r <? b then wraps_at s (r + 1) else false.
Proof.
  intros Hl Ha Hb Hr. destruct (r <? b) eqn:E.
  - unfold wraps_at, b_scroll_up. setters. proj.
    set (w1 := insert_at (zn b) false (wraps s)).
    assert (L1 : length w1 = S (zn (height s))) by (unfold w1; rewrite insert_at_length; unfold zn in *; lia).
    set (i := zn (pyidx (a - 2) (length w1))).
    rewrite !pyidx_nonneg by lia.
    rewrite nth_delete_at.
    replace (Nat.ltb (zn (r - 1)) (zn (a - 1))) with false by (symmetry; apply Nat.ltb_ge; unfold zn; lia).
    replace (S (zn (r - 1))) with (zn r) by (unfold zn; lia).
    assert (N1 : nth (zn r) w1 false = nth (zn (r + 1 - 1)) (wraps s) false).
    { unfold w1. rewrite nth_insert_at by (unfold zn in *; lia).
      replace (Nat.ltb (zn r) (zn b)) with true by (symmetry; apply Nat.ltb_lt; unfold zn; lia).
      f_equal. unfold zn. lia. }
    assert (Hi : zn r <> i).
    { unfold i. rewrite L1. unfold pyidx. destruct (a - 2 <? 0) eqn:E2; unfold zn in *; lia. }
    destruct (nth i w1 false); [rewrite nth_upd_other by auto|]; exact N1.
  - assert (r = b) by lia. subst r. apply wraps_scroll_up_bottom; auto.
Qed.

Lemma wraps_at_clear s a b r : length (wraps s) = zn (height s) -> 1 <= r <= height s ->
  wraps_at (b_clear s a b false) r = if in_rows a b r then false else wraps_at s r.
Proof.
  intros Hl Hr. unfold wraps_at, b_clear. setters. proj. rewrite mapi_from_length. rewrite !pyidx_nonneg by lia.
  rewrite nth_mapi_from by (rewrite Hl; unfold zn; lia).
  replace (1 + Z.of_nat (zn (r - 1))) with r by (unfold zn; lia). reflexivity.
Qed.

(* ---- the refinement relation *)
Section Refine.
Variable s0 : st.
Let W := width s0.
Let H := height s0.
Let T := top s0.
Let B := bot s0.
Hypothesis G0 : geom_ok s0.

(* everything but the cursor column *)
Record prel (s : st) (t : term) : Prop := mkprel {
  p_env : same_env s0 s;
  p_GG : GG s;
  p_bra : bra s = false;
  p_row : row s = tr t /\ T <= row s <= B;
  p_cells : forall R C, 1 <= R <= H -> 1 <= C <= W -> get_cell (cells s) R C = tg t R C;
  p_flags : forall r, T <= r <= B -> wraps_at s r = tcont t r
}.

Definition crel (s : st) (t : term) : Prop :=
  (1 <= tc t <= W /\ col s = tc t /\ ovf s = false) \/ (tc t = W + 1 /\ col s = W /\ ovf s = true).

Definition trel (s : st) (t : term) : Prop := prel s t /\ crel s t.

Lemma geo : 25 <= H /\ 2 <= W /\ 1 <= T /\ T <= B /\ B < H.
Proof. destruct G0 as (G1 & G2 & G3 & G4 & G5 & G6). repeat split; assumption. Qed.

(* moving down from a state without pending overflow *)
Lemma down_rel X t : prel X t -> ovf X = false ->
  trel (wrap_scroll true (set_rc X (row X + 1) 1)) (t_down T B t).
Proof.
  intros [Henv HGG Hbra [Hrow Hrw] Hcells Hflags] Ho.
  destruct geo as (G1 & G2 & G3 & G4 & G5).
  destruct (env_fields s0 X Henv) as (EW & EH & ET & EB). fold W H T B in EW, EH, ET, EB.
  pose proof HGG as [_ (Hshape & Hwl & _)]. rewrite EH, EW in Hshape. rewrite EH in Hwl.
  set (Y := set_rc X (row X + 1) 1).
  assert (FY : bra Y = false /\ col Y = 1 /\ row Y = row X + 1 /\ width Y = W /\ height Y = H /\ top Y = T
               /\ bot Y = B /\ ovf Y = false /\ cells Y = cells X /\ wraps Y = wraps X)
    by (unfold Y; setters; proj; repeat split; auto).
  destruct FY as (Y1 & Y2 & Y3 & Y4 & Y5 & Y6 & Y7 & Y8 & Y9 & Y10).
  assert (YG : GG Y) by exact HGG.
  assert (YE : same_env s0 Y) by exact Henv.
  unfold t_down. destruct (Z_lt_ge_dec (row X) B) as [Hlt | Hge].
  - replace (tr t <? B) with true by lia.
    rewrite (wrap_scroll_noop true Y Y1) by lia.
    split.
    + constructor.
      * exact YE.
      * exact YG.
      * exact Y1.
      * cbn [tr]. lia.
      * intros R C HR HC. cbn [tg]. rewrite Y9. apply Hcells; auto.
      * intros r Hr. cbn [tcont]. unfold wraps_at. rewrite Y10. apply Hflags; auto.
    + left. cbn [tc]. repeat split; auto; lia.
  - replace (tr t <? B) with false by lia.
    assert (Hrb : row X = B) by lia.
    rewrite (wrap_scroll_scrolls Y Y1) by lia.
    set (Z2 := set_row (b_scroll_up Y (top Y) (bot Y)) (bot Y)).
    assert (ZG : GG Z2) by (apply (GG_scroll_up Y (top Y) (bot Y) YG); lia).
    assert (FZ : bra Z2 = false /\ col Z2 = 1 /\ row Z2 = B /\ ovf Z2 = false /\ same_env s0 Z2
                 /\ cells Z2 = scroll_up_l W (cells X) T B)
      by (unfold Z2, b_scroll_up; setters; proj; rewrite Y4, Y6, Y7, Y9; repeat split; auto; apply YE).
    destruct FZ as (Z1 & Z3 & Z4 & Z5 & Z6 & Z7).
    assert (ZW : forall r, T <= r <= B -> wraps_at Z2 r = if r <? B then wraps_at X (r + 1) else false).
    { intros r Hr. change (wraps_at (b_scroll_up Y (top Y) (bot Y)) r = if r <? B then wraps_at X (r + 1) else false).
      rewrite Y6, Y7.
      rewrite (wraps_scroll_up_window Y T B r); [ | rewrite Y5, Y10; exact Hwl | lia | rewrite Y5; lia | exact Hr ].
      unfold wraps_at. rewrite Y10. reflexivity. }
    clearbody Z2 Y.
    split.
    + constructor.
      * exact Z6.
      * exact ZG.
      * exact Z1.
      * cbn [tr]. lia.
      * intros R C HR HC. cbn [tg t_scroll]. rewrite Z7.
        rewrite (get_scroll_up (cells X) H W) by (try apply Hshape; lia).
        destruct ((T <=? R) && (R <? B)) eqn:E1; [apply Hcells; lia|].
        destruct (R =? B); [reflexivity | apply Hcells; auto].
      * intros r Hr. cbn [tcont t_scroll]. rewrite ZW by auto.
        replace ((T <=? r) && (r <? B)) with (r <? B) by lia.
        destruct (r <? B) eqn:E; [apply Hflags; lia|].
        replace (r =? B) with true by lia. reflexivity.
    + left. cbn [tc]. repeat split; auto; lia.
Qed.

(* a printable character when no overflow is pending *)
Lemma put_here_rel s t ch : prel s t -> 1 <= tc t <= W -> col s = tc t -> ovf s = false ->
  trel (write_char false s ch) (t_put W T B t ch).
Proof.
  intros P Htc Hc Ho. pose proof P as [Henv HGG Hbra [Hrow Hrw] Hcells Hflags].
  destruct geo as (G1 & G2 & G3 & G4 & G5).
  destruct (env_fields s0 s Henv) as (EW & EH & ET & EB). fold W H T B in EW, EH, ET, EB.
  pose proof HGG as [_ (Hshape & Hwl & _)]. rewrite EH, EW in Hshape. rewrite EH in Hwl.
  unfold t_put. replace (tc t >? W) with false by lia. cbv zeta.
  unfold write_char.
  rewrite (consume_noop false s Ho) by lia.
  rewrite (wrap_scroll_noop true s Hbra) by lia.
  set (X := b_put s (row s) (col s) ch).
  assert (PX : prel X (t_here t ch)).
  { constructor.
    - exact Henv.
    - apply GG_put; auto; lia.
    - exact Hbra.
    - cbn [tr t_here]. exact (conj Hrow Hrw).
    - intros R C HR HC. unfold X, b_put. setters. proj. cbn [tg t_here].
      rewrite (get_put (cells s) H W) by (auto; lia). rewrite Hrow, Hc. rewrite Hcells by auto. reflexivity.
    - intros r Hr. cbn [tcont t_here]. change (wraps_at s r = tcont t r). auto. }
  assert (FX : bra X = false /\ col X = col s /\ row X = row s /\ width X = W /\ height X = H /\ top X = T
               /\ bot X = B /\ ovf X = false)
    by (unfold X, b_put; setters; proj; repeat split; auto).
  destruct FX as (X1 & X2 & X3 & X4 & X5 & X6 & X7 & X8).
  cbn [tc tr tcont t_here].
  destruct (col X <? width X) eqn:E4.
  - replace (tc t + 1 >? W) with false by lia. cbn [andb].
    rewrite wrap_scroll_noop by (setters; proj; try lia; auto).
    split.
    + destruct PX as [A1 A2 A3 A4 A5 A6]. constructor; auto.
    + left. cbn [tc t_here]. setters. proj. repeat split; auto; lia.
  - replace (tc t + 1 >? W) with true by lia. cbn [andb].
    assert (E5 : wraps_at X (row X) = tcont t (tr t)).
    { rewrite X3. change (wraps_at s (row s) = tcont t (tr t)). rewrite <- Hrow. apply Hflags. lia. }
    rewrite E5. destruct (tcont t (tr t)).
    + replace (row X + 1) with (row X + 1) by reflexivity. apply (down_rel X (t_here t ch) PX X8).
    + rewrite wrap_scroll_noop by (setters; proj; try lia; auto).
      split.
      * destruct PX as [A1 A2 A3 A4 A5 A6]. constructor; auto.
      * right. cbn [tc t_here]. setters. proj. repeat split; auto; lia.
Qed.

(* a pending overflow materialises before the next character *)
Lemma materialise s t : prel s t -> tc t = W + 1 -> col s = W -> ovf s = true ->
  let s' := wrap_scroll true (set_rc (after_pending s) (row s + 1) 1) in
  let t' := t_down T B (t_setcont t (tr t) true) in
  prel s' t' /\ tc t' = 1 /\ col s' = 1 /\ ovf s' = false /\
  forall ch, write_char false s ch = write_char false s' ch.
Proof.
  intros P Htc Hc Ho. pose proof P as [Henv HGG Hbra [Hrow Hrw] Hcells Hflags]. cbv zeta.
  destruct geo as (G1 & G2 & G3 & G4 & G5).
  destruct (env_fields s0 s Henv) as (EW & EH & ET & EB). fold W H T B in EW, EH, ET, EB.
  pose proof HGG as [_ (Hshape & Hwl & _)]. rewrite EH in Hwl.
  assert (PA : prel (after_pending s) (t_setcont t (tr t) true) /\ ovf (after_pending s) = false
               /\ row (after_pending s) = row s).
  { unfold after_pending. destruct (wraps_at s (row s)) eqn:E.
    - split; [|split; setters; proj; reflexivity]. constructor.
      + exact Henv.
      + exact HGG.
      + exact Hbra.
      + exact (conj Hrow Hrw).
      + exact Hcells.
      + intros r Hr. cbn [tcont t_setcont]. change (wraps_at s r = (if r =? tr t then true else tcont t r)).
        destruct (r =? tr t) eqn:E2; [|auto]. assert (r = row s) by lia. subst r. exact E.
    - split; [|split; unfold set_wrap; setters; proj; reflexivity]. constructor.
      + exact Henv.
      + apply (GG_set_wrap s (row s) true HGG).
      + exact Hbra.
      + exact (conj Hrow Hrw).
      + exact Hcells.
      + intros r Hr. cbn [tcont t_setcont].
        change (wraps_at (set_wrap s (row s) true) r = (if r =? tr t then true else tcont t r)).
        destruct (r =? tr t) eqn:E2.
        * assert (r = row s) by lia. subst r. apply wraps_at_set_wrap_same; [rewrite EH; exact Hwl | lia].
        * rewrite wraps_at_set_wrap_other by lia. auto. }
  destruct PA as (PA & OA & RA).
  pose proof (down_rel (after_pending s) _ PA OA) as [PD CD]. rewrite RA in PD, CD.
  set (s' := wrap_scroll true (set_rc (after_pending s) (row s + 1) 1)) in *.
  set (t' := t_down T B (t_setcont t (tr t) true)) in *.
  assert (Ht' : tc t' = 1) by (unfold t', t_down; destruct (_ <? B); reflexivity).
  destruct CD as [(C1 & C2 & C3) | (C1 & C2 & C3)]; [|lia].
  split; [exact PD|]. split; [exact Ht'|]. split; [lia|]. split; [exact C3|].
  intros ch. unfold write_char at 1. rewrite (consume_pending_gen s Ho) by lia. fold s'.
  unfold write_char. rewrite (consume_noop false s' C3) by (destruct PD as [E' _ _ _ _ _]; destruct (env_fields s0 s' E') as (?&?&?&?); lia).
  destruct PD as [E' _ Hb' [_ Hr'] _ _]. destruct (env_fields s0 s' E') as (A1 & A2 & A3 & A4). fold W H T B in A1, A2, A3, A4.
  rewrite (wrap_scroll_noop true s' Hb') by lia. reflexivity.
Qed.

Lemma put_rel s t ch : trel s t -> trel (write_char false s ch) (t_put W T B t ch).
Proof.
  intros [P [(C1 & C2 & C3) | (C1 & C2 & C3)]].
  - apply put_here_rel; auto.
  - destruct geo as (G1 & G2 & G3 & G4 & G5).
    destruct (materialise s t P C1 C2 C3) as (P' & T' & Cc & Co & Hw). rewrite Hw.
    replace (t_put W T B t ch) with (t_put W T B (t_down T B (t_setcont t (tr t) true)) ch).
    + apply put_here_rel; auto; lia.
    + unfold t_put at 2. replace (tc t >? W) with true by lia. cbv zeta.
      unfold t_put. rewrite T'. replace (1 >? W) with false by lia. reflexivity.
Qed.

Lemma spaces_rel n : forall s t, trel s t -> trel (write_spaces s n) (t_spaces W T B t n).
Proof.
  induction n as [|n IH]; intros s t R; [exact R|].
  apply (IH (write_char false s 32)). apply put_rel. exact R.
Qed.

Lemma setcont_prel s t b : prel s t -> prel (set_wrap s (row s) b) (t_setcont t (tr t) b).
Proof.
  intros [Henv HGG Hbra [Hrow Hrw] Hcells Hflags].
  destruct geo as (G1 & G2 & G3 & G4 & G5).
  destruct (env_fields s0 s Henv) as (EW & EH & ET & EB). fold W H T B in EW, EH, ET, EB.
  pose proof HGG as [_ (Hshape & Hwl & _)].
  constructor.
  - exact Henv.
  - apply GG_set_wrap; auto.
  - exact Hbra.
  - cbn [tr t_setcont]. unfold set_wrap. setters. proj. auto.
  - exact Hcells.
  - intros r Hr. cbn [tcont t_setcont]. destruct (r =? tr t) eqn:E.
    + assert (r = row s) by lia. subst r. apply wraps_at_set_wrap_same; [exact Hwl | lia].
    + rewrite wraps_at_set_wrap_other by lia. auto.
Qed.

Lemma newline_rel s t : trel s t -> trel (newline s false) (t_down T B (t_setcont t (tr t) false)).
Proof.
  intros [P _]. destruct geo as (G1 & G2 & G3 & G4 & G5).
  pose proof (setcont_prel s t false P) as P1.
  unfold newline, set_pos.
  set (s1 := set_wrap s (row s) false) in *.
  assert (E1 : width s1 = W) by (destruct P1 as [E' _ _ _ _ _]; destruct (env_fields s0 s1 E') as (?&?&?&?); auto).
  replace (1 <? width s1) with true by lia.
  assert (R1 : row s1 = row s) by (unfold s1, set_wrap; setters; proj; reflexivity).
  set (X := set_ovf s1 false).
  assert (PX : prel X (t_setcont t (tr t) false)) by (destruct P1 as [A1 A2 A3 A4 A5 A6]; constructor; auto).
  replace (row s + 1) with (row X + 1) by (unfold X; setters; proj; lia).
  apply (down_rel X _ PX). unfold X. setters. proj. reflexivity.
Qed.

Lemma home_rel s t : trel s t -> trel (set_pos s 1 1 false) (mkterm (tg t) (tcont t) T 1).
Proof.
  intros [[Henv HGG Hbra [Hrow Hrw] Hcells Hflags] _]. destruct geo as (G1 & G2 & G3 & G4 & G5).
  destruct (env_fields s0 s Henv) as (EW & EH & ET & EB). fold W H T B in EW, EH, ET, EB.
  unfold set_pos. replace (1 <? width s) with true by lia.
  set (X := set_rc (set_ovf s false) 1 1).
  assert (FX : bra X = false /\ col X = 1 /\ row X = 1 /\ width X = W /\ top X = T /\ bot X = B /\ ovf X = false)
    by (unfold X; setters; proj; repeat split; auto).
  destruct FX as (X1 & X2 & X3 & X4 & X5 & X6 & X7).
  unfold wrap_scroll. rewrite X1. cbn [andb]. rewrite (set_bra_id X X1).
  replace (col X >? width X) with false by lia. replace (col X <? 1) with false by lia.
  replace (row X >? bot X) with false by lia.
  destruct (row X <? top X) eqn:E.
  - split.
    + constructor; auto.
      * cbn [tr]. setters. proj. lia.
    + left. cbn [tc]. setters. proj. repeat split; auto; lia.
  - assert (T = 1) by lia. split.
    + constructor; auto. cbn [tr]. lia.
    + left. cbn [tc]. repeat split; auto; lia.
Qed.

Lemma cls_rel s t : trel s t ->
  trel (clear_view s)
       (mkterm (fun R C => if (T <=? R) && (R <=? B) then 32 else tg t R C)
               (fun R => if (T <=? R) && (R <=? B) then false else tcont t R) T 1).
Proof.
  intros [[Henv HGG Hbra [Hrow Hrw] Hcells Hflags] _]. destruct geo as (G1 & G2 & G3 & G4 & G5).
  destruct (env_fields s0 s Henv) as (EW & EH & ET & EB). fold W H T B in EW, EH, ET, EB.
  pose proof HGG as [_ ((Hl & _) & Hwl & _)].
  unfold clear_view, set_pos.
  set (s1 := b_clear s (top s) (bot s) false).
  assert (F1 : width s1 = W /\ top s1 = T /\ bot s1 = B /\ bra s1 = false /\ same_env s0 s1)
    by (unfold s1, b_clear; setters; proj; repeat split; auto; apply Henv).
  destruct F1 as (F1 & F2 & F3 & F4 & F5).
  rewrite F1, F2. replace (1 <? W) with true by lia.
  set (X := set_rc (set_ovf s1 false) T 1).
  assert (G1' : GG s1) by (apply GG_clear; auto).
  rewrite (wrap_scroll_noop true X) by (unfold X; setters; proj; try lia; auto).
  split.
  - constructor; auto.
    + cbn [tr]. unfold X. setters. proj. lia.
    + intros R C HR HC. cbn [tg]. unfold X, s1, b_clear. setters. proj.
      change (get_cell (clear_l (width s) (cells s) (top s) (bot s)) R C = (if (T <=? R) && (R <=? B) then 32 else tg t R C)).
      rewrite (get_clear (cells s) (height s)) by (auto; lia). rewrite ET, EB. unfold in_rows.
      destruct ((T <=? R) && (R <=? B)); auto.
    + intros r Hr. cbn [tcont]. change (wraps_at (b_clear s (top s) (bot s) false) r = (if (T <=? r) && (r <=? B) then false else tcont t r)).
      rewrite wraps_at_clear by (auto; lia). rewrite ET, EB. unfold in_rows.
      destruct ((T <=? r) && (r <=? B)); auto.
  - left. cbn [tc]. unfold X. setters. proj. repeat split; auto; lia.
Qed.

Lemma char_rel s t c : term_char c = true -> trel s t -> trel (console_char s c) (t_char W T B t c).
Proof.
  intros Hc R. unfold term_char in Hc. unfold console_char, t_char.
  destruct (c =? 9) eqn:E9.
  - replace ((c =? 13) || (c =? 10)) with false by lia.
    replace (Z.min (tc t) W) with (col s).
    + apply spaces_rel. exact R.
    + destruct R as [_ [(C1 & C2 & C3) | (C1 & C2 & C3)]]; lia.
  - replace ((c =? 10) || (c =? 13)) with ((c =? 13) || (c =? 10)) by lia.
    destruct ((c =? 13) || (c =? 10)) eqn:E10; [apply newline_rel; exact R|].
    destruct (c =? 7); [exact R|].
    destruct (c =? 11); [apply home_rel; exact R|].
    destruct (c =? 12); [apply cls_rel; exact R|].
    replace (c =? 28) with false by lia. replace (c =? 29) with false by lia.
    replace (c =? 30) with false by lia. replace (c =? 31) with false by lia.
    apply put_rel. exact R.
Qed.

Lemma fold_rel str : forall s t, Forall (fun c => term_char c = true) str -> trel s t ->
  trel (fold_left console_char str s) (fold_left (t_char W T B) str t).
Proof.
  induction str as [|c r IH]; intros s t Hf R; [exact R|].
  inversion Hf as [|? ? Hc Hr]; subst.
  apply (IH (console_char s c) (t_char W T B t c) Hr). apply char_rel; auto.
Qed.

Lemma write_rel s t str : Forall (fun c => term_char c = true) str -> trel s t ->
  trel (console_write s str) (t_write W T B t str).
Proof.
  intros Hf [P C]. unfold console_write, t_write. destruct str as [|c r]; [split; assumption|].
  apply fold_rel; auto. split; [apply setcont_prel; exact P|].
  unfold crel in *. cbn [tc t_setcont]. unfold set_wrap. setters. proj. exact C.
Qed.

End Refine.
