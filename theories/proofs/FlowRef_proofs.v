(* C19: the machine of model/Flow.v on the layout of a structured program computes exactly what the
   reference semantics of model/FlowRef.v prescribes (trace and outcome, for every fuel). *)
From Coq Require Import ZArith List Bool Lia.
From PCB Require Import gen.Gen_flow model.Flow model.FlowRef proofs.Flow_proofs proofs.FlowFor_proofs.
Import ListNotations.
Open Scope Z_scope.

(* ------------------------------------------------------------------ induction on structured statements *)

Section SstmtInd.
Variables (P : sstmt -> Prop) (Q : list sstmt -> Prop).
Hypothesis HLine : forall n, P (TLine n).
Hypothesis HPrint : forall e, P (TPrint e).
Hypothesis HLet : forall v e, P (TLet v e).
Hypothesis HFor : forall v a b s nm body, Q body -> P (TFor v a b s nm body).
Hypothesis HWhile : forall c body, Q body -> P (TWhile c body).
Hypothesis HIf : forall c th el n, Q th -> Q el -> P (TIf c th el n).
Hypothesis HGosub : forall n, P (TGosub n).
Hypothesis HOn : forall e ns, P (TOnGosub e ns).
Hypothesis HNil : Q [].
Hypothesis HCons : forall s r, P s -> Q r -> Q (s :: r).

Fixpoint sstmt_ind2 (s : sstmt) : P s :=
  let blk := fix blk (b : list sstmt) : Q b :=
    match b with [] => HNil | x :: r => HCons x r (sstmt_ind2 x) (blk r) end in
  match s with
  | TLine n => HLine n
  | TPrint e => HPrint e
  | TLet v e => HLet v e
  | TFor v a b s nm body => HFor v a b s nm body (blk body)
  | TWhile c body => HWhile c body (blk body)
  | TIf c th el n => HIf c th el n (blk th) (blk el)
  | TGosub n => HGosub n
  | TOnGosub e ns => HOn e ns
  end.

Fixpoint block_ind2 (b : list sstmt) : Q b :=
  match b with [] => HNil | x :: r => HCons x r (sstmt_ind2 x) (block_ind2 r) end.
End SstmtInd.

(* a property of statements and the matching property of blocks, together *)
Lemma sstmt_both (P : sstmt -> Prop) (Q : list sstmt -> Prop) :
  (forall n, P (TLine n)) -> (forall e, P (TPrint e)) -> (forall v e, P (TLet v e)) ->
  (forall v a b s nm body, Q body -> P (TFor v a b s nm body)) ->
  (forall c body, Q body -> P (TWhile c body)) ->
  (forall c th el n, Q th -> Q el -> P (TIf c th el n)) ->
  (forall n, P (TGosub n)) -> (forall e ns, P (TOnGosub e ns)) ->
  Q [] -> (forall s r, P s -> Q r -> Q (s :: r)) ->
  (forall s, P s) /\ (forall b, Q b).
Proof. intros. split; [apply (sstmt_ind2 P Q) | apply (block_ind2 P Q)]; assumption. Qed.

(* ------------------------------------------------------------------ unfolding the layout *)

Lemma cstmt_for v a b s nm body :
  cstmt (TFor v a b s nm body) = SFor v a b s :: cblock body ++ [SNext (if nm then [v] else [])].
Proof. reflexivity. Qed.
Lemma cstmt_while c body : cstmt (TWhile c body) = SWhile c :: cblock body ++ [SWend].
Proof. reflexivity. Qed.
Lemma cstmt_if c th el n :
  cstmt (TIf c th el n) = SIf c None :: cblock th ++ SElse None :: cblock el ++ [SLine n].
Proof. reflexivity. Qed.
Lemma cblock_cons s r : cblock (s :: r) = cstmt s ++ cblock r.
Proof. reflexivity. Qed.
Lemma line_after_cons s r cur : line_after (s :: r) cur = line_after r (line_after_stmt s cur).
Proof. reflexivity. Qed.
Lemma line_after_for v a b s nm body cur : line_after_stmt (TFor v a b s nm body) cur = line_after body cur.
Proof. reflexivity. Qed.
Lemma line_after_while c body cur : line_after_stmt (TWhile c body) cur = line_after body cur.
Proof. reflexivity. Qed.
Lemma inline_for v a b s nm body : inline_stmt (TFor v a b s nm body) = inline_block body.
Proof. reflexivity. Qed.
Lemma inline_while c body : inline_stmt (TWhile c body) = inline_block body.
Proof. reflexivity. Qed.
Lemma ifs_ok_for v a b s nm body : ifs_ok_stmt (TFor v a b s nm body) = ifs_ok_block body.
Proof. reflexivity. Qed.
Lemma ifs_ok_while c body : ifs_ok_stmt (TWhile c body) = ifs_ok_block body.
Proof. reflexivity. Qed.
Lemma targets_for v a b s nm body : targets_stmt (TFor v a b s nm body) = targets_block body.
Proof. reflexivity. Qed.
Lemma targets_while c body : targets_stmt (TWhile c body) = targets_block body.
Proof. reflexivity. Qed.
Lemma targets_if c th el n : targets_stmt (TIf c th el n) = targets_block th ++ targets_block el.
Proof. reflexivity. Qed.
Lemma lines_for v a b s nm body : lines_stmt (TFor v a b s nm body) = lines_block body.
Proof. reflexivity. Qed.
Lemma lines_while c body : lines_stmt (TWhile c body) = lines_block body.
Proof. reflexivity. Qed.
Lemma lines_if c th el n : lines_stmt (TIf c th el n) = lines_block th ++ lines_block el ++ [n].
Proof. reflexivity. Qed.

(* ------------------------------------------------------------------ scans pass over laid-out blocks *)

(* FOR..NEXT and WHILE..WEND are balanced in a layout: the nesting scans come out at the depth they entered *)
Lemma scan_next_block :
  (forall s rest base d, scan_next (cstmt s ++ rest) base d = scan_next rest (base + length (cstmt s)) d) /\
  (forall b rest base d, scan_next (cblock b ++ rest) base d = scan_next rest (base + length (cblock b)) d).
Proof.
  apply sstmt_both; intros.
  - simpl. f_equal. lia.
  - simpl. f_equal. lia.
  - simpl. f_equal. lia.
  - rewrite cstmt_for. simpl. rewrite <- app_assoc, H.
    destruct nm; simpl; rewrite app_length; simpl; rewrite Nat.sub_0_r; f_equal; lia.
  - rewrite cstmt_while. simpl. rewrite <- app_assoc, H. simpl. rewrite app_length. simpl. f_equal. lia.
  - rewrite cstmt_if. simpl. rewrite <- app_assoc, H. simpl. rewrite <- app_assoc, H0. simpl.
    rewrite !app_length. simpl. rewrite app_length. simpl. f_equal. lia.
  - simpl. f_equal. lia.
  - simpl. f_equal. lia.
  - simpl. f_equal. lia.
  - rewrite cblock_cons, <- app_assoc, H, H0, app_length. f_equal. lia.
Qed.

Lemma scan_wend_block :
  (forall s rest base d, scan_wend (cstmt s ++ rest) base d = scan_wend rest (base + length (cstmt s)) d) /\
  (forall b rest base d, scan_wend (cblock b ++ rest) base d = scan_wend rest (base + length (cblock b)) d).
Proof.
  apply sstmt_both; intros.
  - simpl. f_equal. lia.
  - simpl. f_equal. lia.
  - simpl. f_equal. lia.
  - rewrite cstmt_for. simpl. rewrite <- app_assoc, H. simpl. rewrite app_length. simpl. f_equal. lia.
  - rewrite cstmt_while. simpl. rewrite <- app_assoc, H. simpl. rewrite app_length. simpl. f_equal. lia.
  - rewrite cstmt_if. simpl. rewrite <- app_assoc, H. simpl. rewrite <- app_assoc, H0. simpl.
    rewrite !app_length. simpl. rewrite app_length. simpl. f_equal. lia.
  - simpl. f_equal. lia.
  - simpl. f_equal. lia.
  - simpl. f_equal. lia.
  - rewrite cblock_cons, <- app_assoc, H, H0, app_length. f_equal. lia.
Qed.

(* one-line blocks (the branches of an IF) contain no IF, ELSE or line header *)
Lemma find_else_inline :
  (forall s, inline_stmt s = true -> forall rest base nest,
     find_else_from (cstmt s ++ rest) base nest = find_else_from rest (base + length (cstmt s)) nest) /\
  (forall b, inline_block b = true -> forall rest base nest,
     find_else_from (cblock b ++ rest) base nest = find_else_from rest (base + length (cblock b)) nest).
Proof.
  apply sstmt_both; intros; try discriminate.
  - simpl. f_equal. lia.
  - simpl. f_equal. lia.
  - rewrite inline_for in H0. rewrite cstmt_for. simpl. rewrite <- app_assoc, H by assumption. simpl.
    rewrite app_length. simpl. f_equal. lia.
  - rewrite inline_while in H0. rewrite cstmt_while. simpl. rewrite <- app_assoc, H by assumption. simpl.
    rewrite app_length. simpl. f_equal. lia.
  - simpl. f_equal. lia.
  - simpl. f_equal. lia.
  - simpl. f_equal. lia.
  - simpl in H1. apply andb_true_iff in H1 as [H1 H2].
    rewrite cblock_cons, <- app_assoc, H, H0, app_length by assumption. f_equal. lia.
Qed.

Lemma eol_inline :
  (forall s, inline_stmt s = true -> forall rest base,
     eol_from (cstmt s ++ rest) base = eol_from rest (base + length (cstmt s))) /\
  (forall b, inline_block b = true -> forall rest base,
     eol_from (cblock b ++ rest) base = eol_from rest (base + length (cblock b))).
Proof.
  apply sstmt_both; intros; try discriminate.
  - simpl. f_equal. lia.
  - simpl. f_equal. lia.
  - rewrite inline_for in H0. rewrite cstmt_for. simpl. rewrite <- app_assoc, H by assumption. simpl.
    rewrite app_length. simpl. f_equal. lia.
  - rewrite inline_while in H0. rewrite cstmt_while. simpl. rewrite <- app_assoc, H by assumption. simpl.
    rewrite app_length. simpl. f_equal. lia.
  - simpl. f_equal. lia.
  - simpl. f_equal. lia.
  - simpl. f_equal. lia.
  - simpl in H1. apply andb_true_iff in H1 as [H1 H2].
    rewrite cblock_cons, <- app_assoc, H, H0, app_length by assumption. f_equal. lia.
Qed.

Lemma line_after_inline :
  (forall s, inline_stmt s = true -> forall cur, line_after_stmt s cur = cur) /\
  (forall b, inline_block b = true -> forall cur, line_after b cur = cur).
Proof.
  apply sstmt_both; intros; try discriminate; try reflexivity.
  - rewrite inline_for in H0. rewrite line_after_for. auto.
  - rewrite inline_while in H0. rewrite line_after_while. auto.
  - simpl in H1. apply andb_true_iff in H1 as [H1 H2]. rewrite line_after_cons, H, H0; auto.
Qed.

Lemma ifs_ok_of_inline :
  (forall s, inline_stmt s = true -> ifs_ok_stmt s = true) /\
  (forall b, inline_block b = true -> ifs_ok_block b = true).
Proof.
  apply sstmt_both; intros; try discriminate; try reflexivity.
  - rewrite inline_for in H0. rewrite ifs_ok_for. auto.
  - rewrite inline_while in H0. rewrite ifs_ok_while. auto.
  - simpl in H1. apply andb_true_iff in H1 as [H1 H2]. simpl. rewrite H, H0; auto.
Qed.

(* ------------------------------------------------------------------ line numbers *)

Definition upd_line (c : Z) (s : stmt) : Z := match s with SLine n => n | _ => c end.
Definition lastline (l : list stmt) (cur : Z) : Z := fold_left upd_line l cur.
Definition noend (l : list stmt) : Prop := ~ In SEndProg l.

Lemma lastline_app l1 l2 cur : lastline (l1 ++ l2) cur = lastline l2 (lastline l1 cur).
Proof. unfold lastline. apply fold_left_app. Qed.

Lemma lastline_cblock :
  (forall s cur, lastline (cstmt s) cur = line_after_stmt s cur) /\
  (forall b cur, lastline (cblock b) cur = line_after b cur).
Proof.
  apply sstmt_both; intros; try reflexivity.
  - rewrite cstmt_for, line_after_for.
    change (SFor v a b s :: cblock body ++ [SNext (if nm then [v] else [])])
      with ([SFor v a b s] ++ cblock body ++ [SNext (if nm then [v] else [])]).
    rewrite !lastline_app, H. reflexivity.
  - rewrite cstmt_while, line_after_while.
    change (SWhile c :: cblock body ++ [SWend]) with ([SWhile c] ++ cblock body ++ [SWend]).
    rewrite !lastline_app, H. reflexivity.
  - rewrite cstmt_if.
    change (SIf c None :: cblock th ++ SElse None :: cblock el ++ [SLine n])
      with ([SIf c None] ++ cblock th ++ [SElse None] ++ cblock el ++ [SLine n]).
    rewrite !lastline_app. reflexivity.
  - rewrite cblock_cons, lastline_app, H, H0. reflexivity.
Qed.

Lemma noend_cblock : (forall s, noend (cstmt s)) /\ (forall b, noend (cblock b)).
Proof.
  apply sstmt_both; unfold noend in *; intros.
  - simpl. intros [H|[]]; discriminate.
  - simpl. intros [H|[]]; discriminate.
  - simpl. intros [H|[]]; discriminate.
  - rewrite cstmt_for. simpl. intros [H0|H0]; [discriminate|].
    apply in_app_or in H0 as [H0|[H0|[]]]; [auto | discriminate].
  - rewrite cstmt_while. simpl. intros [H0|H0]; [discriminate|].
    apply in_app_or in H0 as [H0|[H0|[]]]; [auto | discriminate].
  - rewrite cstmt_if. simpl. intros [H1|H1]; [discriminate|].
    apply in_app_or in H1 as [H1|[H1|H1]]; [auto | discriminate |].
    apply in_app_or in H1 as [H1|[H1|[]]]; [auto | discriminate].
  - simpl. intros [H|[]]; discriminate.
  - simpl. intros [H|[]]; discriminate.
  - simpl. auto.
  - rewrite cblock_cons. intros H1. apply in_app_or in H1 as [H1|H1]; auto.
Qed.

Lemma noend_app l1 l2 : noend l1 -> noend l2 -> noend (l1 ++ l2).
Proof. unfold noend. intros H1 H2 H. apply in_app_or in H as [H|H]; auto. Qed.

(* the line that the machine reports for a position *)
Lemma line_of_from_app pre x post c : noend pre ->
  line_of_from (pre ++ x :: post) (length pre) c =
    match x with SEndProg => 65535 | _ => upd_line (lastline pre c) x end.
Proof.
  revert c. induction pre as [|y pre IH]; intros c Hne.
  - simpl. destruct x; reflexivity.
  - assert (Hy : y <> SEndProg) by (intros ->; apply Hne; left; reflexivity).
    assert (Hne' : noend pre) by (intros H; apply Hne; right; exact H).
    simpl. destruct y; try congruence; rewrite IH by assumption; reflexivity.
Qed.

(* the header of a line is found where it is, if it is the first with that number *)
Definition no_line (n : Z) (l : list stmt) : Prop := ~ In (SLine n) l.

Lemma find_line_from_app pre post n base : noend pre -> no_line n pre ->
  find_line_from (pre ++ SLine n :: post) base n = Some (base + length pre)%nat.
Proof.
  revert base. induction pre as [|y pre IH]; intros base Hne Hnl.
  - simpl. rewrite Z.eqb_refl. f_equal. lia.
  - assert (Hy : y <> SEndProg) by (intros ->; apply Hne; left; reflexivity).
    assert (Hy' : y <> SLine n) by (intros ->; apply Hnl; left; reflexivity).
    assert (Hne' : noend pre) by (intros H; apply Hne; right; exact H).
    assert (Hnl' : no_line n pre) by (intros H; apply Hnl; right; exact H).
    simpl. destruct y; try congruence; try (rewrite IH by assumption; f_equal; lia).
    destruct (n0 =? n) eqn:E; [apply Z.eqb_eq in E; congruence|].
    rewrite IH by assumption. f_equal. lia.
Qed.

(* the line headers of a layout are the lines of the block *)
Lemma lines_cblock :
  (forall s n, In (SLine n) (cstmt s) -> In n (lines_stmt s)) /\
  (forall b n, In (SLine n) (cblock b) -> In n (lines_block b)).
Proof.
  apply sstmt_both; intros.
  - simpl in *. destruct H as [H|[]]. inversion H. auto.
  - simpl in *. destruct H as [H|[]]. discriminate.
  - simpl in *. destruct H as [H|[]]. discriminate.
  - rewrite cstmt_for in H0. rewrite lines_for. simpl in H0. destruct H0 as [H0|H0]; [discriminate|].
    apply in_app_or in H0 as [H0|[H0|[]]]; [auto | discriminate].
  - rewrite cstmt_while in H0. rewrite lines_while. simpl in H0. destruct H0 as [H0|H0]; [discriminate|].
    apply in_app_or in H0 as [H0|[H0|[]]]; [auto | discriminate].
  - rewrite cstmt_if in H1. rewrite lines_if. simpl in H1. destruct H1 as [H1|H1]; [discriminate|].
    apply in_app_or in H1 as [H1|[H1|H1]]; [apply in_or_app; auto | discriminate |].
    apply in_app_or in H1 as [H1|[H1|[]]].
    + apply in_or_app; right; apply in_or_app; auto.
    + inversion H1. apply in_or_app; right; apply in_or_app; right; left; reflexivity.
  - simpl in *. destruct H as [H|[]]. discriminate.
  - simpl in *. destruct H as [H|[]]. discriminate.
  - simpl in H. contradiction.
  - rewrite cblock_cons in H1. simpl. apply in_app_or in H1 as [H1|H1]; apply in_or_app; auto.
Qed.

(* ------------------------------------------------------------------ the simulation *)

Definition pre_out (t : list Z) (r : list Z * outcome) : list Z * outcome := (t ++ fst r, snd r).

Lemma pre_out_nil r : pre_out [] r = r.
Proof. destruct r; reflexivity. Qed.
Lemma pre_out_app t1 t2 r : pre_out (t1 ++ t2) r = pre_out t1 (pre_out t2 r).
Proof. unfold pre_out. simpl. rewrite app_assoc. reflexivity. Qed.

(* what one unit of fuel does *)
Definition lhs_of (code : list stmt) (f : nat) (sr : sres) : list Z * outcome :=
  match sr with
  | Halt o => ([], o)
  | Go st' out => pre_out out (run code f st')
  end.

Lemma run_S code f st : run code (S f) st = lhs_of code f (step code st).
Proof.
  simpl. destruct (step code st) as [st' out|o]; [|reflexivity].
  unfold lhs_of, pre_out. destruct (run code f st'). reflexivity.
Qed.

(* the state with the stacks of st0, data d, at position pos *)
Definition at_state (st0 : state) (d : dstate) (pos : nat) : state :=
  {| pc := pos; fors := fors st0; whiles := whiles st0; gosubs := gosubs st0; dptr := dptr st0; ds := d |}.

Section Sim.
Variable code : list stmt.
Variable subs : list (Z * list sstmt).

(* the result of the reference semantics, completed by the machine from position pos on *)
Definition fin (st0 : state) (pos : nat) (r : bres) : list Z * outcome :=
  match r with
  | BOk f d t => pre_out t (run code f (at_state st0 d pos))
  | BStop t o => (t, o)
  end.

(* lhs is what the reference result r prescribes; r leaves no more fuel than there was and no handler *)
Definition sim_ok (st0 : state) (pos fuel : nat) (lhs : list Z * outcome) (r : bres) : Prop :=
  lhs = fin st0 pos r /\
  (forall f' d' t, r = BOk f' d' t -> (f' <= fuel)%nat /\ onerr d' = 0).

Lemma sim_ok_stop st0 pos fuel t o : sim_ok st0 pos fuel (t, o) (BStop t o).
Proof. split; [reflexivity | intros; discriminate]. Qed.

Lemma sim_ok_weaken st0 pos fuel fuel' lhs r :
  (fuel <= fuel')%nat -> sim_ok st0 pos fuel lhs r -> sim_ok st0 pos fuel' lhs r.
Proof. intros Hle [H1 H2]. split; [exact H1|]. intros f' d' t E. destruct (H2 _ _ _ E). split; [lia|auto]. Qed.

Lemma sim_ok_bout st0 pos fuel t lhs r :
  sim_ok st0 pos fuel lhs r -> sim_ok st0 pos fuel (pre_out t lhs) (bout t r).
Proof.
  intros [H1 H2]. split.
  - rewrite H1. destruct r as [f d t'|t' o]; simpl.
    + rewrite pre_out_app. reflexivity.
    + reflexivity.
  - intros f' d' t0 E. destruct r as [f d t'|t' o]; simpl in E; [|discriminate].
    inversion E; subst. eapply H2. reflexivity.
Qed.

(* r, then k: if the machine follows r and then, from where r ends, follows k *)
Lemma sim_ok_bseq st0 st1 pos1 pos fuel lhs r k :
  sim_ok st1 pos1 fuel lhs r ->
  (forall f2 d2, (f2 <= fuel)%nat -> onerr d2 = 0 ->
     sim_ok st0 pos f2 (run code f2 (at_state st1 d2 pos1)) (k f2 d2)) ->
  sim_ok st0 pos fuel lhs (bseq r k).
Proof.
  intros [H1 H2] Hk. destruct r as [f d t|t o]; simpl.
  - destruct (H2 _ _ _ eq_refl) as [Hle Hd]. rewrite H1. simpl.
    apply sim_ok_bout. eapply sim_ok_weaken; [exact Hle|]. apply Hk; assumption.
  - rewrite H1. apply sim_ok_stop.
Qed.

(* one more statement that continues silently *)
Lemma sim_ok_tick st0 pos f2 st st' k :
  step code st = Go st' [] ->
  (forall f3, f2 = S f3 -> sim_ok st0 pos f3 (run code f3 st') (k f3)) ->
  sim_ok st0 pos f2 (run code f2 st) (tick f2 k).
Proof.
  intros Hs Hk. destruct f2 as [|f3]; simpl.
  - apply sim_ok_stop.
  - rewrite Hs. fold (run code f3 st'). destruct (run code f3 st') as [t o] eqn:E. simpl.
    eapply sim_ok_weaken; [|rewrite <- E; apply Hk; reflexivity]. lia.
Qed.

(* expression values: the machine's with_val / with_int against rval / rint *)
Lemma sim_with_val st0 pos F f st i epos d cur e km kr :
  ds st = d -> onerr d = 0 -> line_of code epos = cur ->
  (forall z, sim_ok st0 pos F (lhs_of code f (km z)) (kr z)) ->
  sim_ok st0 pos F (lhs_of code f (with_val code st i epos (eval d e) km)) (rval d cur e kr).
Proof.
  intros Hd Ho Hl Hk. unfold with_val, rval. destruct (eval d e) as [z|c|].
  - apply Hk.
  - rewrite trap_untrapped by (left; rewrite Hd; exact Ho). rewrite Hl. apply sim_ok_stop.
  - apply sim_ok_stop.
Qed.

Lemma sim_with_int st0 pos F f st i d cur e km kr :
  ds st = d -> onerr d = 0 -> line_of code i = cur ->
  (forall z, in16 z = true -> sim_ok st0 pos F (lhs_of code f (km z)) (kr z)) ->
  sim_ok st0 pos F (lhs_of code f (with_int code st i (eval d e) km)) (rint d cur e kr).
Proof.
  intros Hd Ho Hl Hk. unfold with_int, rint. apply sim_with_val; auto.
  intros z. destruct (in16 z) eqn:E.
  - apply Hk. exact E.
  - rewrite trap_untrapped by (left; rewrite Hd; exact Ho). rewrite Hl. apply sim_ok_stop.
Qed.

End Sim.

(* ------------------------------------------------------------------ unfolding exec *)

Section ExecEq.
Variable subs : list (Z * list sstmt).

Definition call_sub (g f : nat) (cur : Z) (d : dstate) (cont : nat -> dstate -> bres) (n : Z) : bres :=
  match find_sub subs n with
  | None => BStop [] (Stopped flow_E_UNDEFINED_LINE_NUMBER cur)
  | Some body =>
      tick f (fun f1 => bseq (exec subs g f1 n body d) (fun f2 d2 => tick f2 (fun f3 => cont f3 d2)))
  end.

Lemma exec_nil gas fuel cur d : exec subs gas fuel cur [] d = BOk fuel d [].
Proof. destruct gas; reflexivity. Qed.
Lemma exec_gas0 fuel cur s rest d : exec subs 0 fuel cur (s :: rest) d = BStop [] OutOfFuel.
Proof. reflexivity. Qed.
Lemma exec_fuel0 gas cur s rest d : exec subs gas 0 cur (s :: rest) d = BStop [] OutOfFuel.
Proof. destruct gas; reflexivity. Qed.

Lemma exec_line g f cur n rest d :
  exec subs (S g) (S f) cur (TLine n :: rest) d = exec subs g f n rest d.
Proof. reflexivity. Qed.
Lemma exec_print g f cur e rest d :
  exec subs (S g) (S f) cur (TPrint e :: rest) d =
  match soft_div d e with
  | Some neg => bout (soft_out neg) (exec subs g f cur rest d)
  | None => rval d cur e (fun z => bout [z] (exec subs g f cur rest d))
  end.
Proof. reflexivity. Qed.
Lemma exec_let g f cur v e rest d :
  exec subs (S g) (S f) cur (TLet v e :: rest) d =
  rval d cur e (fun z => if in16 z then exec subs g f cur rest (d_setv d v z)
                         else BStop [] (Stopped flow_E_OVERFLOW cur)).
Proof. reflexivity. Qed.
Lemma exec_for g f cur v a b s nm body rest d :
  exec subs (S g) (S f) cur (TFor v a b s nm body :: rest) d =
  let cont := fun f' d' => exec subs g f' (line_after body cur) rest d' in
  rint d cur a (fun va => rint d cur b (fun vb => rint d cur s (fun vs =>
    let next := for_next v vb vs (line_after body cur) in
    let loop := for_loop (fun f1 d1 => exec subs g f1 cur body d1) next cont g in
    let d0 := d_setv d v va in
    if passed_end vs vb va
    then next d0 (cont f) (loop f) else loop f d0))).
Proof. reflexivity. Qed.
Lemma exec_while g f cur c body rest d :
  exec subs (S g) (S f) cur (TWhile c body :: rest) d =
  while_loop (fun d1 => rval d1 cur c) (fun f1 d1 => exec subs g f1 cur body d1)
             (fun f' d' => exec subs g f' (line_after body cur) rest d') g f d.
Proof. reflexivity. Qed.
Lemma exec_if g f cur c th el n rest d :
  exec subs (S g) (S f) cur (TIf c th el n :: rest) d =
  let cont := fun f' d' => exec subs g f' n rest d' in
  rval d cur c (fun z =>
    if negb (z =? 0)
    then bseq (exec subs g f cur th d) (fun f2 d2 => tick f2 (fun f3 => tick f3 (fun f4 => cont f4 d2)))
    else bseq (exec subs g f cur el d) (fun f2 d2 => tick f2 (fun f3 => cont f3 d2))).
Proof. reflexivity. Qed.
Lemma exec_gosub g f cur n rest d :
  exec subs (S g) (S f) cur (TGosub n :: rest) d =
  call_sub g f cur d (fun f' d' => exec subs g f' cur rest d') n.
Proof. reflexivity. Qed.
Lemma exec_ongosub g f cur e ns rest d :
  exec subs (S g) (S f) cur (TOnGosub e ns :: rest) d =
  rint d cur e (fun z =>
    if negb ((flow_on_lo <=? z) && (z <=? flow_on_hi))
    then BStop [] (Stopped flow_E_ILLEGAL_FUNCTION_CALL cur)
    else if (1 <=? z) && (z <=? Z.of_nat (length ns))
         then call_sub g f cur d (fun f' d' => exec subs g f' cur rest d') (nth (Z.to_nat (z - 1)) ns 0)
         else exec subs g f cur rest d).
Proof. reflexivity. Qed.

End ExecEq.

(* ------------------------------------------------------------------ the main induction *)

Lemma skipn_app_S {A} (pre : list A) x l : skipn (S (length pre)) (pre ++ x :: l) = l.
Proof. induction pre; simpl; auto. Qed.

Lemma at_state_pc st0 d p : pc (at_state st0 d p) = p. Proof. reflexivity. Qed.
Lemma at_state_ds st0 d p : ds (at_state st0 d p) = d. Proof. reflexivity. Qed.

(* NEXT with the loop's own record on top of the FOR stack *)
Lemma iterate_top st0 d2 pos (r : frec) nm :
  (match nm with None => true | Some v0 => Nat.eqb v0 (f_var r) end) = true ->
  iterate (at_state (set_fors st0 (r :: fors st0)) d2 pos) (f_nidx r) (f_nk r) nm =
    let c := getv (env d2) (f_var r) + f_step r in
    if negb (in16 c) then IErr (at_state (set_fors st0 (r :: fors st0)) d2 pos) flow_E_OVERFLOW
    else if (if flow_next_dir (Z.sgn (f_step r)) then c >? f_stop r else f_stop r >? c)
         then IEnded (at_state st0 (d_setv d2 (f_var r) c) pos)
         else ILoop (at_state (set_fors st0 (r :: fors st0)) (d_setv d2 (f_var r) c) (f_forpos r)).
Proof.
  intros Hnm. unfold iterate, at_state.
  destruct nm as [v0|]; simpl; rewrite !Nat.eqb_refl; simpl; [rewrite Hnm; simpl|];
  (destruct (in16 (getv (env d2) (f_var r) + f_step r)); simpl; [|reflexivity];
   destruct (if flow_next_dir (Z.sgn (f_step r))
             then getv (env d2) (f_var r) + f_step r >? f_stop r
             else f_stop r >? getv (env d2) (f_var r) + f_step r); reflexivity).
Qed.

Section SimMain.
Variable code : list stmt.
Variable subs : list (Z * list sstmt).

(* where the subroutines are in the code *)
Hypothesis Hsubs : forall n body, find_sub subs n = Some body ->
  exists pre post, code = pre ++ SLine n :: cblock body ++ SReturn None :: post /\ noend pre /\
    find_line code n = Some (length pre) /\ ifs_ok_block body = true /\
    (forall m, In m (targets_block body) -> find_sub subs m <> None).

Definition targets_ok (b : list sstmt) : Prop := forall m, In m (targets_block b) -> find_sub subs m <> None.

Definition sim_at (g : nat) : Prop :=
  forall fuel cur b d pre post st0,
    (fuel < g)%nat -> code = pre ++ cblock b ++ post -> noend pre -> lastline pre 65535 = cur ->
    ifs_ok_block b = true -> targets_ok b -> onerr d = 0 ->
    sim_ok code st0 (length pre + length (cblock b)) fuel
      (run code fuel (at_state st0 d (length pre))) (exec subs g fuel cur b d).

(* the line of a statement that is not a header *)
Lemma line_here pre x post cur : code = pre ++ x :: post -> noend pre -> lastline pre 65535 = cur ->
  (forall n, x <> SLine n) -> x <> SEndProg -> line_of code (length pre) = cur.
Proof.
  intros Hc Hne Hl Hx1 Hx2. unfold line_of. rewrite Hc, line_of_from_app by assumption.
  rewrite Hl. destruct x; try reflexivity; [exfalso; eapply Hx1; reflexivity | congruence].
Qed.

(* the statements after s, as the induction hypothesis gives them *)
Lemma sim_cont g s rest pre post st0 cur :
  sim_at g -> code = pre ++ cblock (s :: rest) ++ post -> noend pre -> lastline pre 65535 = cur ->
  ifs_ok_block (s :: rest) = true -> targets_ok (s :: rest) ->
  forall f1 d1, (f1 < g)%nat -> onerr d1 = 0 ->
    sim_ok code st0 (length pre + length (cblock (s :: rest))) f1
      (run code f1 (at_state st0 d1 (length pre + length (cstmt s))))
      (exec subs g f1 (line_after_stmt s cur) rest d1).
Proof.
  intros IH Hc Hne Hl Hifs Htg f1 d1 Hf1 Hd1.
  rewrite cblock_cons in *. rewrite <- app_assoc in Hc.
  replace (length pre + length (cstmt s ++ cblock rest))%nat
    with (length (pre ++ cstmt s) + length (cblock rest))%nat by (rewrite !app_length; lia).
  replace (length pre + length (cstmt s))%nat with (length (pre ++ cstmt s)) by (rewrite app_length; lia).
  apply IH with (post := post); auto.
  - rewrite <- app_assoc. exact Hc.
  - apply noend_app; [exact Hne | apply noend_cblock].
  - rewrite lastline_app, Hl. apply lastline_cblock.
  - simpl in Hifs. apply andb_true_iff in Hifs. tauto.
  - intros m Hm. apply Htg. simpl. apply in_or_app. right. exact Hm.
Qed.


(* ---- FOR ---- *)
Lemma sim_for g f cur pre post st0 d v a b s nm body rest :
  sim_at g -> (f < g)%nat ->
  code = pre ++ cblock (TFor v a b s nm body :: rest) ++ post -> noend pre -> lastline pre 65535 = cur ->
  ifs_ok_block (TFor v a b s nm body :: rest) = true -> targets_ok (TFor v a b s nm body :: rest) ->
  onerr d = 0 ->
  sim_ok code st0 (length pre + length (cblock (TFor v a b s nm body :: rest))) (S f)
    (run code (S f) (at_state st0 d (length pre)))
    (exec subs (S g) (S f) cur (TFor v a b s nm body :: rest) d).
Proof.
  intros IH Hfg Hc Hne Hl Hifs Htg Hd.
  pose proof (sim_cont g _ rest pre post st0 cur IH Hc Hne Hl Hifs Htg) as Hcont.
  set (P := (length pre + length (cblock (TFor v a b s nm body :: rest)))%nat) in *.
  set (i := length pre) in *.
  set (nmv := if nm then [v] else []).
  set (j := (S i + length (cblock body))%nat).
  assert (Hlen : (i + length (cstmt (TFor v a b s nm body)) = S j)%nat).
  { rewrite cstmt_for. simpl. rewrite app_length. simpl. unfold j. lia. }
  rewrite Hlen in Hcont.
  (* the shape of the code *)
  assert (Hc1 : code = pre ++ SFor v a b s :: (cblock body ++ SNext nmv :: cblock rest ++ post)).
  { rewrite Hc, cblock_cons, cstmt_for. simpl. rewrite <- !app_assoc. reflexivity. }
  assert (Hc2 : code = (pre ++ [SFor v a b s]) ++ cblock body ++ (SNext nmv :: cblock rest ++ post)).
  { rewrite Hc1, <- app_assoc. reflexivity. }
  assert (Hc3 : code = (pre ++ SFor v a b s :: cblock body) ++ SNext nmv :: cblock rest ++ post).
  { rewrite Hc1, <- app_assoc. reflexivity. }
  assert (Hj : length (pre ++ SFor v a b s :: cblock body) = j).
  { rewrite app_length. simpl. unfold j, i. lia. }
  assert (Hnth_i : nth_error code i = Some (SFor v a b s)) by (rewrite Hc1; apply nth_error_app_at).
  assert (Hnth_j : nth_error code j = Some (SNext nmv)) by (rewrite Hc3, <- Hj; apply nth_error_app_at).
  assert (Hline_i : line_of code i = cur).
  { eapply line_here; eauto; intros; discriminate. }
  assert (Hne3 : noend (pre ++ SFor v a b s :: cblock body)).
  { apply noend_app; [exact Hne|]. intros [H|H]; [discriminate | revert H; apply noend_cblock]. }
  assert (Hline_j : line_of code j = line_after body cur).
  { rewrite <- Hj. eapply line_here; eauto; try (intros; discriminate).
    change (SFor v a b s :: cblock body) with ([SFor v a b s] ++ cblock body).
    rewrite !lastline_app, Hl. apply lastline_cblock. }
  assert (Hscan : scan_next (skipn (S i) code) (S i) 0 = Some (j, 0%nat)).
  { rewrite Hc1. unfold i. rewrite skipn_app_S. rewrite (proj2 scan_next_block). simpl.
    destruct nm; reflexivity. }
  assert (Hvars : vars_of_next code j = nmv) by (unfold vars_of_next; rewrite Hnth_j; reflexivity).
  assert (Hifs_b : ifs_ok_block body = true).
  { simpl in Hifs. apply andb_true_iff in Hifs as [H _]. exact H. }
  assert (Htg_b : targets_ok body).
  { intros m Hm. apply Htg. simpl. apply in_or_app. left. exact Hm. }
  rewrite run_S, (step_at code _ (SFor v a b s)) by exact Hnth_i.
  rewrite exec_for. cbv zeta. rewrite at_state_pc, at_state_ds. fold i.
  apply sim_with_int; auto. intros va Hva.
  apply sim_with_int; auto. intros vb Hvb.
  apply sim_with_int; auto. intros vs Hvs.
  rewrite Hscan, Hvars.
  assert (Hname : match nth_error nmv 0 with Some v' => Nat.eqb v' v | None => true end = true).
  { unfold nmv. destruct nm; simpl; auto. apply Nat.eqb_refl. }
  rewrite Hname. cbn [negb].
  set (rec := {| f_var := v; f_stop := vb; f_step := vs; f_forpos := S i; f_nidx := j; f_nk := 0 |}).
  set (st0' := set_fors st0 (rec :: fors st0)).
  set (cont := fun f' d' => exec subs g f' (line_after body cur) rest d').
  set (next := for_next v vb vs (line_after body cur)).
  set (bodyx := fun f1 d1 => exec subs g f1 cur body d1).
  (* the direction tests of the source are the direction of the reference semantics *)
  assert (Hsg : (Z.sgn vs >=? 0) = (vs >=? 0)) by (destruct vs; reflexivity).
  assert (Hdir : forall c, (if flow_next_dir (Z.sgn vs) then c >? vb else vb >? c) = passed_end vs vb c).
  { intros c. rewrite next_dir_spec, Hsg. reflexivity. }
  assert (Hdir0 : (if flow_for_dir (Z.sgn vs) then va >? vb else vb >? va) = passed_end vs vb va).
  { rewrite for_dir_spec, Hsg. reflexivity. }
  (* NEXT, reached with the loop's record on top, from statement `at` *)
  assert (Hnext : forall at_ f3 d2 (nml : list (option var)) kloop,
     (f3 < g)%nat -> onerr d2 = 0 ->
     (nml = [None] \/ nml = [Some v]) ->
     (forall d3, onerr d3 = 0 ->
        sim_ok code st0 P f3 (run code f3 (at_state st0' d3 (S i))) (kloop d3)) ->
     sim_ok code st0 P (S f3)
       (lhs_of code f3
          match next_vars (at_state st0' d2 at_) j 0 nml with
          | IEnded st' => Go (set_pc st' (S j)) []
          | ILoop st' => Go st' []
          | IErr st' c => trap code st' at_ c j
          end)
       (next d2 (cont f3) kloop)).
  { intros at_ f3 d2 nml kloop Hf3 Hd2 Hnml Hloop.
    assert (Hit : forall nm0, nm0 = None \/ nm0 = Some v ->
      next_vars (at_state st0' d2 at_) j 0 [nm0] =
      let c := getv (env d2) v + vs in
      if negb (in16 c) then IErr (at_state st0' d2 at_) flow_E_OVERFLOW
      else if (if flow_next_dir (Z.sgn vs) then c >? vb else vb >? c)
           then IEnded (at_state st0 (d_setv d2 v c) at_)
           else ILoop (at_state st0' (d_setv d2 v c) (S i))).
    { intros nm0 Hnm0. cbn [next_vars].
      pose proof (iterate_top st0 d2 at_ rec nm0) as E. cbn [f_nidx f_nk f_var f_step f_stop f_forpos rec] in E.
      fold st0' in E. rewrite E by (destruct Hnm0 as [-> | ->]; [reflexivity | apply Nat.eqb_refl]).
      cbv zeta.
      destruct (in16 (getv (env d2) v + vs)); cbn [negb]; [|reflexivity].
      destruct (if flow_next_dir (Z.sgn vs) then getv (env d2) v + vs >? vb else vb >? getv (env d2) v + vs);
        reflexivity. }
    assert (Hnv : next_vars (at_state st0' d2 at_) j 0 nml =
      let c := getv (env d2) v + vs in
      if negb (in16 c) then IErr (at_state st0' d2 at_) flow_E_OVERFLOW
      else if (if flow_next_dir (Z.sgn vs) then c >? vb else vb >? c)
           then IEnded (at_state st0 (d_setv d2 v c) at_)
           else ILoop (at_state st0' (d_setv d2 v c) (S i))).
    { destruct Hnml as [-> | ->]; apply Hit; auto. }
    rewrite Hnv. unfold next, for_next. cbv zeta. rewrite Hdir.
    destruct (in16 (getv (env d2) v + vs)); cbn [negb].
    - destruct (passed_end vs vb (getv (env d2) v + vs)).
      + (* the loop ends *)
        cbn [lhs_of]. rewrite pre_out_nil.
        eapply sim_ok_weaken; [|apply (Hcont f3 (d_setv d2 v (getv (env d2) v + vs))); auto]. lia.
      + cbn [lhs_of]. rewrite pre_out_nil.
        eapply sim_ok_weaken; [|apply Hloop; auto]. lia.
    - rewrite trap_untrapped by (left; exact Hd2). rewrite Hline_j. apply sim_ok_stop. }
  (* the loop: body, NEXT, again *)
  assert (Hloop : forall n f1 d1, (f1 <= n)%nat -> (f1 < g)%nat -> onerr d1 = 0 ->
     sim_ok code st0 P f1 (run code f1 (at_state st0' d1 (S i))) (for_loop bodyx next cont n f1 d1)).
  { induction n as [|n IHn]; intros f1 d1 Hn Hg Hd1.
    - assert (f1 = 0%nat) by lia. subst. apply sim_ok_stop.
    - cbn [for_loop]. apply sim_ok_bseq with (st1 := st0') (pos1 := j).
      + pose proof (IH f1 cur body d1 (pre ++ [SFor v a b s]) (SNext nmv :: cblock rest ++ post) st0'
                      Hg Hc2) as B.
        rewrite app_length in B. simpl in B. replace (length pre + 1)%nat with (S i) in B by (unfold i; lia).
        fold j in B. apply B; auto.
        * apply noend_app; [exact Hne|]. intros [H|[]]; discriminate.
        * rewrite lastline_app, Hl. reflexivity.
      + intros f2 d2 Hf2 Hd2. destruct f2 as [|f3]; [apply sim_ok_stop|]. cbn [tick].
        rewrite run_S, (step_at code _ (SNext nmv)) by exact Hnth_j. cbv zeta. rewrite at_state_pc.
        apply Hnext; auto; try lia.
        * unfold nmv. destruct nm; [right | left]; reflexivity.
        * intros d3 Hd3. apply IHn; auto; lia. }
  rewrite Hdir0. destruct (passed_end vs vb va).
  - (* the start is already past the end *)
    assert (Hnm : None :: map Some (skipn 1 nmv) = [None (A:=var)]) by (unfold nmv; destruct nm; reflexivity).
    rewrite Hnm.
    change (set_fors (set_var (at_state st0 d i) v va) (rec :: fors (set_var (at_state st0 d i) v va)))
      with (at_state st0' (d_setv d v va) i).
    apply Hnext; auto.
    intros d3 Hd3. apply Hloop; auto; lia.
  - cbn [lhs_of]. rewrite pre_out_nil.
    change (set_pc (set_fors (set_var (at_state st0 d i) v va) (rec :: fors (set_var (at_state st0 d i) v va))) (S i))
      with (at_state st0' (d_setv d v va) (S i)).
    eapply sim_ok_weaken; [|apply Hloop; auto; lia]. lia.
Qed.


(* ---- WHILE ---- *)
Lemma sim_while g f cur pre post st0 d c body rest :
  sim_at g -> (f < g)%nat ->
  code = pre ++ cblock (TWhile c body :: rest) ++ post -> noend pre -> lastline pre 65535 = cur ->
  ifs_ok_block (TWhile c body :: rest) = true -> targets_ok (TWhile c body :: rest) ->
  onerr d = 0 ->
  sim_ok code st0 (length pre + length (cblock (TWhile c body :: rest))) (S f)
    (run code (S f) (at_state st0 d (length pre)))
    (exec subs (S g) (S f) cur (TWhile c body :: rest) d).
Proof.
  intros IH Hfg Hc Hne Hl Hifs Htg Hd.
  pose proof (sim_cont g _ rest pre post st0 cur IH Hc Hne Hl Hifs Htg) as Hcont.
  set (P := (length pre + length (cblock (TWhile c body :: rest)))%nat) in *.
  set (i := length pre) in *.
  set (j := (S i + length (cblock body))%nat).
  assert (Hlen : (i + length (cstmt (TWhile c body)) = S j)%nat).
  { rewrite cstmt_while. simpl. rewrite app_length. simpl. unfold j. lia. }
  rewrite Hlen, line_after_while in Hcont.
  assert (Hc1 : code = pre ++ SWhile c :: (cblock body ++ SWend :: cblock rest ++ post)).
  { rewrite Hc, cblock_cons, cstmt_while. simpl. rewrite <- !app_assoc. reflexivity. }
  assert (Hc2 : code = (pre ++ [SWhile c]) ++ cblock body ++ (SWend :: cblock rest ++ post)).
  { rewrite Hc1, <- app_assoc. reflexivity. }
  assert (Hc3 : code = (pre ++ SWhile c :: cblock body) ++ SWend :: cblock rest ++ post).
  { rewrite Hc1, <- app_assoc. reflexivity. }
  assert (Hj : length (pre ++ SWhile c :: cblock body) = j).
  { rewrite app_length. simpl. unfold j, i. lia. }
  assert (Hnth_i : nth_error code i = Some (SWhile c)) by (rewrite Hc1; apply nth_error_app_at).
  assert (Hnth_j : nth_error code j = Some SWend) by (rewrite Hc3, <- Hj; apply nth_error_app_at).
  assert (Hline_i : line_of code i = cur).
  { eapply line_here; eauto; intros; discriminate. }
  assert (Hscan : scan_wend (skipn (S i) code) (S i) 0 = Some j).
  { rewrite Hc1. unfold i. rewrite skipn_app_S. rewrite (proj2 scan_wend_block). reflexivity. }
  assert (Hifs_b : ifs_ok_block body = true).
  { simpl in Hifs. apply andb_true_iff in Hifs as [H _]. exact H. }
  assert (Htg_b : targets_ok body).
  { intros m Hm. apply Htg. simpl. apply in_or_app. left. exact Hm. }
  set (st0' := set_whiles st0 ((i, j) :: whiles st0)).
  set (cont := fun f' d' => exec subs g f' (line_after body cur) rest d').
  set (bodyx := fun f1 d1 => exec subs g f1 cur body d1).
  set (cond := fun d1 => rval d1 cur c).
  (* the test of the condition, made by statement at_ (the WHILE or the WEND) *)
  assert (Hwl : forall n f1 d1 at_, (f1 < n)%nat -> (f1 < g)%nat -> onerr d1 = 0 ->
     sim_ok code st0 P (S f1)
       (lhs_of code f1 (check_while code (at_state st0' d1 at_) at_ i))
       (while_loop cond bodyx cont n f1 d1)).
  { induction n as [|n IHn]; intros f1 d1 at_ Hn Hg Hd1; [lia|].
    cbn [while_loop]. unfold check_while. rewrite Hnth_i. unfold cond at 1.
    rewrite at_state_ds.
    apply sim_with_val; auto. intros z.
    destruct (z =? 0).
    - (* the loop is left: continue after the WEND *)
      cbn [lhs_of at_state whiles st0' set_whiles]. rewrite pre_out_nil.
      change (set_pc (set_whiles _ (whiles st0)) (S j)) with (at_state st0 d1 (S j)).
      eapply sim_ok_weaken; [|apply Hcont; auto]. lia.
    - cbn [lhs_of]. rewrite pre_out_nil.
      change (set_pc (at_state st0' d1 at_) (S i)) with (at_state st0' d1 (S i)).
      eapply sim_ok_weaken with (fuel := f1); [lia|].
      apply sim_ok_bseq with (st1 := st0') (pos1 := j).
      + pose proof (IH f1 cur body d1 (pre ++ [SWhile c]) (SWend :: cblock rest ++ post) st0' Hg Hc2) as B.
        rewrite app_length in B. simpl in B. replace (length pre + 1)%nat with (S i) in B by (unfold i; lia).
        fold j in B. apply B; auto.
        * apply noend_app; [exact Hne|]. intros [H|[]]; discriminate.
        * rewrite lastline_app, Hl. reflexivity.
      + intros f2 d2 Hf2 Hd2. destruct f2 as [|f3]; [apply sim_ok_stop|]. cbn [tick].
        rewrite run_S, (step_at code _ SWend) by exact Hnth_j. cbv zeta. rewrite at_state_pc.
        cbn [whiles at_state st0' set_whiles pop_to_wend]. rewrite Nat.eqb_refl.
        change (set_whiles _ ((i, j) :: whiles st0)) with (at_state st0' d2 j).
        apply IHn; auto; lia. }
  rewrite run_S, (step_at code _ (SWhile c)) by exact Hnth_i.
  rewrite exec_while. cbv zeta. rewrite at_state_pc. fold i. rewrite Hscan.
  change (set_whiles (at_state st0 d i) ((i, j) :: whiles (at_state st0 d i))) with (at_state st0' d i).
  apply Hwl; auto.
Qed.


(* ---- IF ---- *)
Lemma sim_if g f cur pre post st0 d c th el n rest :
  sim_at g -> (f < g)%nat ->
  code = pre ++ cblock (TIf c th el n :: rest) ++ post -> noend pre -> lastline pre 65535 = cur ->
  ifs_ok_block (TIf c th el n :: rest) = true -> targets_ok (TIf c th el n :: rest) ->
  onerr d = 0 ->
  sim_ok code st0 (length pre + length (cblock (TIf c th el n :: rest))) (S f)
    (run code (S f) (at_state st0 d (length pre)))
    (exec subs (S g) (S f) cur (TIf c th el n :: rest) d).
Proof.
  intros IH Hfg Hc Hne Hl Hifs Htg Hd.
  pose proof (sim_cont g _ rest pre post st0 cur IH Hc Hne Hl Hifs Htg) as Hcont.
  set (P := (length pre + length (cblock (TIf c th el n :: rest)))%nat) in *.
  set (i := length pre) in *.
  set (k := (S i + length (cblock th))%nat).
  set (l := (S k + length (cblock el))%nat).
  assert (Hlen : (i + length (cstmt (TIf c th el n)) = S l)%nat).
  { rewrite cstmt_if. simpl. rewrite app_length. simpl. rewrite app_length. simpl. unfold l, k. lia. }
  rewrite Hlen in Hcont. change (line_after_stmt (TIf c th el n) cur) with n in Hcont.
  assert (Hin : inline_block th = true /\ inline_block el = true).
  { simpl in Hifs. apply andb_true_iff in Hifs as [H _]. apply andb_true_iff in H. exact H. }
  destruct Hin as [Hin_t Hin_e].
  assert (Hc1 : code = pre ++ SIf c None :: (cblock th ++ SElse None :: cblock el ++ SLine n :: cblock rest ++ post)).
  { rewrite Hc, cblock_cons, cstmt_if. simpl. rewrite <- !app_assoc. simpl. rewrite <- !app_assoc. reflexivity. }
  assert (Hc2 : code = (pre ++ [SIf c None]) ++ cblock th ++ (SElse None :: cblock el ++ SLine n :: cblock rest ++ post)).
  { rewrite Hc1, <- app_assoc. reflexivity. }
  assert (Hc3 : code = (pre ++ SIf c None :: cblock th) ++ SElse None :: (cblock el ++ SLine n :: cblock rest ++ post)).
  { rewrite Hc1, <- app_assoc. reflexivity. }
  assert (Hc4 : code = (pre ++ SIf c None :: cblock th ++ [SElse None]) ++ cblock el ++ (SLine n :: cblock rest ++ post)).
  { rewrite Hc1, <- !app_assoc. simpl. rewrite <- !app_assoc. reflexivity. }
  assert (Hc5 : code = (pre ++ SIf c None :: cblock th ++ SElse None :: cblock el) ++ SLine n :: cblock rest ++ post).
  { rewrite Hc1, <- !app_assoc. simpl. rewrite <- !app_assoc. reflexivity. }
  assert (Hk : length (pre ++ SIf c None :: cblock th) = k).
  { rewrite app_length. simpl. unfold k, i. lia. }
  assert (Hk' : length (pre ++ SIf c None :: cblock th ++ [SElse None]) = S k).
  { rewrite app_length. simpl. rewrite app_length. simpl. unfold k, i. lia. }
  assert (Hl' : length (pre ++ SIf c None :: cblock th ++ SElse None :: cblock el) = l).
  { rewrite app_length. simpl. rewrite app_length. simpl. unfold l, k, i. lia. }
  assert (Hnth_i : nth_error code i = Some (SIf c None)) by (rewrite Hc1; apply nth_error_app_at).
  assert (Hnth_k : nth_error code k = Some (SElse None)) by (rewrite Hc3, <- Hk; apply nth_error_app_at).
  assert (Hnth_l : nth_error code l = Some (SLine n)) by (rewrite Hc5, <- Hl'; apply nth_error_app_at).
  assert (Hline_i : line_of code i = cur).
  { eapply line_here; eauto; intros; discriminate. }
  assert (Hfe : find_else_from (skipn (S i) code) (S i) 0 = ElseAt k None).
  { rewrite Hc1. unfold i. rewrite skipn_app_S. rewrite (proj2 find_else_inline) by assumption. reflexivity. }
  assert (Heol : eol code (S k) = l).
  { unfold eol. rewrite Hc3, <- Hk, skipn_app_S, Hk. rewrite (proj2 eol_inline) by assumption. reflexivity. }
  (* the header of the next line, then the rest *)
  assert (Hline_step : forall f3 d2, (f3 < S g)%nat -> onerr d2 = 0 ->
     sim_ok code st0 P f3 (run code f3 (at_state st0 d2 l))
       (tick f3 (fun f4 => exec subs g f4 n rest d2))).
  { intros f3 d2 Hf3 Hd2. apply sim_ok_tick with (st' := at_state st0 d2 (S l)).
    - rewrite (step_at code _ (SLine n)) by exact Hnth_l. reflexivity.
    - intros f4 ->. apply Hcont; auto. lia. }
  rewrite run_S, (step_at code _ (SIf c None)) by exact Hnth_i.
  rewrite exec_if. cbv zeta. rewrite at_state_pc, at_state_ds. fold i.
  apply sim_with_val; auto. intros z.
  destruct (negb (z =? 0)).
  - (* THEN branch, then the ELSE statement skips to the end of the line *)
    cbn [lhs_of]. rewrite pre_out_nil.
    change (set_pc (at_state st0 d i) (S i)) with (at_state st0 d (S i)).
    eapply sim_ok_weaken with (fuel := f); [lia|].
    apply sim_ok_bseq with (st1 := st0) (pos1 := k).
    + pose proof (IH f cur th d (pre ++ [SIf c None]) _ st0 Hfg Hc2) as B.
      rewrite app_length in B. simpl in B. replace (length pre + 1)%nat with (S i) in B by (unfold i; lia).
      fold k in B. apply B; auto.
      * apply noend_app; [exact Hne|]. intros [H|[]]; discriminate.
      * rewrite lastline_app, Hl. reflexivity.
      * apply ifs_ok_of_inline. exact Hin_t.
      * intros m Hm. apply Htg. simpl. apply in_or_app. left. apply in_or_app. left. exact Hm.
    + intros f2 d2 Hf2 Hd2. apply sim_ok_tick with (st' := at_state st0 d2 l).
      * rewrite (step_at code _ (SElse None)) by exact Hnth_k. cbv zeta. rewrite at_state_pc, Heol. reflexivity.
      * intros f3 ->. apply Hline_step; auto. lia.
  - (* ELSE branch *)
    rewrite Hfe. cbn [lhs_of]. rewrite pre_out_nil.
    change (set_pc (at_state st0 d i) (S k)) with (at_state st0 d (S k)).
    eapply sim_ok_weaken with (fuel := f); [lia|].
    apply sim_ok_bseq with (st1 := st0) (pos1 := l).
    + pose proof (IH f cur el d _ _ st0 Hfg Hc4) as B.
      rewrite Hk' in B. fold l in B. apply B; auto.
      * apply noend_app; [exact Hne|]. intros [H|H]; [discriminate|].
        apply in_app_or in H as [H|[H|[]]]; [revert H; apply noend_cblock | discriminate].
      * change (SIf c None :: cblock th ++ [SElse None]) with ([SIf c None] ++ cblock th ++ [SElse None]).
        rewrite !lastline_app, Hl. simpl. rewrite (proj2 lastline_cblock).
        apply line_after_inline. exact Hin_t.
      * apply ifs_ok_of_inline. exact Hin_e.
      * intros m Hm. apply Htg. simpl. apply in_or_app. left. apply in_or_app. right. exact Hm.
    + intros f2 d2 Hf2 Hd2. apply Hline_step; auto. lia.
Qed.

(* ---- GOSUB / ON..GOSUB: the call of subroutine n from statement i ---- *)
Lemma sim_call g f cur st0 d P i n cont :
  sim_at g -> (f < g)%nat -> find_sub subs n <> None -> onerr d = 0 ->
  (forall f3 d2, (f3 < g)%nat -> onerr d2 = 0 ->
     sim_ok code st0 P f3 (run code f3 (at_state st0 d2 (S i))) (cont f3 d2)) ->
  exists js, find_line code n = Some js /\
    sim_ok code st0 P f
      (run code f (at_state (set_gosubs st0 (i :: gosubs st0)) d js))
      (call_sub subs g f cur d cont n).
Proof.
  intros IH Hfg Hfound Hd Hcont. unfold call_sub.
  destruct (find_sub subs n) as [body|] eqn:Efs; [|congruence].
  destruct (Hsubs n body Efs) as (pre_s & post_s & Hc & Hne & Hfl & Hifs & Htg).
  exists (length pre_s). split; [exact Hfl|].
  set (st0g := set_gosubs st0 (i :: gosubs st0)).
  set (js := length pre_s).
  set (r := (S js + length (cblock body))%nat).
  assert (Hc2 : code = (pre_s ++ [SLine n]) ++ cblock body ++ (SReturn None :: post_s)).
  { rewrite Hc, <- app_assoc. reflexivity. }
  assert (Hc3 : code = (pre_s ++ SLine n :: cblock body) ++ SReturn None :: post_s).
  { rewrite Hc, <- app_assoc. reflexivity. }
  assert (Hr : length (pre_s ++ SLine n :: cblock body) = r).
  { rewrite app_length. simpl. unfold r, js. lia. }
  assert (Hnth_js : nth_error code js = Some (SLine n)) by (rewrite Hc; apply nth_error_app_at).
  assert (Hnth_r : nth_error code r = Some (SReturn None)) by (rewrite Hc3, <- Hr; apply nth_error_app_at).
  apply sim_ok_tick with (st' := at_state st0g d (S js)).
  - rewrite (step_at code _ (SLine n)) by exact Hnth_js. reflexivity.
  - intros f1 ->.
    apply sim_ok_bseq with (st1 := st0g) (pos1 := r).
    + pose proof (IH f1 n body d (pre_s ++ [SLine n]) _ st0g ltac:(lia) Hc2) as B.
      rewrite app_length in B. simpl in B. replace (length pre_s + 1)%nat with (S js) in B by (unfold js; lia).
      fold r in B. apply B; auto.
      * apply noend_app; [exact Hne|]. intros [H|[]]; discriminate.
      * rewrite lastline_app. reflexivity.
    + intros f2 d2 Hf2 Hd2. apply sim_ok_tick with (st' := at_state st0 d2 (S i)).
      * rewrite (step_at code _ (SReturn None)) by exact Hnth_r. reflexivity.
      * intros f3 ->. apply Hcont; auto. lia.
Qed.


(* ---- every statement ---- *)
Theorem sim_all : forall g, sim_at g.
Proof.
  induction g as [|g IH]; intros fuel cur b d pre post st0 Hfg Hc Hne Hl Hifs Htg Hd; [lia|].
  destruct b as [|s rest].
  - rewrite exec_nil. simpl. rewrite Nat.add_0_r. split.
    + unfold fin. rewrite pre_out_nil. reflexivity.
    + intros f' d' t E. inversion E; subst. auto.
  - destruct fuel as [|f].
    + rewrite exec_fuel0. apply sim_ok_stop.
    + assert (Hfg' : (f < g)%nat) by lia.
      pose proof (sim_cont g s rest pre post st0 cur IH Hc Hne Hl Hifs Htg) as Hcont.
      assert (Hc1 : code = pre ++ cstmt s ++ cblock rest ++ post).
      { rewrite Hc, cblock_cons, <- app_assoc. reflexivity. }
      destruct s as [n|e|v e|v a b0 s nm body|c body|c th el n|n|e ns].
      * (* line header *)
        simpl in Hc1. assert (Hn : nth_error code (length pre) = Some (SLine n)) by (rewrite Hc1; apply nth_error_app_at).
        rewrite run_S, (step_at code _ (SLine n)) by exact Hn. rewrite exec_line.
        cbn [lhs_of]. rewrite pre_out_nil.
        change (set_pc _ _) with (at_state st0 d (S (length pre))).
        simpl in Hcont. rewrite Nat.add_1_r in Hcont.
        eapply sim_ok_weaken; [|apply Hcont; auto]. lia.
      * (* PRINT *)
        simpl in Hc1. assert (Hn : nth_error code (length pre) = Some (SPrint e)) by (rewrite Hc1; apply nth_error_app_at).
        rewrite run_S, (step_at code _ (SPrint e)) by exact Hn. rewrite exec_print.
        cbv zeta. rewrite at_state_pc, at_state_ds.
        simpl in Hcont. rewrite Nat.add_1_r in Hcont.
        destruct (soft_div d e) as [neg|].
        { cbn [lhs_of]. change (set_pc _ _) with (at_state st0 d (S (length pre))).
          apply sim_ok_bout. eapply sim_ok_weaken; [|apply Hcont; auto]. lia. }
        apply sim_with_val; auto.
        { eapply line_here; eauto; intros; discriminate. }
        intros z. cbn [lhs_of].
        change (set_pc _ _) with (at_state st0 d (S (length pre))).
        apply sim_ok_bout.
        eapply sim_ok_weaken; [|apply Hcont; auto]. lia.
      * (* LET *)
        simpl in Hc1. assert (Hn : nth_error code (length pre) = Some (SLet v e)) by (rewrite Hc1; apply nth_error_app_at).
        assert (Hline : line_of code (length pre) = cur) by (eapply line_here; eauto; intros; discriminate).
        rewrite run_S, (step_at code _ (SLet v e)) by exact Hn. rewrite exec_let.
        cbv zeta. rewrite at_state_pc, at_state_ds.
        apply sim_with_val; auto.
        intros z. destruct (in16 z).
        -- cbn [lhs_of]. rewrite pre_out_nil.
           change (set_pc _ _) with (at_state st0 (d_setv d v z) (S (length pre))).
           simpl in Hcont. rewrite Nat.add_1_r in Hcont.
           eapply sim_ok_weaken; [|apply Hcont; auto]. lia.
        -- rewrite trap_untrapped by (left; exact Hd). rewrite Hline. apply sim_ok_stop.
      * apply sim_for with (post := post); auto.
      * apply sim_while with (post := post); auto.
      * apply sim_if with (post := post); auto.
      * (* GOSUB *)
        simpl in Hc1. assert (Hn : nth_error code (length pre) = Some (SGosub n)) by (rewrite Hc1; apply nth_error_app_at).
        rewrite run_S, (step_at code _ (SGosub n)) by exact Hn. rewrite exec_gosub.
        cbv zeta. rewrite at_state_pc.
        simpl in Hcont. rewrite Nat.add_1_r in Hcont.
        destruct (sim_call g f cur st0 d _ (length pre) n _ IH Hfg'
                    (Htg n ltac:(simpl; left; reflexivity)) Hd Hcont) as (js & Hfl & Hsim).
        unfold jump. rewrite Hfl. cbn [lhs_of]. rewrite pre_out_nil.
        eapply sim_ok_weaken; [|exact Hsim]. lia.
      * (* ON .. GOSUB *)
        simpl in Hc1.
        assert (Hn : nth_error code (length pre) = Some (SOn e true ns)) by (rewrite Hc1; apply nth_error_app_at).
        assert (Hline : line_of code (length pre) = cur) by (eapply line_here; eauto; intros; discriminate).
        rewrite run_S, (step_at code _ (SOn e true ns)) by exact Hn. rewrite exec_ongosub.
        cbv zeta. rewrite at_state_pc, at_state_ds.
        simpl in Hcont. rewrite Nat.add_1_r in Hcont.
        apply sim_with_int; auto. intros z Hz.
        destruct (negb ((flow_on_lo <=? z) && (z <=? flow_on_hi))).
        -- rewrite trap_untrapped by (left; exact Hd). rewrite Hline. apply sim_ok_stop.
        -- destruct ((1 <=? z) && (z <=? Z.of_nat (length ns))) eqn:Esel.
           ++ assert (Hin : In (nth (Z.to_nat (z - 1)) ns 0) ns).
              { apply nth_In. lia. }
              destruct (sim_call g f cur st0 d _ (length pre) (nth (Z.to_nat (z - 1)) ns 0) _ IH Hfg'
                          (Htg _ ltac:(simpl; apply in_or_app; left; exact Hin)) Hd Hcont) as (js & Hfl & Hsim).
              cbv zeta. unfold jump. rewrite Hfl. cbn [lhs_of]. rewrite pre_out_nil.
              eapply sim_ok_weaken; [|exact Hsim]. lia.
           ++ cbn [lhs_of]. rewrite pre_out_nil.
              change (set_pc _ _) with (at_state st0 d (S (length pre))).
              eapply sim_ok_weaken; [|apply Hcont; auto]. lia.
Qed.

End SimMain.

(* ------------------------------------------------------------------ whole programs *)

Lemma csubs_app a b : csubs (a ++ b) = csubs a ++ csubs b.
Proof. induction a as [|x a IH]; simpl; [reflexivity|]. rewrite IH. unfold csub. simpl.
  rewrite <- !app_assoc. reflexivity. Qed.

Lemma noend_csubs l : noend (csubs l).
Proof.
  induction l as [|[n b] l IH]; simpl; [intros []|].
  unfold csub. simpl. intros [H|H]; [discriminate|].
  rewrite <- app_assoc in H. apply in_app_or in H as [H|H]; [revert H; apply noend_cblock|].
  simpl in H. destruct H as [H|H]; [discriminate | exact (IH H)].
Qed.

Definition sub_lines (l : list (Z * list sstmt)) : list Z :=
  flat_map (fun nb => fst nb :: lines_block (snd nb)) l.

Lemma lines_csubs l m : In (SLine m) (csubs l) -> In m (sub_lines l).
Proof.
  induction l as [|[n b] l IH]; simpl; [auto|].
  unfold csub. simpl. intros [H|H].
  - inversion H. left. reflexivity.
  - right. rewrite <- app_assoc in H. apply in_or_app. apply in_app_or in H as [H|H].
    + left. apply (proj2 lines_cblock). exact H.
    + simpl in H. destruct H as [H|H]; [discriminate|]. right. apply IH. exact H.
Qed.

Lemma find_sub_split subs n body : find_sub subs n = Some body ->
  exists s1 s2, subs = s1 ++ (n, body) :: s2.
Proof.
  induction subs as [|[m b] subs IH]; simpl; [discriminate|].
  destruct (m =? n) eqn:E; intros H.
  - inversion H; subst. apply Z.eqb_eq in E. subst. exists [], subs. reflexivity.
  - destruct (IH H) as (s1 & s2 & ->). exists ((m, b) :: s1), s2. reflexivity.
Qed.

Lemma NoDup_app_mid {A} (x : list A) a y : NoDup (x ++ a :: y) -> ~ In a x.
Proof.
  intros H Hin. apply NoDup_remove_2 in H. apply H. apply in_or_app. left. exact Hin.
Qed.

Section Whole.
Variable p : sprog.
Hypothesis Hwf : wf_prog p.

Lemma subs_placed : forall n body, find_sub (p_subs p) n = Some body ->
  exists pre post, compile_prog p = pre ++ SLine n :: cblock body ++ SReturn None :: post /\ noend pre /\
    find_line (compile_prog p) n = Some (length pre) /\ ifs_ok_block body = true /\
    (forall m, In m (targets_block body) -> find_sub (p_subs p) m <> None).
Proof.
  intros n body Hf. destruct Hwf as (Hnd & Hifs & Htg).
  destruct (find_sub_split _ _ _ Hf) as (s1 & s2 & Hs).
  assert (Hin : In body (all_blocks p)).
  { unfold all_blocks. right. rewrite Hs, map_app. apply in_or_app. right. left. reflexivity. }
  exists (cblock (p_main p) ++ SEnd :: csubs s1), (csubs s2 ++ [SEndProg]).
  assert (Hcode : compile_prog p =
      (cblock (p_main p) ++ SEnd :: csubs s1) ++ SLine n :: cblock body ++ SReturn None :: csubs s2 ++ [SEndProg]).
  { unfold compile_prog. rewrite Hs, csubs_app. simpl. unfold csub. simpl.
    rewrite <- !app_assoc. simpl. rewrite <- !app_assoc. reflexivity. }
  assert (Hne : noend (cblock (p_main p) ++ SEnd :: csubs s1)).
  { apply noend_app; [apply noend_cblock|]. intros [H|H]; [discriminate | revert H; apply noend_csubs]. }
  split; [exact Hcode|]. split; [exact Hne|]. split; [|split].
  - unfold find_line. rewrite Hcode. rewrite find_line_from_app; [reflexivity | exact Hne |].
    (* n is introduced only once *)
    intros H. unfold all_lines in Hnd. rewrite Hs in Hnd. unfold sub_lines in *.
    rewrite flat_map_app in Hnd. simpl in Hnd. rewrite app_assoc in Hnd.
    apply NoDup_app_mid in Hnd. apply Hnd.
    apply in_app_or in H as [H|H].
    + apply in_or_app. left. apply (proj2 lines_cblock). exact H.
    + simpl in H. destruct H as [H|H]; [discriminate|].
      apply in_or_app. right. apply lines_csubs. exact H.
  - apply Hifs. exact Hin.
  - intros m Hm. apply (Htg body m Hin Hm).
Qed.

(* the machine on the laid-out program = the reference semantics, for every fuel *)
Theorem refines fuel : run_program (compile_prog p) fuel = exec_prog p fuel.
Proof.
  unfold run_program, exec_prog.
  destruct Hwf as (Hnd & Hifs & Htg).
  pose proof (sim_all (compile_prog p) (p_subs p) subs_placed (S fuel) fuel 65535 (p_main p) init_ds []
                (SEnd :: csubs (p_subs p) ++ [SEndProg]) (init_at 0)) as H.
  destruct H as [H _]; auto.
  - intros [].
  - apply Hifs. left. reflexivity.
  - intros m Hm. apply (Htg (p_main p) m); [left; reflexivity | exact Hm].
  - change (at_state (init_at 0) init_ds (length [])) with (init_at 0) in H. rewrite H.
    destruct (exec (p_subs p) (S fuel) fuel 65535 (p_main p) init_ds) as [f d t|t o]; [|reflexivity].
    unfold fin. simpl length. rewrite Nat.add_0_l.
    destruct f as [|f].
    + unfold pre_out. simpl. rewrite app_nil_r. reflexivity.
    + rewrite run_S.
      assert (Hn : nth_error (compile_prog p) (pc (at_state (init_at 0) d (length (cblock (p_main p))))) = Some SEnd).
      { unfold compile_prog. apply nth_error_app_at. }
      rewrite (step_at _ _ SEnd Hn). unfold pre_out. simpl. rewrite app_nil_r. reflexivity.
Qed.

End Whole.

(* ------------------------------------------------------------------ a decision procedure for wf_prog *)

Fixpoint memb (x : Z) (l : list Z) : bool :=
  match l with [] => false | y :: r => (x =? y) || memb x r end.
Fixpoint nodupb (l : list Z) : bool :=
  match l with [] => true | x :: r => negb (memb x r) && nodupb r end.

Lemma memb_in x l : memb x l = true <-> In x l.
Proof.
  induction l as [|y l IH]; simpl; [split; [discriminate | intros []]|].
  rewrite orb_true_iff, IH, Z.eqb_eq. split; intros [H|H]; auto.
Qed.

Lemma nodupb_ok l : nodupb l = true -> NoDup l.
Proof.
  induction l as [|x l IH]; simpl; intros H; constructor.
  - apply andb_true_iff in H as [H _]. intros Hin. apply memb_in in Hin. rewrite Hin in H. discriminate.
  - apply IH. apply andb_true_iff in H as [_ H]. exact H.
Qed.

Definition wf_progb (p : sprog) : bool :=
  nodupb (all_lines p) && forallb ifs_ok_block (all_blocks p) &&
  forallb (fun b => forallb (fun n => match find_sub (p_subs p) n with Some _ => true | None => false end)
                            (targets_block b)) (all_blocks p).

Lemma wf_progb_ok p : wf_progb p = true -> wf_prog p.
Proof.
  unfold wf_progb, wf_prog. intros H. apply andb_true_iff in H as [H H3]. apply andb_true_iff in H as [H1 H2].
  split; [apply nodupb_ok; exact H1|]. split.
  - intros b Hb. rewrite forallb_forall in H2. apply H2. exact Hb.
  - intros b n Hb Hn. rewrite forallb_forall in H3. specialize (H3 b Hb).
    rewrite forallb_forall in H3. specialize (H3 n Hn). destruct (find_sub (p_subs p) n); congruence.
Qed.

(* ------------------------------------------------------------------ FOR reads its end and step once *)

(* a loop whose end and step are expressions (variables that the body or a subroutine it calls may change) is
   the loop with the values these had at FOR written in as constants *)
Lemma for_bounds_captured subs g f cur v a b s nm body rest d vb vs :
  eval d b = EV vb -> exact24 vb = true -> eval d s = EV vs -> exact24 vs = true ->
  exec subs (S g) (S f) cur (TFor v a b s nm body :: rest) d =
  exec subs (S g) (S f) cur (TFor v a (EConst vb) (EConst vs) nm body :: rest) d.
Proof.
  intros Hb Hxb Hs Hxs. rewrite !exec_for. cbv zeta. unfold rint, rval.
  destruct (eval d a) as [va| |]; try reflexivity.
  destruct (in16 va); [|reflexivity].
  cbn [eval]. rewrite Hb, Hs, Hxb, Hxs. reflexivity.
Qed.
