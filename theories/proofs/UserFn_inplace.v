(* C10: statements that write into an existing string (LSET / RSET, MID$=) and console INPUT keep the invariant.
   The in-place write happens before fix_temporaries, so between the two the temporary-string boundary is ignored:
   G0 s := Good c (set_tmp s None). *)
From Coq Require Import ZArith List Bool Lia.
From PCB Require Import lib.Result lib.PyInt model.StrSpace model.UserFn
     proofs.StrSpace_base proofs.StrSpace_gc proofs.StrSpace_inv proofs.StrSpace_ops proofs.UserFn_proofs proofs.UserFn_stmt.
Import ListNotations.
Open Scope Z_scope.

Section Inplace.
Variable c : cfg.

Definition G0 (s : state) : Prop := Good c (set_tmp s None).

Lemma Jp_none s p : Jp c (set_tmp s None) p.
Proof. unfold Jp. simpl. exact I. Qed.

Lemma Good_G0 s : Good c s -> G0 s.
Proof.
  intros G. unfold G0. constructor.
  - exact (g_chain _ _ G).
  - exact (g_low _ _ G).
  - simpl. exact I.
  - exact (g_nd_scal _ _ G).
  - exact (g_nd_arrs _ _ G).
  - intros n v Hl Hn. destruct (g_scal _ _ G n v Hl Hn) as (p & -> & A & B). exists p. split; [reflexivity|]. split; [exact A|apply Jp_none].
  - exact (g_scal_num _ _ G).
  - intros n d els Hl. destruct (g_arrs _ _ G n d els Hl) as [A B]. split; [exact A|]. intros p Hp. destruct (B p Hp). split; [assumption|apply Jp_none].
  - exact (g_arrlen _ _ G).
  - exact (g_acur _ _ G).
  - intros fr o Hfr Ho. apply (obj_ok_ext c s); auto; [intros; apply Jp_none|]. exact (g_stack _ _ G fr o Hfr Ho).
  - intros o Ho. apply (obj_ok_ext c s); auto; [intros; apply Jp_none|]. exact (g_tvals _ _ G o Ho).
  - exact (g_cfg _ _ G).
Qed.

(* every acceptable pointer can be dereferenced, and the bytes have the pointer's length *)
Lemma take_pad_length n (l : list Z) : length (take_pad n l) = n.
Proof. unfold take_pad. rewrite app_length, repeat_length. pose proof (firstn_le_length n l). lia. Qed.

Lemma deref_ok st p : Good c st -> ptr_ok c st p -> 0 < fst p -> exists bs, deref c st p = Ok bs /\ zlen bs = fst p.
Proof.
  intros G [Hb Hf] Hp. destruct p as [l a]. simpl in *. unfold deref.
  assert (E : (l =? 0) = false) by (apply Z.eqb_neq; lia). rewrite E.
  destruct (var_start c <=? a) eqn:Ev.
  - apply Z.leb_le in Ev. destruct (Hb Ev) as [H|(bs & Hl & Hz)]; [lia|]. rewrite Hl. eauto.
  - destruct (code_start c <=? a) eqn:Ec.
    + eexists. split; [reflexivity|]. unfold zlen. rewrite take_pad_length. lia.
    + apply Z.leb_gt in Ec. specialize (Hf Ec). lia.
Qed.

(* ---------- replacing the bytes of a stored string by as many bytes ---------- *)
Lemma chain_upsert lo S hi a old new :
  chain lo S hi -> lookup a S = Some old -> zlen new = zlen old -> chain lo (upsert a new S) hi.
Proof.
  revert lo. induction S as [|[k v] r IH]; simpl; intros lo H Hl Hz; [discriminate|].
  destruct H as (-> & Hv & H). destruct (a =? lo) eqn:E.
  - apply Z.eqb_eq in E. inversion Hl; subst. simpl. rewrite Hz. split; [reflexivity|]. split; [exact Hv|exact H].
  - simpl. split; [reflexivity|]. split; [exact Hv|]. apply IH; assumption.
Qed.

Lemma set_binding_good s a old new :
  Good c s -> lookup a (strs s) = Some old -> zlen new = zlen old -> Good c (set_binding s a new).
Proof.
  intros G Hl Hz.
  assert (Hpk : forall p, ptr_ok c s p -> ptr_ok c (set_binding s a new) p).
  { intros p [Hb Hf]. split; [|exact Hf]. intros Hv. destruct (Hb Hv) as [H|(bs & Hb1 & Hb2)]; [left; exact H|right].
    simpl. destruct (Z.eq_dec (snd p) a) as [Heq|Hne].
    - rewrite Heq in *. rewrite lookup_upsert_same. rewrite Hl in Hb1. inversion Hb1; subst. exists new. split; [reflexivity|congruence].
    - rewrite lookup_upsert_other by assumption. eauto. }
  assert (Hobj : forall o, obj_ok c s o -> obj_ok c (set_binding s a new) o).
  { intros o Ho. destruct o; simpl in *; auto. destruct Ho as (a1 & a2 & a3). auto. }
  constructor; simpl.
  - apply (chain_upsert _ _ _ _ old); [exact (g_chain _ _ G)|exact Hl|exact Hz].
  - destruct (g_low _ _ G) as (A & B & C). split; [exact A|]. split; [exact B|]. destruct C as [C|C]; [rewrite C in Hl; discriminate|right; exact C].
  - pose proof (g_j1 _ _ G) as H. destruct (tmp s); [|exact I]. destruct H as [H|H]; [rewrite H in Hl; discriminate|right; exact H].
  - exact (g_nd_scal _ _ G).
  - exact (g_nd_arrs _ _ G).
  - intros n v Hlk Hn. destruct (g_scal _ _ G n v Hlk Hn) as (p & -> & A & B). exists p. auto.
  - exact (g_scal_num _ _ G).
  - intros n d els Hlk. destruct (g_arrs _ _ G n d els Hlk) as [A B]. split; [exact A|]. intros p Hp. destruct (B p Hp). auto.
  - exact (g_arrlen _ _ G).
  - exact (g_acur _ _ G).
  - intros fr o Hfr Ho. apply Hobj. eapply (g_stack _ _ G); eauto.
  - intros o Ho. apply Hobj, (g_tvals _ _ G), Ho.
  - exact (g_cfg _ _ G).
Qed.

(* ---------- from_pointer: writing an acceptable pointer into the variable an object views ---------- *)
Lemma write_obj_G0 s o p : Good c s -> obj_ok c s o -> ptr_ok c s p -> G0 (write_obj s o p).
Proof.
  intros G Ho Hp. pose proof (Good_G0 s G) as Gn. unfold G0 in *.
  assert (Hp' : ptr_ok c (set_tmp s None) p) by (eapply ptr_ok_same; [|exact Hp]; reflexivity).
  destruct o; simpl in *; try exact Gn.
  - destruct Ho as [Hn _].
    destruct (restore_scalar_good c (set_tmp s None) n (SStr p) Gn) as [G' _].
    + intros _. exists p. split; [reflexivity|]. split; [exact Hp'|apply Jp_none].
    + rewrite Hn. discriminate.
    + exact G'.
  - destruct Ho as (Hi & d & els & Hl & Hlt).
    pose proof (Good_set_arr_elem c (set_tmp s None) n (Z.to_nat i) p d els Gn Hl Hlt Hp' (Jp_none _ _)) as H.
    simpl in H. rewrite Hl in H. rewrite Hl. exact H.
Qed.

(* set_variable starts with fix_temporaries when the value is a string: the old boundary does not matter *)
Lemma set_variable_ignores_tmp s l v : is_strobj v = true -> set_variable c s l v = set_variable c (set_tmp s None) l v.
Proof.
  intros Hs. unfold set_variable. destruct l as [n|n i].
  - unfold set_scalar. cbn [read_src top_obj push_obj push_frame stack set_stack set_tmp]. rewrite Hs. reflexivity.
  - unfold set_array. cbn [top_obj push_obj push_frame stack set_stack set_tmp]. rewrite Hs. reflexivity.
Qed.

Lemma set_variable_G0 s l v :
  G0 s -> idle s -> is_strobj v = true -> obj_ok c (set_tmp s None) v ->
  (forall n i, l = LvA n i -> mem_key n (arrs s) = true) ->
  SInv c (fst (set_variable c s l v)).
Proof.
  intros G Hi Hs Hv Ha. rewrite (set_variable_ignores_tmp s l v Hs).
  pose proof (set_variable_EVI c (set_tmp s None) l v G I Hi Hv Ha) as H. unfold EVI in H.
  destruct (set_variable c (set_tmp s None) l v) as [s' r]. simpl. split; tauto.
Qed.

(* objects that stay acceptable whatever is allocated or collected: views of variables and null strings *)
Definition stable (o : obj) : Prop :=
  match o with OVar _ | OArr _ _ => True | OStr p => fst p = 0 | _ => False end.

Lemma ptr_ok_len0 s p : fst p = 0 -> ptr_ok c s p.
Proof. intros H. split; intros _; [left|]; exact H. Qed.

Lemma stable_Rel s s' o : Rel c s s' -> stable o -> obj_ok c s o -> obj_ok c s' o.
Proof.
  intros H Hs Ho. destruct o; simpl in *; try contradiction.
  - destruct Ho as [Hn (p & Hp)]. split; [exact Hn|]. destruct (r_scal _ _ _ _ H n p (fun x => x) Hp) as (p' & A & _). eauto.
  - eapply (obj_ok_arr_Rel c); eauto.
  - apply ptr_ok_len0, Hs.
Qed.

Lemma stable_same_vars s s' o : scal s' = scal s -> arrs s' = arrs s -> stable o -> obj_ok c s o -> obj_ok c s' o.
Proof.
  intros H1 H2 Hs Ho. destruct o; simpl in *; try contradiction; rewrite ?H1, ?H2; auto. apply ptr_ok_len0, Hs.
Qed.

Lemma parse_expression_stable fuel e s : Good c s -> idle s ->
  let '(s', r) := parse_expression c fuel e s in
  Good c s' /\ Jt s' /\ idle s' /\ keeps s s' /\
  (forall o, stable o -> obj_ok c s o -> obj_ok c s' o) /\ (forall v, r = Ok v -> obj_ok c s' v).
Proof.
  intros G Hi. unfold parse_expression.
  destruct (reset_temporaries_good c s G Hi) as (G1 & J1 & I1 & _ & _ & Hsc & Har & _).
  pose proof (parse_EV c fuel e (reset_temporaries s) G1 J1) as H. unfold EV in H.
  destruct (parse c fuel e (reset_temporaries s)) as [s' r]. destruct H as (G' & J' & R' & A' & Q').
  split; [exact G'|]. split; [exact J'|]. split; [eapply Rel_idle; eassumption|].
  split; [intros n Hm; apply (Rel_keeps c _ _ _ R'); rewrite Har; exact Hm|].
  split; [|exact Q']. intros o Hs Ho. eapply stable_Rel; [exact R'|exact Hs|]. eapply stable_same_vars; eauto.
Qed.

Lemma zlen_app {A} (a b : list A) : zlen (a ++ b) = zlen a + zlen b.
Proof. unfold zlen. rewrite app_length. lia. Qed.

Lemma zlen_takeZ {A} n (l : list A) : 0 <= n -> zlen (takeZ n l) = Z.min n (zlen l).
Proof. intros H. unfold takeZ, zlen. rewrite firstn_length. lia. Qed.

Lemma zlen_repeat {A} (x : A) n : zlen (repeat x n) = Z.of_nat n.
Proof. unfold zlen. rewrite repeat_length. reflexivity. Qed.

Lemma pad_to_length rj n sb : 0 <= n -> zlen (pad_to rj n sb) = n.
Proof.
  intros H. unfold pad_to. pose proof (zlen_takeZ n sb H) as Ht.
  destruct rj; rewrite zlen_app, zlen_repeat, Ht; lia.
Qed.

(* StringSpace.check_modify *)
Lemma check_modify_spec s p : Good c s -> Jt s -> ptr_ok c s p ->
  let '(s', r) := check_modify c s p in
  Good c s' /\ Jt s' /\ Rel c s s' /\ active s' = active s /\
  (forall t, r = Ok t -> ptr_ok c s' t /\
     ((s' = s /\ t = p /\ ~ (code_start c <= snd p < var_start c)) \/
      (code_start c <= snd p < var_start c /\
       (0 < fst p -> fst t = fst p /\ var_start c <= snd t /\ exists bs, lookup (snd t) (strs s') = Some bs /\ zlen bs = fst p) /\
       (fst p <= 0 -> fst t = 0)))).
Proof.
  intros G J Hp. unfold check_modify.
  destruct ((code_start c <=? snd p) && (snd p <? var_start c)) eqn:E.
  - apply andb_true_iff in E as [E1 E2]. apply Z.leb_le in E1. apply Z.ltb_lt in E2.
    destruct p as [l a]. simpl in *. unfold deref.
    assert (Ev : (var_start c <=? a) = false) by (apply Z.leb_gt; lia).
    assert (Ec : (code_start c <=? a) = true) by (apply Z.leb_le; lia).
    destruct (l =? 0) eqn:El.
    + apply Z.eqb_eq in El. pose proof (store_good c s [] G J) as H. destruct (store c s []) as [s' r].
      destruct H as (G' & J' & R' & Hsh & Hq & _). spl; auto; [eapply collect_active, Hsh|].
      intros t Et. destruct (Hq t Et) as (A & B & _). split; [exact A|]. right. split; [lia|]. split; [intros; lia|]. intros _. exact B.
    + rewrite Ev, Ec. set (bs := take_pad (Z.to_nat l) match lookup a (code c) with Some b => b | None => [] end).
      assert (Hbl : zlen bs = Z.max l 0) by (unfold zlen, bs; rewrite take_pad_length; lia).
      pose proof (store_good c s bs G J) as H. destruct (store c s bs) as [s' r].
      destruct H as (G' & J' & R' & Hsh & Hq & _). spl; auto; [eapply collect_active, Hsh|].
      intros t Et. destruct (Hq t Et) as (A & B & _ & D). split; [exact A|]. right. split; [lia|]. split.
      * intros Hl. assert (Hz : 0 < zlen bs) by lia. destruct (D Hz) as [D1 D2]. split; [lia|]. split; [exact D1|]. exists bs. split; [exact D2|lia].
      * intros Hl. lia.
  - unfold retR. spl; auto using Rel_refl. intros t Et. inversion Et as [Heq]. subst t. split; [exact Hp|]. left. spl; auto.
    intros [H1 H2]. assert ((code_start c <=? snd p) && (snd p <? var_start c) = true); [|congruence].
    apply andb_true_iff. split; [apply Z.leb_le|apply Z.ltb_lt]; assumption.
Qed.

Lemma ptr_ok_set_binding s a old new p :
  lookup a (strs s) = Some old -> zlen new = zlen old -> ptr_ok c s p -> ptr_ok c (set_binding s a new) p.
Proof.
  intros Hl Hz [Hb Hf]. split; [|exact Hf]. intros Hv. destruct (Hb Hv) as [H|(bs & Hb1 & Hb2)]; [left; exact H|right].
  simpl. destruct (Z.eq_dec (snd p) a) as [Heq|Hne].
  - rewrite Heq in *. rewrite lookup_upsert_same. rewrite Hl in Hb1. inversion Hb1; subst. exists new. split; [reflexivity|congruence].
  - rewrite lookup_upsert_other by assumption. eauto.
Qed.

(* view_or_create_variable for the target of LSET / MID$= *)
Lemma view_var_spec s l : Good c s -> idle s ->
  let '(s', r) := view_var c s l in
  Good c s' /\ idle s' /\ keeps s s' /\
  (forall v, r = Ok v -> obj_ok c s' v /\ (is_strobj v = true -> stable v) /\
                         (forall n i, l = LvA n i -> mem_key n (arrs s') = true)).
Proof.
  intros G Hi. destruct l as [n|n i]; cbn [view_var].
  - destruct (is_strname n) eqn:En; unfold retR.
    + spl; auto using keeps_refl. intros v Ev. inversion Ev; subst v. split; [|split; [|intros; discriminate]].
      * unfold mem_key. destruct (lookup n (scal s)) as [w|] eqn:El; [|apply str_ok_zero].
        simpl. split; [exact En|]. destruct (g_scal _ _ G n w El En) as (p & -> & _). eauto.
      * intros _. destruct (mem_key n (scal s)); simpl; auto.
    + spl; auto using keeps_refl. intros v Ev. inversion Ev; subst v. split; [exact I|]. split; [discriminate|intros; discriminate].
  - pose proof (EVN_check_dim c s n i G Hi) as H. unfold EVN in H. destruct (check_dim c s n i) as [s' r].
    destruct H as (G' & I' & K' & Q'). unfold bindR. destruct r as [[]|?|?|]; try (spl; auto; intros; discriminate).
    unfold retR. spl; auto. intros v Ev. inversion Ev; subst v. specialize (Q' tt eq_refl).
    split; [exact Q'|]. split; [intros _; exact I|]. intros n0 i0 E0. inversion E0; subst. eapply obj_ok_arr_mem; eauto.
Qed.

Lemma write_obj_fields s o p :
  strs (write_obj s o p) = strs s /\ stack (write_obj s o p) = stack s /\ tvals (write_obj s o p) = tvals s /\
  active (write_obj s o p) = active s /\ cur (write_obj s o p) = cur s /\
  (forall m, mem_key m (arrs s) = true -> mem_key m (arrs (write_obj s o p)) = true).
Proof.
  destruct o; simpl; spl; auto.
  - destruct (lookup n (arrs s)) as [[? ?]|]; reflexivity.
  - destruct (lookup n (arrs s)) as [[? ?]|]; reflexivity.
  - destruct (lookup n (arrs s)) as [[? ?]|]; reflexivity.
  - destruct (lookup n (arrs s)) as [[? ?]|]; reflexivity.
  - destruct (lookup n (arrs s)) as [[? ?]|]; reflexivity.
  - intros m Hm. destruct (lookup n (arrs s)) as [[d els]|] eqn:E; [|exact Hm]. simpl. apply mem_key_upsert, Hm.
Qed.

(* the object through which LSET / MID$= has written still denotes the variable *)
Lemma write_obj_obj_ok s o p : stable o -> obj_ok c s o -> ptr_ok c s p -> obj_ok c (set_tmp (write_obj s o p) None) (match o with OStr _ => OStr p | _ => o end).
Proof.
  intros Hs Ho Hp. destruct o; simpl in *; try contradiction.
  - destruct Ho as [Hn _]. split; [exact Hn|]. exists p. apply lookup_upsert_same.
  - destruct Ho as (Hi & d & els & Hl & Hlt). split; [exact Hi|]. rewrite Hl. simpl.
    exists d, (update_nth (Z.to_nat i) p els). rewrite lookup_upsert_same. split; [reflexivity|]. rewrite length_update_nth. exact Hlt.
  - eapply ptr_ok_same; [|exact Hp]. reflexivity.
Qed.

Theorem exec_lset_inv fuel d l e rj st : SInv c st -> SInv c (fst (exec c fuel d (SLset l e rj) st)).
Proof.
  intros [G Hi]. cbn [exec].
  pose proof (view_var_spec st l G Hi) as H1. destruct (view_var c st l) as [st1 r1].
  destruct H1 as (G1 & I1 & K1 & Q1). unfold bindR at 1.
  destruct r1 as [v|?|?|]; try (simpl; split; assumption).
  destruct (Q1 v eq_refl) as (Hv & Hstab & Harr).
  destruct (is_strobj v) eqn:Esv; cbn [negb]; [|simpl; split; assumption]. specialize (Hstab eq_refl).
  pose proof (parse_expression_stable fuel e st1 G1 I1) as H2. destruct (parse_expression c fuel e st1) as [st2 r2].
  destruct H2 as (G2 & J2 & I2 & K2 & S2 & Q2). unfold bindR at 1.
  destruct r2 as [sv|?|?|]; try (simpl; split; assumption).
  destruct (is_strobj sv) eqn:Essv; cbn [negb]; [|simpl; split; assumption].
  assert (Hv2 : obj_ok c st2 v) by (apply S2; assumption).
  destruct (deref c st2 (optr st2 sv)) as [sb|?|?|]; try (simpl; split; assumption).
  cbv zeta.
  set (p0 := optr st2 v). set (len := fst p0).
  assert (Hp0 : ptr_ok c st2 p0) by (apply obj_ok_ptr; assumption).
  pose proof (check_modify_spec st2 p0 G2 J2 Hp0) as H3. destruct (check_modify c st2 p0) as [st3 r3].
  destruct H3 as (G3 & J3 & R3 & A3 & Q3). unfold bindR at 1.
  assert (I3 : idle st3) by (eapply Rel_idle; eassumption).
  destruct r3 as [target|?|?|]; try (simpl; split; assumption).
  destruct (Q3 target eq_refl) as (Ht & Hcase).
  assert (Hv3 : obj_ok c st3 v) by (eapply stable_Rel; eauto).
  set (st4 := write_obj st3 v target).
  pose proof (write_obj_G0 st3 v target G3 Hv3 Ht) as G4. fold st4 in G4.
  destruct (write_obj_fields st3 v target) as (F1 & F2 & F3 & F4 & F5 & F6). fold st4 in F1, F2, F3, F4, F5, F6.
  assert (I4 : idle st4) by (destruct I3 as (a1 & a2 & a3); unfold idle; rewrite F2, F3, F4; auto).
  set (v' := match v with OStr _ => OStr target | _ => v end).
  assert (Hv' : obj_ok c (set_tmp st4 None) v') by (apply write_obj_obj_ok; assumption).
  assert (Hsv' : is_strobj v' = true) by (unfold v'; destruct v; simpl in *; auto).
  assert (Harr4 : forall n i, l = LvA n i -> mem_key n (arrs st4) = true).
  { intros n i E. apply F6. apply (Rel_keeps c _ _ _ R3). apply K2. eapply Harr; eauto. }
  (* the in-place write *)
  assert (H5 : let '(st5, r5) :=
                 (if len <=? 0 then retR st4 tt
                  else if var_start c <=? snd target then
                    match lookup (snd target) (strs st4) with
                    | Some old => if zlen old =? len then retR (set_binding st4 (snd target) (pad_to rj len sb)) tt
                                  else (st4, Host host_ValueError)
                    | None => (st4, Host host_KeyError)
                    end
                  else (st4, Host host_ValueError)) in
               (r5 = Ok tt /\ G0 st5 /\ idle st5 /\ obj_ok c (set_tmp st5 None) v' /\
                (forall n i, l = LvA n i -> mem_key n (arrs st5) = true)) \/
               (r5 <> Ok tt /\ SInv c st5)).
  { destruct (len <=? 0) eqn:El; [unfold retR; left; spl; auto|]. apply Z.leb_gt in El.
    (* the target is a stored string of length len *)
    assert (Hbound : var_start c <= snd target /\ exists old, lookup (snd target) (strs st4) = Some old /\ zlen old = len).
    { rewrite F1. destruct Hcase as [(-> & -> & Hnc)|(Hc & Hpos & _)].
      - destruct Hp0 as [Hb Hf]. fold len in Hb, Hf.
        destruct (Z.lt_ge_cases (snd p0) (var_start c)) as [Hlt|Hge].
        + destruct (Z.lt_ge_cases (snd p0) (code_start c)) as [Hlt2|Hge2]; [specialize (Hf Hlt2); lia|].
          exfalso. apply Hnc. lia.
        + split; [exact Hge|]. destruct (Hb Hge) as [H0|(bs & A & B)]; [lia|]. eauto.
      - destruct (Hpos El) as (A & B & bs & D & E). split; [exact B|]. eauto. }
    destruct Hbound as (Hvs & old & Hlk & Hzo).
    assert (E1 : (var_start c <=? snd target) = true) by (apply Z.leb_le; exact Hvs). rewrite E1, Hlk.
    assert (E2 : (zlen old =? len) = true) by (apply Z.eqb_eq; exact Hzo). rewrite E2. unfold retR. left.
    assert (Hz : zlen (pad_to rj len sb) = zlen old) by (rewrite pad_to_length; lia).
    split; [reflexivity|]. split.
    - unfold G0. change (set_tmp (set_binding st4 (snd target) (pad_to rj len sb)) None)
        with (set_binding (set_tmp st4 None) (snd target) (pad_to rj len sb)).
      eapply set_binding_good; [exact G4|exact Hlk|exact Hz].
    - split; [exact I4|]. split; [|exact Harr4].
      change (set_tmp (set_binding st4 (snd target) (pad_to rj len sb)) None)
        with (set_binding (set_tmp st4 None) (snd target) (pad_to rj len sb)).
      destruct v'; simpl in *; auto.
      + eapply ptr_ok_set_binding; eauto.
      + destruct Hv' as (a1 & a2 & a3). spl; auto. eapply ptr_ok_set_binding; eauto. }
  fold st4. fold v'.
  destruct (if len <=? 0 then retR st4 tt
            else if var_start c <=? snd target then
              match lookup (snd target) (strs st4) with
              | Some old => if zlen old =? len then retR (set_binding st4 (snd target) (pad_to rj len sb)) tt
                            else (st4, Host host_ValueError)
              | None => (st4, Host host_KeyError)
              end
            else (st4, Host host_ValueError)) as [st5 r5].
  destruct H5 as [(-> & G5 & I5 & Hv5 & Harr5)|(Hne & HS)].
  - unfold bindR. apply set_variable_G0; assumption.
  - unfold bindR. destruct r5 as [[]|?|?|]; [congruence|exact HS|exact HS|exact HS].
Qed.

(* ---------- set_variable while an expression stack is in use (MID$=, INPUT) ---------- *)
Definition shp (s : state) := (map (map okind) (stack s), map okind (tvals s), active s).

Lemma RO_okind s s' o o' : RO c s s' o o' -> okind o' = okind o.
Proof. destruct o, o'; simpl; intros H; try discriminate; try (inversion H; reflexivity); auto. destruct H; subst; reflexivity. Qed.

Lemma Forall2_map_eq {A B} (R : A -> A -> Prop) (f : A -> B) l l' : (forall x y, R x y -> f y = f x) -> Forall2 R l l' -> map f l' = map f l.
Proof. intros H. induction 1; simpl; [reflexivity|]. rewrite IHForall2, (H _ _ H0). reflexivity. Qed.

Lemma Rel_shp X s s' : RelX c X s s' -> active s' = active s -> shp s' = shp s.
Proof.
  intros H Ha. unfold shp. rewrite Ha. f_equal. f_equal.
  - apply (Forall2_map_eq (Forall2 (RO c s s'))); [|exact (r_stack _ _ _ _ H)].
    intros x y Hxy. apply (Forall2_map_eq (RO c s s')); [|exact Hxy]. intros; eapply RO_okind; eauto.
  - apply (Forall2_map_eq (RO c s s')); [|exact (r_tvals _ _ _ _ H)]. intros; eapply RO_okind; eauto.
Qed.

(* variables never disappear while a statement runs *)
Definition vars_kept (s s' : state) : Prop :=
  (forall n, mem_key n (scal s) = true -> mem_key n (scal s') = true) /\
  (forall n d els, lookup n (arrs s) = Some (d, els) -> exists els', lookup n (arrs s') = Some (d, els') /\ length els' = length els).

Lemma vars_kept_refl s : vars_kept s s.
Proof. split; eauto. Qed.
Lemma vars_kept_trans a b d : vars_kept a b -> vars_kept b d -> vars_kept a d.
Proof.
  intros [A1 A2] [B1 B2]. split; [auto|]. intros n d0 els H. destruct (A2 n d0 els H) as (e1 & H1 & L1).
  destruct (B2 n d0 e1 H1) as (e2 & H2 & L2). exists e2. split; [exact H2|congruence].
Qed.

Lemma Rel_vars_kept s s' : Rel c s s' -> vars_kept s s'.
Proof.
  intros H. split.
  - intros n Hm. unfold mem_key in *. destruct (lookup n (scal s)) as [[p|z]|] eqn:E; [| |discriminate].
    + destruct (r_scal _ _ _ _ H n p (fun x => x) E) as (p' & -> & _). reflexivity.
    + rewrite (r_num _ _ _ _ H n z (fun x => x) E). reflexivity.
  - intros n d els Hl. destruct (r_arrs _ _ _ _ H n d els Hl) as (els' & A & B). exists els'. split; [exact A|].
    symmetry. eapply Forall2_length; eauto.
Qed.

Lemma stable_kept s s' o : Good c s' -> vars_kept s s' -> stable o -> obj_ok c s o -> obj_ok c s' o.
Proof.
  intros G' [K1 K2] Hs Ho. destruct o; simpl in *; try contradiction.
  - destruct Ho as [Hn (p & Hp)]. split; [exact Hn|].
    assert (Hm : mem_key n (scal s') = true) by (apply K1; unfold mem_key; rewrite Hp; reflexivity).
    unfold mem_key in Hm. destruct (lookup n (scal s')) as [v|] eqn:E; [|discriminate].
    destruct (g_scal _ _ G' n v E Hn) as (q & -> & _). eauto.
  - destruct Ho as (Hi & d & els & Hl & Hlt). split; [exact Hi|]. destruct (K2 n d els Hl) as (els' & A & B).
    exists d, els'. split; [exact A|]. rewrite B. exact Hlt.
  - apply ptr_ok_len0, Hs.
Qed.

Lemma set_scalar_keeps_keys s n v m : Good c s -> mem_key m (scal s) = true -> mem_key m (scal (fst (set_scalar c s n v))) = true.
Proof.
  intros G Hm.
  assert (Ha : forall s0, Good c s0 -> mem_key m (scal s0) = true -> mem_key m (scal (fst (alloc_scalar c s0 n))) = true).
  { intros s0 G0' Hm0. unfold alloc_scalar. destruct (mem_key n (scal s0)); [exact Hm0|].
    pose proof (check_free_good c s0 (scalar_mem n) 7 G0') as H. destruct (check_free c s0 (scalar_mem n) 7) as [s1 r1].
    destruct H as (_ & _ & Hsh & _). assert (Hm1 : mem_key m (scal s1) = true) by (rewrite (shape_mem_key _ _ m Hsh); exact Hm0).
    unfold bindR. destruct r1; simpl; auto. apply mem_key_upsert, Hm1. }
  unfold set_scalar. destruct v as [src|]; [|apply Ha; assumption].
  set (s0 := if is_strobj (read_src s src) then fix_temporaries s else s).
  assert (G0' : Good c s0) by (unfold s0; destruct (is_strobj _); [apply fix_temporaries_good, G|exact G]).
  assert (Hm0 : mem_key m (scal s0) = true) by (unfold s0; destruct (is_strobj _); exact Hm).
  destruct (check_type n (read_src s0 src)); simpl; auto.
  specialize (Ha s0 G0' Hm0). destruct (alloc_scalar c s0 n) as [s1 r1]. simpl in Ha.
  unfold bindR. destruct r1; simpl; auto. apply mem_key_upsert, Ha.
Qed.

Lemma set_variable_shp s l v :
  Good c s -> Jt s -> obj_ok c s v -> (forall n i, l = LvA n i -> mem_key n (arrs s) = true) ->
  let '(s', r) := set_variable c s l v in
  Good c s' /\ Jt s' /\ shp s' = shp s /\ vars_kept s s'.
Proof.
  intros G J Hv Harr. unfold set_variable, finallyR.
  set (s1 := push_obj (push_frame s) v).
  assert (G1 : Good c s1).
  { unfold s1. apply push_obj_good; [apply push_frame_good, G|]. eapply obj_ok_same; [|exact Hv]. unfold push_frame. apply same_mem_set_stack. }
  assert (J1 : Jt s1) by (unfold s1; rewrite (proj1 (push_obj_fields _ _)); exact J).
  assert (E1 : stack s1 = [v] :: stack s /\ tvals s1 = tvals s /\ active s1 = active s /\ arrs s1 = arrs s /\ scal s1 = scal s).
  { unfold s1, push_obj, push_frame. simpl. auto. }
  destruct E1 as (Es & Et & Ea & Ear & Esc).
  destruct l as [n|n i].
  - pose proof (set_scalar_good c s1 n (Some VTop) G1 I) as H. pose proof (set_scalar_active c s1 n (Some VTop) G1) as Hac.
    pose proof (fun m => set_scalar_keeps_keys s1 n (Some VTop) m G1) as Hk.
    destruct (set_scalar c s1 n (Some VTop)) as [s' r]. simpl in Hac, Hk. destruct H as (G' & J' & R' & _). specialize (J' J1).
    split; [apply pop_frame_good, G'|]. split; [exact J'|].
    pose proof (Rel_shp _ _ _ R' Hac) as Hshp. unfold shp in Hshp. rewrite Es, Et, Ea in Hshp. simpl in Hshp.
    injection Hshp as H1 H2 H3. split.
    + unfold shp, pop_frame. simpl. destruct (stack s') as [|f r']; [discriminate|]. simpl in H1. injection H1 as _ H1.
      simpl. rewrite H1, H2, H3. reflexivity.
    + split.
      * intros m Hm. simpl. apply Hk. unfold s1, push_obj, push_frame; simpl. exact Hm.
      * intros m d els Hl. simpl. assert (Hl1 : lookup m (arrs s1) = Some (d, els)) by (rewrite Ear; exact Hl). destruct (r_arrs _ _ _ _ R' m d els Hl1) as (els' & A & B).
        exists els'. split; [exact A|]. symmetry. eapply Forall2_length; eauto.
  - pose proof (set_array_good c s1 n i G1 J1) as H. rewrite Ear in H. specialize (H (Harr n i eq_refl)).
    destruct (set_array c s1 n i) as [s' r]. destruct H as (G' & J' & _ & _ & Hst & Htv & Hsc & _ & Hac & Hk & Hk2).
    split; [apply pop_frame_good, G'|]. split; [exact J'|]. split.
    + unfold shp, pop_frame. simpl. rewrite Hst, Es, Htv, Et, Hac, Ea. reflexivity.
    + split; [intros m Hm; simpl; rewrite Hsc; unfold s1, push_obj, push_frame; simpl; exact Hm|].
      (* arrays: the bound and the number of elements are kept by Arrays.set *)
      intros m d els Hl. simpl. apply Hk2. exact Hl.
Qed.
End Inplace.
