(* C11: PEEK at VARPTR(v)+i returns byte i of v, for scalars and for every element of every array *)
From Coq Require Import ZArith List Bool Lia.
From PCB Require Import lib.Result lib.PyInt lib.Harness lib.ArraysLib gen.Gen_arrays model.Arrays model.VarMem.
From PCB Require Import proofs.Arrays_index_proofs proofs.Arrays_list_proofs proofs.Arrays_proofs
  proofs.VarMem_proofs.
Import ListNotations.
Open Scope Z_scope.

(* ---------- the scan of Scalars.get_memory finds the record that contains the address ---------- *)

Definition scur (best : option svar) : Z := match best with Some b => s_nptr b | None => -1 end.

Lemma sfind_after l address best : (forall x, In x l -> address < s_nptr x) -> sfind l address best = best.
Proof.
  revert best. induction l as [|s l IH]; intros best H; simpl; [reflexivity|].
  destruct (Z.leb_spec (s_nptr s) address) as [C|C]; simpl.
  - specialize (H s (or_introl eq_refl)). lia.
  - apply IH. intros x Hx. apply H. right. exact Hx.
Qed.

Lemma sfind_prefix r address : forall l p best, Forall svar_ok l -> slaid p l ->
  p + stotal l <= address -> scur best < p ->
  exists best', sfind (l ++ r) address best = sfind r address best' /\ scur best' < p + stotal l.
Proof.
  induction l as [|s l IH]; intros p best F L Ha Hb; simpl in *.
  - exists best. split; [reflexivity | lia].
  - inversion F as [|? ? Hs F']; subst. destruct L as [L1 L2].
    pose proof (ssize_pos s Hs) as [P _]. pose proof (stotal_nonneg l F').
    fold (scur best).
    destruct (Z.leb_spec (s_nptr s) address) as [C|C]; [|lia].
    destruct (Z.gtb_spec (s_nptr s) (scur best)) as [D|D]; [|lia]. simpl.
    destruct (IH (p + ssize s) (Some s) F' L2 ltac:(lia) ltac:(simpl; lia)) as (b' & E & Hb').
    exists b'. split; [exact E | lia].
Qed.

Lemma sfind_hit l address s l1 l2 p : l = l1 ++ s :: l2 -> Forall svar_ok l -> slaid p l -> 0 <= p ->
  s_nptr s <= address < s_nptr s + ssize s -> sfind l address None = Some s.
Proof.
  intros E F L Hp Ha. subst l. apply Forall_app in F as [F1 F2]. inversion F2 as [|? ? Hs F2']; subst.
  apply slaid_app in L as [L1 [L2 L3]].
  destruct (sfind_prefix (s :: l2) address l1 p None F1 L1 ltac:(lia) ltac:(simpl; lia)) as (b' & E & Hb').
  rewrite E. simpl. fold (scur b').
  destruct (Z.leb_spec (s_nptr s) address) as [C|C]; [|lia].
  destruct (Z.gtb_spec (s_nptr s) (scur b')) as [D|D]; [|lia]. simpl.
  apply sfind_after. intros x Hx. destruct (slaid_bounds _ _ F2' L3 x Hx). lia.
Qed.

Lemma in_split_list {A} (x : A) l : In x l -> exists l1 l2, l = l1 ++ x :: l2.
Proof. apply in_split. Qed.

Lemma nth_bytes_ok l i : bytes_ok l -> (i < length l)%nat -> 0 <= nth i l (-1) < 256 /\ nth i l (-1) = nth i l 0.
Proof.
  intros H Hi. unfold bytes_ok in H. rewrite Forall_forall in H.
  split; [apply (H (nth i l (-1))), nth_In, Hi | apply nth_indep, Hi].
Qed.

(* the address range of a scalar record *)
Lemma scalar_in_area st s : VInv st -> In s (v_svars st) ->
  v_start st <= s_nptr s /\ s_nptr s + ssize s <= var_current st.
Proof.
  intros V H. destruct (slaid_bounds _ _ (vi_ok st V) (vi_laid st V) s H) as [B1 B2].
  unfold var_current. rewrite (vi_cur st V). lia.
Qed.

Theorem peek_scalar st limit n s i : VInv st -> slookup (v_svars st) n = Some s ->
  0 <= i < size_bytes n ->
  peek st limit (s_vptr s + i) = Some (Ok (nth (Z.to_nat i) (s_buf s) 0)).
Proof.
  intros V Ls Hi. destruct (slookup_some _ _ _ Ls) as [Hin Hn].
  pose proof (vi_ok st V) as F. rewrite Forall_forall in F. destruct (F s Hin) as (Hs & Hl & Hb & Hp).
  destruct (scalar_in_area st s V Hin) as [A1 A2]. pose proof (ssize_pos s (F s Hin)) as [_ R].
  rewrite ssize_eq in A2. rewrite Hn in *.
  unfold peek.
  destruct (Z.ltb_spec (s_vptr s + i) (v_start st)); [lia|].
  destruct (Z.ltb_spec (s_vptr s + i) (var_current st)); [|lia].
  unfold scalars_get_memory. destruct (in_split_list s _ Hin) as (l1 & l2 & E).
  rewrite (sfind_hit _ (s_vptr s + i) s l1 l2 (v_start st) E (vi_ok st V) (vi_laid st V) (vi_start st V))
    by (rewrite ssize_eq, Hn; lia).
  destruct (Z.geb_spec (s_vptr s + i) (s_vptr s)); [|lia].
  replace (s_vptr s + i - s_vptr s) with i by lia. rewrite Hn.
  destruct (Z.geb_spec i (size_bytes n)); [lia|].
  destruct (nth_bytes_ok (s_buf s) (Z.to_nat i) Hb ltac:(lia)) as [B E2].
  rewrite <- E2. f_equal. f_equal. lia.
Qed.

(* the record in front of the value: type size, name characters (get_name_in_memory) *)
Theorem peek_scalar_record st limit n s j : VInv st -> slookup (v_svars st) n = Some s ->
  0 <= j < scalars_record_size n ->
  peek st limit (s_nptr s + j) = Some (Ok (Z.max 0 (get_name_in_memory n j))).
Proof.
  intros V Ls Hj. destruct (slookup_some _ _ _ Ls) as [Hin Hn].
  pose proof (vi_ok st V) as F. rewrite Forall_forall in F. destruct (F s Hin) as (Hs & Hl & Hb & Hp).
  destruct (scalar_in_area st s V Hin) as [A1 A2]. pose proof (size_bytes_pos _ Hs).
  rewrite ssize_eq in A2. rewrite Hn in *.
  unfold peek.
  destruct (Z.ltb_spec (s_nptr s + j) (v_start st)); [lia|].
  destruct (Z.ltb_spec (s_nptr s + j) (var_current st)); [|lia].
  unfold scalars_get_memory. destruct (in_split_list s _ Hin) as (l1 & l2 & E).
  rewrite (sfind_hit _ (s_nptr s + j) s l1 l2 (v_start st) E (vi_ok st V) (vi_laid st V) (vi_start st V))
    by (rewrite ssize_eq, Hn; lia).
  destruct (Z.geb_spec (s_nptr s + j) (s_vptr s)); [lia|].
  rewrite Hn. do 4 f_equal. lia.
Qed.

(* ---------- arrays ---------- *)

Definition acur (best : option arr) : Z := match best with Some b => a_nptr b | None => -1 end.

Lemma afind_after l vc address best : (forall x, In x l -> address < vc + a_nptr x) ->
  afind l vc address best = best.
Proof.
  revert best. induction l as [|s l IH]; intros best H; simpl; [reflexivity|].
  destruct (Z.leb_spec (vc + a_nptr s) address) as [C|C]; simpl.
  - specialize (H s (or_introl eq_refl)). lia.
  - apply IH. intros x Hx. apply H. right. exact Hx.
Qed.

Lemma total_nonneg b l : Forall (arr_ok b) l -> 0 <= total b l.
Proof.
  induction 1 as [|y l Hy F IH]; simpl; [lia|].
  pose proof (msize_pos b y ltac:(apply Hy) ltac:(apply Hy)). lia.
Qed.

Lemma afind_prefix b r vc address : forall l p best, Forall (arr_ok b) l -> laid_out b p l ->
  vc + p + total b l <= address -> acur best < p ->
  exists best', afind (l ++ r) vc address best = afind r vc address best' /\ acur best' < p + total b l.
Proof.
  induction l as [|s l IH]; intros p best F L Ha Hb; simpl in *.
  - exists best. split; [reflexivity | lia].
  - inversion F as [|? ? Hs F']; subst. destruct L as [L1 L2].
    pose proof (msize_pos b s ltac:(apply Hs) ltac:(apply Hs)) as P. pose proof (total_nonneg b l F').
    fold (acur best).
    destruct (Z.leb_spec (vc + a_nptr s) address) as [C|C]; [|lia].
    destruct (Z.gtb_spec (a_nptr s) (acur best)) as [D|D]; [|lia]. simpl.
    destruct (IH (p + msize b s) (Some s) F' L2 ltac:(lia) ltac:(simpl; lia)) as (b' & E & Hb').
    exists b'. split; [exact E | lia].
Qed.

Lemma afind_hit b l vc address a l1 l2 : l = l1 ++ a :: l2 -> Forall (arr_ok b) l -> laid_out b 0 l ->
  vc + a_nptr a <= address < vc + a_nptr a + msize b a -> afind l vc address None = Some a.
Proof.
  intros E F L Ha. subst l. apply Forall_app in F as [F1 F2]. inversion F2 as [|? ? Hs F2']; subst.
  apply laid_out_app in L as [L1 [L2 L3]].
  destruct (afind_prefix b (a :: l2) vc address l1 0 None F1 L1 ltac:(lia) ltac:(simpl; lia)) as (b' & E & Hb').
  rewrite E. simpl. fold (acur b').
  destruct (Z.leb_spec (vc + a_nptr a) address) as [C|C]; [|lia].
  destruct (Z.gtb_spec (a_nptr a) (acur b')) as [D|D]; [|lia]. simpl.
  apply afind_after. intros x Hx. destruct (laid_out_bounds _ _ _ F2' L3 x Hx). lia.
Qed.

Lemma array_in_area st a : VInv st -> In a (a_list (v_arr st)) ->
  0 <= a_nptr a /\ a_nptr a + msize (base_of (v_arr st)) a <= a_cur (v_arr st).
Proof.
  intros V H. pose proof (vi_arr st V) as A.
  destruct (laid_out_bounds _ _ _ (inv_arrs _ A) (inv_layout _ A) a H) as [B1 B2].
  rewrite (inv_cur _ A). lia.
Qed.

(* VARPTR of an element: var_current + array_ptr + size * flat index *)
Lemma varptr_elem st n a idx : VInv st -> lookup (a_list (v_arr st)) n = Some a ->
  in_bounds (base_of (v_arr st)) (a_dims a) idx ->
  varptr st n idx = Ok (var_current st + a_aptr a + elem_lo (base_of (v_arr st)) a idx).
Proof.
  intros V La Hin. destruct (lookup_some _ _ _ La) as [Ha Hn].
  pose proof (AInv_base_some _ a (vi_arr st V) Ha) as Hb.
  assert (idx <> []).
  { pose proof (vi_arr st V) as A. pose proof (inv_arrs _ A) as F. rewrite Forall_forall in F.
    destruct (F a Ha) as (_ & Hd & _). intros C. subst idx. inversion Hin as [E|]. congruence. }
  unfold varptr. destruct idx as [|i0 idx']; [contradiction|]. rewrite La.
  rewrite (with_base_some _ _ _ Hb). unfold arrays_varptr_addr.
  rewrite arrays_index_spec by (eapply in_bounds_length; eassumption). cbn [bind].
  unfold elem_lo. rewrite Hn. f_equal. lia.
Qed.

Theorem peek_array st limit n a idx i : VInv st -> lookup (a_list (v_arr st)) n = Some a ->
  in_bounds (base_of (v_arr st)) (a_dims a) idx -> 0 <= i < size_bytes n ->
  exists p, varptr st n idx = Ok p /\
    peek st limit (p + i) = Some (Ok (nth (Z.to_nat i) (elem_of (base_of (v_arr st)) a idx) 0)).
Proof.
  intros V La Hin Hi. exists (var_current st + a_aptr a + elem_lo (base_of (v_arr st)) a idx).
  split; [apply varptr_elem; assumption|].
  destruct (lookup_some _ _ _ La) as [Ha Hn]. pose proof (vi_arr st V) as A.
  pose proof (AInv_base_some _ a A Ha) as Hb. set (b := base_of (v_arr st)) in *.
  assert (Hok : arr_ok b a) by (eapply Forall_forall; [apply inv_arrs, A | exact Ha]).
  destruct (arr_ok_elem b a idx (inv_base _ A) Hok Hin) as (Hk & Hs & Hlen).
  destruct Hok as (_ & _ & Hdok & _ & Hby & Hap).
  destruct (array_in_area st a V Ha) as [A1 A2]. fold b in A2. unfold msize in A2.
  pose proof (arrays_record_size_pos (a_name a) (a_dims a)) as R.
  pose proof (vi_start st V). pose proof (stotal_nonneg _ (vi_ok st V)) as T. rewrite <- (vi_cur st V) in T.
  set (k := index_spec b idx (a_dims a)) in *. set (sz := size_bytes (a_name a)) in *.
  assert (Esz : size_bytes n = sz) by (unfold sz; rewrite Hn; reflexivity). rewrite Esz in Hi.
  unfold elem_lo. fold k sz.
  set (addr := var_current st + a_aptr a + k * sz + i).
  assert (Hoff : 0 <= k * sz + i < radix_prod b (a_dims a) * sz) by nia.
  unfold peek. fold addr.
  destruct (Z.ltb_spec addr (v_start st)); [unfold addr, var_current in *; lia|].
  destruct (Z.ltb_spec addr (var_current st)); [unfold addr in *; lia|].
  destruct (Z.ltb_spec addr (var_current st + a_cur (v_arr st))); [|unfold addr in *; lia].
  unfold arrays_get_memory. destruct (in_split_list a _ Ha) as (l1 & l2 & E).
  rewrite (afind_hit b _ (var_current st) addr a l1 l2 E (inv_arrs _ A) (inv_layout _ A))
    by (unfold addr, msize; fold sz; lia).
  rewrite (with_base_some _ _ _ Hb). fold b. rewrite arrays_buffer_size_spec by assumption. cbn [bind].
  fold sz.
  destruct (Z.geb_spec addr (var_current st + a_aptr a)); [|unfold addr in *; lia].
  replace (addr - a_aptr a - var_current st) with (k * sz + i) by (unfold addr; lia).
  destruct (Z.geb_spec (k * sz + i) (radix_prod b (a_dims a) * sz)); [lia|].
  assert (Hlt : (Z.to_nat (k * sz + i) < length (a_buf a))%nat) by (rewrite Hlen; fold sz; lia).
  rewrite (nth_error_nth' (a_buf a) 0 Hlt). cbn [bind].
  unfold elem_of, elem_lo, elem_hi. fold k sz.
  rewrite (elem_slice_nth (a_buf a) k (radix_prod b (a_dims a)) sz i) by (try lia; rewrite Hlen; reflexivity).
  unfold bytes_ok in Hby. rewrite Forall_forall in Hby.
  pose proof (Hby _ (nth_In (a_buf a) 0 Hlt)) as B. unfold byte_ok in B.
  do 2 f_equal. lia.
Qed.
