(* C42: proofs about the PLAY model (model/Play.v) against the specification (model/PlaySpec.v).
   Everything here is closed under the global context (no real numbers; the frequency table is in
   Play_freq_proofs.v). *)
From Coq Require Import ZArith QArith Qpower Qfield List Bool Lia ZifyBool.
From PCB Require Import lib.Result lib.PyInt lib.Harness gen.Gen_play model.Play model.PlaySpec.
Import ListNotations.
Open Scope Z_scope.

(* ---------- tables regenerated from sound.py ---------- *)
Lemma note_freq_length : zlen play_note_freq = 84.
Proof. vm_compute. reflexivity. Qed.

Lemma default_state_values :
  init_state = mkst 4 (1 # 4) (2 # 1) (7 # 8) 15 true.
Proof. vm_compute. reflexivity. Qed.

Lemma base_semitone_letters letter b :
  base_semitone letter = Some b -> 65 <= letter <= 71.
Proof.
  unfold base_semitone.
  destruct (letter =? 67) eqn:E1; [lia|]. destruct (letter =? 68) eqn:E2; [lia|].
  destruct (letter =? 69) eqn:E3; [lia|]. destruct (letter =? 70) eqn:E4; [lia|].
  destruct (letter =? 71) eqn:E5; [lia|]. destruct (letter =? 65) eqn:E6; [lia|].
  destruct (letter =? 66) eqn:E7; [lia|]. discriminate.
Qed.

(* NOTES (with KeyError -> IFC) is the usual semitone table *)
Lemma notes_table_in_range letter acc :
  65 <= letter <= 71 -> assoc_bytes (letter :: acc_bytes acc) play_notes = semitone_spec letter acc.
Proof.
  intros H.
  assert (C : letter = 65 \/ letter = 66 \/ letter = 67 \/ letter = 68 \/ letter = 69 \/ letter = 70 \/ letter = 71)
    by lia.
  destruct C as [->|[->|[->|[->|[->|[->| ->]]]]]]; destruct acc; vm_compute; reflexivity.
Qed.

Lemma list_Z_eqb_head_neq x y a b : x <> y -> list_Z_eqb (x :: a) (y :: b) = false.
Proof. intros H. simpl. apply Z.eqb_neq in H. rewrite H. reflexivity. Qed.

Lemma assoc_bytes_head_notin k r t :
  (forall k' v, In (k', v) t -> exists c r', k' = c :: r' /\ c <> k) -> assoc_bytes (k :: r) t = None.
Proof.
  induction t as [|[k' v] t IH]; intros H; cbn [assoc_bytes]; [reflexivity|].
  destruct (H k' v (or_introl eq_refl)) as (c & r' & -> & Hne).
  rewrite list_Z_eqb_head_neq by congruence.
  apply IH. intros k2 v2 Hin. apply (H k2 v2). right. exact Hin.
Qed.

Lemma notes_keys_letters :
  forall k v, In (k, v) play_notes -> exists c r, k = c :: r /\ 65 <= c <= 71.
Proof.
  assert (F : forallb (fun kv => match fst kv with c :: _ => (65 <=? c) && (c <=? 71) | [] => false end)
                      play_notes = true) by (vm_compute; reflexivity).
  intros k v Hin. rewrite forallb_forall in F. specialize (F _ Hin). simpl in F.
  destruct k as [|c r]; [discriminate|]. exists c, r. split; [reflexivity|lia].
Qed.

Lemma notes_table letter acc :
  assoc_bytes (letter :: acc_bytes acc) play_notes = semitone_spec letter acc.
Proof.
  destruct (Z_le_dec 65 letter) as [H1|H1]; [destruct (Z_le_dec letter 71) as [H2|H2]|].
  - apply notes_table_in_range. lia.
  - rewrite assoc_bytes_head_notin.
    + unfold semitone_spec. destruct (base_semitone letter) eqn:E; [|reflexivity].
      apply base_semitone_letters in E. lia.
    + intros k v Hin. destruct (notes_keys_letters k v Hin) as (c & r & -> & Hc).
      exists c, r. split; [reflexivity|lia].
  - rewrite assoc_bytes_head_notin.
    + unfold semitone_spec. destruct (base_semitone letter) eqn:E; [|reflexivity].
      apply base_semitone_letters in E. lia.
    + intros k v Hin. destruct (notes_keys_letters k v Hin) as (c & r & -> & Hc).
      exists c, r. split; [reflexivity|lia].
Qed.

Lemma semitone_range letter acc s : semitone_spec letter acc = Some s -> 0 <= s <= 11.
Proof.
  unfold semitone_spec, base_semitone.
  destruct (letter =? 67); [|destruct (letter =? 68); [|destruct (letter =? 69); [|destruct (letter =? 70);
    [|destruct (letter =? 71); [|destruct (letter =? 65); [|destruct (letter =? 66); [|discriminate]]]]]]];
    destruct acc; simpl; intros H; inversion H; lia.
Qed.

(* ---------- rational arithmetic ---------- *)
Lemma recipQ_spec n : 1 <= n -> (recipQ n == 1 / inject_Z n)%Q.
Proof.
  intros H. destruct n as [|p|p]; try lia. unfold recipQ, Qeq, Qdiv, Qinv, inject_Z. simpl. lia.
Qed.

Lemma tempoQ_spec n : 1 <= n -> (tempoQ n == 240 / inject_Z n)%Q.
Proof.
  intros H. destruct n as [|p|p]; try lia. unfold tempoQ, Qeq, Qdiv, Qinv, inject_Z. simpl. lia.
Qed.

Lemma pow32_succ k : ((3 # 2) ^ Z.of_nat (S k) == (3 # 2) * (3 # 2) ^ Z.of_nat k)%Q.
Proof.
  replace (Z.of_nat (S k)) with (1 + Z.of_nat k) by lia.
  rewrite Qpower_plus by (intro H; discriminate H). reflexivity.
Qed.

(* each dot multiplies by 1.5 *)
Lemma dotted_pow n : forall d, (dotted d n == d * (3 # 2) ^ Z.of_nat n)%Q.
Proof.
  induction n as [|k IH]; intros d.
  - simpl. ring.
  - cbn [dotted]. rewrite IH, pow32_succ. ring.
Qed.

Lemma inject_Z_nonzero n : n <> 0 -> ~ (inject_Z n == 0)%Q.
Proof. intros H E. unfold Qeq, inject_Z in E. simpl in E. lia. Qed.

(* duration = dur * tempo with dur = length * 1.5^dots *)
Lemma duration_seconds len tempo T L d :
  1 <= L -> 1 <= T -> (len == 1 / inject_Z L)%Q -> (tempo == 240 / inject_Z T)%Q ->
  (dotted len d * tempo == seconds T L d)%Q.
Proof.
  intros HL HT El Et. rewrite dotted_pow, El, Et. unfold seconds.
  field. split; apply inject_Z_nonzero; lia.
Qed.

Lemma gap_fraction_spec m : (gap_fraction m == 1 - fill_of m)%Q.
Proof. destruct m; reflexivity. Qed.

Lemma fill_values m : fill_of m = (7 # 8)%Q \/ fill_of m = 1%Q \/ fill_of m = (3 # 4)%Q.
Proof. destruct m; simpl; auto. Qed.

Lemma Qeq_bool_proper a b c : (a == b)%Q -> Qeq_bool a c = Qeq_bool b c.
Proof.
  intros H. destruct (Qeq_bool a c) eqn:E1; destruct (Qeq_bool b c) eqn:E2; try reflexivity.
  - apply Qeq_bool_iff in E1. assert (E : (b == c)%Q) by (rewrite <- H; exact E1).
    apply Qeq_bool_iff in E. congruence.
  - apply Qeq_bool_iff in E2. assert (E : (a == c)%Q) by (rewrite H; exact E2).
    apply Qeq_bool_iff in E. congruence.
Qed.

(* ---------- emit_tone against the specification ---------- *)
Lemma emit_sound_spec a idx D fill secs :
  (fill == fill_of (a_mode a))%Q -> (D == secs)%Q ->
  evs_eq (emit_tone (Some idx) D fill the_volume) (spec_sound a idx secs).
Proof.
  intros Ef ED. unfold emit_tone, spec_sound.
  rewrite (Qeq_bool_proper _ _ 1%Q Ef).
  destruct (a_mode a) eqn:Em; simpl fill_of in *; cbn [Qeq_bool]; simpl.
  - constructor; [|constructor; [|constructor]]; repeat split; simpl; rewrite ?Ef, ?ED; ring.
  - constructor; [|constructor]; repeat split; simpl; rewrite ?Ef, ?ED; ring.
  - constructor; [|constructor; [|constructor]]; repeat split; simpl; rewrite ?Ef, ?ED; ring.
Qed.

Lemma emit_rest_spec D secs :
  (D == secs)%Q -> evs_eq (emit_tone None D 1%Q the_volume) (spec_rest secs).
Proof.
  intros ED. unfold emit_tone, spec_rest. simpl.
  constructor; [|constructor]. repeat split; simpl. rewrite ED. ring.
Qed.

(* ---------- one command ---------- *)
Definition res_rel (r1 : res (pstate * list event)) (r2 : res (astate * list event)) : Prop :=
  match r1, r2 with
  | Ok (st', e1), Ok (a', e2) => represents st' a' /\ evs_eq e1 e2
  | Err x, Err y => x = y
  | Host x, Host y => x = y
  | OutOfFuel, OutOfFuel => True
  | _, _ => False
  end.

Lemma step_refines st a c : represents st a -> res_rel (step st c) (spec_step a c).
Proof.
  intros R. pose proof R as (Ho & Hor & HL & HT & El & Et & Ef & Hv & Hfg).
  destruct c as [letter acc len d|acc len d|n d|n|n|n| | |m|b|e|k|]; cbn [step spec_step].
  - (* note *)
    destruct (len_ok len) eqn:Elen; [|reflexivity].
    rewrite notes_table. destruct (semitone_spec letter acc) as [sem|] eqn:Es; [|reflexivity].
    pose proof (semitone_range _ _ _ Es) as Hs. rewrite note_freq_length.
    destruct ((0 <=? st_octave st * 12 + sem) && (st_octave st * 12 + sem <? 84)) eqn:Ei; [|lia].
    cbn [res_rel]. split; [exact R|]. rewrite Hv.
    replace (st_octave st * 12 + sem) with (12 * a_octave a + sem) by lia.
    apply emit_sound_spec; [exact Ef|].
    destruct len as [l|]; cbn [len_ok] in Elen.
    + destruct (0 <? l) eqn:E0.
      * apply duration_seconds; try lia; [apply recipQ_spec; lia|exact Et].
      * apply duration_seconds; try lia; assumption.
    + apply duration_seconds; try lia; assumption.
  - (* pause *)
    destruct acc.
    + destruct len as [l|]; cbn [len_ok].
      * destruct ((0 <=? l) && (l <=? 64)) eqn:Er; [|reflexivity].
        destruct (l =? 0) eqn:E0.
        -- destruct d; cbn [res_rel]; [split; [exact R|constructor]|reflexivity].
        -- cbn [res_rel]. split; [exact R|]. rewrite Hv. apply emit_rest_spec.
           apply duration_seconds; try lia; [apply recipQ_spec; lia|exact Et].
      * reflexivity.
    + destruct (len_ok len); [|reflexivity]. destruct len; reflexivity.
    + destruct (len_ok len); [|reflexivity]. destruct len; reflexivity.
  - (* N *)
    destruct ((0 <=? n) && (n <=? 84)) eqn:Er; [|reflexivity].
    destruct (n =? 0) eqn:E0; cbn [res_rel]; (split; [exact R|]); rewrite Hv.
    + apply emit_rest_spec. apply duration_seconds; try lia; assumption.
    + apply emit_sound_spec; [exact Ef|]. apply duration_seconds; try lia; assumption.
  - (* L *)
    destruct ((1 <=? n) && (n <=? 64)) eqn:Er; [|reflexivity].
    cbn [res_rel]. split; [|constructor].
    unfold represents; cbn. repeat split; try assumption; try lia. apply recipQ_spec. lia.
  - (* T *)
    destruct ((32 <=? n) && (n <=? 255)) eqn:Er; [|reflexivity].
    cbn [res_rel]. split; [|constructor].
    unfold represents; cbn. repeat split; try assumption; try lia. apply tempoQ_spec. lia.
  - (* O *)
    destruct ((0 <=? n) && (n <=? 6)) eqn:Er; [|reflexivity].
    cbn [res_rel]. split; [|constructor].
    unfold represents; cbn. repeat split; try assumption; try lia.
  - (* > *)
    cbn [res_rel]. split; [|constructor].
    unfold represents; cbn. destruct (st_octave st + 1 >? 6) eqn:E; repeat split; try assumption; try lia.
  - (* < *)
    cbn [res_rel]. split; [|constructor].
    unfold represents; cbn. destruct (st_octave st - 1 <? 0) eqn:E; repeat split; try assumption; try lia.
  - (* MN ML MS *)
    cbn [res_rel]. split; [|constructor].
    unfold represents; cbn. repeat split; try assumption; try lia; try reflexivity.
  - (* MF MB *)
    cbn [res_rel]. split; [|constructor].
    unfold represents; cbn. repeat split; try assumption; try lia.
  - reflexivity.
  - reflexivity.
  - exact I.
Qed.

(* ---------- command lists ---------- *)
Definition run_rel (r1 : list event * pstate * res unit) (r2 : list event * astate * res unit) : Prop :=
  let '(e1, st', s1) := r1 in
  let '(e2, a', s2) := r2 in
  evs_eq e1 e2 /\ represents st' a' /\ s1 = s2.

Lemma evs_eq_app a b c d : evs_eq a b -> evs_eq c d -> evs_eq (a ++ c) (b ++ d).
Proof. apply Forall2_app. Qed.

Theorem run_refines cs : forall st a, represents st a -> run_rel (run st cs) (spec_run a cs).
Proof.
  induction cs as [|c r IH]; intros st a R.
  - simpl. split; [constructor|split; [exact R|reflexivity]].
  - cbn [run spec_run]. pose proof (step_refines st a c R) as H.
    destruct (step st c) as [[st1 e1]| | |]; destruct (spec_step a c) as [[a1 e2]| | |]; cbn [res_rel] in H;
      try contradiction.
    + destruct H as [R1 He]. specialize (IH st1 a1 R1).
      destruct (run st1 r) as [[e1' st2] s1]. destruct (spec_run a1 r) as [[e2' a2] s2].
      destruct IH as (He' & R2 & Es). split; [apply evs_eq_app; assumption|split; assumption].
    + subst. split; [constructor|split; [exact R|reflexivity]].
    + subst. split; [constructor|split; [exact R|reflexivity]].
    + split; [constructor|split; [exact R|reflexivity]].
Qed.

Lemma init_represents : represents init_state init_astate.
Proof.
  rewrite default_state_values. unfold represents, init_astate; cbn.
  repeat split; try lia; reflexivity.
Qed.

(* ---------- consequences on the specification side ---------- *)
Lemma ok_pair_inj {A B} (x a : A) (y b : B) : @Ok (A * B) (x, y) = Ok (a, b) -> x = a /\ y = b.
Proof. intros H. split; congruence. Qed.
Ltac ok_inv H := apply ok_pair_inj in H; destruct H as [<- <-].

Definition agood (a : astate) : Prop :=
  0 <= a_octave a <= 6 /\ 1 <= a_L a <= 64 /\ 32 <= a_T a <= 255.

Lemma represents_agood st a : represents st a -> agood a.
Proof. intros (Ho & Hor & HL & HT & _). repeat split; lia. Qed.

Lemma spec_step_good a c a' evs : agood a -> spec_step a c = Ok (a', evs) -> agood a'.
Proof.
  intros (Ho & HL & HT) H. unfold agood.
  destruct c as [letter acc len d|acc len d|n d|n|n|n| | |m|b|e|k|]; cbn [spec_step] in H.
  - destruct (len_ok len); [|discriminate]. destruct (semitone_spec letter acc); [|discriminate].
    ok_inv H. repeat split; lia.
  - destruct acc; try discriminate. destruct len as [l|]; [|discriminate].
    destruct ((0 <=? l) && (l <=? 64)); [|discriminate]. destruct (l =? 0).
    + destruct d; [|discriminate]. ok_inv H. repeat split; lia.
    + ok_inv H. repeat split; lia.
  - destruct ((0 <=? n) && (n <=? 84)); [|discriminate].
    destruct (n =? 0); ok_inv H; repeat split; lia.
  - destruct ((1 <=? n) && (n <=? 64)) eqn:E; [|discriminate]. ok_inv H; cbn. repeat split; lia.
  - destruct ((32 <=? n) && (n <=? 255)) eqn:E; [|discriminate]. ok_inv H; cbn. repeat split; lia.
  - destruct ((0 <=? n) && (n <=? 6)) eqn:E; [|discriminate]. ok_inv H; cbn. repeat split; lia.
  - ok_inv H; cbn. repeat split; lia.
  - ok_inv H; cbn. repeat split; lia.
  - ok_inv H; cbn. repeat split; lia.
  - ok_inv H; cbn. repeat split; lia.
  - discriminate.
  - discriminate.
  - discriminate.
Qed.

(* every emitted index is inside the table *)
Definition ev_in_table (e : event) : Prop :=
  match ev_note e with Some i => 0 <= i < 84 | None => True end.

Lemma spec_sound_in_table a idx secs : 0 <= idx < 84 -> Forall ev_in_table (spec_sound a idx secs).
Proof.
  intros H. unfold spec_sound. destruct (a_mode a); repeat constructor; unfold ev_in_table; simpl; try lia.
Qed.

Lemma spec_step_in_table a c a' evs : agood a -> spec_step a c = Ok (a', evs) -> Forall ev_in_table evs.
Proof.
  intros (Ho & HL & HT) H.
  destruct c as [letter acc len d|acc len d|n d|n|n|n| | |m|b|e|k|]; cbn [spec_step] in H.
  - destruct (len_ok len); [|discriminate]. destruct (semitone_spec letter acc) as [sem|] eqn:Es; [|discriminate].
    apply semitone_range in Es. ok_inv H. apply spec_sound_in_table. lia.
  - destruct acc; try discriminate. destruct len as [l|]; [|discriminate].
    destruct ((0 <=? l) && (l <=? 64)); [|discriminate]. destruct (l =? 0).
    + destruct d; [|discriminate]. ok_inv H. constructor.
    + ok_inv H. repeat constructor.
  - destruct ((0 <=? n) && (n <=? 84)) eqn:E; [|discriminate].
    destruct (n =? 0) eqn:E0; ok_inv H.
    + repeat constructor.
    + apply spec_sound_in_table. lia.
  - destruct ((1 <=? n) && (n <=? 64)); [|discriminate]. ok_inv H; constructor.
  - destruct ((32 <=? n) && (n <=? 255)); [|discriminate]. ok_inv H; constructor.
  - destruct ((0 <=? n) && (n <=? 6)); [|discriminate]. ok_inv H; constructor.
  - ok_inv H; constructor.
  - ok_inv H; constructor.
  - ok_inv H; constructor.
  - ok_inv H; constructor.
  - discriminate.
  - discriminate.
  - discriminate.
Qed.

Lemma spec_run_in_table cs : forall a, agood a ->
  let '(evs, a', _) := spec_run a cs in Forall ev_in_table evs /\ agood a'.
Proof.
  induction cs as [|c r IH]; intros a G; cbn [spec_run].
  - split; [constructor|exact G].
  - destruct (spec_step a c) as [[a1 e1]| | |] eqn:E; try (split; [constructor|exact G]).
    pose proof (spec_step_good _ _ _ _ G E) as G1. specialize (IH a1 G1).
    destruct (spec_run a1 r) as [[e2 a2] s2]. destruct IH as [F2 G2]. split; [|exact G2].
    apply Forall_app. split; [|exact F2]. exact (spec_step_in_table _ _ _ _ G E).
Qed.

Lemma evs_eq_in_table e1 e2 : evs_eq e1 e2 -> Forall ev_in_table e2 -> Forall ev_in_table e1.
Proof.
  induction 1 as [|x y l1 l2 Hxy _ IH]; intros F; [constructor|].
  inversion F; subst. constructor; [|apply IH; assumption].
  destruct Hxy as (Hn & _). unfold ev_in_table in *. rewrite Hn. assumption.
Qed.

Lemma evs_eq_sounding e1 e2 : evs_eq e1 e2 -> sounding e1 = sounding e2.
Proof.
  induction 1 as [|x y l1 l2 Hxy _ IH]; [reflexivity|].
  destruct Hxy as (Hn & _). simpl. rewrite Hn, IH. reflexivity.
Qed.

Lemma sounding_app a b : sounding (a ++ b) = sounding a ++ sounding b.
Proof.
  induction a as [|e a IH]; [reflexivity|]. simpl. destruct (ev_note e); rewrite IH; reflexivity.
Qed.

Lemma sounding_spec_sound a idx secs : sounding (spec_sound a idx secs) = [idx].
Proof. unfold spec_sound. destruct (a_mode a); reflexivity. Qed.

(* one sounding tone per note command, in order *)
Lemma spec_step_sounding a c a' evs :
  spec_step a c = Ok (a', evs) ->
  sounding evs = match spec_note_index a c with Some i => [i] | None => [] end.
Proof.
  intros H.
  destruct c as [letter acc len d|acc len d|n d|n|n|n| | |m|b|e|k|]; cbn [spec_step spec_note_index] in *.
  - destruct (len_ok len); [|discriminate]. destruct (semitone_spec letter acc) as [sem|]; [|discriminate].
    ok_inv H. apply sounding_spec_sound.
  - destruct acc; try discriminate. destruct len as [l|]; [|discriminate].
    destruct ((0 <=? l) && (l <=? 64)); [|discriminate]. destruct (l =? 0).
    + destruct d; [|discriminate]. ok_inv H. reflexivity.
    + ok_inv H. reflexivity.
  - destruct ((0 <=? n) && (n <=? 84)); [|discriminate].
    destruct (n =? 0); ok_inv H; [reflexivity|apply sounding_spec_sound].
  - destruct ((1 <=? n) && (n <=? 64)); [|discriminate]. ok_inv H; reflexivity.
  - destruct ((32 <=? n) && (n <=? 255)); [|discriminate]. ok_inv H; reflexivity.
  - destruct ((0 <=? n) && (n <=? 6)); [|discriminate]. ok_inv H; reflexivity.
  - ok_inv H; reflexivity.
  - ok_inv H; reflexivity.
  - ok_inv H; reflexivity.
  - ok_inv H; reflexivity.
  - discriminate.
  - discriminate.
  - discriminate.
Qed.

Lemma spec_run_sounding cs : forall a,
  sounding (fst (fst (spec_run a cs))) = spec_notes a cs.
Proof.
  induction cs as [|c r IH]; intros a; cbn [spec_run spec_notes]; [reflexivity|].
  destruct (spec_step a c) as [[a1 e1]| | |] eqn:E; try reflexivity.
  specialize (IH a1). destruct (spec_run a1 r) as [[e2 a2] s2]. cbn [fst] in *.
  rewrite sounding_app, (spec_step_sounding _ _ _ _ E), IH.
  destruct (spec_note_index a c); reflexivity.
Qed.

(* malformed commands are rejected with Illegal function call in every state *)
Lemma spec_malformed a c : malformed c = true -> spec_step a c = Err ifc.
Proof.
  intros H.
  destruct c as [letter acc len d|acc len d|n d|n|n|n| | |m|b|e|k|]; cbn [spec_step malformed] in *;
    try discriminate.
  - destruct (len_ok len); [|reflexivity]. simpl in H.
    destruct (semitone_spec letter acc); [discriminate|reflexivity].
  - destruct acc; try reflexivity. destruct len as [l|]; [|reflexivity].
    destruct ((0 <=? l) && (l <=? 64)); [|reflexivity]. simpl in H.
    destruct (l =? 0); [|discriminate]. destruct d; [discriminate|reflexivity].
  - destruct ((0 <=? n) && (n <=? 84)); [discriminate|reflexivity].
  - destruct ((1 <=? n) && (n <=? 64)); [discriminate|reflexivity].
  - destruct ((32 <=? n) && (n <=? 255)); [discriminate|reflexivity].
  - destruct ((0 <=? n) && (n <=? 6)); [discriminate|reflexivity].
  - apply Z.eqb_eq in H. subst. reflexivity.
Qed.

(* ... and nothing else is: a well-formed command (not a scanner artefact) is accepted *)
Lemma spec_wellformed a c :
  malformed c = false -> (forall e, c <> CBad e) -> (forall k, c <> CHost k) -> c <> CFuel ->
  exists a' evs, spec_step a c = Ok (a', evs).
Proof.
  intros H Hb Hh Hf.
  destruct c as [letter acc len d|acc len d|n d|n|n|n| | |m|b|e|k|]; cbn [spec_step malformed] in *;
    try (eexists; eexists; reflexivity).
  - destruct (len_ok len); [|discriminate]. simpl in H.
    destruct (semitone_spec letter acc); [|discriminate]. eexists; eexists; reflexivity.
  - destruct acc; try discriminate. destruct len as [l|]; [|discriminate].
    destruct ((0 <=? l) && (l <=? 64)); [|discriminate]. simpl in H.
    destruct (l =? 0); [|eexists; eexists; reflexivity].
    destruct d; [eexists; eexists; reflexivity|discriminate].
  - destruct ((0 <=? n) && (n <=? 84)); [|discriminate]. destruct (n =? 0); eexists; eexists; reflexivity.
  - destruct ((1 <=? n) && (n <=? 64)); [|discriminate]. eexists; eexists; reflexivity.
  - destruct ((32 <=? n) && (n <=? 255)); [|discriminate]. eexists; eexists; reflexivity.
  - destruct ((0 <=? n) && (n <=? 6)); [|discriminate]. eexists; eexists; reflexivity.
  - exfalso. apply (Hb e). reflexivity.
  - exfalso. apply (Hh k). reflexivity.
  - exfalso. apply Hf. reflexivity.
Qed.

(* a rejected command stops the statement; what was emitted before stays *)
Lemma spec_run_app_err pre c post : forall a evs a',
  spec_run a pre = (evs, a', Ok tt) -> spec_step a' c = Err ifc ->
  spec_run a (pre ++ c :: post) = (evs, a', Err ifc).
Proof.
  induction pre as [|p pre IH]; intros a evs a' H Hc.
  - simpl in H. inversion H; subst. simpl. rewrite Hc. reflexivity.
  - cbn [spec_run app] in *. destruct (spec_step a p) as [[a1 e1]| | |]; try discriminate.
    destruct (spec_run a1 pre) as [[e2 a2] s2] eqn:E. inversion H; subst.
    rewrite (IH a1 e2 a' E Hc). reflexivity.
Qed.

(* ---------- scanner facts ---------- *)
Definition is_command_char (c : Z) : bool :=
  (c =? 88) || (c =? 78) || (c =? 76) || (c =? 84) || (c =? 79) || (c =? 62) || (c =? 60)
  || ((65 <=? c) && (c <=? 71)) || (c =? 80) || (c =? 77).

(* an unknown command character raises Illegal function call at that point *)
Lemma lex_unknown_command fuel e c r :
  c <> 32 -> c <> 59 -> is_command_char (upper c) = false -> lex (S fuel) e (c :: r) = [CBad ifc].
Proof.
  intros H32 H59 H. cbn [lex skip_blank].
  destruct (c =? 32) eqn:E32; [lia|]. destruct (c =? 59) eqn:E59; [lia|].
  unfold is_command_char in H. unfold lex_cmd.
  destruct (upper c =? 88) eqn:E1; [discriminate|]. destruct (upper c =? 78) eqn:E2; [discriminate|].
  destruct (upper c =? 76) eqn:E3; [discriminate|]. destruct (upper c =? 84) eqn:E4; [discriminate|].
  destruct (upper c =? 79) eqn:E5; [discriminate|]. destruct (upper c =? 62) eqn:E6; [discriminate|].
  destruct (upper c =? 60) eqn:E7; [discriminate|].
  destruct ((65 <=? upper c) && (upper c <=? 71)) eqn:E8; [discriminate|].
  destruct (upper c =? 80) eqn:E9; [discriminate|]. destruct (upper c =? 77) eqn:E10; [discriminate|].
  reflexivity.
Qed.

Lemma lex_blank fuel e r : lex (S fuel) e (32 :: r) = lex (S fuel) e r.
Proof. reflexivity. Qed.

Lemma lex_empty fuel e : lex (S fuel) e [] = [].
Proof. reflexivity. Qed.

(* ---------- the same facts on the model side (through the refinement) ---------- *)
Lemma step_ok_spec st a c st' evs :
  represents st a -> step st c = Ok (st', evs) ->
  exists a' evs', spec_step a c = Ok (a', evs') /\ represents st' a' /\ evs_eq evs evs'.
Proof.
  intros R H. pose proof (step_refines st a c R) as Hr. rewrite H in Hr.
  destruct (spec_step a c) as [[a' evs']| | |]; cbn [res_rel] in Hr; try contradiction.
  exists a', evs'. destruct Hr as [R' He]. split; [reflexivity|split; assumption].
Qed.

(* emitted index = octave*12 + semitone (N n: n-1), always inside the 84-entry table; one tone per note *)
Theorem note_index st a c st' evs :
  represents st a -> step st c = Ok (st', evs) ->
  Forall ev_in_table evs /\
  sounding evs = match spec_note_index a c with Some i => [i] | None => [] end.
Proof.
  intros R H. destruct (step_ok_spec _ _ _ _ _ R H) as (a' & evs' & Hs & R' & He).
  split.
  - apply (evs_eq_in_table _ _ He). exact (spec_step_in_table _ _ _ _ (represents_agood _ _ R) Hs).
  - rewrite (evs_eq_sounding _ _ He). exact (spec_step_sounding _ _ _ _ Hs).
Qed.

(* the table lookup NOTE_FREQ[...] cannot fail *)
Theorem lookup_cannot_fail st a c :
  represents st a -> (forall k, c <> CHost k) -> forall k, step st c <> Host k.
Proof.
  intros R Hc k H. pose proof (step_refines st a c R) as Hr. rewrite H in Hr.
  destruct (spec_step a c) as [[a' evs']| | |] eqn:E; cbn [res_rel] in Hr; try contradiction.
  destruct c; cbn [spec_step] in E;
    repeat match type of E with
           | (if ?b then _ else _) = _ => destruct b
           | match ?x with _ => _ end = _ => destruct x
           end; try discriminate.
  apply (Hc k0). reflexivity.
Qed.

Theorem octave_steps st :
  (exists st', step st CUp = Ok (st', []) /\ st_octave st' = Z.min 6 (st_octave st + 1)) /\
  (exists st', step st CDown = Ok (st', []) /\ st_octave st' = Z.max 0 (st_octave st - 1)).
Proof.
  split; eexists; (split; [reflexivity|]); cbn.
  - destruct (st_octave st + 1 >? 6) eqn:E; lia.
  - destruct (st_octave st - 1 <? 0) eqn:E; lia.
Qed.

Theorem octave_invariant cs st a :
  represents st a -> let '(_, st', _) := run st cs in 0 <= st_octave st' <= 6.
Proof.
  intros R. pose proof (run_refines cs st a R) as H.
  destruct (run st cs) as [[e1 st'] s1]. destruct (spec_run a cs) as [[e2 a'] s2].
  destruct H as (_ & (Ho & Hr & _) & _). lia.
Qed.

Theorem tones_in_order cs st a :
  represents st a ->
  sounding (fst (fst (run st cs))) = spec_notes a cs /\ Forall ev_in_table (fst (fst (run st cs))).
Proof.
  intros R. pose proof (run_refines cs st a R) as H.
  pose proof (spec_run_sounding cs a) as Hs.
  pose proof (spec_run_in_table cs a (represents_agood _ _ R)) as Ht.
  destruct (run st cs) as [[e1 st'] s1]. destruct (spec_run a cs) as [[e2 a'] s2].
  destruct H as (He & _ & _). destruct Ht as [Ht _]. cbn [fst] in *. split.
  - rewrite (evs_eq_sounding _ _ He). exact Hs.
  - exact (evs_eq_in_table _ _ He Ht).
Qed.

Theorem malformed_rejected st a c : represents st a -> malformed c = true -> step st c = Err ifc.
Proof.
  intros R H. pose proof (step_refines st a c R) as Hr. rewrite (spec_malformed a c H) in Hr.
  destruct (step st c) as [[st' evs]| | |]; cbn [res_rel] in Hr; try contradiction. congruence.
Qed.

Theorem wellformed_accepted st a c :
  represents st a -> malformed c = false -> (forall e, c <> CBad e) -> (forall k, c <> CHost k) -> c <> CFuel ->
  exists st' evs, step st c = Ok (st', evs).
Proof.
  intros R H Hb Hh Hf. destruct (spec_wellformed a c H Hb Hh Hf) as (a' & evs' & Hs).
  pose proof (step_refines st a c R) as Hr. rewrite Hs in Hr.
  destruct (step st c) as [[st' evs]| | |]; cbn [res_rel] in Hr; try contradiction.
  exists st', evs. reflexivity.
Qed.

Lemma run_app_err pre c post e : forall st evs st',
  run st pre = (evs, st', Ok tt) -> step st' c = Err e ->
  run st (pre ++ c :: post) = (evs, st', Err e).
Proof.
  induction pre as [|p pre IH]; intros st evs st' H Hc.
  - simpl in H. inversion H; subst. simpl. rewrite Hc. reflexivity.
  - cbn [run app] in *. destruct (step st p) as [[st1 e1]| | |]; try discriminate.
    destruct (run st1 pre) as [[e2 st2] s2] eqn:E. inversion H; subst.
    rewrite (IH st1 e2 st' E Hc). reflexivity.
Qed.

(* a malformed command stops the statement with Illegal function call; the tones before it stay *)
Theorem malformed_stops st a pre c post evs st' :
  represents st a -> run st pre = (evs, st', Ok tt) -> malformed c = true ->
  run st (pre ++ c :: post) = (evs, st', Err ifc).
Proof.
  intros R H Hm. apply run_app_err; [exact H|].
  pose proof (run_refines pre st a R) as Hr. rewrite H in Hr.
  destruct (spec_run a pre) as [[e2 a'] s2]. destruct Hr as (_ & R' & _).
  exact (malformed_rejected st' a' c R' Hm).
Qed.

(* the durations, spelled out for a lettered note *)
Theorem note_duration st a letter acc len d st' evs :
  represents st a -> step st (CNote letter acc len d) = Ok (st', evs) ->
  exists sem, semitone_spec letter acc = Some sem /\
    let L := match len with Some l => if 0 <? l then l else a_L a | None => a_L a end in
    let secs := seconds (a_T a) L d in
    evs_eq evs (mkev (Some (12 * a_octave a + sem)) (secs * fill_of (a_mode a))%Q 15 ::
                match a_mode a with FillL => [] | m => [mkev None (secs * gap_fraction m)%Q 0] end).
Proof.
  intros R H. destruct (step_ok_spec _ _ _ _ _ R H) as (a' & evs' & Hs & _ & He).
  cbn [spec_step] in Hs. destruct (len_ok len); [|discriminate].
  destruct (semitone_spec letter acc) as [sem|]; [|discriminate].
  exists sem. split; [reflexivity|]. ok_inv Hs. unfold spec_sound in He.
  destruct (a_mode a); exact He.
Qed.

Theorem pause_duration st a l d st' evs :
  represents st a -> l <> 0 -> step st (CPause AccNone (Some l) d) = Ok (st', evs) ->
  evs_eq evs [mkev None (seconds (a_T a) l d) 15].
Proof.
  intros R Hl H. destruct (step_ok_spec _ _ _ _ _ R H) as (a' & evs' & Hs & _ & He).
  cbn [spec_step] in Hs. destruct ((0 <=? l) && (l <=? 64)); [|discriminate].
  destruct (l =? 0) eqn:E0; [lia|]. ok_inv Hs. exact He.
Qed.

Theorem gap_fractions :
  (gap_fraction FillN == 1 # 8)%Q /\ (gap_fraction FillL == 0)%Q /\ (gap_fraction FillS == 1 # 4)%Q /\
  forall m, (gap_fraction m == 1 - fill_of m)%Q /\
            (fill_of m = (7 # 8)%Q \/ fill_of m = 1%Q \/ fill_of m = (3 # 4)%Q).
Proof.
  repeat split; try reflexivity.
  - apply gap_fraction_spec.
  - apply fill_values.
Qed.

(* a whole PLAY statement on a non-empty string *)
Theorem play_refines fuel e st a s :
  represents st a -> s <> [] -> run_rel (play fuel e st s) (spec_run a (lex fuel e s)).
Proof.
  intros R Hs. unfold play. destruct s as [|c r]; [congruence|]. apply run_refines. exact R.
Qed.
