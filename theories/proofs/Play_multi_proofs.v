(* C42: multi-string PLAY - the voices are independent.  Closed under the global context. *)
From Coq Require Import ZArith QArith List Bool Lia.
From PCB Require Import lib.Result lib.PyInt gen.Gen_play model.Play.
Import ListNotations.
Open Scope Z_scope.

Lemma voice_eqb_refl v : voice_eqb v v = true.
Proof. destruct v; reflexivity. Qed.

Lemma voice_eqb_eq v w : voice_eqb v w = true -> v = w.
Proof. destruct v, w; simpl; intros H; try reflexivity; discriminate. Qed.

Lemma get3_set3_same {A} v (x : A) t : get3 v (set3 v x t) = x.
Proof. destruct t as [[a b] c]. destruct v; reflexivity. Qed.

Lemma get3_set3_other {A} v w (x : A) t : voice_eqb v w = false -> get3 w (set3 v x t) = get3 w t.
Proof. destruct t as [[a b] c]. destruct v, w; simpl; intros H; try reflexivity; discriminate. Qed.

Lemma proj_app v a b : proj v (a ++ b) = proj v a ++ proj v b.
Proof.
  induction a as [|[w e] a IH]; [reflexivity|]. simpl. destruct (voice_eqb w v); rewrite IH; reflexivity.
Qed.

Lemma proj_tag_same v evs : proj v (map (pair v) evs) = evs.
Proof. induction evs as [|e r IH]; [reflexivity|]. simpl. rewrite voice_eqb_refl, IH. reflexivity. Qed.

Lemma proj_tag_other v w evs : voice_eqb v w = false -> proj w (map (pair v) evs) = [].
Proof. intros H. induction evs as [|e r IH]; [reflexivity|]. simpl. rewrite H. exact IH. Qed.

(* FRAME: whatever the order of turns, what voice w has executed is a prefix `pre` of ITS command list, and the
   one-voice interpreter run on that prefix from w's OWN initial state gives exactly w's tone signals and w's
   state; the other voices' strings and states play no role *)
Theorem run_sched_frame turns : forall sts css evs sts' css' status,
  run_sched turns sts css = (evs, sts', css', status) ->
  forall w, exists pre,
    get3 w css = pre ++ get3 w css' /\ run (get3 w sts) pre = (proj w evs, get3 w sts', Ok tt).
Proof.
  induction turns as [|v r IH]; intros sts css evs sts' css' status H w.
  - simpl in H. inversion H; subst. exists []. split; reflexivity.
  - cbn [run_sched] in H. destruct (get3 v css) as [|c cs'] eqn:Ec.
    + exact (IH _ _ _ _ _ _ H w).
    + destruct (step (get3 v sts) c) as [[st1 e1]| | |] eqn:Es.
      * destruct (run_sched r (set3 v st1 sts) (set3 v cs' css)) as [[[evs1 sts1] css1] status1] eqn:Er.
        inversion H; subst. destruct (IH _ _ _ _ _ _ Er w) as (pre & Hp & Hr).
        destruct (voice_eqb v w) eqn:Evw.
        -- apply voice_eqb_eq in Evw. subst w. rewrite get3_set3_same in Hp. rewrite get3_set3_same in Hr.
           exists (c :: pre). split.
           ++ rewrite Ec, Hp. reflexivity.
           ++ cbn [run]. rewrite Es, Hr. rewrite proj_app, proj_tag_same. reflexivity.
        -- rewrite (get3_set3_other v w) in Hp by exact Evw. rewrite (get3_set3_other v w) in Hr by exact Evw.
           exists pre. split; [exact Hp|]. rewrite Hr, proj_app, (proj_tag_other v w) by exact Evw. reflexivity.
      * inversion H; subst. exists []. split; reflexivity.
      * inversion H; subst. exists []. split; reflexivity.
      * inversion H; subst. exists []. split; reflexivity.
Qed.

Lemma all_read_nil css w : all_read css = true -> get3 w css = [].
Proof.
  destruct css as [[a b] c]. unfold all_read. destruct a; [|discriminate]. destruct b; [|discriminate].
  destruct c; [|discriminate]. destruct w; reflexivity.
Qed.

Definition strings_lex (fuel : nat) (e : env) (ss : tri (list Z)) : tri (list cmd) :=
  let '(s0, s1, s2) := ss in (lex fuel e s0, lex fuel e s1, lex fuel e s2).

Lemma get3_strings_lex fuel e ss w : get3 w (strings_lex fuel e ss) = lex fuel e (get3 w ss).
Proof. destruct ss as [[a b] c]. destruct w; reflexivity. Qed.

Lemma play_multi_unfold fuel e sts ss evs sts' status :
  play_multi fuel e sts ss = (evs, sts', status) ->
  (ss = ([], [], []) /\ evs = [] /\ sts' = sts /\ status = Err missing_operand) \/
  exists css' status0,
    run_sched (sched (length (lex fuel e (get3 V0 ss)), length (lex fuel e (get3 V1 ss)),
                      length (lex fuel e (get3 V2 ss)))) sts (strings_lex fuel e ss)
      = (evs, sts', css', status0)
    /\ (status = Ok tt -> all_read css' = true).
Proof.
  destruct ss as [[s0 s1] s2]. unfold play_multi. cbn [get3 strings_lex].
  set (R := run_sched _ sts _).
  destruct s0 as [|x0 r0]; [destruct s1 as [|x1 r1]; [destruct s2 as [|x2 r2]|]|].
  1: { intros H. inversion H; subst. left. repeat split. }
  all: destruct R as [[[evs1 sts1] css1] status1] eqn:ER; intros H; right; exists css1, status1;
       destruct status1 as [u| | |]; [destruct (all_read css1) eqn:Ea|..];
       inversion H; subst; (split; [reflexivity|]); intros Hs; try discriminate; reflexivity.
Qed.

(* a multi-string PLAY that finishes: every voice's tone signals and final state are those of the one-voice
   interpreter run on ITS string from ITS state alone *)
Theorem play_multi_independent fuel e sts ss evs sts' :
  play_multi fuel e sts ss = (evs, sts', Ok tt) ->
  forall w, run (get3 w sts) (lex fuel e (get3 w ss)) = (proj w evs, get3 w sts', Ok tt).
Proof.
  intros H w. destruct (play_multi_unfold _ _ _ _ _ _ _ H) as [(_ & _ & _ & Hs)|(css' & st0 & Hr & Ha)];
    [discriminate|].
  destruct (run_sched_frame _ _ _ _ _ _ _ Hr w) as (pre & Hp & Hrun).
  rewrite (all_read_nil css' w (Ha eq_refl)), app_nil_r, get3_strings_lex in Hp. rewrite Hp. exact Hrun.
Qed.

(* whatever happens (also when another voice's string is rejected): a voice emits a prefix run of its own string *)
Theorem play_multi_prefix fuel e sts ss evs sts' status :
  play_multi fuel e sts ss = (evs, sts', status) ->
  forall w, exists pre rest,
    lex fuel e (get3 w ss) = pre ++ rest /\ run (get3 w sts) pre = (proj w evs, get3 w sts', Ok tt).
Proof.
  intros H w. destruct (play_multi_unfold _ _ _ _ _ _ _ H) as [(-> & -> & -> & _)|(css' & st0 & Hr & _)].
  - exists [], (lex fuel e (get3 w ([], [], []))). split; reflexivity.
  - destruct (run_sched_frame _ _ _ _ _ _ _ Hr w) as (pre & Hp & Hrun).
    rewrite get3_strings_lex in Hp. exists pre, (get3 w css'). split; assumption.
Qed.

Lemma lex_blank_only fuel e s : skip_blank s = [] -> lex (S fuel) e s = [].
Proof. intros H. cbn [lex]. rewrite H. reflexivity. Qed.

(* an omitted / empty (or blank) string: no tone signal on that voice, its state is unchanged *)
Theorem play_multi_empty_voice fuel e sts ss evs sts' status w :
  play_multi (S fuel) e sts ss = (evs, sts', status) -> skip_blank (get3 w ss) = [] ->
  proj w evs = [] /\ get3 w sts' = get3 w sts.
Proof.
  intros H Hb. destruct (play_multi_prefix _ _ _ _ _ _ _ H w) as (pre & rest & Hl & Hr).
  rewrite (lex_blank_only _ _ _ Hb) in Hl. destruct pre; [|discriminate].
  simpl in Hr. inversion Hr. split; congruence.
Qed.

(* ---------- the turn order of Sound.play_ gives every voice exactly as many turns as it has commands
   (finite sweep: up to 24 commands per voice; the independence theorems above do not depend on it) ---------- *)
Definition count_turns (v : voice) (l : list voice) : nat := length (filter (voice_eqb v) l).

Definition sched_counts_ok (a b c : nat) : bool :=
  let s := sched (a, b, c) in
  Nat.eqb (count_turns V0 s) a && Nat.eqb (count_turns V1 s) b && Nat.eqb (count_turns V2 s) c.

Lemma sched_counts_sweep :
  forallb (fun a => forallb (fun b => forallb (fun c => sched_counts_ok a b c) (seq 0 25)) (seq 0 25)) (seq 0 25)
  = true.
Proof. vm_compute. reflexivity. Qed.

Theorem sched_complete_bounded a b c : (a < 25)%nat -> (b < 25)%nat -> (c < 25)%nat ->
  count_turns V0 (sched (a, b, c)) = a /\ count_turns V1 (sched (a, b, c)) = b
  /\ count_turns V2 (sched (a, b, c)) = c.
Proof.
  intros Ha Hb Hc. pose proof sched_counts_sweep as H.
  rewrite forallb_forall in H. specialize (H a). rewrite in_seq in H. specialize (H ltac:(lia)).
  rewrite forallb_forall in H. specialize (H b). rewrite in_seq in H. specialize (H ltac:(lia)).
  rewrite forallb_forall in H. specialize (H c). rewrite in_seq in H. specialize (H ltac:(lia)).
  unfold sched_counts_ok in H. apply andb_true_iff in H as [H H3]. apply andb_true_iff in H as [H1 H2].
  apply Nat.eqb_eq in H1, H2, H3. repeat split; assumption.
Qed.
