(* C40: a file that was open when the session was pickled is re-opened with the contents and position it had then,
   whatever was appended to it afterwards (the EOF byte written when the suspended session shut down) *)
From Coq Require Import ZArith List Bool Lia.
From PCB Require Import lib.PyInt model.ReopenFile.
Import ListNotations.
Open Scope Z_scope.

Lemma firstn_exact {A} (c junk : list A) : firstn (length c) (c ++ junk) = c.
Proof. rewrite firstn_app, Nat.sub_diag, firstn_O, app_nil_r. apply firstn_all. Qed.

Lemma zlen_to_nat {A} (c : list A) : Z.to_nat (zlen c) = length c.
Proof. unfold zlen. apply Nat2Z.id. Qed.

(* OUTPUT ('w') and APPEND ('a') files, pickled at their end (tell = length, also 0 for a still empty file) *)
Theorem reopen_written_file has_w has_a c junk : xorb has_w has_a = true ->
  reopen has_w has_a (zlen c) (c ++ junk) = (c, zlen c).
Proof.
  intros Hm. unfold reopen.
  assert (H0 : 0 <= zlen c) by (unfold zlen; lia).
  destruct has_w, has_a; try discriminate; cbn [andb].
  - (* 'w' *)
    destruct (zlen c >? 0) eqn:E.
    + rewrite zlen_to_nat, firstn_exact. reflexivity.
    + assert (Hz : zlen c = 0) by lia. rewrite Hz.
      destruct c; [reflexivity|]. unfold zlen in Hz. simpl in Hz. lia.
  - (* 'a' *)
    assert (E : (zlen c >=? 0) = true) by lia. rewrite E.
    unfold truncate_to. rewrite zlen_to_nat, firstn_exact.
    replace (length c - length (c ++ junk))%nat with O by (rewrite app_length; lia).
    cbn [zeros repeat]. rewrite app_nil_r. reflexivity.
Qed.

(* INPUT / RANDOM files: the file is untouched and the stream is back at its position *)
Theorem reopen_read_file pos disk : 0 <= pos ->
  reopen false false pos disk = (disk, pos).
Proof.
  intros Hp. unfold reopen. cbn [andb]. destruct (pos >? 0) eqn:E; [reflexivity|].
  assert (pos = 0) by lia. subst. reflexivity.
Qed.
