(* C28: what _get_native_name returns (as opposed to which host operations it issues, Paths_proofs.v):
   created names, illegal names, finding a created file again under another capitalisation, FILES entries. *)
From Coq Require Import ZArith List Bool Lia.
From PCB Require Import lib.Result lib.PyInt lib.Harness gen.Gen_dosnames model.DosNames model.Paths
  proofs.DosNames_proofs proofs.Paths_proofs.
Import ListNotations.
Open Scope Z_scope.

Local Arguments firstn : simpl never.

(* ---------- results without traces ---------- *)
Lemma snd_bind {A B} (m : M A) (f : A -> M B) :
  snd (bindM m f) = match snd m with Ok a => snd (f a) | Err e => Err e | Host x => Host x | OutOfFuel => OutOfFuel end.
Proof. unfold bindM. destruct (snd m); reflexivity. Qed.

Definition ist (h : host) (p : npath) (n : str) (d : bool) : bool :=
  if mem 0 n then false else if d then h_isdir h (pjoin p n) else h_isfile h (pjoin p n).

Lemma snd_istype h p n d : snd (istype h p n d) = Ok (ist h p n d).
Proof. unfold istype, ist. destruct (mem 0 n); [reflexivity|]. destruct d; reflexivity. Qed.

(* a directory entry f is a candidate for the normalised DOS name dn *)
Definition cand (h : host) (p : npath) (dn : str) (d : bool) (f : str) : bool :=
  is_ascii f && dos_is_legal_name f && seqb (dos_normalise_name f) dn && ist h p f d.

Lemma snd_scan h p dn d l : snd (scan_names h p dn d l) = Ok (find (cand h p dn d) l).
Proof.
  induction l as [|f r IH]; simpl; [reflexivity|]. unfold cand at 1.
  destruct (is_ascii f && dos_is_legal_name f && seqb (dos_normalise_name f) dn); simpl; [|exact IH].
  rewrite snd_bind, snd_istype. destruct (ist h p f d); [reflexivity | exact IH].
Qed.

Definition d2n_res (h : host) (p : npath) (dn : str) (d : bool) : option str :=
  if negb (is_ascii dn) then None
  else if ist h p dn d then Some dn
  else match h_listdir h p with Ok l => find (cand h p dn d) (sort_str l) | _ => None end.

Lemma snd_d2n h p dn d : snd (dos_to_native_name h p dn d) = Ok (d2n_res h p dn d).
Proof.
  unfold dos_to_native_name, d2n_res. destruct (negb (is_ascii dn)); [reflexivity|].
  rewrite snd_bind, snd_istype. destruct (ist h p dn d); [reflexivity|].
  rewrite snd_bind. simpl. destruct (h_listdir h p); try reflexivity. apply snd_scan.
Qed.

Definition name_err (d : bool) : Z := if d then dn_E_PATH_NOT_FOUND else dn_E_FILE_NOT_FOUND.

Definition core_res (h : host) (p : npath) (n : str) (d create : bool) : res str :=
  if ist h p (to_uni n) d then Ok (to_uni n)
  else if negb (dos_is_legal_name (dos_normalise_name n)) then Err dn_E_BAD_FILE_NAME
  else match d2n_res h p (dos_normalise_name n) d with
       | Some (c :: f) => Ok (c :: f)
       | _ => if create then Ok (dos_normalise_name n) else Err (name_err d)
       end.

Lemma snd_core h p n d create : snd (native_name_core h p n d create) = core_res h p n d create.
Proof.
  unfold native_name_core, core_res. rewrite snd_bind, snd_istype.
  destruct (ist h p (to_uni n) d); [reflexivity|].
  destruct (negb (dos_is_legal_name (dos_normalise_name n))); [reflexivity|].
  rewrite snd_bind, snd_d2n. destruct (d2n_res h p (dos_normalise_name n) d) as [[|c f]|]; destruct create; reflexivity.
Qed.

(* the name the lookup is based on: a trailing single dot is dropped *)
Definition base_name (m : str) : str := if ends_single_dot m then removelast m else m.

Definition gnn_res (h : host) (p : npath) (n defext : str) (d create : bool) : res str :=
  if negb (seqb n (lstrip n)) then Err (name_err d)
  else
    let m := defext_name n defext in
    if bad_component m then Err (name_err d)
    else if ends_single_dot m then
      (if ist h p (to_uni m) d then Ok (to_uni m) else core_res h p (removelast m) d create)
    else core_res h p m d create.

Lemma snd_gnn h p n defext d create : snd (get_native_name h p n defext d create) = gnn_res h p n defext d create.
Proof.
  unfold get_native_name, gnn_res, name_err. destruct (negb (seqb n (lstrip n))); [destruct d; reflexivity|].
  destruct (bad_component (defext_name n defext)); [destruct d; reflexivity|].
  destruct (ends_single_dot (defext_name n defext)); [|apply snd_core].
  rewrite snd_bind, snd_istype. destruct (ist h p (to_uni (defext_name n defext)) d); [reflexivity | apply snd_core].
Qed.

(* ---------- which branch produced a result ---------- *)
Lemma find_cand_ist h p dn d l f : find (cand h p dn d) l = Some f -> ist h p f d = true.
Proof.
  intro H. apply find_some in H as [_ H]. unfold cand in H. apply andb_true_iff in H as [_ H]. exact H.
Qed.

Lemma d2n_ist h p dn d f : d2n_res h p dn d = Some f -> ist h p f d = true.
Proof.
  unfold d2n_res. destruct (negb (is_ascii dn)); [discriminate|].
  destruct (ist h p dn d) eqn:E; [intro H; inversion H; subst; exact E|].
  destruct (h_listdir h p); try discriminate. apply find_cand_ist.
Qed.

(* a result that is not an existing object is the freshly made upper-case 8.3 name *)
Lemma core_created h p n d create c : core_res h p n d create = Ok c -> ist h p c d = false ->
  c = dos_normalise_name n /\ dos_is_legal_name c = true /\ create = true /\
  (d2n_res h p (dos_normalise_name n) d = None \/ d2n_res h p (dos_normalise_name n) d = Some []).
Proof.
  unfold core_res. intros H N.
  destruct (ist h p (to_uni n) d) eqn:E1; [inversion H; subst; congruence|].
  destruct (dos_is_legal_name (dos_normalise_name n)) eqn:L; simpl in H; [|discriminate].
  destruct (d2n_res h p (dos_normalise_name n) d) as [[|x f]|] eqn:E2.
  - destruct create; inversion H; subst. tauto.
  - inversion H; subst. apply d2n_ist in E2. congruence.
  - destruct create; inversion H; subst. tauto.
Qed.

Theorem created_upper h p n defext d create c :
  snd (get_native_name h p n defext d create) = Ok c -> ist h p c d = false ->
  c = dos_normalise_name (base_name (defext_name n defext)) /\
  dos_is_legal_name c = true /\ upper c = c /\ create = true.
Proof.
  rewrite snd_gnn. unfold gnn_res, base_name. intros H N.
  destruct (negb (seqb n (lstrip n))); [discriminate|].
  destruct (bad_component (defext_name n defext)); [discriminate|].
  destruct (ends_single_dot (defext_name n defext)).
  - destruct (ist h p (to_uni (defext_name n defext)) d) eqn:E; [inversion H; subst; congruence|].
    destruct (core_created _ _ _ _ _ _ H N) as (A & B & C & _). subst c. repeat split; try assumption. apply upper_normalise.
  - destruct (core_created _ _ _ _ _ _ H N) as (A & B & C & _). subst c. repeat split; try assumption. apply upper_normalise.
Qed.

(* a name whose normalisation is not legal is refused with Bad file name unless it exists exactly as given *)
Theorem illegal_core h p n d create : ist h p (to_uni n) d = false ->
  dos_is_legal_name (dos_normalise_name n) = false ->
  snd (native_name_core h p n d create) = Err dn_E_BAD_FILE_NAME.
Proof. intros H1 H2. rewrite snd_core. unfold core_res. rewrite H1, H2. reflexivity. Qed.

Theorem ok_is_exact_or_legal h p n defext d create c :
  snd (get_native_name h p n defext d create) = Ok c ->
  let m := defext_name n defext in
  (ist h p c d = true /\ (c = to_uni m \/ c = to_uni (base_name m)))
  \/ dos_is_legal_name (dos_normalise_name (base_name m)) = true.
Proof.
  rewrite snd_gnn. unfold gnn_res, base_name. intro H. simpl.
  destruct (negb (seqb n (lstrip n))); [discriminate|].
  destruct (bad_component (defext_name n defext)); [discriminate|].
  assert (G : forall b, core_res h p b d create = Ok c ->
              (ist h p c d = true /\ c = to_uni b) \/ dos_is_legal_name (dos_normalise_name b) = true).
  { intros b Hb. unfold core_res in Hb. destruct (ist h p (to_uni b) d) eqn:E; [inversion Hb; subst; left; tauto|].
    destruct (dos_is_legal_name (dos_normalise_name b)); [right; reflexivity | discriminate]. }
  destruct (ends_single_dot (defext_name n defext)).
  - destruct (ist h p (to_uni (defext_name n defext)) d) eqn:E; [inversion H; subst; left; tauto|].
    destruct (G _ H) as [[A B]|A]; [left; tauto | right; exact A].
  - destruct (G _ H) as [[A B]|A]; [left; tauto | right; exact A].
Qed.

Theorem illegal_name h p n defext d create :
  let m := defext_name n defext in
  dos_is_legal_name (dos_normalise_name (base_name m)) = false ->
  ist h p (to_uni m) d = false -> ist h p (to_uni (base_name m)) d = false ->
  snd (get_native_name h p n defext d create) = Err dn_E_BAD_FILE_NAME
  \/ snd (get_native_name h p n defext d create) = Err (name_err d).
Proof.
  simpl. rewrite snd_gnn. unfold gnn_res, base_name. intros L E1 E2.
  destruct (negb (seqb n (lstrip n))); [right; reflexivity|].
  destruct (bad_component (defext_name n defext)); [right; reflexivity|].
  destruct (ends_single_dot (defext_name n defext)).
  - rewrite E1. left. unfold core_res. rewrite E2, L. reflexivity.
  - left. unfold core_res. rewrite E2, L. reflexivity.
Qed.

(* ---------- blanks ---------- *)
Lemma lstrip_head s c r : lstrip s = c :: r -> is_ws c = false.
Proof.
  induction s as [|x s IH]; simpl; [discriminate|].
  destruct (is_ws x) eqn:E; [exact IH | intro H; inversion H; subst; exact E].
Qed.

Lemma lstrip_snoc a c : is_ws c = false -> lstrip (a ++ [c]) = lstrip a ++ [c].
Proof.
  intro H. induction a as [|x a IH]; simpl; [rewrite H; reflexivity|].
  destruct (is_ws x); [exact IH | reflexivity].
Qed.

Lemma rstrip_cons c r : is_ws c = false -> rstrip (c :: r) = c :: rstrip r.
Proof.
  intro H. unfold rstrip. simpl. rewrite lstrip_snoc by exact H. rewrite rev_app_distr. reflexivity.
Qed.

Lemma strip_first s c r : s = strip s -> s = c :: r -> is_ws c = false.
Proof.
  unfold strip. intros H E. destruct (lstrip s) as [|x u] eqn:U.
  - unfold rstrip in H. simpl in H. congruence.
  - pose proof (lstrip_head _ _ _ U) as W. rewrite rstrip_cons in H by exact W. rewrite H in E. inversion E; subst. exact W.
Qed.

Lemma strip_last s r c : s = strip s -> s = r ++ [c] -> is_ws c = false.
Proof.
  unfold strip, rstrip. intros H E. apply (f_equal (@rev Z)) in H. rewrite rev_involutive in H.
  rewrite E, rev_app_distr in H. simpl in H. symmetry in H. apply lstrip_head in H. exact H.
Qed.

Lemma lstrip_nonws c r : is_ws c = false -> lstrip (c :: r) = c :: r.
Proof. intro H. simpl. rewrite H. reflexivity. Qed.

Lemma rstrip_nonws r c : is_ws c = false -> rstrip (r ++ [c]) = r ++ [c].
Proof.
  intro H. unfold rstrip. rewrite rev_app_distr. simpl. rewrite H. simpl. rewrite rev_involutive. reflexivity.
Qed.

Lemma last_split {A} (l : list A) : l = [] \/ exists r c, l = r ++ [c].
Proof.
  destruct l as [|a l]; [left; reflexivity|]. right.
  destruct (@exists_last A (a :: l)) as [r [c E]]; [discriminate|]. exists r, c. exact E.
Qed.

(* a legal name (other than "", ".", "..") has neither leading nor trailing blanks *)
Lemma legal_no_blanks n : n <> [] -> is_special n = false -> dos_is_legal_name n = true ->
  lstrip n = n /\ rstrip n = n.
Proof.
  intros Hne Hs HL. pose proof (legal_parts n Hs HL) as P. unfold dos_splitext in P.
  pose proof (split_first_spec c_dot n) as S.
  destruct (split_first c_dot n) as [t oe]. destruct P as (_ & _ & Pt & Pe & _ & _).
  assert (Wdot : is_ws c_dot = false) by reflexivity.
  split.
  - destruct t as [|c t'].
    + destruct oe as [e|]; destruct S as [S _]; subst n; [apply lstrip_nonws, Wdot | contradiction].
    + assert (W : is_ws c = false) by (eapply strip_first; [exact Pt | reflexivity]).
      destruct oe as [e|]; destruct S as [S _]; subst n; apply lstrip_nonws, W.
  - destruct oe as [e|]; destruct S as [S _]; subst n.
    + destruct (last_split e) as [E|[r [c E]]]; subst e.
      * change (t ++ [c_dot]) with (t ++ [c_dot]). apply rstrip_nonws, Wdot.
      * assert (W : is_ws c = false) by (eapply strip_last; [exact Pe | reflexivity]).
        replace (t ++ c_dot :: r ++ [c]) with ((t ++ c_dot :: r) ++ [c]) by (rewrite <- app_assoc; reflexivity).
        apply rstrip_nonws, W.
    + destruct (last_split t) as [E|[r [c E]]]; subst t; [contradiction|].
      assert (W : is_ws c = false) by (eapply strip_last; [exact Pt | reflexivity]).
      apply rstrip_nonws, W.
Qed.

(* a legal name consists of printable ASCII without separators *)
Lemma legal_plain n : is_special n = false -> dos_is_legal_name n = true ->
  is_ascii n = true /\ to_uni n = n /\ mem 0 n = false /\ mem c_slash n = false /\ mem c_bslash n = false.
Proof.
  intros Hs HL.
  assert (R : forall c, In c n -> 32 <= c < 127 /\ c <> c_slash /\ c <> c_bslash).
  { intros c I. destruct (legal_chars n c Hs HL I) as [A|A].
    - apply allowable_not in A. tauto.
    - subst c. unfold c_dot, c_slash, c_bslash. lia. }
  repeat split.
  - unfold is_ascii. apply forallb_forall. intros c I. destruct (R c I) as [[A B] _].
    apply andb_true_iff. split; [apply Z.leb_le | apply Z.ltb_lt]; lia.
  - apply to_uni_ascii. intros c I. apply R, I.
  - apply mem_not_In. intro I. apply R in I. lia.
  - apply mem_not_In. intro I. apply R in I. tauto.
  - apply mem_not_In. intro I. apply R in I. tauto.
Qed.

Lemma legal_not_bad n : n <> [] -> is_special n = false -> dos_is_legal_name n = true -> bad_component n = false.
Proof.
  intros Hne Hs HL. destruct (legal_plain n Hs HL) as (_ & _ & _ & A & B).
  unfold bad_component. rewrite Hs, A, B. apply seqb_neq in Hne. rewrite Hne. reflexivity.
Qed.

(* ---------- trailing single dot ---------- *)
Lemma upper_rev s : upper (rev s) = rev (upper s).
Proof. unfold upper. apply map_rev. Qed.

Lemma mem_upper_dot s : mem c_dot (upper s) = mem c_dot s.
Proof.
  destruct (mem c_dot s) eqn:E.
  - apply mem_In. apply mem_In in E. apply upper_In_fix; [unfold c_dot; lia | unfold c_dot; lia | exact E].
  - apply mem_not_In. apply mem_not_In in E. intro I. apply E. apply (upper_In_nonletter c_dot); [unfold c_dot; lia | exact I].
Qed.

Lemma ends_single_dot_upper s : ends_single_dot (upper s) = ends_single_dot s.
Proof.
  unfold ends_single_dot. rewrite <- upper_rev. destruct (rev s) as [|c r]; [reflexivity|].
  simpl. fold (upper r). rewrite mem_upper_dot. f_equal.
  destruct (c =? c_dot) eqn:E.
  - apply Z.eqb_eq in E. subst. reflexivity.
  - apply Z.eqb_neq. intro H. apply upc_nonletter in H; [|unfold c_dot; lia]. apply Z.eqb_neq in E. contradiction.
Qed.

Lemma upper_removelast s : upper (removelast s) = removelast (upper s).
Proof.
  induction s as [|c [|d r] IH]; [reflexivity | reflexivity|].
  change (removelast (c :: d :: r)) with (c :: removelast (d :: r)).
  change (upper (c :: d :: r)) with (upc c :: upper (d :: r)).
  change (upper (c :: removelast (d :: r))) with (upc c :: upper (removelast (d :: r))). rewrite IH.
  simpl. reflexivity.
Qed.

Lemma base_name_upper a b : upper a = upper b -> upper (base_name a) = upper (base_name b).
Proof.
  intro H. unfold base_name. rewrite <- (ends_single_dot_upper a), <- (ends_single_dot_upper b), H.
  destruct (ends_single_dot (upper b)); [rewrite !upper_removelast, H; reflexivity | exact H].
Qed.

Lemma snoc_dot_not_special r : r <> [] -> ~ In c_dot r -> is_special (r ++ [c_dot]) = false.
Proof.
  intros Hne Hnd. apply is_special_false. split; intro H; apply (f_equal (@rev Z)) in H;
    rewrite rev_app_distr in H; simpl in H; injection H as H.
  - apply (f_equal (@rev Z)) in H. rewrite rev_involutive in H. simpl in H. contradiction.
  - apply Hnd. apply in_rev. rewrite H. left. reflexivity.
Qed.

(* "NAME." and "NAME" have the same normalised name, and one is legal iff the other is *)
Lemma norm_trailing_dot r : r <> [] -> ~ In c_dot r ->
  dos_normalise_name (r ++ [c_dot]) = dos_normalise_name r.
Proof.
  intros Hne Hnd.
  assert (S1 : is_special (r ++ [c_dot]) = false) by (apply snoc_dot_not_special; assumption).
  assert (S2 : is_special r = false).
  { apply is_special_false. split; intro H; subst r; apply Hnd; left; reflexivity. }
  assert (U : ~ In c_dot (upper r)) by (intro I; apply Hnd; apply (upper_In_nonletter c_dot); [unfold c_dot; lia | exact I]).
  unfold dos_normalise_name. rewrite S1, S2. unfold dos_splitext.
  rewrite upper_app. change (upper [c_dot]) with [c_dot].
  rewrite (split_first_some c_dot (upper r) [] U), (split_first_none c_dot (upper r) U).
  reflexivity.
Qed.

Lemma legal_trailing_dot r : r <> [] -> ~ In c_dot r ->
  dos_is_legal_name (r ++ [c_dot]) = true -> dos_is_legal_name r = true.
Proof.
  intros Hne Hnd H.
  assert (S1 : is_special (r ++ [c_dot]) = false) by (apply snoc_dot_not_special; assumption).
  assert (S2 : is_special r = false).
  { apply is_special_false. split; intro X; subst r; apply Hnd; left; reflexivity. }
  unfold dos_is_legal_name in *. rewrite S1 in H. rewrite S2. unfold dos_splitext in *.
  rewrite (split_first_some c_dot r [] Hnd) in H. rewrite (split_first_none c_dot r Hnd). exact H.
Qed.

Lemma base_name_facts m : m <> [] -> is_special m = false -> dos_is_legal_name m = true ->
  base_name m <> [] /\ is_special (base_name m) = false /\ dos_is_legal_name (base_name m) = true /\
  dos_normalise_name (base_name m) = dos_normalise_name m.
Proof.
  intros Hne Hs HL. unfold base_name. destruct (ends_single_dot m) eqn:E; [|tauto].
  apply ends_single_dot_spec in E as [r [Er Hr]]. subst m. rewrite removelast_snoc.
  assert (Rne : r <> []) by (intro X; subst r; apply is_special_false in Hs; simpl in Hs; unfold s_dot, c_dot in Hs; tauto).
  repeat split.
  - exact Rne.
  - apply is_special_false. split; intro X; subst r; apply Hr; left; reflexivity.
  - apply legal_trailing_dot; assumption.
  - symmetry. apply norm_trailing_dot; assumption.
Qed.

(* ---------- found again ---------- *)
Section FoundAgain.
Variables h h' : host.
Variable p : npath.
Variable l l' : list str.
Variable defext : str.             (* [] for data files, BAS for program files *)
Variables w w' c : str.            (* the names as written in the statements *)
(* no leading blanks; n, n' := the names after stripping trailing blanks and applying the default extension *)
Hypothesis Hlead : seqb w (lstrip w) = true.
Hypothesis Hlead' : seqb w' (lstrip w') = true.
Let n := defext_name w defext.
Let n' := defext_name w' defext.
(* the name given at creation and the name used later: legal DOS names equal up to letter case *)
Hypothesis Hne : n <> [].
Hypothesis Hs : is_special n = false.
Hypothesis HL : dos_is_legal_name n = true.
Hypothesis HL' : dos_is_legal_name n' = true.
Hypothesis Hcase : upper n' = upper n.
(* creation: resolution with create = true returned c, which did not exist before *)
Hypothesis Hcreated : snd (get_native_name h p w defext false true) = Ok c.
Hypothesis Hnew : h_isfile h (pjoin p c) = false.
(* FS contract: the directory listing shows the files, and after creation exactly c has been added *)
Hypothesis Hlist : h_listdir h p = Ok l.
Hypothesis Hshown : forall x, h_isfile h (pjoin p x) = true -> In x l.
Hypothesis Hlist' : h_listdir h' p = Ok l'.
Hypothesis Hfile' : forall x, h_isfile h' (pjoin p x) = h_isfile h (pjoin p x) || seqb x c.

Lemma fa_special' : is_special n' = false.
Proof. rewrite <- upper_special, Hcase, upper_special. exact Hs. Qed.
Lemma fa_ne' : n' <> [].
Proof. intro X. rewrite X in Hcase. simpl in Hcase. symmetry in Hcase. apply upper_nil in Hcase. contradiction. Qed.

Theorem found_again_ext : snd (get_native_name h' p w' defext false false) = Ok c.
Proof.
  pose proof fa_special' as Hs'. pose proof fa_ne' as Hne'.
  (* creation *)
  assert (Nist : ist h p c false = false) by (unfold ist; destruct (mem 0 c); [reflexivity | exact Hnew]).
  pose proof Hcreated as Hc. rewrite snd_gnn in Hc. unfold gnn_res in Hc.
  rewrite Hlead in Hc. simpl in Hc. fold n in Hc.
  rewrite (legal_not_bad n Hne Hs HL) in Hc.
  destruct (base_name_facts n Hne Hs HL) as (Bne & Bs & BL & Bn).
  destruct (base_name_facts n' Hne' Hs' HL') as (Bne' & Bs' & BL' & Bn').
  assert (Hcore : core_res h p (base_name n) false true = Ok c).
  { unfold base_name in *. destruct (ends_single_dot n); [|exact Hc].
    destruct (ist h p (to_uni n) false) eqn:E; [inversion Hc; subst; congruence | exact Hc]. }
  destruct (core_created _ _ _ _ _ _ Hcore Nist) as (Ec & Lc & _ & Hd2n).
  set (dn := dos_normalise_name (base_name n)) in *.
  assert (Edn' : dos_normalise_name (base_name n') = dn).
  { unfold dn. apply normalise_case. apply base_name_upper. exact Hcase. }
  assert (Cs : is_special c = false) by (rewrite Ec; unfold dn; apply norm_not_special; exact Bs).
  destruct (legal_plain c Cs Lc) as (Ca & Cu & C0 & _ & _).
  assert (Csafe : c <> []).
  { rewrite Ec. unfold dn. apply (safe_norm (base_name n) Bne Bs). fold dn. rewrite <- Ec. exact Lc. }
  (* no listed file was a candidate for dn when c was created *)
  assert (Hnocand : forall f, In f l -> cand h p dn false f = false).
  { unfold d2n_res in Hd2n. rewrite <- Ec in Hd2n. rewrite Ca in Hd2n. simpl in Hd2n. rewrite Nist, Hlist in Hd2n.
    intros f I. rewrite <- Ec. destruct Hd2n as [N|N].
    - apply (find_none _ _ N). apply sort_by_In. exact I.
    - apply find_some in N as [_ N]. unfold cand in N.
      apply andb_true_iff in N as [N _]. apply andb_true_iff in N as [_ N]. apply seqb_eq in N.
      change (dos_normalise_name []) with (@nil Z) in N. symmetry in N. contradiction. }
  (* an exactly matching other file cannot exist *)
  assert (Hexact : forall x, dos_is_legal_name x = true -> is_special x = false -> dos_normalise_name x = dn ->
                             h_isfile h (pjoin p x) = true -> False).
  { intros x Lx Sx Nx Fx. destruct (legal_plain x Sx Lx) as (Xa & _ & X0 & _ & _).
    pose proof (Hnocand x (Hshown x Fx)) as K. unfold cand, ist in K.
    rewrite Xa, Lx, Nx, seqb_refl, X0, Fx in K. discriminate. }
  assert (Hist' : forall x, dos_is_legal_name x = true -> is_special x = false -> dos_normalise_name x = dn ->
                            ist h' p x false = seqb x c).
  { intros x Lx Sx Nx. destruct (legal_plain x Sx Lx) as (_ & _ & X0 & _ & _).
    unfold ist. rewrite X0, Hfile'. destruct (h_isfile h (pjoin p x)) eqn:F; [exfalso; eapply Hexact; eassumption | reflexivity]. }
  (* lookup *)
  rewrite snd_gnn. unfold gnn_res. rewrite Hlead'. simpl. fold n'.
  rewrite (legal_not_bad n' Hne' Hs' HL').
  destruct (legal_plain n' Hs' HL') as (_ & Un' & _ & _ & _).
  destruct (legal_plain (base_name n') Bs' BL') as (_ & Ub' & _ & _ & _).
  assert (Hcore' : core_res h' p (base_name n') false false = Ok c).
  { unfold core_res. rewrite Ub', (Hist' _ BL' Bs' Edn').
    destruct (seqb (base_name n') c) eqn:E; [apply seqb_eq in E; rewrite E; reflexivity|].
    rewrite Edn'. rewrite Ec in Lc. rewrite Lc. simpl.
    unfold d2n_res. rewrite Ec in Ca. rewrite Ca. simpl.
    assert (I1 : ist h' p dn false = true).
    { unfold ist. rewrite Ec in C0. rewrite C0, Hfile'. rewrite <- Ec, seqb_refl. apply orb_true_r. }
    rewrite I1. rewrite <- Ec. destruct c; [contradiction | reflexivity]. }
  unfold base_name in Hcore', Edn', BL', Bs'. destruct (ends_single_dot n') eqn:E; [|exact Hcore'].
  rewrite Un'. rewrite (Hist' n' HL' Hs').
  - destruct (seqb n' c) eqn:X; [apply seqb_eq in X; rewrite X; reflexivity | exact Hcore'].
  - rewrite <- Edn'. apply ends_single_dot_spec in E as [r [Er Hr]]. rewrite Er, removelast_snoc.
    apply norm_trailing_dot; [|exact Hr].
    intro Z0. subst r. simpl in Er. subst n'. apply is_special_false in Hs'. unfold s_dot, c_dot in Hs'. tauto.
Qed.
End FoundAgain.

(* upper-casing commutes with blank stripping and with the default extension *)
Lemma is_ws_upc c : is_ws (upc c) = is_ws c.
Proof.
  unfold is_ws, upc. destruct ((97 <=? c) && (c <=? 122)) eqn:Q; [|reflexivity].
  apply andb_true_iff in Q as [Q1 Q2]. apply Z.leb_le in Q1, Q2.
  replace (c - 32 =? 32) with false by (symmetry; apply Z.eqb_neq; lia).
  replace (c =? 32) with false by (symmetry; apply Z.eqb_neq; lia).
  replace (c - 32 <=? 13) with false by (symmetry; apply Z.leb_gt; lia).
  replace (c <=? 13) with false by (symmetry; apply Z.leb_gt; lia).
  rewrite !andb_false_r. reflexivity.
Qed.

Lemma upper_lstrip s : upper (lstrip s) = lstrip (upper s).
Proof.
  induction s as [|c s IH]; [reflexivity|]. simpl. rewrite is_ws_upc. destruct (is_ws c); [exact IH | reflexivity].
Qed.

Lemma upper_rstrip s : upper (rstrip s) = rstrip (upper s).
Proof. unfold rstrip. rewrite upper_rev, upper_lstrip, upper_rev. reflexivity. Qed.

Lemma upper_defext a b d : upper a = upper b -> upper (defext_name a d) = upper (defext_name b d).
Proof.
  intro H. unfold defext_name.
  assert (R : upper (rstrip a) = upper (rstrip b)) by (rewrite !upper_rstrip, H; reflexivity).
  assert (M : mem c_dot (rstrip a) = mem c_dot (rstrip b)) by (rewrite <- (mem_upper_dot (rstrip a)), <- (mem_upper_dot (rstrip b)), R; reflexivity).
  destruct d as [|x d]; [exact R|]. rewrite M. destruct (mem c_dot (rstrip b)); [exact R|].
  rewrite !upper_app, R. reflexivity.
Qed.

Lemma lstrip_same_case a b : upper a = upper b -> seqb a (lstrip a) = true -> seqb b (lstrip b) = true.
Proof.
  intros H E. apply seqb_eq in E. apply seqb_eq.
  destruct b as [|y b']; [reflexivity|]. destruct a as [|x a']; [discriminate|].
  simpl in H. injection H as Hx _. simpl in E. simpl.
  destruct (is_ws x) eqn:W.
  - exfalso. assert (Len : (length (lstrip a') <= length a')%nat).
    { clear. induction a' as [|z a IH]; simpl; [lia|]. destruct (is_ws z); simpl; lia. }
    rewrite <- E in Len. simpl in Len. lia.
  - rewrite <- (is_ws_upc y), <- Hx, is_ws_upc, W. reflexivity.
Qed.

(* data files: the names themselves are legal DOS names *)
Theorem found_again (h h' : host) p l n n' c :
  n <> [] -> is_special n = false -> dos_is_legal_name n = true -> dos_is_legal_name n' = true ->
  upper n' = upper n ->
  snd (get_native_name h p n [] false true) = Ok c -> h_isfile h (pjoin p c) = false ->
  h_listdir h p = Ok l -> (forall x, h_isfile h (pjoin p x) = true -> In x l) ->
  (forall x, h_isfile h' (pjoin p x) = h_isfile h (pjoin p x) || seqb x c) ->
  snd (get_native_name h' p n' [] false false) = Ok c.
Proof.
  intros Hne Hs HL HL' Hcase Hc Hnew Hl Hshown Hfile'.
  assert (Hs' : is_special n' = false) by (rewrite <- upper_special, Hcase, upper_special; exact Hs).
  assert (Hne' : n' <> []) by (intro X; subst n'; simpl in Hcase; symmetry in Hcase; apply upper_nil in Hcase; contradiction).
  destruct (legal_no_blanks n Hne Hs HL) as [LS RS]. destruct (legal_no_blanks n' Hne' Hs' HL') as [LS' RS'].
  apply (found_again_ext h h' p l [] n n' c); rewrite ?defext_none, ?RS, ?RS', ?LS, ?LS'; try assumption; apply seqb_refl.
Qed.

(* program files (LOAD, SAVE, RUN, CHAIN, MERGE, BLOAD, BSAVE: default extension BAS): the names as written
   differ only in letter case; what must be a legal DOS name is the name with the extension applied
   (PROG -> PROG.BAS, PROG. -> PROG., prog.bas -> prog.bas) *)
Theorem found_again_bas (h h' : host) p l r r' c :
  seqb r (lstrip r) = true -> upper r' = upper r ->
  defext_name r s_BAS <> [] -> is_special (defext_name r s_BAS) = false ->
  dos_is_legal_name (defext_name r s_BAS) = true -> dos_is_legal_name (defext_name r' s_BAS) = true ->
  snd (get_native_name h p r s_BAS false true) = Ok c -> h_isfile h (pjoin p c) = false ->
  h_listdir h p = Ok l -> (forall x, h_isfile h (pjoin p x) = true -> In x l) ->
  (forall x, h_isfile h' (pjoin p x) = h_isfile h (pjoin p x) || seqb x c) ->
  snd (get_native_name h' p r' s_BAS false false) = Ok c.
Proof.
  intros Hlead Hcase Hne Hs HL HL' Hc Hnew Hl Hshown Hfile'.
  apply (found_again_ext h h' p l s_BAS r r' c); try assumption.
  - apply (lstrip_same_case r r'); [symmetry; exact Hcase | exact Hlead].
  - apply upper_defext. exact Hcase.
Qed.


(* ---------- FILES entries ---------- *)
Lemma find_first_unique {A} (f : A -> bool) l x : In x l -> f x = true ->
  (forall y, In y l -> f y = true -> y = x) -> find f l = Some x.
Proof.
  induction l as [|z r IH]; simpl; intros I F U; [contradiction|].
  destruct (f z) eqn:E.
  - f_equal. apply U; [left; reflexivity | exact E].
  - destruct I as [I|I]; [subst; congruence|]. apply IH; [exact I | exact F | intros y Iy; apply U; right; exact Iy].
Qed.

Lemma display_legal f : is_ascii f = true -> dos_is_legal_name f = true -> display_name f = dos_normalise_name f.
Proof. intros A L. unfold display_name. rewrite A, L. reflexivity. Qed.

(* the extension part of a legal name has no dot, so its normalised form does not end in a dot *)
Lemma legal_norm_legal f : is_special f = false -> dos_is_legal_name f = true ->
  dos_is_legal_name (dos_normalise_name f) = true.
Proof.
  intros Hs HL. pose proof (legal_parts f Hs HL) as P.
  pose proof (norm_not_special f Hs) as Ns.
  unfold dos_is_legal_name. rewrite Ns. rewrite normalise_parts by exact Hs.
  rewrite splitext_parts by apply norm_parts_nodot.
  unfold norm_parts. unfold dos_splitext in *. rewrite split_first_upper.
  destruct (split_first c_dot f) as [t oe]. simpl.
  destruct P as (P1 & P2 & P3 & P4 & P5 & P6).
  set (e := match oe with Some e => e | None => [] end) in *.
  assert (Ee : match option_map upper oe with Some e0 => e0 | None => [] end = upper e) by (destruct oe; reflexivity).
  rewrite Ee.
  assert (F8 : firstn 8 (upper t) = upper t) by (apply firstn_all2; unfold upper; rewrite map_length; exact P1).
  assert (F3 : firstn 3 (upper e) = upper e) by (apply firstn_all2; unfold upper; rewrite map_length; exact P2).
  rewrite F8, F3.
  assert (Au : forall s, (forall c, In c s -> allowable c = true) -> forallb allowable (upper s) = true).
  { intros s Hall. apply forallb_forall. intros c I. unfold upper in I. apply in_map_iff in I as [x [Ex Ix]]. subst c.
    specialize (Hall x Ix).
    assert (T : forallb (fun x => allowable (upc x)) dn_allowable = true) by (vm_compute; reflexivity).
    rewrite forallb_forall in T. apply T. apply mem_In. exact Hall. }
  assert (Su : forall s, s = strip s -> (forall c, In c s -> allowable c = true) -> upper s = strip (upper s)).
  { intros s Hst Hall. destruct s as [|c s']; [reflexivity|].
    assert (W1 : is_ws (upc c) = false).
    { pose proof (strip_first _ _ _ Hst eq_refl) as W. unfold is_ws, upc in *.
      destruct ((97 <=? c) && (c <=? 122)) eqn:Q; [|exact W].
      apply andb_true_iff in Q as [Q1 Q2]. apply Z.leb_le in Q1, Q2.
      apply orb_false_iff. split; [apply Z.eqb_neq; lia | apply andb_false_iff; right; apply Z.leb_gt; lia]. }
    destruct (last_split (c :: s')) as [X|[r [z X]]]; [discriminate|].
    assert (W2 : is_ws (upc z) = false).
    { pose proof (strip_last _ _ _ Hst X) as W. unfold is_ws, upc in *.
      destruct ((97 <=? z) && (z <=? 122)) eqn:Q; [|exact W].
      apply andb_true_iff in Q as [Q1 Q2]. apply Z.leb_le in Q1, Q2.
      apply orb_false_iff. split; [apply Z.eqb_neq; lia | apply andb_false_iff; right; apply Z.leb_gt; lia]. }
    unfold strip. change (upper (c :: s')) with (upc c :: upper s') at 2. rewrite lstrip_nonws by exact W1.
    change (upc c :: upper s') with (upper (c :: s')). rewrite X, upper_app. simpl. symmetry. apply rstrip_nonws, W2. }
  unfold upper at 1 2. rewrite !map_length.
  apply Nat.leb_le in P1. apply Nat.leb_le in P2. rewrite P1, P2. simpl.
  rewrite <- (Su t P3 P5), <- (Su e P4 P6), !seqb_refl. simpl.
  rewrite (Au t P5), (Au e P6). reflexivity.
Qed.

Section FilesEntry.
Variable h : host.
Variable p : npath.
Variable l : list str.
Variable f : str.
Hypothesis Hlist : h_listdir h p = Ok l.
Hypothesis Hin : In f l.
Hypothesis Hfile : h_isfile h (pjoin p f) = true.
Hypothesis Hshown : forall x, h_isfile h (pjoin p x) = true -> In x l.
Hypothesis Hne : f <> [].
Hypothesis Hs : is_special f = false.
(* the entry FILES shows for f is a legal DOS name *)
Hypothesis Ha : is_ascii f = true.
Hypothesis HL : dos_is_legal_name f = true.
(* no other file of the directory is shown under the same entry *)
Hypothesis Huniq : forall g, In g l -> h_isfile h (pjoin p g) = true -> display_name g = display_name f -> g = f.

Theorem files_entry_opens : snd (get_native_name h p (display_name f) [] false false) = Ok f.
Proof.
  rewrite display_legal by assumption. set (dn := dos_normalise_name f).
  assert (Ds : is_special dn = false) by (apply norm_not_special; exact Hs).
  assert (DL : dos_is_legal_name dn = true) by (apply legal_norm_legal; assumption).
  assert (Dne : dn <> []) by (apply (safe_norm f Hne Hs DL)).
  destruct (legal_no_blanks dn Dne Ds DL) as [LS RS].
  destruct (legal_plain dn Ds DL) as (Da & Du & D0 & _ & _).
  destruct (legal_plain f Hs HL) as (_ & _ & F0 & _ & _).
  assert (Dn : dos_normalise_name dn = dn) by apply normalise_idempotent.
  assert (Dd : display_name dn = display_name f).
  { rewrite (display_legal dn Da DL), (display_legal f Ha HL). exact Dn. }
  (* dn does not end in a dot: its extension part, if any, is not empty and has no dot *)
  assert (Hesd : ends_single_dot dn = false).
  { destruct (ends_single_dot dn) eqn:E; [|reflexivity]. exfalso.
    apply ends_single_dot_spec in E as [r [Er Hr]].
    pose proof (legal_norm_parts f Hs DL) as [_ Pe].
    unfold dn in Er. rewrite normalise_parts in Er by exact Hs.
    destruct (snd (norm_parts f)) as [|x e] eqn:Q.
    - simpl in Er. rewrite app_nil_r in Er. apply (norm_parts_nodot f). rewrite Er. apply in_or_app. right. left. reflexivity.
    - destruct (last_split (x :: e)) as [X|[r' [z X]]]; [discriminate|].
      unfold dot_ext in Er. rewrite X in Er.
      replace (fst (norm_parts f) ++ c_dot :: r' ++ [z]) with ((fst (norm_parts f) ++ c_dot :: r') ++ [z]) in Er
        by (rewrite <- app_assoc; reflexivity).
      apply app_inj_tail in Er as [_ Ez]. subst z.
      assert (A : allowable c_dot = true) by (apply Pe; rewrite X; apply in_or_app; right; left; reflexivity).
      vm_compute in A. discriminate. }
  rewrite snd_gnn. unfold gnn_res. rewrite defext_none, RS, LS, seqb_refl. simpl.
  rewrite (legal_not_bad dn Dne Ds DL), Hesd.
  unfold core_res. rewrite Du.
  destruct (ist h p dn false) eqn:E.
  - (* the upper-case 8.3 name itself is a file: by uniqueness it is f *)
    unfold ist in E. rewrite D0 in E. f_equal. apply Huniq; [apply Hshown, E | exact E | exact Dd].
  - rewrite Dn, DL. simpl. unfold d2n_res. rewrite Da, E, Hlist. simpl.
    assert (Cf : cand h p dn false f = true).
    { unfold cand, ist. rewrite Ha, HL, F0, Hfile. unfold dn. rewrite seqb_refl. reflexivity. }
    rewrite (find_first_unique (cand h p dn false) (sort_str l) f).
    + destruct f; [contradiction | reflexivity].
    + apply sort_by_In. exact Hin.
    + exact Cf.
    + intros g Ig Cg. apply sort_by_In in Ig. unfold cand in Cg.
      apply andb_true_iff in Cg as [Cg G4]. apply andb_true_iff in Cg as [Cg G3].
      apply andb_true_iff in Cg as [G1 G2]. apply seqb_eq in G3.
      unfold ist in G4. destruct (mem 0 g); [discriminate|].
      apply Huniq; [exact Ig | exact G4|]. rewrite (display_legal g G1 G2), (display_legal f Ha HL). exact G3.
Qed.
End FilesEntry.

(* entries carrying the truncation mark + are never legal names (KILL and lookups refuse them) *)
Theorem plus_not_legal s : In 43 s -> is_special s = false -> dos_is_legal_name s = false.
Proof.
  intros I Hs. destruct (dos_is_legal_name s) eqn:L; [|reflexivity].
  destruct (legal_chars s 43 Hs L I) as [A|A]; [vm_compute in A; discriminate | discriminate].
Qed.

(* a display name is either the normalised legal name or is built from the truncated code-page form *)
Theorem display_name_legal_iff f : is_ascii f = true -> dos_is_legal_name f = true ->
  display_name f = dos_normalise_name f /\ upper (display_name f) = display_name f.
Proof. intros A L. rewrite display_legal by assumption. split; [reflexivity | apply upper_normalise]. Qed.

(* ---------- FILES entries, continued: without the uniqueness assumption; the + marker; legal entries ---------- *)
Lemma find_exists {A} (f : A -> bool) l x : In x l -> f x = true -> exists y, find f l = Some y.
Proof.
  induction l as [|z r IH]; simpl; intros I F; [contradiction|].
  destruct (f z) eqn:E; [eexists; reflexivity|].
  destruct I as [I|I]; [subst; congruence | apply IH; assumption].
Qed.

Section FilesEntryAny.
Variable h : host.
Variable p : npath.
Variable l : list str.
Variable f : str.
Hypothesis Hlist : h_listdir h p = Ok l.
Hypothesis Hin : In f l.
Hypothesis Hfile : h_isfile h (pjoin p f) = true.
Hypothesis Hne : f <> [].
Hypothesis Hs : is_special f = false.
Hypothesis Ha : is_ascii f = true.
Hypothesis HL : dos_is_legal_name f = true.

(* a legal FILES entry always opens a file of the directory that is shown under that very entry: the only way it
   can fail to be f itself is a collision - another file g <> f with display_name g = display_name f *)
Theorem files_entry_opens_some : exists g,
  snd (get_native_name h p (display_name f) [] false false) = Ok g /\
  h_isfile h (pjoin p g) = true /\ display_name g = display_name f.
Proof.
  rewrite (display_legal f Ha HL). set (dn := dos_normalise_name f).
  assert (Ds : is_special dn = false) by (apply norm_not_special; exact Hs).
  assert (DL : dos_is_legal_name dn = true) by (apply legal_norm_legal; assumption).
  assert (Dne : dn <> []) by (apply (safe_norm f Hne Hs DL)).
  destruct (legal_no_blanks dn Dne Ds DL) as [LS RS].
  destruct (legal_plain dn Ds DL) as (Da & Du & D0 & _ & _).
  destruct (legal_plain f Hs HL) as (_ & _ & F0 & _ & _).
  assert (Dn : dos_normalise_name dn = dn) by apply normalise_idempotent.
  assert (Hesd : ends_single_dot dn = false).
  { destruct (ends_single_dot dn) eqn:E; [|reflexivity]. exfalso.
    apply ends_single_dot_spec in E as [r [Er Hr]].
    pose proof (legal_norm_parts f Hs DL) as [_ Pe].
    unfold dn in Er. rewrite normalise_parts in Er by exact Hs.
    destruct (snd (norm_parts f)) as [|x e] eqn:Q.
    - simpl in Er. rewrite app_nil_r in Er. apply (norm_parts_nodot f). rewrite Er. apply in_or_app. right. left. reflexivity.
    - destruct (last_split (x :: e)) as [X|[r' [z X]]]; [discriminate|].
      unfold dot_ext in Er. rewrite X in Er.
      replace (fst (norm_parts f) ++ c_dot :: r' ++ [z]) with ((fst (norm_parts f) ++ c_dot :: r') ++ [z]) in Er
        by (rewrite <- app_assoc; reflexivity).
      apply app_inj_tail in Er as [_ Ez]. subst z.
      assert (A : allowable c_dot = true) by (apply Pe; rewrite X; apply in_or_app; right; left; reflexivity).
      vm_compute in A. discriminate. }
  rewrite snd_gnn. unfold gnn_res. rewrite defext_none, RS, LS, seqb_refl. simpl.
  rewrite (legal_not_bad dn Dne Ds DL), Hesd.
  unfold core_res. rewrite Du.
  destruct (ist h p dn false) eqn:E.
  - exists dn. unfold ist in E. rewrite D0 in E. repeat split; [exact E|].
    rewrite (display_legal dn Da DL). exact Dn.
  - rewrite Dn, DL. simpl. unfold d2n_res. rewrite Da, E, Hlist. simpl.
    assert (Cf : cand h p dn false f = true).
    { unfold cand, ist. rewrite Ha, HL, F0, Hfile. unfold dn. rewrite seqb_refl. reflexivity. }
    destruct (find_exists (cand h p dn false) (sort_str l) f) as [g Hg]; [apply sort_by_In; exact Hin | exact Cf|].
    rewrite Hg. pose proof (find_some _ _ Hg) as [_ Cg]. unfold cand in Cg.
    apply andb_true_iff in Cg as [Cg G4]. apply andb_true_iff in Cg as [Cg G3].
    apply andb_true_iff in Cg as [G1 G2]. apply seqb_eq in G3.
    assert (Gf : h_isfile h (pjoin p g) = true) by (unfold ist in G4; destruct (mem 0 g); [discriminate | exact G4]).
    destruct g as [|x g'].
    + exfalso. change (dos_normalise_name []) with (@nil Z) in G3. symmetry in G3. contradiction.
    + exists (x :: g'). repeat split; [exact Gf|]. rewrite (display_legal _ G1 G2). exact G3.
Qed.
End FilesEntryAny.

(* --- the + marker and legality of entries --- *)
Definition clip_t (t : str) : str := if Nat.ltb 8 (length t) then firstn 7 t ++ [43] else t.
Definition clip_e (e : str) : str := if Nat.ltb 3 (length e) then firstn 2 e ++ [43] else e.

Lemma display_other f : is_ascii f && dos_is_legal_name f = false ->
  display_name f =
  let '(t, e) := dos_splitext (to_cp f) in
  clip_t t ++ match clip_e e, clip_t t with _ :: _, _ => [c_dot] | [], [] => [c_dot] | [], _ :: _ => [] end ++ clip_e e.
Proof. intro H. unfold display_name. rewrite H. destruct (dos_splitext (to_cp f)). reflexivity. Qed.

(* an overlong trunk or extension of a name that is not a legal DOS name is marked with + *)
Theorem overlong_marked f : is_ascii f && dos_is_legal_name f = false ->
  (8 < length (fst (dos_splitext (to_cp f))) \/ 3 < length (snd (dos_splitext (to_cp f))))%nat ->
  In 43 (display_name f).
Proof.
  intros H O. rewrite (display_other f H). destruct (dos_splitext (to_cp f)) as [t e]. simpl in O.
  destruct O as [O|O].
  - apply in_or_app. left. unfold clip_t. apply Nat.ltb_lt in O. rewrite O. apply in_or_app. right. left. reflexivity.
  - apply in_or_app. right. apply in_or_app. right. unfold clip_e. apply Nat.ltb_lt in O. rewrite O.
    apply in_or_app. right. left. reflexivity.
Qed.

(* code points whose code-page image is an allowable character or a dot although they are not that character:
   on the default code page exactly U+1FEF (-> `) and U+212A KELVIN SIGN (-> K) *)
Definition cp_clean (f : str) : Prop :=
  forall u, In u f -> (allowable (u2c u) = true \/ u2c u = c_dot) -> u2c u = u.

Lemma assoc_In k l b : assoc k l = Some b -> In (k, b) l.
Proof.
  induction l as [|[a x] r IH]; simpl; [discriminate|].
  destruct (a =? k) eqn:E; [apply Z.eqb_eq in E; intro H; inversion H; subst; left; reflexivity | intro H; right; apply IH, H].
Qed.

Lemma cp_clean_default f : ~ In 8175 f -> ~ In 8490 f -> cp_clean f.
Proof.
  intros N1 N2 u I H. unfold u2c in *. destruct (assoc u dn_u2c) as [b|] eqn:E.
  - apply assoc_In in E.
    assert (F : forallb (fun ub => implb (allowable (snd ub) || (snd ub =? c_dot))
                                   ((fst ub =? snd ub) || (fst ub =? 8175) || (fst ub =? 8490))) dn_u2c = true)
      by (vm_compute; reflexivity).
    rewrite forallb_forall in F. specialize (F _ E). simpl in F.
    assert (P : allowable b || (b =? c_dot) = true).
    { destruct H as [H|H]; [rewrite H; reflexivity | rewrite H, Z.eqb_refl; apply orb_true_r]. }
    rewrite P in F. simpl in F. apply orb_true_iff in F as [F|F]; [apply orb_true_iff in F as [F|F]|].
    + apply Z.eqb_eq in F. symmetry. exact F.
    + apply Z.eqb_eq in F. subst u. contradiction.
    + apply Z.eqb_eq in F. subst u. contradiction.
  - destruct H as [H|H]; [vm_compute in H; discriminate | discriminate].
Qed.

Lemma clip_t_nil t : clip_t t = [] -> t = [].
Proof. unfold clip_t. destruct (Nat.ltb 8 (length t)); [intro H; apply app_eq_nil in H as [_ H]; discriminate | auto]. Qed.
Lemma clip_e_nil e : clip_e e = [] -> e = [].
Proof. unfold clip_e. destruct (Nat.ltb 3 (length e)); [intro H; apply app_eq_nil in H as [_ H]; discriminate | auto]. Qed.
Lemma clip_t_nodot t : ~ In c_dot t -> ~ In c_dot (clip_t t).
Proof.
  unfold clip_t. intros H. destruct (Nat.ltb 8 (length t)); [|exact H].
  intro I. apply in_app_or in I as [I|[I|[]]]; [apply H; eapply In_firstn; exact I | discriminate].
Qed.
Lemma clip_e_dot e : clip_e e = [c_dot] -> e = [c_dot].
Proof.
  unfold clip_e. destruct (Nat.ltb 3 (length e)) eqn:Q; [|auto].
  intro H. apply (f_equal (@length Z)) in H. rewrite app_length in H. simpl in H.
  apply Nat.ltb_lt in Q. rewrite firstn_length in H. lia.
Qed.

Lemma to_cp_In b f : In b (to_cp f) -> exists u, In u f /\ u2c u = b.
Proof. unfold to_cp. intro H. apply in_map_iff in H as [u [E I]]. exists u. tauto. Qed.

Lemma to_cp_id f : (forall u, In u f -> u2c u = u) -> to_cp f = f.
Proof.
  induction f as [|u r IH]; intro H; [reflexivity|]. simpl. rewrite (H u (or_introl eq_refl)). f_equal.
  apply IH. intros v I. apply H. right. exact I.
Qed.

(* every code-page image is an allowable character or a dot *)
Definition plain (f : str) : Prop := forall b, In b (to_cp f) -> allowable b = true \/ b = c_dot.

Lemma plain_id f : cp_clean f -> plain f -> is_ascii f = true /\ to_cp f = f.
Proof.
  intros Hc Hall. assert (Id : forall u, In u f -> u2c u = u).
  { intros u I. apply Hc; [exact I|]. apply Hall. unfold to_cp. apply in_map. exact I. }
  split; [|apply to_cp_id; exact Id].
  unfold is_ascii. apply forallb_forall. intros u I. pose proof (Id u I) as E.
  destruct (Hall (u2c u)) as [A|A]; [unfold to_cp; apply in_map; exact I | |].
  - apply allowable_not in A. rewrite E in A. apply andb_true_iff. split; [apply Z.leb_le | apply Z.ltb_lt]; lia.
  - rewrite E in A. subst u. reflexivity.
Qed.

Lemma legal_from_parts f t e : is_special f = false -> dos_splitext f = (t, e) ->
  (length t <= 8)%nat -> (length e <= 3)%nat -> t = strip t -> e = strip e ->
  (forall c, In c t -> allowable c = true) -> (forall c, In c e -> allowable c = true) ->
  dos_is_legal_name f = true.
Proof.
  intros Hs E L1 L2 S1 S2 A1 A2. unfold dos_is_legal_name. rewrite Hs, E.
  apply Nat.leb_le in L1. apply Nat.leb_le in L2. rewrite L1, L2. simpl.
  rewrite <- S1, <- S2, !seqb_refl. simpl.
  apply andb_true_iff. split; apply forallb_forall; assumption.
Qed.

Lemma splitext_entry T E : ~ In c_dot T ->
  dos_splitext (T ++ match E, T with _ :: _, _ => [c_dot] | [], [] => [c_dot] | [], _ :: _ => [] end ++ E) = (T, E).
Proof.
  intro H. destruct E as [|x E'].
  - destruct T as [|y T']; [reflexivity|]. rewrite !app_nil_r. unfold dos_splitext.
    rewrite (split_first_none c_dot (y :: T') H). reflexivity.
  - unfold dos_splitext. simpl app. rewrite (split_first_some c_dot T (x :: E') H). reflexivity.
Qed.

(* a FILES entry is a legal DOS name exactly when the host name is one (names without the two odd code points) *)
Theorem entry_legal_iff f : cp_clean f ->
  (dos_is_legal_name (display_name f) = true <-> (is_ascii f = true /\ dos_is_legal_name f = true)).
Proof.
  intro Hc. split.
  - intro HD. destruct (is_ascii f && dos_is_legal_name f) eqn:AL; [apply andb_true_iff in AL; exact AL|]. exfalso.
    rewrite (display_other f AL) in HD.
    pose proof (splitext_nodot (to_cp f)) as Tnd.
    pose proof (splitext_rebuild (to_cp f)) as Reb.
    destruct (dos_splitext (to_cp f)) as [t e] eqn:SE. unfold dos_splitext in SE.
    destruct (split_first c_dot (to_cp f)) as [t0 oe]. injection SE as St Se. subst t0. simpl in Tnd.
    assert (Tc : ~ In c_dot (clip_t t)) by (apply clip_t_nodot; exact Tnd).
    assert (Chars : forall b, In b (to_cp f) -> In b t \/ b = c_dot \/ In b e).
    { intros b I. rewrite Reb in I. apply in_app_or in I as [I|I]; [left; exact I|].
      destruct oe as [e0|]; [|inversion I]. subst e. destruct I as [I|I]; [right; left; symmetry; exact I | right; right; exact I]. }
    (* whenever f turns out plain, it is an ASCII name equal to its code-page form: then it must be illegal *)
    assert (Fin : plain f -> is_ascii f = true /\ to_cp f = f /\ dos_is_legal_name f = false).
    { intro P. destruct (plain_id f Hc P) as [A Idf]. rewrite A in AL. simpl in AL. tauto. }
    set (dotp := match clip_e e, clip_t t with _ :: _, _ => [c_dot] | [], [] => [c_dot] | [], _ :: _ => [] end) in *.
    destruct (is_special (clip_t t ++ dotp ++ clip_e e)) eqn:Dsp.
    + (* the entry is "." or "..": then f is "", "." or "..", which are legal *)
      apply is_special_spec in Dsp.
      assert (Tn : t = []).
      { destruct (clip_t t) as [|x t'] eqn:Ct; [apply clip_t_nil; exact Ct|].
        exfalso. destruct Dsp as [D|D]; injection D as D _; subst x; apply Tc; left; reflexivity. }
      subst t. change (clip_t []) with (@nil Z) in *. 
      assert (Edot : dotp = [c_dot]) by (unfold dotp; destruct (clip_e e); reflexivity).
      rewrite Edot in Dsp. simpl in Dsp.
      assert (Ee : e = [] \/ e = [c_dot]).
      { destruct Dsp as [D|D]; injection D as D; [left; apply clip_e_nil; exact D | right; apply clip_e_dot; exact D]. }
      assert (P : plain f).
      { intros b I. right. destruct (Chars b I) as [[]|[B|B]]; [exact B|].
        destruct Ee as [Ee|Ee]; rewrite Ee in B; [inversion B | destruct B as [B|[]]; symmetry; exact B]. }
      destruct (Fin P) as (_ & Idf & Lf). rewrite Idf in Reb. simpl in Reb.
      assert (Ff : f = [] \/ f = s_dot \/ f = s_dotdot).
      { destruct oe as [e0|]; subst e; [|left; exact Reb].
        destruct Ee as [Ee|Ee]; subst e0; [right; left; exact Reb | right; right; exact Reb]. }
      destruct Ff as [Ff|[Ff|Ff]]; rewrite Ff in Lf; vm_compute in Lf; discriminate Lf.
    + (* a legal, non-special entry *)
      pose proof (legal_parts _ Dsp HD) as LP.
      assert (SplitD : dos_splitext (clip_t t ++ dotp ++ clip_e e) = (clip_t t, clip_e e)) by (apply splitext_entry; exact Tc).
      rewrite SplitD in LP. destruct LP as (L1 & L2 & S1 & S2 & A1 & A2).
      assert (Ct : clip_t t = t).
      { unfold clip_t in *. destruct (Nat.ltb 8 (length t)); [|reflexivity]. exfalso.
        assert (X : allowable 43 = true) by (apply A1; apply in_or_app; right; left; reflexivity). vm_compute in X. discriminate X. }
      assert (Ce : clip_e e = e).
      { unfold clip_e in *. destruct (Nat.ltb 3 (length e)); [|reflexivity]. exfalso.
        assert (X : allowable 43 = true) by (apply A2; apply in_or_app; right; left; reflexivity). vm_compute in X. discriminate X. }
      rewrite Ct in *. rewrite Ce in *.
      assert (P : plain f).
      { intros b I. destruct (Chars b I) as [B|[B|B]]; [left; apply A1, B | right; exact B | left; apply A2, B]. }
      destruct (Fin P) as (_ & Idf & Lf).
      destruct (is_special f) eqn:Sf.
      * apply is_special_spec in Sf as [Sf|Sf]; rewrite Sf in Lf; vm_compute in Lf; discriminate Lf.
      * assert (SEf : dos_splitext f = (t, e)).
        { rewrite <- Idf. unfold dos_splitext. rewrite Reb.
          destruct oe as [e0|]; subst e.
          - rewrite (split_first_some c_dot t e0 Tnd). reflexivity.
          - rewrite app_nil_r. rewrite (split_first_none c_dot t Tnd). reflexivity. }
        rewrite (legal_from_parts f t e Sf SEf L1 L2 S1 S2 A1 A2) in Lf. discriminate.
  - intros [A L]. rewrite (display_legal f A L).
    destruct (is_special f) eqn:S.
    + unfold dos_normalise_name. rewrite S. exact L.
    + apply legal_norm_legal; assumption.
Qed.

(* the exception is real: a file named with U+212A KELVIN SIGN is listed as the legal entry K *)
Lemma kelvin_entry : display_name [8490] = [75] /\ dos_is_legal_name [75] = true /\ is_ascii [8490] = false.
Proof. vm_compute. repeat split. Qed.
