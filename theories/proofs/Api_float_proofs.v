(* C43: the float clause.  MBF pack/unpack, the dyadic normal form, Float.to_value (from_value x) for the
   executable model of the fixed Float.from_value, and the contract-based statement. *)
From Coq Require Import ZArith List Bool Lia ZifyBool.
From PCB Require Import lib.Result lib.PyInt lib.Harness lib.ArraysLib gen.Gen_arrays model.Api proofs.Api_proofs.
Import ListNotations.
Open Scope Z_scope.

(* ------------------------------------------------------------------------------------------------ *)
(* powers of two                                                                                    *)

Lemma pow2_pos k : 0 <= k -> 0 < 2 ^ k.
Proof. intros. apply Z.pow_pos_nonneg; lia. Qed.

Lemma pow2_split a b : 0 <= a -> 0 <= b -> 2 ^ (a + b) = 2 ^ a * 2 ^ b.
Proof. intros. apply Z.pow_add_r; assumption. Qed.

Lemma pow2_succ k : 0 <= k -> 2 ^ (k + 1) = 2 * 2 ^ k.
Proof. intros. rewrite Z.pow_add_r by lia. change (2 ^ 1) with 2. ring. Qed.

Lemma scale_bounds a L k : 1 <= L -> 0 <= k -> 2 ^ (L - 1) <= a < 2 ^ L ->
  2 ^ (L - 1 + k) <= a * 2 ^ k < 2 ^ (L + k).
Proof.
  intros HL Hk [H1 H2]. rewrite !pow2_split by lia. pose proof (pow2_pos k Hk). split.
  - apply Z.mul_le_mono_nonneg_r; lia.
  - apply Z.mul_lt_mono_pos_r; lia.
Qed.

Lemma bitlen_spec a : 0 < a -> 1 <= bitlen a /\ 2 ^ (bitlen a - 1) <= a < 2 ^ bitlen a.
Proof.
  intros H. unfold bitlen. destruct (a <=? 0) eqn:E; [lia|].
  pose proof (Z.log2_nonneg a). pose proof (Z.log2_spec a H) as [L1 L2].
  replace (Z.log2 a + 1 - 1) with (Z.log2 a) by lia.
  replace (Z.log2 a + 1) with (Z.succ (Z.log2 a)) by lia. lia.
Qed.

Lemma bitlen_unique a L : 0 < a -> 2 ^ (L - 1) <= a < 2 ^ L -> bitlen a = L.
Proof.
  intros Ha [H1 H2]. unfold bitlen. destruct (a <=? 0) eqn:E; [lia|].
  assert (HL : 0 < L).
  { destruct (Z.ltb_spec 0 L) as [|C]; [assumption|]. exfalso.
    destruct (Z.eq_dec L 0) as [->|N]; [simpl in H2; lia|]. rewrite (Z.pow_neg_r 2 L) in H2 by lia. lia. }
  assert (Z.log2 a = L - 1); [|lia].
  apply Z.log2_unique; [lia|]. replace (Z.succ (L - 1)) with L by lia. split; assumption.
Qed.

(* ------------------------------------------------------------------------------------------------ *)
(* the dyadic normal form                                                                           *)

Definition dspec (m e : Z) (p : Z * Z) : Prop :=
  Z.odd (fst p) = true /\ e <= snd p /\ m = fst p * 2 ^ (snd p - e).

Lemma strip2_spec fuel : forall m e, m <> 0 -> Z.abs m < 2 ^ Z.of_nat fuel -> dspec m e (strip2 fuel m e).
Proof.
  induction fuel as [|f IH]; intros m e Hm Hb.
  - simpl in Hb. lia.
  - cbn [strip2]. destruct (Z.even m) eqn:Ev.
    + apply Z.even_spec in Ev. destruct Ev as [k Hk]. subst m.
      replace (2 * k / 2) with k by (symmetry; rewrite Z.mul_comm; apply Z.div_mul; lia).
      assert (Hk0 : k <> 0) by lia.
      assert (Hkb : Z.abs k < 2 ^ Z.of_nat f).
      { rewrite Nat2Z.inj_succ, Z.pow_succ_r in Hb by lia. lia. }
      destruct (IH k (e + 1) Hk0 Hkb) as (O & Le & Eq). unfold dspec.
      split; [exact O|]. split; [lia|].
      rewrite Eq at 1. replace (snd (strip2 f k (e + 1)) - e) with ((snd (strip2 f k (e + 1)) - (e + 1)) + 1) by lia.
      rewrite pow2_succ by lia. ring.
    + unfold dspec. cbn [fst snd]. rewrite <- Z.negb_even, Ev. split; [reflexivity|]. split; [lia|].
      replace (e - e) with 0 by lia. simpl. lia.
Qed.

Lemma dnorm_spec m e : m <> 0 -> dspec m e (dnorm m e).
Proof.
  intros Hm. unfold dnorm. destruct (m =? 0) eqn:E; [lia|].
  apply strip2_spec; [exact Hm|].
  assert (Ha : 0 < Z.abs m) by lia. destruct (bitlen_spec _ Ha) as (B1 & B2 & B3).
  rewrite Z2Nat.id by lia. exact B3.
Qed.

Lemma odd_pow_eq m1 m2 j1 j2 : Z.odd m1 = true -> Z.odd m2 = true -> 0 <= j1 -> 0 <= j2 ->
  m1 * 2 ^ j1 = m2 * 2 ^ j2 -> m1 = m2 /\ j1 = j2.
Proof.
  assert (G : forall m1 m2 j1 j2, Z.odd m1 = true -> Z.odd m2 = true -> 0 <= j1 -> j1 <= j2 ->
              m1 * 2 ^ j1 = m2 * 2 ^ j2 -> m1 = m2 /\ j1 = j2).
  { clear. intros m1 m2 j1 j2 O1 O2 H1 H2 E.
    replace j2 with (j1 + (j2 - j1)) in E by lia. rewrite pow2_split in E by lia.
    pose proof (pow2_pos j1 H1).
    assert (E2 : m1 = m2 * 2 ^ (j2 - j1)) by nia.
    destruct (Z.eq_dec j1 j2) as [->|Hne].
    - replace (j2 - j2) with 0 in E2 by lia. simpl in E2. lia.
    - exfalso. replace (j2 - j1) with ((j2 - j1 - 1) + 1) in E2 by lia. rewrite pow2_succ in E2 by lia.
      assert (Z.even m1 = true) by (apply Z.even_spec; exists (m2 * 2 ^ (j2 - j1 - 1)); lia).
      rewrite <- Z.negb_even in O1. rewrite H0 in O1. discriminate. }
  intros O1 O2 H1 H2 E. destruct (Z.le_ge_cases j1 j2) as [L|L].
  - apply G; assumption.
  - destruct (G m2 m1 j2 j1 O2 O1 H2 ltac:(lia) (eq_sym E)). split; congruence.
Qed.

Lemma dspec_unique m e p q : dspec m e p -> dspec m e q -> p = q.
Proof.
  intros (O1 & L1 & E1) (O2 & L2 & E2). destruct p as [m1 e1], q as [m2 e2]. cbn [fst snd] in *.
  destruct (odd_pow_eq m1 m2 (e1 - e) (e2 - e) O1 O2 ltac:(lia) ltac:(lia) ltac:(congruence)) as [A B].
  f_equal; lia.
Qed.

Lemma dnorm_scale m e j : m <> 0 -> 0 <= j -> dnorm (m * 2 ^ j) (e - j) = dnorm m e.
Proof.
  intros Hm Hj. pose proof (pow2_pos j Hj).
  assert (Hm2 : m * 2 ^ j <> 0) by nia.
  apply (dspec_unique (m * 2 ^ j) (e - j)); [apply dnorm_spec, Hm2|].
  destruct (dnorm_spec m e Hm) as (O & L & E). split; [exact O|]. split; [lia|].
  rewrite E at 1. replace (snd (dnorm m e) - (e - j)) with ((snd (dnorm m e) - e) + j) by lia.
  rewrite pow2_split by lia. ring.
Qed.

Lemma mkfloat_scale m e j : m <> 0 -> 0 <= j -> mkfloat (m * 2 ^ j) (e - j) = mkfloat m e.
Proof. intros. unfold mkfloat. rewrite dnorm_scale by assumption. reflexivity. Qed.

Lemma mkfloat_odd m e : Z.odd m = true -> mkfloat m e = PFloat m e.
Proof.
  intros O. assert (Hm : m <> 0) by (intros ->; discriminate).
  unfold mkfloat. replace (dnorm m e) with (m, e); [reflexivity|].
  apply (dspec_unique m e); [|apply dnorm_spec, Hm].
  split; [exact O|]. cbn [fst snd]. split; [lia|]. replace (e - e) with 0 by lia. simpl. lia.
Qed.

(* ------------------------------------------------------------------------------------------------ *)
(* MBF pack / unpack                                                                                *)

Definition fmt_ok (F : fmt) : Prop := f_nbits F = 8 * Z.of_nat (f_nbytes F) /\ (0 < f_nbytes F)%nat.
Lemma Fsng_ok : fmt_ok Fsng. Proof. split; [reflexivity | simpl; lia]. Qed.
Lemma Fdbl_ok : fmt_ok Fdbl. Proof. split; [reflexivity | simpl; lia]. Qed.

Lemma fmt_pow F : fmt_ok F -> 256 ^ Z.of_nat (f_nbytes F) = 2 ^ f_nbits F /\ 1 <= f_nbits F - 1.
Proof.
  intros [H1 H2]. rewrite H1. split; [|lia].
  change 256 with (2 ^ 8). rewrite <- Z.pow_mul_r by lia. reflexivity.
Qed.

Section Pack.
  Variable F : fmt.
  Hypothesis HF : fmt_ok F.
  Variables (neg : bool) (man expb : Z).
  Hypothesis Hman : 2 ^ (f_nbits F - 1) <= man < 2 ^ f_nbits F.

  Let Hh : 2 ^ f_nbits F = 2 * 2 ^ (f_nbits F - 1).
  Proof. destruct (fmt_pow F HF). replace (f_nbits F) with ((f_nbits F - 1) + 1) at 1 by lia. apply pow2_succ. lia. Qed.

  Lemma pack_raw : f_raw F (f_pack F neg man expb)
                   = man - 2 ^ (f_nbits F - 1) + (if neg then 2 ^ (f_nbits F - 1) else 0).
  Proof.
    destruct (fmt_pow F HF) as [P1 P2].
    unfold f_raw, f_pack. rewrite firstn_app, le_encode_length, Nat.sub_diag. cbn [firstn]. rewrite app_nil_r.
    rewrite firstn_all2 by (rewrite le_encode_length; lia).
    assert (M : man mod 2 ^ (f_nbits F - 1) = man - 2 ^ (f_nbits F - 1)).
    { symmetry. apply (Z.mod_unique man _ 1); [left; lia | ring]. }
    rewrite le_decode_encode; [rewrite M; reflexivity|].
    rewrite P1, M. destruct neg; lia.
  Qed.

  Lemma pack_expb : f_expb F (f_pack F neg man expb) = expb.
  Proof.
    unfold f_expb, f_pack. rewrite app_nth2 by (rewrite le_encode_length; lia).
    rewrite le_encode_length, Nat.sub_diag. reflexivity.
  Qed.

  Lemma pack_neg : f_neg F (f_pack F neg man expb) = neg.
  Proof. unfold f_neg. rewrite pack_raw. destruct neg; lia. Qed.

  Lemma pack_man : f_man F (f_pack F neg man expb) = man.
  Proof.
    unfold f_man. rewrite pack_raw.
    assert (M : (man - 2 ^ (f_nbits F - 1) + (if neg then 2 ^ (f_nbits F - 1) else 0)) mod 2 ^ (f_nbits F - 1)
                = man - 2 ^ (f_nbits F - 1)).
    { symmetry. destruct neg.
      - apply (Z.mod_unique _ _ 1); [left; lia | ring].
      - apply (Z.mod_unique _ _ 0); [left; lia | ring]. }
    rewrite M. ring.
  Qed.
End Pack.

(* ------------------------------------------------------------------------------------------------ *)
(* the rounded mantissa of the (fixed) Float.from_value                                            *)

(* a has L bits, L <= nbits: scaling is exact *)
Lemma round_man_exact F a : 0 < a -> bitlen a <= f_nbits F ->
  mbf_round_man F a = a * 2 ^ (f_nbits F - bitlen a) /\
  2 ^ (f_nbits F - 1) <= mbf_round_man F a < 2 ^ f_nbits F.
Proof.
  intros Ha HL. destruct (bitlen_spec a Ha) as (B1 & B2 & B3).
  unfold mbf_round_man. destruct (bitlen a <=? f_nbits F) eqn:E; [|lia]. split; [reflexivity|].
  pose proof (pow2_pos (f_nbits F - bitlen a) ltac:(lia)) as Pp.
  assert (E1 : 2 ^ (f_nbits F - 1) = 2 ^ (bitlen a - 1) * 2 ^ (f_nbits F - bitlen a)).
  { rewrite <- pow2_split by lia. f_equal. lia. }
  assert (E2 : 2 ^ f_nbits F = 2 ^ bitlen a * 2 ^ (f_nbits F - bitlen a)).
  { rewrite <- pow2_split by lia. f_equal. lia. }
  rewrite E1, E2. split.
  - apply Z.mul_le_mono_nonneg_r; lia.
  - apply Z.mul_lt_mono_pos_r; lia.
Qed.

(* single precision, more than 24 bits: round to nearest, halves up; d = L - 24 *)
Lemma round_man_single a : 0 < a -> 24 < bitlen a ->
  let d := bitlen a - 24 in
  let man := mbf_round_man Fsng a in
  8388608 <= man <= 16777216 /\ 2 * Z.abs (man * 2 ^ d - a) <= 2 ^ d.
Proof.
  intros Ha HL d man. destruct (bitlen_spec a Ha) as (B1 & B2 & B3).
  unfold man, mbf_round_man. change (f_nbits Fsng) with 24. destruct (bitlen a <=? 24) eqn:E; [lia|].
  fold d. assert (Hd : 1 <= d) by (unfold d; lia).
  pose proof (pow2_pos (d - 1) ltac:(lia)) as Qp.
  assert (PQ : 2 ^ d = 2 * 2 ^ (d - 1)) by (replace d with ((d - 1) + 1) at 1 by lia; apply pow2_succ; lia).
  assert (A1 : 2 ^ (bitlen a - 1) = 8388608 * 2 ^ d).
  { replace (bitlen a - 1) with (23 + d) by (unfold d; lia). rewrite pow2_split by lia. reflexivity. }
  assert (A2 : 2 ^ bitlen a = 16777216 * 2 ^ d).
  { replace (bitlen a) with (24 + d) at 1 by (unfold d; lia). rewrite pow2_split by lia. reflexivity. }
  rewrite A1 in B2. rewrite A2 in B3.
  set (P := 2 ^ d) in *. set (Q := 2 ^ (d - 1)) in *.
  pose proof (Z.div_mod (a + Q) P ltac:(lia)) as DM. pose proof (Z.mod_pos_bound (a + Q) P ltac:(lia)) as MB.
  set (q := (a + Q) / P) in *. set (r := (a + Q) mod P) in *.
  assert (L1 : P * 8388607 < P * q) by lia.
  assert (L2 : P * q < P * 16777217) by lia.
  assert (8388607 < q) by (apply (Z.mul_lt_mono_pos_l P); lia).
  assert (q < 16777217) by (apply (Z.mul_lt_mono_pos_l P); lia).
  split; [lia|]. replace (q * P) with (P * q) by ring. lia.
Qed.

(* ------------------------------------------------------------------------------------------------ *)
(* what from_value stores and what to_value reads back                                             *)

(* the property allows: same sign, and the stored mantissa within one unit in the last place of |m| * 2^e *)
Definition near (F : fmt) (m e : Z) (b : list Z) : Prop :=
  f_expb F b <> 0 /\ f_neg F b = (m <? 0) /\
  2 ^ (f_nbits F - 1) <= f_man F b < 2 ^ f_nbits F /\
  let d := f_expb F b - f_bias F - e in
  (0 <= d -> Z.abs (f_man F b * 2 ^ d - Z.abs m) < 2 ^ d) /\
  (d < 0 -> f_man F b = Z.abs m * 2 ^ (- d)).

(* exponent byte in 1..255 also after the rounding carry *)
Definition in_range (F : fmt) (m e : Z) : Prop :=
  let a := Z.abs m in
  1 <= e + bitlen a + 128 /\
  e + bitlen a + 128 + (if 2 ^ f_nbits F - 1 <? mbf_round_man F a then 1 else 0) <= 255.

Lemma from_mag_exact F neg a e : fmt_ok F -> 0 < a -> bitlen a <= f_nbits F ->
  1 <= e + bitlen a + 128 <= 255 ->
  mbf_from_mag F neg a e = f_pack F neg (a * 2 ^ (f_nbits F - bitlen a)) (e + bitlen a + 128).
Proof.
  intros HF Ha HL Hr. destruct (round_man_exact F a Ha HL) as (R1 & R2 & R3).
  unfold mbf_from_mag. rewrite <- R1.
  destruct (2 ^ f_nbits F - 1 <? mbf_round_man F a) eqn:C; [lia|].
  destruct (255 <? e + bitlen a + 128) eqn:C1; [lia|].
  destruct (e + bitlen a + 128 <=? 0) eqn:C2; [lia|]. reflexivity.
Qed.

(* to_value of a packed single: no rounding on the way back *)
Lemma to_value_pack_single neg man expb : 8388608 <= man < 16777216 -> expb <> 0 ->
  mbf_to_value Fsng (f_pack Fsng neg man expb) = mkfloat (if neg then - man else man) (expb - 152).
Proof.
  intros Hm He. unfold mbf_to_value.
  rewrite pack_expb, (pack_man Fsng Fsng_ok), (pack_neg Fsng Fsng_ok) by (simpl; lia).
  destruct (expb =? 0) eqn:E; [lia|].
  assert (BL : bitlen man = 24) by (apply bitlen_unique; simpl; lia).
  unfold round53. rewrite BL. cbv iota. change (24 <=? 53) with true. cbv iota.
  replace (expb - f_bias Fsng + 0) with (expb - 152) by (unfold f_bias; simpl; lia). reflexivity.
Qed.

(* to_value of a packed double whose mantissa has its low three bits clear (53 significant bits) *)
Lemma to_value_pack_double neg q expb : 2 ^ 52 <= q < 2 ^ 53 -> expb <> 0 ->
  mbf_to_value Fdbl (f_pack Fdbl neg (q * 8) expb) = mkfloat (if neg then - q else q) (expb - 184 + 3).
Proof.
  intros Hq He. unfold mbf_to_value.
  assert (Hm : 2 ^ (f_nbits Fdbl - 1) <= q * 8 < 2 ^ f_nbits Fdbl) by (simpl in *; lia).
  rewrite pack_expb, (pack_man Fdbl Fdbl_ok), (pack_neg Fdbl Fdbl_ok) by exact Hm.
  destruct (expb =? 0) eqn:E; [lia|].
  assert (BL : bitlen (q * 8) = 56) by (apply bitlen_unique; simpl in *; lia).
  unfold round53. rewrite BL. change (56 <=? 53) with false. cbv iota. change (56 - 53) with 3.
  change (2 ^ 3) with 8. change (2 ^ (3 - 1)) with 4.
  rewrite Z.div_mul by lia. rewrite Z.mod_mul by lia.
  change (4 <? 0) with false. change (0 =? 4) with false. cbn [orb andb].
  destruct (2 ^ 1024 <=? q * 8) eqn:C.
  - exfalso. apply Z.leb_le in C. assert (2 ^ 56 < 2 ^ 1024) by (apply Z.pow_lt_mono_r; lia). simpl in Hq. lia.
  - unfold f_bias. reflexivity.
Qed.

(* ---- doubles: every Python float (|m| < 2^53) in the exponent range comes back exactly ---- *)
Theorem double_roundtrip_exact m e : m <> 0 -> Z.abs m < 2 ^ 53 ->
  1 <= e + bitlen (Z.abs m) + 128 <= 255 ->
  mbf_to_value Fdbl (mbf_from_mag Fdbl (m <? 0) (Z.abs m) e) = mkfloat m e.
Proof.
  intros Hm Hb Hr. set (a := Z.abs m) in *. assert (Ha : 0 < a) by (unfold a; lia).
  destruct (bitlen_spec a Ha) as (B1 & B2 & B3).
  assert (HL : bitlen a <= 53).
  { destruct (Z.le_gt_cases (bitlen a) 53) as [|C]; [assumption|].
    assert (2 ^ 53 <= 2 ^ (bitlen a - 1)) by (apply Z.pow_le_mono_r; lia). lia. }
  rewrite from_mag_exact by (try exact Fdbl_ok; simpl; lia).
  change (f_nbits Fdbl) with 56.
  set (L := bitlen a) in *.
  replace (a * 2 ^ (56 - L)) with ((a * 2 ^ (53 - L)) * 8).
  2:{ replace (56 - L) with ((53 - L) + 3) by lia. rewrite pow2_split by lia. change (2 ^ 3) with 8. ring. }
  assert (Q : 2 ^ 52 <= a * 2 ^ (53 - L) < 2 ^ 53).
  { pose proof (scale_bounds a L (53 - L) ltac:(lia) ltac:(lia) (conj B2 B3)) as SB.
    replace (L - 1 + (53 - L)) with 52 in SB by lia. replace (L + (53 - L)) with 53 in SB by lia. exact SB. }
  rewrite to_value_pack_double by (try exact Q; lia).
  replace (e + L + 128 - 184 + 3) with (e - (53 - L)) by lia.
  destruct (m <? 0) eqn:S.
  - replace (- (a * 2 ^ (53 - L))) with (m * 2 ^ (53 - L)) by (unfold a; lia || nia).
    apply mkfloat_scale; lia.
  - replace (a * 2 ^ (53 - L)) with (m * 2 ^ (53 - L)) by (unfold a; f_equal; lia).
    apply mkfloat_scale; lia.
Qed.

(* ---- singles ---- *)

(* value read back from what from_value stored, for any magnitude in range:
   sign * mbf_round_man * 2^(e + L - 24), also when the rounding carried into the next binade *)
Theorem single_roundtrip_value m e : m <> 0 -> in_range Fsng m e ->
  mbf_to_value Fsng (mbf_from_mag Fsng (m <? 0) (Z.abs m) e)
  = mkfloat ((if m <? 0 then -1 else 1) * mbf_round_man Fsng (Z.abs m)) (e + bitlen (Z.abs m) - 24).
Proof.
  intros Hm (R1 & R2). set (a := Z.abs m) in *. assert (Ha : 0 < a) by (unfold a; lia).
  set (L := bitlen a) in *. change (f_nbits Fsng) with 24 in R2. change (2 ^ 24 - 1) with 16777215 in R2.
  assert (Hman : 8388608 <= mbf_round_man Fsng a <= 16777216).
  { destruct (Z.le_gt_cases L 24) as [C|C].
    - destruct (round_man_exact Fsng a Ha C) as (_ & X1 & X2). simpl in X1, X2. lia.
    - destruct (round_man_single a Ha C) as (X & _). exact X. }
  unfold mbf_from_mag. fold L. change (f_nbits Fsng) with 24. change (2 ^ 24 - 1) with 16777215.
  set (man0 := mbf_round_man Fsng a) in *.
  destruct (16777215 <? man0) eqn:C.
  - (* carry: man0 = 2^24 *)
    assert (E0 : man0 = 16777216) by lia. rewrite E0. change (16777216 / 2) with 8388608.
    destruct (255 <? e + L + 128 + 1) eqn:C1; [lia|]. destruct (e + L + 128 + 1 <=? 0) eqn:C2; [lia|].
    rewrite to_value_pack_single by lia.
    replace (e + L + 128 + 1 - 152) with ((e + L - 24) - 0 + 1 - 0) by lia.
    destruct (m <? 0).
    + replace (-1 * 16777216) with ((-8388608) * 2 ^ 1) by reflexivity.
      replace (e + L - 24 - 0 + 1 - 0) with ((e + L - 24 + 1)) by lia.
      replace (e + L - 24) with ((e + L - 24 + 1) - 1) at 2 by lia.
      rewrite mkfloat_scale by lia. reflexivity.
    + replace (1 * 16777216) with (8388608 * 2 ^ 1) by reflexivity.
      replace (e + L - 24 - 0 + 1 - 0) with ((e + L - 24 + 1)) by lia.
      replace (e + L - 24) with ((e + L - 24 + 1) - 1) at 2 by lia.
      rewrite mkfloat_scale by lia. reflexivity.
  - destruct (255 <? e + L + 128) eqn:C1; [lia|]. destruct (e + L + 128 <=? 0) eqn:C2; [lia|].
    rewrite to_value_pack_single by lia.
    replace (e + L + 128 - 152) with (e + L - 24) by lia.
    destruct (m <? 0); f_equal; lia.
Qed.

(* a float that is a single-precision number (at most 24 significant bits) comes back exactly *)
Theorem single_roundtrip_exact m e : m <> 0 -> Z.abs m < 2 ^ 24 ->
  1 <= e + bitlen (Z.abs m) + 128 <= 255 ->
  mbf_to_value Fsng (mbf_from_mag Fsng (m <? 0) (Z.abs m) e) = mkfloat m e.
Proof.
  intros Hm Hb Hr. set (a := Z.abs m) in *. assert (Ha : 0 < a) by (unfold a; lia).
  destruct (bitlen_spec a Ha) as (B1 & B2 & B3).
  assert (HL : bitlen a <= 24).
  { destruct (Z.le_gt_cases (bitlen a) 24) as [|C]; [assumption|].
    assert (2 ^ 24 <= 2 ^ (bitlen a - 1)) by (apply Z.pow_le_mono_r; lia). lia. }
  destruct (round_man_exact Fsng a Ha HL) as (R1 & R2 & R3). change (f_nbits Fsng) with 24 in *.
  rewrite single_roundtrip_value.
  2: exact Hm.
  2:{ unfold in_range. fold a. change (f_nbits Fsng) with 24.
      destruct (2 ^ 24 - 1 <? mbf_round_man Fsng a) eqn:C; [lia|]. lia. }
  fold a. rewrite R1. set (L := bitlen a) in *.
  replace (e + L - 24) with (e - (24 - L)) by lia.
  replace ((if m <? 0 then -1 else 1) * (a * 2 ^ (24 - L))) with (m * 2 ^ (24 - L))
    by (unfold a; destruct (m <? 0) eqn:S; nia).
  apply mkfloat_scale; lia.
Qed.

(* the executable model of the fixed from_value meets the contract (in fact: nearest, not just adjacent) *)
Theorem model_near_single m e : m <> 0 -> in_range Fsng m e ->
  near Fsng m e (mbf_from_mag Fsng (m <? 0) (Z.abs m) e) /\
  (24 < bitlen (Z.abs m) ->
   2 * Z.abs (mbf_round_man Fsng (Z.abs m) * 2 ^ (bitlen (Z.abs m) - 24) - Z.abs m) <= 2 ^ (bitlen (Z.abs m) - 24)).
Proof.
  intros Hm (R1 & R2). set (a := Z.abs m) in *. assert (Ha : 0 < a) by (unfold a; lia).
  set (L := bitlen a) in *. change (f_nbits Fsng) with 24 in R2. change (2 ^ 24 - 1) with 16777215 in R2.
  split; [|intros C; destruct (round_man_single a Ha C) as (_ & X); exact X].
  unfold mbf_from_mag. fold L. change (f_nbits Fsng) with 24. change (2 ^ 24 - 1) with 16777215.
  set (man0 := mbf_round_man Fsng a) in *.
  assert (Hcases : (L <= 24 /\ man0 = a * 2 ^ (24 - L) /\ 8388608 <= man0 < 16777216) \/
                   (24 < L /\ 8388608 <= man0 <= 16777216 /\ 2 * Z.abs (man0 * 2 ^ (L - 24) - a) <= 2 ^ (L - 24))).
  { destruct (Z.le_gt_cases L 24) as [C|C].
    - left. destruct (round_man_exact Fsng a Ha C) as (X0 & X1 & X2). simpl in X1, X2. unfold man0. fold L in X0.
      change (f_nbits Fsng) with 24 in X0. lia.
    - right. destruct (round_man_single a Ha C) as (X & Y). fold L in Y. unfold man0. lia. }
  unfold near. change (f_nbits Fsng) with 24. change (2 ^ (24 - 1)) with 8388608. change (2 ^ 24) with 16777216.
  unfold f_bias. change (f_nbits Fsng) with 24.
  destruct (16777215 <? man0) eqn:C.
  - (* carry *)
    destruct Hcases as [(C0 & _ & X)|(C0 & X & Y)]; [lia|].
    assert (E0 : man0 = 16777216) by lia. rewrite E0 in *. change (16777216 / 2) with 8388608.
    destruct (255 <? e + L + 128 + 1) eqn:C1; [lia|]. destruct (e + L + 128 + 1 <=? 0) eqn:C2; [lia|].
    rewrite pack_expb, (pack_man Fsng Fsng_ok), (pack_neg Fsng Fsng_ok) by (simpl; lia).
    split; [lia|]. split; [reflexivity|]. split; [lia|]. cbv zeta.
    replace (e + L + 128 + 1 - (128 + 24) - e) with ((L - 24) + 1) by lia.
    pose proof (pow2_pos (L - 24) ltac:(lia)). rewrite pow2_succ by lia.
    split; [intros _; lia | intros; lia].
  - destruct (255 <? e + L + 128) eqn:C1; [lia|]. destruct (e + L + 128 <=? 0) eqn:C2; [lia|].
    assert (Hm0 : 8388608 <= man0 < 16777216) by (destruct Hcases as [(_ & _ & X)|(_ & X & _)]; lia).
    rewrite pack_expb, (pack_man Fsng Fsng_ok), (pack_neg Fsng Fsng_ok) by (simpl; lia).
    split; [lia|]. split; [reflexivity|]. split; [lia|]. cbv zeta.
    replace (e + L + 128 - (128 + 24) - e) with (L - 24) by lia.
    destruct Hcases as [(C0 & X & _)|(C0 & _ & Y)].
    + split.
      * intros D. assert (L = 24) by lia. rewrite X. replace (24 - L) with 0 by lia. replace (L - 24) with 0 by lia.
        simpl. lia.
      * intros D. rewrite X. f_equal. f_equal. lia.
    + pose proof (pow2_pos (L - 24) ltac:(lia)). split; [intros _; lia | intros; lia].
Qed.

Theorem model_near_double m e : m <> 0 -> Z.abs m < 2 ^ 53 -> 1 <= e + bitlen (Z.abs m) + 128 <= 255 ->
  near Fdbl m e (mbf_from_mag Fdbl (m <? 0) (Z.abs m) e).
Proof.
  intros Hm Hb Hr. set (a := Z.abs m) in *. assert (Ha : 0 < a) by (unfold a; lia).
  destruct (bitlen_spec a Ha) as (B1 & B2 & B3).
  assert (HL : bitlen a <= 56).
  { destruct (Z.le_gt_cases (bitlen a) 53) as [|C]; [lia|].
    assert (2 ^ 53 <= 2 ^ (bitlen a - 1)) by (apply Z.pow_le_mono_r; lia). lia. }
  rewrite from_mag_exact by (try exact Fdbl_ok; simpl; lia).
  destruct (round_man_exact Fdbl a Ha HL) as (R1 & R2 & R3). rewrite R1 in R2, R3.
  unfold near.
  rewrite pack_expb, (pack_man Fdbl Fdbl_ok), (pack_neg Fdbl Fdbl_ok) by (split; assumption).
  split; [lia|]. split; [reflexivity|]. split; [split; assumption|]. cbv zeta.
  unfold f_bias. change (f_nbits Fdbl) with 56.
  replace (e + bitlen a + 128 - (128 + 56) - e) with (bitlen a - 56) by lia.
  split.
  - intros D. assert (bitlen a = 56) by lia. replace (56 - bitlen a) with 0 by lia. replace (bitlen a - 56) with 0 by lia.
    simpl. lia.
  - intros D. f_equal. f_equal. lia.
Qed.

(* ------------------------------------------------------------------------------------------------ *)
(* the float clause at the API level                                                                *)

Definition sg_fmt_name (sg : Z) : Prop := sg = sg_sng \/ sg = sg_dbl.

Lemma from_value_float E sg v : sg_fmt_name sg -> from_value E sg v = rmap SNum (e_fv E (fmt_of sg) v).
Proof. intros [->| ->]; reflexivity. Qed.

Lemma to_value_float sg b : sg_fmt_name sg -> to_value sg (SNum b) = mbf_to_value (fmt_of sg) b.
Proof. intros [->| ->]; reflexivity. Qed.

(* whatever Float.from_value returns is what get_variable / evaluate convert back *)
Theorem float_set_get E st name sg m e b : scalar_name name sg -> sg_fmt_name sg ->
  e_fv E (fmt_of sg) (PFloat m e) = Ok b ->
  let st' := fst (set_variable E st name (PFloat m e)) in
  snd (set_variable E st name (PFloat m e)) = Ok tt /\
  get_variable E st' name 0 = Ok (mbf_to_value (fmt_of sg) b) /\
  evaluate st' name [] = (st', Ok (mbf_to_value (fmt_of sg) b)).
Proof.
  intros Hn Hs Hf.
  assert (Hv : from_value E sg (PFloat m e) = Ok (SNum b)) by (rewrite from_value_float, Hf by exact Hs; reflexivity).
  pose proof (scalar_roundtrip E st name sg (PFloat m e) (PFloat m e) _ Hn eq_refl Hv) as H.
  cbv zeta in H |- *. rewrite to_value_float in H by exact Hs. exact H.
Qed.

Section FloatContract.
  (* PARTIAL: Float.from_value is a parameter here; the only thing assumed about it is that, for a non-zero float in
     the exponent range of the format, it returns a well-formed buffer holding a value with the sign of x whose
     mantissa is within one unit in the last place of x (nearest or adjacent) *)
  Variable E : env.
  Hypothesis fv_contract : forall F m e, (F = Fsng \/ F = Fdbl) -> m <> 0 -> Z.abs m < 2 ^ 53 -> in_range F m e ->
    exists b, e_fv E F (PFloat m e) = Ok b /\ near F m e b.

  Theorem float_partial st name sg m e : scalar_name name sg -> sg_fmt_name sg ->
    m <> 0 -> Z.abs m < 2 ^ 53 -> in_range (fmt_of sg) m e ->
    exists b,
      near (fmt_of sg) m e b /\
      let st' := fst (set_variable E st name (PFloat m e)) in
      snd (set_variable E st name (PFloat m e)) = Ok tt /\
      get_variable E st' name 0 = Ok (mbf_to_value (fmt_of sg) b) /\
      evaluate st' name [] = (st', Ok (mbf_to_value (fmt_of sg) b)).
  Proof.
    intros Hn Hs Hm Hb Hr.
    assert (HF : fmt_of sg = Fsng \/ fmt_of sg = Fdbl) by (destruct Hs as [->| ->]; [left | right]; reflexivity).
    destruct (fv_contract (fmt_of sg) m e HF Hm Hb Hr) as (b & Hf & Hnear).
    exists b. split; [exact Hnear|]. exact (float_set_get E st name sg m e b Hn Hs Hf).
  Qed.
End FloatContract.

(* the executable model satisfies the contract *)
Theorem model_meets_contract F m e : (F = Fsng \/ F = Fdbl) -> m <> 0 -> Z.abs m < 2 ^ 53 -> in_range F m e ->
  exists b, mbf_from_value F (PFloat m e) = Ok b /\ near F m e b.
Proof.
  intros HF Hm Hb Hr. exists (mbf_from_mag F (m <? 0) (Z.abs m) e). split.
  - unfold mbf_from_value. destruct (m =? 0) eqn:E0; [lia | reflexivity].
  - destruct HF as [->| ->].
    + apply model_near_single; assumption.
    + apply model_near_double; [assumption | assumption|].
      destruct Hr as (R1 & R2). set (a := Z.abs m) in *. assert (Ha : 0 < a) by (unfold a; lia).
      destruct (bitlen_spec a Ha) as (B1 & B2 & B3).
      assert (HL : bitlen a <= 56).
      { destruct (Z.le_gt_cases (bitlen a) 53) as [|C]; [lia|].
        assert (2 ^ 53 <= 2 ^ (bitlen a - 1)) by (apply Z.pow_le_mono_r; lia). lia. }
      destruct (round_man_exact Fdbl a Ha HL) as (_ & X1 & X2).
      destruct (2 ^ f_nbits Fdbl - 1 <? mbf_round_man Fdbl a) eqn:C; lia.
Qed.

(* with the executable Float.from_value: what a float variable returns after set_variable *)
Theorem float_model_set_get E st name sg m e : e_fv E = mbf_from_value ->
  scalar_name name sg -> sg_fmt_name sg -> m <> 0 ->
  let b := mbf_from_mag (fmt_of sg) (m <? 0) (Z.abs m) e in
  let st' := fst (set_variable E st name (PFloat m e)) in
  snd (set_variable E st name (PFloat m e)) = Ok tt /\
  get_variable E st' name 0 = Ok (mbf_to_value (fmt_of sg) b) /\
  evaluate st' name [] = (st', Ok (mbf_to_value (fmt_of sg) b)).
Proof.
  intros HE Hn Hs Hm. apply float_set_get; try assumption.
  rewrite HE. unfold mbf_from_value. destruct (m =? 0) eqn:E0; [lia | reflexivity].
Qed.

(* the float clause of the property, for one environment *)
Definition float_statement (E : env) : Prop :=
  forall st name sg m e, scalar_name name sg -> sg_fmt_name sg ->
    m <> 0 -> Z.abs m < 2 ^ 53 -> in_range (fmt_of sg) m e ->
    exists b,
      near (fmt_of sg) m e b /\
      let st' := fst (set_variable E st name (PFloat m e)) in
      snd (set_variable E st name (PFloat m e)) = Ok tt /\
      get_variable E st' name 0 = Ok (mbf_to_value (fmt_of sg) b) /\
      evaluate st' name [] = (st', Ok (mbf_to_value (fmt_of sg) b)).

Definition float_contract (E : env) : Prop :=
  forall F m e, (F = Fsng \/ F = Fdbl) -> m <> 0 -> Z.abs m < 2 ^ 53 -> in_range F m e ->
    exists b, e_fv E F (PFloat m e) = Ok b /\ near F m e b.

Theorem float_partial_thm E : float_contract E -> float_statement E.
Proof. intros HC st name sg m e. apply float_partial. exact HC. Qed.

Theorem float_model_thm E : e_fv E = mbf_from_value -> float_statement E.
Proof.
  intros HE. apply float_partial_thm. intros F m e HF Hm Hb Hr. rewrite HE.
  apply model_meets_contract; assumption.
Qed.

(* ------------------------------------------------------------------------------------------------ *)
(* Python ints (and bools) assigned to float variables                                              *)

Lemma bitlen_le a k : 0 < a -> 0 <= k -> a < 2 ^ k -> bitlen a <= k.
Proof.
  intros Ha Hk Hb. destruct (bitlen_spec a Ha) as (B1 & B2 & B3).
  destruct (Z.le_gt_cases (bitlen a) k) as [|C]; [assumption|].
  assert (2 ^ k <= 2 ^ (bitlen a - 1)) by (apply Z.pow_le_mono_r; lia). lia.
Qed.

Lemma round53_small a : 0 < a -> a < 2 ^ 53 -> round53 a = Some (a, 0).
Proof.
  intros Ha Hb. pose proof (bitlen_le a 53 Ha ltac:(lia) Hb) as HL. unfold round53.
  destruct (bitlen a <=? 53) eqn:E; [reflexivity | lia].
Qed.

Lemma from_value_int F n : n <> 0 -> Z.abs n < 2 ^ 53 ->
  mbf_from_value F (PInt n) = Ok (mbf_from_mag F (n <? 0) (Z.abs n) 0).
Proof.
  intros Hn Hb. unfold mbf_from_value. destruct (n =? 0) eqn:E0; [lia|].
  rewrite round53_small by lia. reflexivity.
Qed.

Lemma to_value_zero_sng : mbf_to_value Fsng (f_zero Fsng) = PFloat 0 0. Proof. reflexivity. Qed.
Lemma to_value_zero_dbl : mbf_to_value Fdbl (f_zero Fdbl) = PFloat 0 0. Proof. reflexivity. Qed.

(* what a float variable returns after set_variable(name, <int>) *)
Theorem int_float_set_get E st name sg n : e_fv E = mbf_from_value ->
  scalar_name name sg -> sg_fmt_name sg -> n <> 0 -> Z.abs n < 2 ^ 53 ->
  let b := mbf_from_mag (fmt_of sg) (n <? 0) (Z.abs n) 0 in
  let st' := fst (set_variable E st name (PInt n)) in
  snd (set_variable E st name (PInt n)) = Ok tt /\
  get_variable E st' name 0 = Ok (mbf_to_value (fmt_of sg) b) /\
  evaluate st' name [] = (st', Ok (mbf_to_value (fmt_of sg) b)).
Proof.
  intros HE Hn Hs Hz Hb.
  assert (Hv : from_value E sg (PInt n) = Ok (SNum (mbf_from_mag (fmt_of sg) (n <? 0) (Z.abs n) 0))).
  { rewrite from_value_float, HE, from_value_int by assumption. reflexivity. }
  pose proof (scalar_roundtrip E st name sg (PInt n) (PInt n) _ Hn eq_refl Hv) as H.
  cbv zeta in H |- *. rewrite to_value_float in H by exact Hs. exact H.
Qed.

Theorem int_float_zero E st name sg : e_fv E = mbf_from_value -> scalar_name name sg -> sg_fmt_name sg ->
  let st' := fst (set_variable E st name (PInt 0)) in
  snd (set_variable E st name (PInt 0)) = Ok tt /\
  get_variable E st' name 0 = Ok (PFloat 0 0) /\ evaluate st' name [] = (st', Ok (PFloat 0 0)).
Proof.
  intros HE Hn Hs.
  assert (Hv : from_value E sg (PInt 0) = Ok (SNum (f_zero (fmt_of sg)))).
  { rewrite from_value_float, HE by assumption. reflexivity. }
  pose proof (scalar_roundtrip E st name sg (PInt 0) (PInt 0) _ Hn eq_refl Hv) as H.
  cbv zeta in H |- *. rewrite to_value_float in H by exact Hs.
  destruct Hs as [->| ->]; [change (fmt_of sg_sng) with Fsng in H; rewrite to_value_zero_sng in H
                           | change (fmt_of sg_dbl) with Fdbl in H; rewrite to_value_zero_dbl in H]; exact H.
Qed.

(* every int of at most 53 bits is in the exponent range of both formats *)
Lemma int_in_range_single n : n <> 0 -> Z.abs n < 2 ^ 53 -> in_range Fsng n 0.
Proof.
  intros Hn Hb. assert (Ha : 0 < Z.abs n) by lia.
  pose proof (bitlen_le _ 53 Ha ltac:(lia) Hb). destruct (bitlen_spec _ Ha) as (B1 & _).
  unfold in_range. cbv zeta. destruct (2 ^ f_nbits Fsng - 1 <? mbf_round_man Fsng (Z.abs n)); lia.
Qed.
