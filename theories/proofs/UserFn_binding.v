(* C20: while the body of a DEF FN is evaluated, every parameter holds its converted argument. *)
From Coq Require Import ZArith List Bool Lia.
From PCB Require Import lib.Result lib.PyInt model.StrSpace model.UserFn
     proofs.StrSpace_base proofs.StrSpace_gc proofs.StrSpace_inv proofs.StrSpace_ops proofs.UserFn_proofs proofs.UserFn_stmt.
Import ListNotations.
Open Scope Z_scope.

Section Binding.
Variable c : cfg.

(* the value an argument object stands for, in the same form as sval_of *)
Definition arg_val (s : state) (o : obj) : res (list Z) * Z :=
  match o with
  | ONum _ z => (Ok [], z)
  | _ => (deref c s (optr s o), 0)
  end.

(* what conv_arg produces for a parameter named n *)
Definition typed_for (n : Z) (o : obj) : Prop :=
  if is_strname n then exists p, o = OStr p else exists t z, o = ONum t z /\ conv_num (nty n) z = Ok z.

Lemma RO_arg_val s s' o o' : RO c s s' o o' -> (exists p, o = OStr p) \/ (exists t z, o = ONum t z) -> arg_val s' o' = arg_val s o.
Proof.
  intros H [(p & ->)|(t & z & ->)].
  - destruct o'; simpl in H; try discriminate; try contradiction. destruct H as (_ & Hd & _). simpl. rewrite Hd. reflexivity.
  - simpl in H. subst o'. reflexivity.
Qed.

Lemma RO_typed s s' n o o' : RO c s s' o o' -> typed_for n o -> typed_for n o'.
Proof.
  unfold typed_for. intros H. destruct (is_strname n).
  - intros (p & ->). destruct o'; simpl in H; try discriminate; try contradiction. eauto.
  - intros (t & z & -> & Hc). simpl in H. subst o'. eauto.
Qed.

Lemma Forall2_nth_RO s s' l l' i : Forall2 (RO c s s') l l' -> RO c s s' (nth i l (ONum 0 0)) (nth i l' (ONum 0 0)).
Proof. intros H. revert i. induction H; intros [|i]; simpl; auto. Qed.

Lemma RelX_sval_other (X : Z -> Prop) s s' n : RelX c X s s' -> ~ X n -> sval_of c s' n = sval_of c s n.
Proof.
  intros H Hn. unfold sval_of. destruct (lookup n (scal s)) as [[p|z]|] eqn:E.
  - destruct (r_scal _ _ _ _ H n p Hn E) as (p' & -> & (_ & Hd & _)). rewrite Hd. reflexivity.
  - rewrite (r_num _ _ _ _ H n z Hn E). reflexivity.
  - destruct (r_new _ _ _ _ H n Hn E) as [->|(v & -> & Hz)]; [reflexivity|].
    destruct v as [p|z]; simpl in Hz; [|subst; reflexivity].
    destruct p as [l a]. simpl in Hz. subst l. reflexivity.
Qed.

(* Scalars.set(name, value): afterwards the scalar holds the value *)
Lemma set_scalar_value s n idx s1 :
  Good c s -> typed_for n (nth idx (tvals s) (ONum 0 0)) ->
  set_scalar c s n (Some (VTmp idx)) = (s1, Ok tt) ->
  sval_of c s1 n = arg_val s1 (nth idx (tvals s1) (ONum 0 0)) /\ typed_for n (nth idx (tvals s1) (ONum 0 0)).
Proof.
  intros G Ht. unfold set_scalar. cbn [read_src].
  set (s0 := if is_strobj (nth idx (tvals s) (ONum 0 0)) then fix_temporaries s else s).
  assert (G0 : Good c s0) by (unfold s0; destruct (is_strobj _); [apply fix_temporaries_good, G|exact G]).
  assert (Et : tvals s0 = tvals s) by (unfold s0; destruct (is_strobj _); reflexivity).
  rewrite Et. destruct (check_type n (nth idx (tvals s) (ONum 0 0))) as [[]|?|?|]; try discriminate.
  pose proof (alloc_scalar_good c s0 n G0) as Ha. destruct (alloc_scalar c s0 n) as [sa ra].
  destruct Ha as (Ga & _ & Ra & _). unfold bindR. destruct ra as [[]|?|?|]; try discriminate.
  unfold retR. intros E. inversion E; subst s1. clear E.
  pose proof (Forall2_nth_RO _ _ _ _ idx (r_tvals _ _ _ _ Ra)) as HRO. rewrite Et in HRO.
  pose proof (RO_typed _ _ n _ _ HRO Ht) as Hta. split; [|exact Hta].
  unfold sval_of. simpl. rewrite lookup_upsert_same. unfold obj_sval, typed_for in *.
  destruct (is_strname n).
  - destruct Hta as (p & ->). simpl. unfold deref. reflexivity.
  - destruct Hta as (t & z & -> & _). reflexivity.
Qed.

(* bind_params only touches the parameters; temp_values keep their values *)
Lemma bind_params_rel : forall ps j k m s, Good c s ->
  let '(s', r) := bind_params c ps j k m s in Good c s' /\ RelX c (fun x => In x ps) s s'.
Proof.
  induction ps as [|n ps IH]; intros j k m s G; cbn [bind_params]; [split; [exact G|apply RelX_refl]|].
  destruct (j <? k)%nat; [|split; [exact G|apply RelX_refl]].
  pose proof (set_scalar_good c s n (Some (VTmp (m + (k - 1 - j)))) G I) as H.
  destruct (set_scalar c s n (Some (VTmp (m + (k - 1 - j))))) as [s1 r1]. destruct H as (G1 & _ & R1 & _).
  assert (R1' : RelX c (fun x => In x (n :: ps)) s s1) by (eapply RelX_weaken; [|exact R1]; intros x ->; left; reflexivity).
  unfold bindR. destruct r1 as [[]|?|?|]; try (split; assumption).
  specialize (IH (S j) k m s1 G1). destruct (bind_params c ps (S j) k m s1) as [s' r]. destruct IH as [G' R'].
  split; [exact G'|]. eapply RelX_trans; [exact R1'|]. eapply RelX_weaken; [|exact R']. intros x Hx. right; exact Hx.
Qed.

Lemma typed_shape n o : typed_for n o -> (exists p, o = OStr p) \/ (exists t z, o = ONum t z).
Proof. unfold typed_for. destruct (is_strname n); [intros (p & ->); eauto|intros (t & z & -> & _); eauto]. Qed.

(* the binding theorem: after all parameters have been bound, parameter number i holds argument number i,
   unless the same name occurs again later in the list (then the later argument wins, as in the code) *)
Theorem bind_params_values : forall ps j k m s s',
  Good c s -> (j + length ps <= k)%nat ->
  (forall i n, nth_error ps i = Some n -> typed_for n (nth (m + (k - 1 - (j + i))) (tvals s) (ONum 0 0))) ->
  bind_params c ps j k m s = (s', Ok tt) ->
  forall i n, nth_error ps i = Some n -> ~ In n (skipn (S i) ps) ->
    sval_of c s' n = arg_val s' (nth (m + (k - 1 - (j + i))) (tvals s') (ONum 0 0)).
Proof.
  induction ps as [|p ps IH]; intros j k m s s' G Hk Hty Hb i n Hi Hlast; [destruct i; discriminate|].
  simpl in Hk. cbn [bind_params] in Hb. assert (Ejk : (j <? k)%nat = true) by (apply Nat.ltb_lt; lia). rewrite Ejk in Hb.
  destruct (set_scalar c s p (Some (VTmp (m + (k - 1 - j))))) as [s1 r1] eqn:Es.
  pose proof (set_scalar_good c s p (Some (VTmp (m + (k - 1 - j)))) G I) as Hg. rewrite Es in Hg. destruct Hg as (G1 & _ & R1 & _).
  unfold bindR in Hb. destruct r1 as [[]|?|?|]; try discriminate.
  assert (Hty1 : forall i0 n0, nth_error ps i0 = Some n0 -> typed_for n0 (nth (m + (k - 1 - (S j + i0))) (tvals s1) (ONum 0 0))).
  { intros i0 n0 H0. eapply RO_typed; [apply Forall2_nth_RO, (r_tvals _ _ _ _ R1)|].
    replace (S j + i0)%nat with (j + S i0)%nat by lia. apply (Hty (S i0) n0). exact H0. }
  destruct i as [|i].
  - simpl in Hi. inversion Hi; subst p. rewrite Nat.add_0_r. simpl in Hlast.
    destruct (set_scalar_value s n (m + (k - 1 - j)) s1 G) as [Hv Ht1].
    { pose proof (Hty 0%nat n eq_refl) as H. rewrite Nat.add_0_r in H. exact H. }
    { exact Es. }
    pose proof (bind_params_rel ps (S j) k m s1 G1) as Hr. rewrite Hb in Hr. destruct Hr as [G' R'].
    rewrite (RelX_sval_other _ _ _ n R' Hlast), Hv. symmetry.
    apply RO_arg_val; [apply Forall2_nth_RO, (r_tvals _ _ _ _ R')|]. eapply typed_shape; eauto.
  - simpl in Hi, Hlast. replace (j + S i)%nat with (S j + i)%nat by lia.
    apply (IH (S j) k m s1 s' G1); auto. lia.
Qed.

(* what the argument loop puts into temp_values is typed for its parameter *)
Lemma conv_arg_typed p s v o : conv_arg p s v = Ok o -> typed_for p o.
Proof.
  unfold conv_arg, typed_for. destruct (is_strname p).
  - destruct (is_strobj v); [|discriminate]. intros H; inversion H; eauto.
  - destruct v; try discriminate. unfold conv_num. destruct ((nty p =? 2) && ((z <? -32768) || (32767 <? z))) eqn:E; simpl; [discriminate|].
    intros H; inversion H; subst. exists (nty p), z. split; [reflexivity|]. rewrite E. reflexivity.
Qed.
(* arguments are collector roots from the moment they are converted: whatever the evaluation of a later argument does
   (allocation, the collection of FRE(""), nested calls), the converted value stays in temp_values at its place
   and still stands for the same value *)
Theorem converted_argument_rooted fuel p e s v o :
  Good c s -> Jt s -> obj_ok c s v -> conv_arg p s v = Ok o ->
  let '(s', _) := parse c fuel e (tv_push s o) in
  Good c s' /\ length (tvals s') = S (length (tvals s)) /\
  typed_for p (nth 0 (tvals s') (ONum 0 0)) /\ arg_val s' (nth 0 (tvals s') (ONum 0 0)) = arg_val s o.
Proof.
  intros G J Hv Ec.
  assert (Hoo : obj_ok c s o) by (eapply conv_arg_ok; eauto).
  assert (G1 : Good c (tv_push s o)) by (apply tv_push_good; assumption).
  assert (J1 : Jt (tv_push s o)) by (eapply Jt_containers; [|exact J]; unfold tv_push; apply same_mem_set_tvals).
  pose proof (parse_EV c fuel e (tv_push s o) G1 J1) as H. unfold EV in H.
  destruct (parse c fuel e (tv_push s o)) as [s' r]. destruct H as (G' & _ & R' & _).
  pose proof (r_tvals _ _ _ _ R') as Ht. simpl in Ht.
  split; [exact G'|]. split; [symmetry; exact (Forall2_length _ _ _ Ht)|].
  pose proof (Forall2_nth_RO _ _ _ _ 0%nat Ht) as H0. simpl in H0.
  pose proof (conv_arg_typed _ _ _ _ Ec) as Hty.
  split; [eapply RO_typed; eauto|].
  rewrite (RO_arg_val _ _ _ _ H0).
  - destruct o; reflexivity.
  - unfold typed_for in Hty. destruct (is_strname p); [left; exact Hty|right]. destruct Hty as (t & z & -> & _). eauto.
Qed.
End Binding.
