(* C32: what one iteration of the flood-fill loop pushes on the two adjacent rows (push_adjacent),
   and the counting functions used by the termination measure *)
From Coq Require Import ZArith List Bool Lia.
From PCB Require Import lib.Result lib.PyInt model.Flood proofs.Flood_base.
Import ListNotations.
Open Scope Z_scope.

Record adj_ok (v : bounds) (m : bitmap) (p : pat) (border xs xe y d xl xr : Z) (news : list seedt) : Prop := {
  ao_each : forall e, In e news -> exists a b d', e = (a, b, y + d', d') /\ (d' = 1 \/ d' = -1) /\
              by0 v <= y + d' <= by1 v /\ xl <= a /\ a <= b /\ b <= xr /\
              (forall i, a <= i <= b -> pix m i (y + d') <> border) /\
              has_same m p (y + d') a (b - a + 1) = false;
  ao_all : forall i d', xl <= i <= xr -> (d' = 1 \/ d' = -1) -> by0 v <= y + d' <= by1 v ->
              closed m p border i (y + d') \/ covered news i (y + d') \/
              (d <> 0 /\ d' = - d /\ xs <= i <= xe);
  ao_count : Z.of_nat (length news) <= 2 * (xr - xl + 1)
}.

Lemma adj_ok_closed v m p border xs xe y d xl xr news : stops_on_tile p ->
  adj_ok v m p border xs xe y d xl xr news ->
  (forall i d', xl <= i <= xr -> (d' = 1 \/ d' = -1) -> by0 v <= y + d' <= by1 v ->
                closed m p border i (y + d')) ->
  news = [].
Proof.
  intros Hst [Heach _ _] Hcl. destruct news as [|e t]; [reflexivity|exfalso].
  destruct (Heach e (or_introl eq_refl))
    as (a & b & d' & _ & Hd' & Hy & Ha1 & Ha2 & Ha3 & Hnb & Hnf).
  destruct (not_same_cell m p (y + d') a b Hst Ha2 Hnf) as (i & Hi & Hne).
  destruct (Hcl i d' ltac:(lia) Hd' Hy) as [Hc|Hc]; [apply (Hnb i Hi Hc) | apply (Hne Hc)].
Qed.

(* transfer of one _check_scanline result into the adj_ok vocabulary *)
Lemma pushed_each v m p border y d' a0 b0 xl xr news :
  pushed_ok m p border (y + d') d' a0 b0 news ->
  (d' = 1 \/ d' = -1) -> by0 v <= y + d' <= by1 v -> xl <= a0 -> b0 <= xr ->
  forall e, In e news -> exists a b d'', e = (a, b, y + d'', d'') /\ (d'' = 1 \/ d'' = -1) /\
              by0 v <= y + d'' <= by1 v /\ xl <= a /\ a <= b /\ b <= xr /\
              (forall i, a <= i <= b -> pix m i (y + d'') <> border) /\
              has_same m p (y + d'') a (b - a + 1) = false.
Proof.
  intros [Heach _ _] Hd Hy Hl Hr e He.
  destruct (Heach e He) as (a & b & -> & H1 & H2 & H3 & H4 & H5).
  exists a, b, d'. repeat split; auto; lia.
Qed.

Lemma push_adjacent_spec v m p border xs xe y d xl xr rest :
  (d = 0 \/ d = 1 \/ d = -1) -> xl <= xs -> xs <= xe -> xe <= xr -> by0 v <= y <= by1 v ->
  exists news, push_adjacent v m p border xs xe y d xl xr rest = Some (news ++ rest) /\
               adj_ok v m p border xs xe y d xl xr news.
Proof.
  intros Hd Hl Hm Hr Hyv. unfold push_adjacent.
  destruct (d =? 0) eqn:Ed.
  - (* first interval: both neighbouring rows over the whole extended interval *)
    apply Z.eqb_eq in Ed. subst d.
    assert (H1 : exists n1, (if y + 1 <=? by1 v then check_scanline rest m p border xl xr (y + 1) 1
                             else Some rest) = Some (n1 ++ rest) /\
                            (y + 1 <= by1 v -> pushed_ok m p border (y + 1) 1 xl xr n1) /\
                            (by1 v < y + 1 -> n1 = [])).
    { destruct (y + 1 <=? by1 v) eqn:E.
      - apply Z.leb_le in E. destruct (check_scanline_spec rest m p border xl xr (y + 1) 1) as (n1 & Hq & Hok).
        exists n1. split; [exact Hq|]. split; [auto|lia].
      - apply Z.leb_gt in E. exists []. split; [reflexivity|]. split; [lia|auto]. }
    destruct H1 as (n1 & Hq1 & Hok1 & Hnil1). rewrite Hq1. cbn [obind].
    assert (H2 : exists n2, (if by0 v <=? y - 1 then check_scanline (n1 ++ rest) m p border xl xr (y - 1) (-1)
                             else Some (n1 ++ rest)) = Some (n2 ++ n1 ++ rest) /\
                            (by0 v <= y - 1 -> pushed_ok m p border (y + -1) (-1) xl xr n2) /\
                            (y - 1 < by0 v -> n2 = [])).
    { destruct (by0 v <=? y - 1) eqn:E.
      - apply Z.leb_le in E.
        destruct (check_scanline_spec (n1 ++ rest) m p border xl xr (y - 1) (-1)) as (n2 & Hq & Hok).
        exists n2. split; [exact Hq|]. split; [intros _; exact Hok|lia].
      - apply Z.leb_gt in E. exists []. split; [reflexivity|]. split; [lia|auto]. }
    destruct H2 as (n2 & Hq2 & Hok2 & Hnil2). rewrite Hq2.
    exists (n2 ++ n1). split; [now rewrite app_assoc|].
    constructor.
    + intros e He. apply in_app_or in He as [He|He].
      * destruct (Z_le_gt_dec (by0 v) (y - 1)) as [Hb|Hb]; [|rewrite Hnil2 in He by lia; destruct He].
        apply (pushed_each v m p border y (-1) xl xr xl xr n2); auto; try lia.
      * destruct (Z_le_gt_dec (y + 1) (by1 v)) as [Hb|Hb]; [|rewrite Hnil1 in He by lia; destruct He].
        apply (pushed_each v m p border y 1 xl xr xl xr n1); auto; try lia.
    + intros i d' Hi Hd' Hy. destruct Hd' as [->| ->].
      * destruct (po_all _ _ _ _ _ _ _ _ (Hok1 ltac:(lia)) i Hi) as [Hc|Hc]; [now left|].
        right. left. apply covered_app. now right.
      * destruct (po_all _ _ _ _ _ _ _ _ (Hok2 ltac:(lia)) i Hi) as [Hc|Hc]; [now left|].
        right. left. apply covered_app. now left.
    + rewrite app_length, Nat2Z.inj_add.
      assert (Z.of_nat (length n1) <= Z.max 0 (xr - xl + 1)).
      { destruct (Z_le_gt_dec (y + 1) (by1 v)) as [Hb|Hb];
          [apply (po_count _ _ _ _ _ _ _ _ (Hok1 Hb)) | rewrite Hnil1 by lia; simpl; lia]. }
      assert (Z.of_nat (length n2) <= Z.max 0 (xr - xl + 1)).
      { destruct (Z_le_gt_dec (by0 v) (y - 1)) as [Hb|Hb];
          [apply (po_count _ _ _ _ _ _ _ _ (Hok2 Hb)) | rewrite Hnil2 by lia; simpl; lia]. }
      lia.
  - (* later intervals: the row ahead over the whole interval, the row behind only where the interval grew *)
    apply Z.eqb_neq in Ed.
    assert (Hd1 : d = 1 \/ d = -1) by (destruct Hd as [?|?]; [contradiction|assumption]).
    set (gf := (y + d <=? by1 v) && (by0 v <=? y + d)).
    set (gb := (y - d <=? by1 v) && (by0 v <=? y - d)).
    assert (Hgf : gf = true <-> by0 v <= y + d <= by1 v)
      by (unfold gf; rewrite andb_true_iff, !Z.leb_le; lia).
    assert (Hgb : gb = true <-> by0 v <= y - d <= by1 v)
      by (unfold gb; rewrite andb_true_iff, !Z.leb_le; lia).
    assert (H1 : exists n1, (if gf then check_scanline rest m p border xl xr (y + d) d
                             else Some rest) = Some (n1 ++ rest) /\
                            (gf = true -> pushed_ok m p border (y + d) d xl xr n1) /\
                            (gf = false -> n1 = [])).
    { destruct gf.
      - destruct (check_scanline_spec rest m p border xl xr (y + d) d) as (n1 & Hq & Hok).
        exists n1. split; [exact Hq|]. split; [auto|discriminate].
      - exists []. split; [reflexivity|]. split; [discriminate|auto]. }
    destruct H1 as (n1 & Hq1 & Hok1 & Hnil1). rewrite Hq1. cbn [obind].
    assert (H2 : exists n2 n3,
               (if gb then obind (check_scanline (n1 ++ rest) m p border xl (xs - 1) (y - d) (- d))
                                 (fun w2 => check_scanline w2 m p border (xe + 1) xr (y - d) (- d))
                else Some (n1 ++ rest)) = Some (n3 ++ n2 ++ n1 ++ rest) /\
               (gb = true -> pushed_ok m p border (y + - d) (- d) xl (xs - 1) n2 /\
                             pushed_ok m p border (y + - d) (- d) (xe + 1) xr n3) /\
               (gb = false -> n2 = [] /\ n3 = [])).
    { destruct gb.
      - destruct (check_scanline_spec (n1 ++ rest) m p border xl (xs - 1) (y - d) (- d)) as (n2 & Hq & Hok).
        rewrite Hq. cbn [obind].
        destruct (check_scanline_spec (n2 ++ n1 ++ rest) m p border (xe + 1) xr (y - d) (- d))
          as (n3 & Hq3 & Hok3).
        exists n2, n3. split; [exact Hq3|]. split; [intros _; split; [exact Hok|exact Hok3]|discriminate].
      - exists [], []. split; [reflexivity|]. split; [discriminate|auto]. }
    destruct H2 as (n2 & n3 & Hq2 & Hok2 & Hnil2). rewrite Hq2.
    exists (n3 ++ n2 ++ n1). split; [now rewrite <- !app_assoc|].
    assert (Hmd : - d = 1 \/ - d = -1) by lia.
    constructor.
    + intros e He. apply in_app_or in He as [He|He]; [|apply in_app_or in He as [He|He]].
      * destruct gb eqn:Egb; [|destruct (Hnil2 eq_refl) as [_ ->]; destruct He].
        destruct (Hok2 eq_refl) as [_ Hok3].
        apply (pushed_each v m p border y (- d) (xe + 1) xr xl xr n3); auto; try lia.
        all: try (apply Hgb in Egb; lia).
      * destruct gb eqn:Egb; [|destruct (Hnil2 eq_refl) as [-> _]; destruct He].
        destruct (Hok2 eq_refl) as [Hok2' _].
        apply (pushed_each v m p border y (- d) xl (xs - 1) xl xr n2); auto; try lia.
        all: try (apply Hgb in Egb; lia).
      * destruct gf eqn:Egf; [|rewrite (Hnil1 eq_refl) in He; destruct He].
        apply (pushed_each v m p border y d xl xr xl xr n1); auto; try lia.
        all: try (apply Hgf in Egf; lia).
    + intros i d' Hi Hd' Hy.
      assert (Hcase : d' = d \/ d' = - d) by lia.
      destruct Hcase as [->| ->].
      * assert (Egf : gf = true) by (apply Hgf; lia).
        destruct (po_all _ _ _ _ _ _ _ _ (Hok1 Egf) i Hi) as [Hc|Hc]; [now left|].
        right. left. apply covered_app. right. apply covered_app. now right.
      * assert (Egb : gb = true) by (apply Hgb; lia).
        destruct (Hok2 Egb) as [Hok2' Hok3].
        destruct (Z_lt_ge_dec i xs) as [Hlt|Hge].
        -- destruct (po_all _ _ _ _ _ _ _ _ Hok2' i ltac:(lia)) as [Hc|Hc]; [now left|].
           right. left. apply covered_app. right. apply covered_app. now left.
        -- destruct (Z_le_gt_dec i xe) as [Hle|Hgt].
           ++ right. right. split; [exact Ed|]. split; [reflexivity|lia].
           ++ destruct (po_all _ _ _ _ _ _ _ _ Hok3 i ltac:(lia)) as [Hc|Hc]; [now left|].
              right. left. apply covered_app. now left.
    + rewrite !app_length, !Nat2Z.inj_add.
      assert (Z.of_nat (length n1) <= Z.max 0 (xr - xl + 1)).
      { destruct gf eqn:Egf; [apply (po_count _ _ _ _ _ _ _ _ (Hok1 eq_refl)) |
                              rewrite (Hnil1 eq_refl); simpl; lia]. }
      assert (Z.of_nat (length n2) <= Z.max 0 (xs - 1 - xl + 1) /\
              Z.of_nat (length n3) <= Z.max 0 (xr - (xe + 1) + 1)) as [? ?].
      { destruct gb eqn:Egb.
        - destruct (Hok2 eq_refl) as [Hok2' Hok3]. split.
          + apply (po_count _ _ _ _ _ _ _ _ Hok2').
          + apply (po_count _ _ _ _ _ _ _ _ Hok3).
        - destruct (Hnil2 eq_refl) as [-> ->]. simpl. lia. }
      lia.
Qed.

(* ---------------------------------------------------------------- counting unwritten cells *)

Definition ghost := Z -> Z -> bool.

Fixpoint count_row (W : ghost) (y x : Z) (n : nat) : Z :=
  match n with
  | O => 0
  | S k => (if W x y then 0 else 1) + count_row W y (x + 1) k
  end.

Fixpoint count_rows (W : ghost) (x0 : Z) (w : nat) (y : Z) (h : nat) : Z :=
  match h with
  | O => 0
  | S k => count_row W y x0 w + count_rows W x0 w (y + 1) k
  end.

Lemma count_row_bounds W y : forall n x, 0 <= count_row W y x n <= Z.of_nat n.
Proof.
  induction n as [|n IH]; intro x; cbn [count_row]; [lia|].
  specialize (IH (x + 1)). destruct (W x y); lia.
Qed.

Lemma count_rows_bounds W x0 w : forall h y, 0 <= count_rows W x0 w y h <= Z.of_nat w * Z.of_nat h.
Proof.
  induction h as [|h IH]; intro y; cbn [count_rows]; [lia|].
  specialize (IH (y + 1)). pose proof (count_row_bounds W y w x0). nia.
Qed.

Lemma count_row_ext W W' y : forall n x,
  (forall i, x <= i < x + Z.of_nat n -> W i y = W' i y) -> count_row W y x n = count_row W' y x n.
Proof.
  induction n as [|n IH]; intros x H; cbn [count_row]; [reflexivity|].
  rewrite (H x) by lia. rewrite (IH (x + 1)); [reflexivity|]. intros i Hi. apply H. lia.
Qed.

Lemma count_row_app W y : forall n1 n2 x,
  count_row W y x (n1 + n2) = count_row W y x n1 + count_row W y (x + Z.of_nat n1) n2.
Proof.
  induction n1 as [|n1 IH]; intros n2 x.
  - cbn [count_row plus]. now rewrite Z.add_0_r.
  - cbn [count_row plus]. rewrite IH. replace (x + 1 + Z.of_nat n1) with (x + Z.of_nat (S n1)) by lia. lia.
Qed.

Lemma count_row_false W y : forall n x,
  (forall i, x <= i < x + Z.of_nat n -> W i y = false) -> count_row W y x n = Z.of_nat n.
Proof.
  induction n as [|n IH]; intros x H; cbn [count_row]; [reflexivity|].
  rewrite (H x) by lia. rewrite (IH (x + 1)); [lia|]. intros i Hi. apply H. lia.
Qed.

Lemma count_row_true W y : forall n x,
  (forall i, x <= i < x + Z.of_nat n -> W i y = true) -> count_row W y x n = 0.
Proof.
  induction n as [|n IH]; intros x H; cbn [count_row]; [reflexivity|].
  rewrite (H x) by lia. rewrite (IH (x + 1)); [lia|]. intros i Hi. apply H. lia.
Qed.

(* writing the unwritten interval [xl, xr] of row y removes exactly xr-xl+1 from the row count *)
Lemma count_row_write W W' y x n xl xr :
  x <= xl -> xl <= xr -> xr < x + Z.of_nat n ->
  (forall i, W' i y = W i y || ((xl <=? i) && (i <=? xr))) ->
  (forall i, xl <= i <= xr -> W i y = false) ->
  count_row W y x n = count_row W' y x n + (xr - xl + 1).
Proof.
  intros H1 H2 H3 HW' Hf.
  set (n1 := Z.to_nat (xl - x)). set (n2 := Z.to_nat (xr - xl + 1)).
  set (n3 := Z.to_nat (x + Z.of_nat n - xr - 1)).
  assert (Hn : n = (n1 + (n2 + n3))%nat) by lia.
  rewrite Hn, !count_row_app.
  rewrite (count_row_ext W W' y n1 x).
  2:{ intros i Hi. rewrite HW'. destruct (xl <=? i) eqn:E; [apply Z.leb_le in E; lia|].
      now rewrite orb_false_r. }
  rewrite (count_row_false W y n2), (count_row_true W' y n2).
  2:{ intros i Hi. rewrite HW'.
      assert ((xl <=? i) = true) as -> by (apply Z.leb_le; lia).
      assert ((i <=? xr) = true) as -> by (apply Z.leb_le; lia). apply orb_true_r. }
  2:{ intros i Hi. apply Hf. lia. }
  rewrite (count_row_ext W W' y n3).
  2:{ intros i Hi. rewrite HW'. destruct (i <=? xr) eqn:E; [apply Z.leb_le in E; lia|].
      now rewrite andb_false_r, orb_false_r. }
  lia.
Qed.

Lemma count_rows_ext W W' x0 w : forall h y,
  (forall i j, y <= j < y + Z.of_nat h -> x0 <= i < x0 + Z.of_nat w -> W i j = W' i j) ->
  count_rows W x0 w y h = count_rows W' x0 w y h.
Proof.
  induction h as [|h IH]; intros y H; cbn [count_rows]; [reflexivity|].
  rewrite (count_row_ext W W' y w x0) by (intros i Hi; apply H; lia).
  rewrite (IH (y + 1)); [reflexivity|]. intros i j Hj Hi. apply H; lia.
Qed.

Lemma count_rows_app W x0 w : forall h1 h2 y,
  count_rows W x0 w y (h1 + h2) = count_rows W x0 w y h1 + count_rows W x0 w (y + Z.of_nat h1) h2.
Proof.
  induction h1 as [|h1 IH]; intros h2 y.
  - cbn [count_rows plus]. now rewrite Z.add_0_r.
  - cbn [count_rows plus]. rewrite IH. replace (y + 1 + Z.of_nat h1) with (y + Z.of_nat (S h1)) by lia. lia.
Qed.

Lemma count_rows_write W W' x0 w y0 h y xl xr :
  y0 <= y < y0 + Z.of_nat h -> x0 <= xl -> xl <= xr -> xr < x0 + Z.of_nat w ->
  (forall i j, W' i j = W i j || ((j =? y) && (xl <=? i) && (i <=? xr))) ->
  (forall i, xl <= i <= xr -> W i y = false) ->
  count_rows W x0 w y0 h = count_rows W' x0 w y0 h + (xr - xl + 1).
Proof.
  intros Hy H1 H2 H3 HW' Hf.
  set (h1 := Z.to_nat (y - y0)). set (h3 := Z.to_nat (y0 + Z.of_nat h - y - 1)).
  assert (Hh : h = (h1 + (1 + h3))%nat) by lia.
  rewrite Hh, !count_rows_app.
  rewrite (count_rows_ext W W' x0 w h1 y0).
  2:{ intros i j Hj Hi. rewrite HW'. destruct (j =? y) eqn:E; [apply Z.eqb_eq in E; lia|].
      now rewrite orb_false_r. }
  rewrite (count_rows_ext W W' x0 w h3).
  2:{ intros i j Hj Hi. rewrite HW'. destruct (j =? y) eqn:E; [apply Z.eqb_eq in E; lia|].
      now rewrite orb_false_r. }
  cbn [count_rows]. replace (y0 + Z.of_nat h1) with y by lia.
  rewrite (count_row_write W W' y x0 w xl xr); auto.
  - lia.
  - intros i. rewrite HW', Z.eqb_refl. reflexivity.
Qed.
