(* C10: the primitive operations of the string-space model preserve the invariant (Good) and relate the old and
   the new state pointwise (Rel): values are never lost, only relocated. *)
From Coq Require Import ZArith List Bool Lia.
From PCB Require Import lib.Result lib.PyInt model.StrSpace proofs.StrSpace_base proofs.StrSpace_gc proofs.StrSpace_inv.
Import ListNotations.
Open Scope Z_scope.

Ltac spl := repeat match goal with |- _ /\ _ => split end.

(* ---------- states that differ only in the string space ---------- *)
Definition same_vars (st st' : state) : Prop :=
  scal st' = scal st /\ arrs st' = arrs st /\ stack st' = stack st /\ tvals st' = tvals st /\
  fns st' = fns st /\ active st' = active st /\ totmem st' = totmem st /\ stksz st' = stksz st /\
  scur st' = scur st /\ acur st' = acur st.

Lemma obj_ok_ext c st st' o :
  scal st' = scal st -> arrs st' = arrs st ->
  (forall p, ptr_ok c st p -> ptr_ok c st' p) -> (forall p, ptr_ok c st p -> Jp c st p -> Jp c st' p) ->
  obj_ok c st o -> obj_ok c st' o.
Proof.
  intros Hs Ha Hp HJ. destruct o; simpl; rewrite ?Hs, ?Ha; auto. intros (H0 & H1 & H2). auto.
Qed.

Lemma Forall2_same {A} (R : A -> A -> Prop) l : (forall x, In x l -> R x x) -> Forall2 R l l.
Proof. induction l; intros H; constructor; [apply H; left; reflexivity|apply IHl; intros; apply H; right; assumption]. Qed.

(* a new state with the same variables, an extended string space and a boundary that did not move up
   past any permanent string *)
Lemma Good_ext c st st' :
  Good c st -> same_vars st st' ->
  chain (cur st' + 1) (strs st') (top st' + 1) ->
  (strs st' = [] \/ var_start c + scur st + acur st <= cur st') ->
  match tmp st' with Some t => strs st' = [] \/ cur st' <= t | None => True end ->
  (forall a bs, lookup a (strs st) = Some bs -> lookup a (strs st') = Some bs) ->
  (forall p, ptr_ok c st p -> Jp c st p -> Jp c st' p) ->
  Good c st' /\ Rel c st st'.
Proof.
  intros G (Hs & Ha & Hk & Htv & Hf & Hac & Htm & Hsz & Hsc & Hacu) Hch Hlow Hj1 Hext HJ.
  assert (Hpok : forall p, ptr_ok c st p -> ptr_ok c st' p) by (intros; eapply ptr_ok_ext; eauto).
  assert (HRP : forall p, ptr_ok c st p -> RP c st st' p p).
  { intros p Hp. split; [reflexivity|]. split; [apply deref_ext; auto|]. apply HJ, Hp. }
  assert (Hobj : forall o, obj_ok c st o -> obj_ok c st' o) by (intros; eapply obj_ok_ext; eauto).
  assert (HRO : forall o, obj_ok c st o -> RO c st st' o o).
  { intros o Ho. destruct o; simpl in *; auto. destruct Ho as (? & ? & ?); auto. }
  split.
  - constructor; rewrite ?Hs, ?Ha, ?Hk, ?Htv, ?Hsc, ?Hacu; auto.
    + destruct (g_low _ _ G) as (H1 & H2 & _). auto.
    + exact (g_nd_scal _ _ G).
    + exact (g_nd_arrs _ _ G).
    + intros n v Hl Hn. destruct (g_scal _ _ G n v Hl Hn) as (p & -> & H1 & H2). exists p. auto.
    + exact (g_scal_num _ _ G).
    + intros n d els Hl. destruct (g_arrs _ _ G n d els Hl) as [H1 H2]. split; [exact H1|].
      intros p Hp. destruct (H2 p Hp). auto.
    + exact (g_arrlen _ _ G).
    + exact (g_acur _ _ G).
    + intros fr o Hfr Ho. apply Hobj. eapply (g_stack _ _ G); eauto.
    + intros o Ho. apply Hobj. eapply (g_tvals _ _ G); eauto.
    + exact (g_cfg _ _ G).
  - constructor; rewrite ?Hs, ?Ha, ?Hk, ?Htv; auto.
    + intros n p _ Hl. exists p. split; [exact Hl|]. destruct (is_strname n) eqn:E.
      * destruct (g_scal _ _ G n _ Hl E) as (p' & Hp' & H1 & _). inversion Hp'; subst. auto.
      * destruct (g_scal_num _ _ G n _ Hl E) as (z & Hz). discriminate.
    + intros n d els Hl. exists els. split; [exact Hl|]. destruct (g_arrs _ _ G n d els Hl) as [_ H2].
      apply Forall2_same. intros x Hx. apply HRP, (H2 x Hx).
    + apply Forall2_same. intros fr Hfr. apply Forall2_same. intros o Ho. apply HRO. eapply (g_stack _ _ G); eauto.
    + apply Forall2_same. intros o Ho. apply HRO. eapply (g_tvals _ _ G); eauto.
Qed.

Lemma Jp_same_tmp c st st' p : tmp st' = tmp st -> Jp c st p -> Jp c st' p.
Proof. unfold Jp. intros ->. auto. Qed.

(* ---------- check_free ---------- *)
Lemma check_free_good c st size err :
  Good c st ->
  let '(st', r) := check_free c st size err in
  Good c st' /\ Rel c st st' /\ shape st' = shape st /\ (Jt st -> Jt st') /\ cur st <= cur st' /\ top st' = top st /\
  (r = Ok tt -> size < free c st') /\ (forall h, r <> Host h) /\ r <> OutOfFuel.
Proof.
  intros G. unfold check_free. destruct (free c st <=? size) eqn:E.
  - destruct (collect_good c st G) as (st' & Hc & G' & HJt & HR & Hsh & Hle & Htop). rewrite Hc.
    destruct (free c st' <=? size) eqn:E'; unfold errR, retR.
    + spl; auto; try (intros; discriminate).
    + apply Z.leb_gt in E'. spl; auto; try (intros; discriminate).
  - apply Z.leb_gt in E. unfold retR. spl; auto using Rel_refl; try lia; try (intros; discriminate).
Qed.

(* ---------- store ---------- *)
Lemma zlen_zero_nil {A} (l : list A) : zlen l = 0 -> l = [].
Proof. destruct l; [reflexivity|]. unfold zlen. simpl. lia. Qed.

Lemma store_raw_same_vars st bs : same_vars st (fst (store_raw st bs)).
Proof. unfold store_raw, same_vars. destruct (0 <? zlen bs); simpl; repeat split; reflexivity. Qed.

Lemma store_good c st bs :
  Good c st -> Jt st ->
  let '(st', r) := store c st bs in
  Good c st' /\ Jt st' /\ Rel c st st' /\ shape st' = shape st /\
  (forall p, r = Ok p -> ptr_ok c st' p /\ fst p = zlen bs /\ deref c st' p = Ok bs /\
                         (0 < zlen bs -> var_start c <= snd p /\ lookup (snd p) (strs st') = Some bs)) /\
  (forall h, r <> Host h) /\ r <> OutOfFuel.
Proof.
  intros G HJt. unfold store. destruct (255 <? zlen bs) eqn:E255.
  - unfold errR. spl; auto using Rel_refl; intros; discriminate.
  - apply Z.ltb_ge in E255. pose proof (check_free_good c st (zlen bs) 14 G) as Hcf.
    destruct (check_free c st (zlen bs) 14) as [st1 r1]. destruct Hcf as (G1 & HR1 & Hsh1 & HJ1 & Hle1 & Htop1 & Hfree & Hnh & Hnf).
    destruct r1 as [[]|e|h|]; cbn [bindR]; try (spl; auto; try (intros; discriminate); fail).
    + specialize (Hfree eq_refl). specialize (HJ1 HJt).
      pose proof (store_raw_same_vars st1 bs) as Hsv.
      pose proof (store_raw_cur st1 bs) as Hcur. pose proof (store_raw_ptr st1 bs) as Hptr.
      destruct (store_raw_other st1 bs) as (_ & _ & _ & _ & Htop & Htmp & Hsc & Hac).
      destruct (store_raw st1 bs) as [st2 p] eqn:Esr. cbn [fst snd] in *.
      assert (Hn0 : 0 <= zlen bs) by apply zlen_nonneg.
      destruct (Good_ext c st1 st2) as [G2 HR2]; auto.
      * pose proof (store_raw_chain st1 bs (g_chain _ _ G1) E255) as H. rewrite Esr in H. exact H.
      * right. unfold free in Hfree. lia.
      * rewrite Htmp. unfold Jt in HJ1. destruct (tmp st1); [right; lia|exact I].
      * intros a x Hx. pose proof (store_raw_lookup_old st1 bs a x (g_chain _ _ G1) Hx) as H. rewrite Esr in H. exact H.
      * intros q _. apply Jp_same_tmp, Htmp.
      * unfold retR. split; [exact G2|]. split; [unfold Jt in *; rewrite Htmp; destruct (tmp st1); [lia|exact I]|].
        split; [eapply Rel_trans; eassumption|]. split.
        { rewrite <- Hsh1. unfold shape. destruct Hsv as (a1 & a2 & a3 & a4 & a5 & a6 & a7 & a8 & a9 & a10).
          rewrite a1, a2, a3, a4, a5, a6, a7, a8, a9, a10. reflexivity. }
        split; [|split; intros; discriminate].
        intros q Hq. inversion Hq; subst q. subst p. simpl.
        destruct (Z.eq_dec (zlen bs) 0) as [Hz|Hz].
        -- split; [split; intros _; [left|]; exact Hz|]. split; [reflexivity|].
           split; [|intros; lia]. unfold deref. rewrite Hz. simpl. apply zlen_zero_nil in Hz. subst bs. reflexivity.
        -- assert (Hpos : 0 < zlen bs) by lia.
           pose proof (store_raw_lookup_new st1 bs Hpos) as Hnew. rewrite Esr in Hnew. simpl in Hnew.
           assert (Hv : (var_start c <=? cur st1 - zlen bs + 1) = true).
           { apply Z.leb_le. destruct (g_low _ _ G1) as (? & ? & _). unfold free in Hfree. lia. }
           split; [split; [intros _; right; exists bs; auto|]|].
           { simpl. intros Hlt. apply Z.leb_le in Hv. pose proof (g_cfg _ _ G1). lia. }
           split; [reflexivity|].
           split; [|intros _; split; [apply Z.leb_le; exact Hv|exact Hnew]].
           unfold deref. apply Z.eqb_neq in Hz. rewrite Hz.
           rewrite Hv, Hnew. reflexivity.
    + exfalso. eapply Hnh; reflexivity.
Qed.

(* ---------- fix_temporaries ---------- *)
Lemma ptr_ok_above_cur c st p : Good c st -> ptr_ok c st p -> 0 < fst p -> var_start c <= snd p -> cur st < snd p.
Proof.
  intros G Hok Hp Hv. destruct (proj1 Hok Hv) as [H|(bs & Hl & _)]; [lia|].
  apply (chain_lookup _ _ _ _ _ (g_chain _ _ G)) in Hl. lia.
Qed.

Lemma fix_temporaries_good c st :
  Good c st ->
  Good c (fix_temporaries st) /\ Jt (fix_temporaries st) /\ Rel c st (fix_temporaries st) /\
  (forall p, ptr_ok c st p -> Jp c (fix_temporaries st) p).
Proof.
  intros G. unfold fix_temporaries.
  assert (HJ : forall p, ptr_ok c st p -> Jp c (set_tmp st (Some (cur st))) p).
  { intros p Hok. unfold Jp. simpl. intros Hp Hv. eapply ptr_ok_above_cur; eauto. }
  destruct (Good_ext c st (set_tmp st (Some (cur st)))) as [G' HR]; auto.
  - unfold same_vars. simpl. repeat split; reflexivity.
  - exact (g_chain _ _ G).
  - destruct (g_low _ _ G) as (_ & _ & H). exact H.
  - simpl. right. lia.
  - split; [exact G'|]. split; [unfold Jt; simpl; lia|]. split; [exact HR|exact HJ].
Qed.

(* ---------- changes of the stacks and of temp_values only ---------- *)
Definition same_mem (st st' : state) : Prop :=
  strs st' = strs st /\ cur st' = cur st /\ tmp st' = tmp st /\ totmem st' = totmem st /\ stksz st' = stksz st /\
  scal st' = scal st /\ arrs st' = arrs st /\ scur st' = scur st /\ acur st' = acur st.

Lemma ptr_ok_same c st st' p : strs st' = strs st -> ptr_ok c st p -> ptr_ok c st' p.
Proof. unfold ptr_ok. intros ->. auto. Qed.

Lemma obj_ok_same c st st' o : same_mem st st' -> obj_ok c st o -> obj_ok c st' o.
Proof.
  intros (H1 & H2 & H3 & H4 & H5 & H6 & H7 & H8 & H9). destruct o; simpl; rewrite ?H6, ?H7; auto.
  - apply ptr_ok_same, H1.
  - intros (A0 & A & B). split; [exact A0|]. split; [eapply ptr_ok_same; eauto|eapply Jp_same_tmp; eauto].
Qed.

Lemma Good_containers c st st' :
  Good c st -> same_mem st st' ->
  (forall fr o, In fr (stack st') -> In o fr -> obj_ok c st o) ->
  (forall o, In o (tvals st') -> obj_ok c st o) ->
  Good c st'.
Proof.
  intros G Hm Hs Ht. pose proof Hm as (H1 & H2 & H3 & H4 & H5 & H6 & H7 & H8 & H9).
  assert (Htop : top st' = top st) by (unfold top; congruence).
  constructor; rewrite ?H1, ?H2, ?H3, ?H6, ?H7, ?H8, ?H9, ?Htop.
  - exact (g_chain _ _ G).
  - exact (g_low _ _ G).
  - exact (g_j1 _ _ G).
  - exact (g_nd_scal _ _ G).
  - exact (g_nd_arrs _ _ G).
  - intros n v Hl Hn. destruct (g_scal _ _ G n v Hl Hn) as (p & -> & A & B). exists p.
    split; [reflexivity|]. split; [eapply ptr_ok_same; eauto|eapply Jp_same_tmp; eauto].
  - exact (g_scal_num _ _ G).
  - intros n d els Hl. destruct (g_arrs _ _ G n d els Hl) as [A B]. split; [exact A|].
    intros p Hp. destruct (B p Hp). split; [eapply ptr_ok_same; eauto|eapply Jp_same_tmp; eauto].
  - exact (g_arrlen _ _ G).
  - exact (g_acur _ _ G).
  - intros fr o Hfr Ho. eapply obj_ok_same; eauto.
  - intros o Ho. eapply obj_ok_same; eauto.
  - exact (g_cfg _ _ G).
Qed.

Lemma same_mem_set_stack st x : same_mem st (set_stack st x).
Proof. unfold same_mem. simpl. repeat split; reflexivity. Qed.
Lemma same_mem_set_tvals st x : same_mem st (set_tvals st x).
Proof. unfold same_mem. simpl. repeat split; reflexivity. Qed.

Lemma push_frame_good c st : Good c st -> Good c (push_frame st).
Proof.
  intros G. apply (Good_containers c st _ G (same_mem_set_stack _ _)).
  - simpl. intros fr o [<-|H] Ho; [contradiction|]. eapply (g_stack _ _ G); eauto.
  - simpl. exact (g_tvals _ _ G).
Qed.

Lemma pop_frame_good c st : Good c st -> Good c (pop_frame st).
Proof.
  intros G. apply (Good_containers c st _ G (same_mem_set_stack _ _)).
  - simpl. intros fr o H Ho. eapply (g_stack _ _ G); eauto. destruct (stack st); [contradiction|right; exact H].
  - simpl. exact (g_tvals _ _ G).
Qed.

Lemma push_obj_good c st o : Good c st -> obj_ok c st o -> Good c (push_obj st o).
Proof.
  intros G Ho. unfold push_obj. destruct (stack st) as [|fr r] eqn:E.
  - apply (Good_containers c st _ G (same_mem_set_stack _ _)).
    + simpl. intros fr o' [<-|[]] [<-|[]]. exact Ho.
    + simpl. exact (g_tvals _ _ G).
  - apply (Good_containers c st _ G (same_mem_set_stack _ _)).
    + simpl. intros fr' o' [<-|H] Ho'.
      * destruct Ho' as [<-|Ho']; [exact Ho|]. eapply (g_stack _ _ G); [rewrite E; left; reflexivity|exact Ho'].
      * eapply (g_stack _ _ G); [rewrite E; right; exact H|exact Ho'].
    + simpl. exact (g_tvals _ _ G).
Qed.

Lemma pop_obj_good c st : Good c st -> Good c (pop_obj st).
Proof.
  intros G. unfold pop_obj. destruct (stack st) as [|[|o fr] r] eqn:E; auto.
  apply (Good_containers c st _ G (same_mem_set_stack _ _)).
  - simpl. intros fr' o' [<-|H] Ho'.
    + eapply (g_stack _ _ G); [rewrite E; left; reflexivity|right; exact Ho'].
    + eapply (g_stack _ _ G); [rewrite E; right; exact H|exact Ho'].
  - simpl. exact (g_tvals _ _ G).
Qed.

Lemma top_obj_ok c st : Good c st -> obj_ok c st (top_obj st).
Proof.
  intros G. unfold top_obj. destruct (stack st) as [|[|o fr] r] eqn:E; simpl; auto.
  eapply (g_stack _ _ G); [rewrite E; left; reflexivity|left; reflexivity].
Qed.

Lemma tv_push_good c st o : Good c st -> obj_ok c st o -> Good c (tv_push st o).
Proof.
  intros G Ho. apply (Good_containers c st _ G (same_mem_set_tvals _ _)).
  - simpl. exact (g_stack _ _ G).
  - simpl. intros o' [<-|H]; [exact Ho|]. apply (g_tvals _ _ G), H.
Qed.

Lemma tv_pop_good c st : Good c st -> Good c (tv_pop st).
Proof.
  intros G. apply (Good_containers c st _ G (same_mem_set_tvals _ _)).
  - simpl. exact (g_stack _ _ G).
  - simpl. intros o' H. apply (g_tvals _ _ G). destruct (tvals st); [contradiction|right; exact H].
Qed.

Lemma tv_top_ok c st : Good c st -> obj_ok c st (tv_top st).
Proof.
  intros G. unfold tv_top. destruct (tvals st) as [|o r] eqn:E; simpl; auto.
  apply (g_tvals _ _ G). rewrite E. left; reflexivity.
Qed.

Lemma Jt_same st st' : cur st' = cur st -> tmp st' = tmp st -> Jt st -> Jt st'.
Proof. unfold Jt. intros -> ->. auto. Qed.

(* the pointer of an acceptable string object is acceptable *)
Lemma obj_ok_ptr c st o : Good c st -> obj_ok c st o -> ptr_ok c st (optr st o).
Proof.
  intros G Ho. destruct o; simpl in *; auto; try (split; intros _; [left|]; reflexivity).
  - destruct Ho as [Hs (p & Hp)]. unfold scal_ptr. rewrite Hp.
    destruct (g_scal _ _ G n _ Hp Hs) as (p' & E & A & _). inversion E; subst. exact A.
  - destruct Ho as (Hi & d & els & Hl & Hlt). unfold arr_ptr. rewrite Hl.
    destruct (g_arrs _ _ G n d els Hl) as [_ B]. apply B. apply nth_In. exact Hlt.
  - apply Ho.
Qed.

(* ---------- Scalars ---------- *)
Lemma map_fst_upsert_new {A} k (v : A) l : mem_key k l = false -> map fst (upsert k v l) = map fst l ++ [k].
Proof.
  unfold mem_key. induction l as [|[k' v'] l IH]; simpl; intros H; [reflexivity|].
  destruct (k =? k') eqn:E; [discriminate|]. simpl. f_equal. apply IH, H.
Qed.

Lemma mem_key_false_notin {A} k (l : list (Z * A)) : mem_key k l = false -> ~ In k (map fst l).
Proof.
  intros H Hin. apply lookup_In_key in Hin as (v & Hv). unfold mem_key in H. rewrite Hv in H. discriminate.
Qed.

Lemma NoDup_app_single {A} (l : list A) x : NoDup l -> ~ In x l -> NoDup (l ++ [x]).
Proof.
  induction l as [|y l IH]; simpl; intros Hn Hx; [constructor; [auto|constructor]|].
  inversion Hn; subst. constructor.
  - rewrite in_app_iff. intros [H|[H|[]]]; [contradiction|]. apply Hx. left; auto.
  - apply IH; auto.
Qed.

Lemma RP_same_mem c st st' p : strs st' = strs st -> tmp st' = tmp st -> RP c st st' p p.
Proof.
  intros Hs Ht. split; [reflexivity|]. split.
  - unfold deref. rewrite Hs. reflexivity.
  - apply Jp_same_tmp, Ht.
Qed.

Lemma RO_same_mem c st st' o : strs st' = strs st -> tmp st' = tmp st -> RO c st st' o o.
Proof. intros Hs Ht. destruct o; simpl; auto using RP_same_mem. Qed.

Lemma shape_mem_key st st' n : shape st' = shape st -> mem_key n (scal st') = mem_key n (scal st).
Proof.
  unfold shape. intros H. injection H as Hs _. unfold mem_key.
  assert (E : forall l : list (Z * sval), lookup n (map (fun '(n, v) => (n, skind v)) l) = option_map skind (lookup n l))
    by (intros; apply lookup_map_val).
  pose proof (E (scal st')) as E1. rewrite Hs, E in E1.
  destruct (lookup n (scal st)), (lookup n (scal st')); simpl in E1; try discriminate; reflexivity.
Qed.

Lemma zero_ptr_ok c st : ptr_ok c st (0, 0).
Proof. split; intros _; [left|]; reflexivity. Qed.

Lemma zero_Jp c st a : Jp c st (0, a).
Proof. unfold Jp. destruct (tmp st); auto. simpl. lia. Qed.

Lemma nty_range n : 0 <= nty n < 10.
Proof. unfold nty. apply Z.mod_pos_bound. lia. Qed.

(* adding or overwriting one scalar whose new value is acceptable *)
Lemma Good_set_scalar c st n v :
  Good c st ->
  (mem_key n (scal st) = true \/ exists st0, Good c st0) ->
  (is_strname n = true -> exists p, v = SStr p /\ ptr_ok c st p /\ Jp c st p) ->
  (is_strname n = false -> exists z, v = SNum z) ->
  forall sc, (mem_key n (scal st) = true -> sc = scur st) ->
             (mem_key n (scal st) = false -> 0 <= sc /\ (strs st = [] \/ var_start c + sc + acur st <= cur st)) ->
  Good c (set_scal (set_scur st sc) (upsert n v (scal st))) /\
  RelX c (fun m => m = n) st (set_scal (set_scur st sc) (upsert n v (scal st))).
Proof.
  intros G _ Hstr Hnum sc Hsc1 Hsc2.
  set (st' := set_scal (set_scur st sc) (upsert n v (scal st))).
  assert (Hobj : forall o, obj_ok c st o -> obj_ok c st' o).
  { intros o Ho. destruct o; simpl in *; auto.
    - destruct Ho as [Hs (p & Hp)]. split; [exact Hs|]. destruct (Z.eq_dec n0 n) as [->|Hne].
      + rewrite lookup_upsert_same. destruct (Hstr Hs) as (q & -> & _). eauto.
      + rewrite lookup_upsert_other by assumption. eauto. }
  split.
  - constructor; simpl.
    + exact (g_chain _ _ G).
    + destruct (mem_key n (scal st)) eqn:E.
      * rewrite (Hsc1 eq_refl). exact (g_low _ _ G).
      * destruct (Hsc2 eq_refl) as [H1 H2]. destruct (g_low _ _ G) as (_ & H3 & _). auto.
    + exact (g_j1 _ _ G).
    + destruct (mem_key n (scal st)) eqn:E.
      * rewrite map_fst_upsert_mem by assumption. exact (g_nd_scal _ _ G).
      * rewrite map_fst_upsert_new by assumption. apply NoDup_app_single; [exact (g_nd_scal _ _ G)|].
        apply mem_key_false_notin, E.
    + exact (g_nd_arrs _ _ G).
    + intros m w Hl Hm. destruct (Z.eq_dec m n) as [->|Hne].
      * rewrite lookup_upsert_same in Hl. inversion Hl; subst w. destruct (Hstr Hm) as (p & -> & A & B). exists p. auto.
      * rewrite lookup_upsert_other in Hl by assumption. exact (g_scal _ _ G m w Hl Hm).
    + intros m w Hl Hm. destruct (Z.eq_dec m n) as [->|Hne].
      * rewrite lookup_upsert_same in Hl. inversion Hl; subst w. apply Hnum, Hm.
      * rewrite lookup_upsert_other in Hl by assumption. exact (g_scal_num _ _ G m w Hl Hm).
    + exact (g_arrs _ _ G).
    + exact (g_arrlen _ _ G).
    + exact (g_acur _ _ G).
    + intros fr o Hfr Ho. apply Hobj. eapply (g_stack _ _ G); eauto.
    + intros o Ho. apply Hobj. apply (g_tvals _ _ G), Ho.
    + exact (g_cfg _ _ G).
  - constructor; simpl.
    + intros m p Hm Hl. exists p. rewrite lookup_upsert_other by assumption. split; [exact Hl|]. apply RP_same_mem; reflexivity.
    + intros m z Hm Hl. rewrite lookup_upsert_other by assumption. exact Hl.
    + intros m Hm Hl. left. rewrite lookup_upsert_other by assumption. exact Hl.
    + intros m d els Hl. exists els. split; [exact Hl|]. apply Forall2_refl. intros; apply RP_same_mem; reflexivity.
    + auto.
    + apply Forall2_refl. intros fr. apply Forall2_refl. intros; apply RO_same_mem; reflexivity.
    + apply Forall2_refl. intros; apply RO_same_mem; reflexivity.
    + auto.
Qed.

Lemma alloc_scalar_good c st n :
  Good c st ->
  let '(st', r) := alloc_scalar c st n in
  Good c st' /\ (Jt st -> Jt st') /\ Rel c st st' /\
  (r = Ok tt -> mem_key n (scal st') = true) /\ (forall h, r <> Host h) /\ r <> OutOfFuel.
Proof.
  intros G. unfold alloc_scalar. destruct (mem_key n (scal st)) eqn:E.
  - unfold retR. spl; auto using Rel_refl; intros; discriminate.
  - pose proof (check_free_good c st (scalar_mem n) 7 G) as Hcf.
    destruct (check_free c st (scalar_mem n) 7) as [st1 r1].
    destruct Hcf as (G1 & HR1 & Hsh1 & HJ1 & Hle1 & Htop1 & Hfree & Hnh & Hnf).
    destruct r1 as [[]|e|h|]; cbn [bindR]; try (spl; auto; intros; discriminate).
    + specialize (Hfree eq_refl).
      assert (E1 : mem_key n (scal st1) = false) by (rewrite (shape_mem_key _ _ n Hsh1); exact E).
      pose proof (nty_range n) as Hr. unfold scalar_mem, size_bytes in *.
      destruct (Good_set_scalar c st1 n (szero n) G1 (or_intror (ex_intro _ st1 G1))) with (sc := scur st1 + (4 + nty n)) as [G2 HR2].
      * intros Hs. unfold szero. rewrite Hs. exists (0, 0). split; [reflexivity|]. split; [apply zero_ptr_ok|apply zero_Jp].
      * intros Hs. unfold szero. rewrite Hs. eauto.
      * rewrite E1. discriminate.
      * intros _. destruct (g_low _ _ G1) as (H1 & H2 & _). split; [lia|]. right. unfold free in Hfree. lia.
      * unfold retR. split; [exact G2|]. split; [intros HJ; apply HJ1 in HJ; exact HJ|].
        split.
        -- (* the new scalar did not exist before: nothing is exempt *)
           eapply Rel_trans; [exact HR1|]. constructor.
           ++ intros m p _ Hl. apply (r_scal _ _ _ _ HR2); [|exact Hl]. intros ->. unfold mem_key in E1. rewrite Hl in E1. discriminate.
           ++ intros m z _ Hl. apply (r_num _ _ _ _ HR2); [|exact Hl]. intros ->. unfold mem_key in E1. rewrite Hl in E1. discriminate.
           ++ intros m _ Hl. destruct (Z.eq_dec m n) as [->|Hne].
              ** right. exists (szero n). simpl. rewrite lookup_upsert_same. split; [reflexivity|].
                 unfold szero. destruct (is_strname n); reflexivity.
              ** apply (r_new _ _ _ _ HR2); assumption.
           ++ exact (r_arrs _ _ _ _ HR2).
           ++ exact (r_newarr _ _ _ _ HR2).
           ++ exact (r_stack _ _ _ _ HR2).
           ++ exact (r_tvals _ _ _ _ HR2).
           ++ exact (r_misc _ _ _ _ HR2).
        -- split; [intros _; simpl; apply mem_key_upsert_same|]. split; intros; discriminate.
Qed.

Definition src_ok (c : cfg) (s : vsrc) : Prop :=
  match s with
  | VObj o => (forall st, obj_ok c st o) /\ fst (obj_own_ptr o) = 0 /\ (forall n, o <> OVar n) /\ (forall n i, o <> OArr n i)
  | _ => True
  end.

Lemma Forall2_nth {A} (R : A -> A -> Prop) l l' d k : Forall2 R l l' -> R d d -> R (nth k l d) (nth k l' d).
Proof. intros H Hd. revert k. induction H; intros [|k]; simpl; auto. Qed.

Lemma top_obj_rel c X st st' : RelX c X st st' -> RO c st st' (top_obj st) (top_obj st').
Proof.
  intros H. pose proof (r_stack _ _ _ _ H) as Hs. unfold top_obj.
  inversion Hs as [|fr fr' r r' Hfr Hr]; subst; [simpl; reflexivity|].
  inversion Hfr; subst; [simpl; reflexivity|]. assumption.
Qed.

Lemma read_src_rel c X st st' s :
  RelX c X st st' -> (forall o, s <> VObj o) -> RO c st st' (read_src st s) (read_src st' s).
Proof.
  intros H Hs. destruct s; simpl.
  - eapply top_obj_rel; eassumption.
  - apply Forall2_nth; [exact (r_tvals _ _ _ _ H)|simpl; reflexivity].
  - exfalso. eapply Hs; reflexivity.
Qed.

Lemma read_src_ok c st s : Good c st -> src_ok c s -> obj_ok c st (read_src st s).
Proof.
  intros G Hs. destruct s; simpl in *.
  - apply top_obj_ok, G.
  - destruct (nth_in_or_default k (tvals st) (ONum 0 0)) as [H|H]; [apply (g_tvals _ _ G), H|rewrite H; exact I].
  - apply Hs.
Qed.

Lemma Jp_len0 c st p : fst p = 0 -> Jp c st p.
Proof. unfold Jp. destruct (tmp st); auto. intros ->. lia. Qed.

(* the pointer of a string object that sits in a root container (or is a null literal) after a step that kept Jp *)
Lemma obj_Jp_transfer c X st0 st1 s :
  Good c st1 -> RelX c X st0 st1 -> src_ok c s ->
  (forall p, is_own (read_src st0 s) = true -> p = obj_own_ptr (read_src st0 s) -> Jp c st0 p) ->
  obj_ok c st1 (read_src st1 s) ->
  Jp c st1 (optr st1 (read_src st1 s)).
Proof.
  intros G1 HR Hs HJ0 Hok.
  destruct s as [|k|o].
  - pose proof (top_obj_rel _ _ _ _ HR) as HRO. simpl in *.
    destruct (top_obj st1) as [n|n i|p1|t z|n p1|n z] eqn:E1; simpl in *; [| | |apply Jp_len0; reflexivity| |apply Jp_len0; reflexivity].
    + destruct Hok as [Hsn (p & Hp)]. unfold scal_ptr. rewrite Hp. destruct (g_scal _ _ G1 n _ Hp Hsn) as (q & Eq & _ & J). inversion Eq; subst; exact J.
    + destruct Hok as (Hi & d & els & Hl & Hlt). unfold arr_ptr. rewrite Hl. destruct (g_arrs _ _ G1 n d els Hl) as [_ B]. apply B, nth_In, Hlt.
    + destruct (top_obj st0) as [| |p0| | |] eqn:E0; simpl in HRO; try discriminate; try (inversion HRO; fail).
      destruct HRO as (_ & _ & HJ). apply HJ. apply HJ0; reflexivity.
    + apply Hok.
  - pose proof (read_src_rel c X st0 st1 (VTmp k) HR ltac:(discriminate)) as HRO. simpl in *.
    destruct (nth k (tvals st1) (ONum 0 0)) as [n|n i|p1|t z|n p1|n z] eqn:E1; simpl in *; [| | |apply Jp_len0; reflexivity| |apply Jp_len0; reflexivity].
    + destruct Hok as [Hsn (p & Hp)]. unfold scal_ptr. rewrite Hp. destruct (g_scal _ _ G1 n _ Hp Hsn) as (q & Eq & _ & J). inversion Eq; subst; exact J.
    + destruct Hok as (Hi & d & els & Hl & Hlt). unfold arr_ptr. rewrite Hl. destruct (g_arrs _ _ G1 n d els Hl) as [_ B]. apply B, nth_In, Hlt.
    + destruct (nth k (tvals st0) (ONum 0 0)) as [| |p0| | |] eqn:E0; simpl in HRO; try discriminate; try (inversion HRO; fail).
      destruct HRO as (_ & _ & HJ). apply HJ. apply HJ0; reflexivity.
    + apply Hok.
  - simpl in *. destruct Hs as (_ & Hz & Hv & Ha). destruct o; simpl in *.
    + exfalso. eapply Hv; reflexivity.
    + exfalso. eapply Ha; reflexivity.
    + apply Jp_len0, Hz.
    + apply Jp_len0; reflexivity.
    + apply Jp_len0, Hz.
    + apply Jp_len0; reflexivity.
Qed.

Lemma check_type_res n o : (forall h, check_type n o <> Host h) /\ check_type n o <> OutOfFuel.
Proof.
  unfold check_type, conv_num. destruct (is_strname n); [destruct (is_strobj o); split; intros; discriminate|].
  destruct o; try (split; intros; discriminate).
  destruct ((nty n =? 2) && ((z <? -32768) || (32767 <? z))); split; intros; discriminate.
Qed.

Lemma set_scalar_good c st n v :
  Good c st -> match v with Some s => src_ok c s | None => True end ->
  let '(st', r) := set_scalar c st n v in
  Good c st' /\ (Jt st -> Jt st') /\ RelX c (fun m => m = n) st st' /\ (forall h, r <> Host h) /\ r <> OutOfFuel /\
  (r = Ok tt -> mem_key n (scal st') = true).
Proof.
  intros G Hv. unfold set_scalar. destruct v as [s|].
  - (* a value *)
    set (st0 := if is_strobj (read_src st s) then fix_temporaries st else st).
    assert (H0 : Good c st0 /\ (Jt st -> Jt st0) /\ Rel c st st0 /\
                 (is_strobj (read_src st s) = true -> forall p, ptr_ok c st p -> Jp c st0 p) /\
                 read_src st0 s = read_src st s).
    { unfold st0. destruct (is_strobj (read_src st s)) eqn:Es.
      - destruct (fix_temporaries_good c st G) as (A & B & C & D). spl; auto; try (destruct s; reflexivity).
      - spl; auto using Rel_refl; try discriminate. }
    destruct H0 as (G0 & HJ0 & HR0 & HallJ & Hsame).
    destruct (check_type n (read_src st0 s)) as [[]|e|h|] eqn:Ect.
    + pose proof (alloc_scalar_good c st0 n G0) as Ha. destruct (alloc_scalar c st0 n) as [st1 r1].
      destruct Ha as (G1 & HJ1 & HR1 & Hmem & Hnh & Hnf).
      destruct r1 as [[]|e|h|]; cbn [bindR];
        try (spl; auto; try (eapply RelX_weaken; [|eapply Rel_trans; eassumption]; intros ? []); intros; discriminate).
      * specialize (Hmem eq_refl). unfold retR.
        assert (Hok1 : obj_ok c st1 (read_src st1 s)) by (apply read_src_ok; assumption).
        destruct (Good_set_scalar c st1 n (obj_sval st1 n (read_src st1 s)) G1 (or_introl Hmem)) with (sc := scur st1) as [G2 HR2].
        -- intros Hs. unfold obj_sval. rewrite Hs. eexists. split; [reflexivity|]. split; [apply obj_ok_ptr; assumption|].
           apply (obj_Jp_transfer c (fun _ => False) st0 st1 s G1 HR1 Hv); [|exact Hok1].
           intros p Hown ->. rewrite Hsame in *.
           assert (Hso : is_strobj (read_src st s) = true) by (destruct (read_src st s); simpl in *; auto; discriminate).
           apply (HallJ Hso). pose proof (read_src_ok c st s G Hv) as Hk.
           destruct (read_src st s); simpl in *; try discriminate; [exact Hk|apply Hk].
        -- intros Hs. unfold obj_sval. rewrite Hs. destruct (read_src st1 s); eauto.
        -- reflexivity.
        -- rewrite Hmem. discriminate.
        -- split; [exact G2|]. split; [intros HJt; unfold Jt; simpl; apply HJ1, HJ0, HJt|].
           split; [|split; [intros; discriminate|split; [discriminate|intros _; simpl; apply mem_key_upsert_same]]].
           eapply RelX_trans; [|exact HR2]. eapply RelX_weaken; [|eapply Rel_trans; eassumption]. intros ? [].
    + spl; auto; try (eapply RelX_weaken; [|exact HR0]; intros ? []); intros; discriminate.
    + exfalso. eapply (proj1 (check_type_res n (read_src st0 s))); eassumption.
    + exfalso. eapply (proj2 (check_type_res n (read_src st0 s))); eassumption.
  - pose proof (alloc_scalar_good c st n G) as Ha. destruct (alloc_scalar c st n) as [st1 r1].
    destruct Ha as (G1 & HJ1 & HR1 & Hmem & Hnh & Hnf). spl; auto. eapply RelX_weaken; [|exact HR1]. intros ? [].
Qed.

(* ---------- Arrays ---------- *)
Lemma shape_lookup_arr st st' n : shape st' = shape st ->
  (lookup n (arrs st') = None <-> lookup n (arrs st) = None).
Proof.
  unfold shape. intros H. injection H as _ Ha _ _ _ _ _ _ _ _.
  assert (E : forall l : list (Z * (Z * list ptr)),
             lookup n (map (fun '(n, (d, els)) => (n, (d, length els))) l) = None <-> lookup n l = None).
  { induction l as [|[k [d els]] l IH]; simpl; [tauto|]. destruct (n =? k); [split; discriminate|exact IH]. }
  rewrite <- (E (arrs st')), Ha, E. tauto.
Qed.

Lemma array_mem_pos d : 0 <= d -> 0 < array_mem d.
Proof. unfold array_mem. lia. Qed.

Lemma acur_nonneg c st : Good c st -> 0 <= acur st.
Proof. intros G. apply (g_low _ _ G). Qed.

Lemma In_repeat {A} (x y : A) k : In y (repeat x k) -> y = x.
Proof. apply repeat_spec. Qed.

Lemma allocate_good c st n d :
  Good c st ->
  let '(st', r) := allocate c st n d in
  Good c st' /\ (Jt st -> Jt st') /\ Rel c st st' /\
  (r = Ok tt -> mem_key n (arrs st') = true) /\ (forall h, r <> Host h) /\ r <> OutOfFuel.
Proof.
  intros G. unfold allocate.
  destruct (negb (is_strname n)) eqn:Es; [unfold errR; spl; auto using Rel_refl; intros; discriminate|].
  apply negb_false_iff in Es.
  destruct (mem_key n (arrs st)) eqn:E; [unfold errR; spl; auto using Rel_refl; intros; discriminate|].
  destruct (d <? 0) eqn:Ed; [unfold errR; spl; auto using Rel_refl; intros; discriminate|].
  apply Z.ltb_ge in Ed.
  pose proof (check_free_good c st (array_mem d) 7 G) as Hcf.
  destruct (check_free c st (array_mem d) 7) as [st1 r1].
  destruct Hcf as (G1 & HR1 & Hsh1 & HJ1 & Hle1 & Htop1 & Hfree & Hnh & Hnf).
  destruct r1 as [[]|e|h|]; cbn [bindR]; try (spl; auto; intros; discriminate).
  specialize (Hfree eq_refl).
  assert (E1 : lookup n (arrs st1) = None).
  { apply (shape_lookup_arr st st1 n Hsh1). unfold mem_key in E. destruct (lookup n (arrs st)); [discriminate|reflexivity]. }
  set (els := repeat ((0, 0) : ptr) (Z.to_nat (d + 1))).
  set (st2 := set_arrs (set_acur st1 (acur st1 + array_mem d)) (upsert n (d, els) (arrs st1))).
  assert (Hlk : forall m, m <> n -> lookup m (arrs st2) = lookup m (arrs st1)).
  { intros m Hm. unfold st2. simpl. apply lookup_upsert_other, Hm. }
  assert (Hobj : forall o, obj_ok c st1 o -> obj_ok c st2 o).
  { intros o Ho. destruct o; simpl in *; auto.
    destruct Ho as (Hi & d0 & els0 & Hl0 & Hlt). split; [exact Hi|]. exists d0, els0.
    rewrite Hlk; [auto|]. intros ->. rewrite E1 in Hl0. discriminate. }
  assert (G2 : Good c st2).
  { constructor; unfold st2; simpl.
    - exact (g_chain _ _ G1).
    - destruct (g_low _ _ G1) as (H1 & H2 & _). pose proof (array_mem_pos d Ed). split; [exact H1|]. split; [lia|].
      right. unfold free in Hfree. lia.
    - exact (g_j1 _ _ G1).
    - exact (g_nd_scal _ _ G1).
    - rewrite map_fst_upsert_new by (unfold mem_key; rewrite E1; reflexivity).
      apply NoDup_app_single; [exact (g_nd_arrs _ _ G1)|]. apply mem_key_false_notin. unfold mem_key. rewrite E1. reflexivity.
    - exact (g_scal _ _ G1).
    - exact (g_scal_num _ _ G1).
    - intros m d0 els0 Hl. destruct (Z.eq_dec m n) as [->|Hne].
      + rewrite lookup_upsert_same in Hl. inversion Hl; subst. split; [exact Es|].
        intros p Hp. apply In_repeat in Hp. subst p. split; [apply zero_ptr_ok|apply zero_Jp].
      + rewrite lookup_upsert_other in Hl by assumption. exact (g_arrs _ _ G1 m d0 els0 Hl).
    - intros m d0 els0 Hl. destruct (Z.eq_dec m n) as [->|Hne].
      + rewrite lookup_upsert_same in Hl. inversion Hl; subst. split; [exact Ed|]. unfold els. apply repeat_length.
      + rewrite lookup_upsert_other in Hl by assumption. exact (g_arrlen _ _ G1 m d0 els0 Hl).
    - rewrite (g_acur _ _ G1).
      assert (Hm : mem_key n (arrs st1) = false) by (unfold mem_key; rewrite E1; reflexivity).
      clear - Hm. induction (arrs st1) as [|[k [d' e']] l IH]; simpl in *; [lia|].
      unfold mem_key in *. simpl in Hm. destruct (n =? k) eqn:Ek; [discriminate|]. simpl. rewrite <- IH by exact Hm. lia.
    - intros fr o Hfr Ho. apply Hobj. eapply (g_stack _ _ G1); eauto.
    - intros o Ho. apply Hobj, (g_tvals _ _ G1), Ho.
    - exact (g_cfg _ _ G1). }
  assert (HR2 : Rel c st1 st2).
  { constructor; unfold st2; simpl.
    - intros m p _ Hl. exists p. split; [exact Hl|apply RP_same_mem; reflexivity].
    - auto.
    - auto.
    - intros m d0 els0 Hl. exists els0. rewrite lookup_upsert_other; [|intros ->; rewrite E1 in Hl; discriminate].
      split; [exact Hl|]. apply Forall2_refl. intros; apply RP_same_mem; reflexivity.
    - intros m Hl. destruct (Z.eq_dec m n) as [->|Hne].
      + right. exists d, els. rewrite lookup_upsert_same. split; [reflexivity|].
        intros p Hp. apply In_repeat in Hp. subst p. reflexivity.
      + left. rewrite lookup_upsert_other by assumption. exact Hl.
    - apply Forall2_refl. intros fr. apply Forall2_refl. intros; apply RO_same_mem; reflexivity.
    - apply Forall2_refl. intros; apply RO_same_mem; reflexivity.
    - auto. }
  unfold retR. fold els. fold st2. split; [exact G2|]. split; [intros HJ; apply HJ1 in HJ; exact HJ|].
  split; [eapply Rel_trans; eassumption|]. split; [intros _; unfold st2; simpl; apply mem_key_upsert_same|].
  split; intros; discriminate.
Qed.

Lemma check_dim_good c st n i :
  Good c st ->
  let '(st', r) := check_dim c st n i in
  Good c st' /\ (Jt st -> Jt st') /\ Rel c st st' /\
  (r = Ok tt -> obj_ok c st' (OArr n i)) /\ (forall h, r <> Host h) /\ r <> OutOfFuel /\
  (mem_key n (arrs st) = true -> st' = st).
Proof.
  intros G. unfold check_dim.
  destruct (negb (is_strname n)) eqn:Es; [unfold errR; spl; auto using Rel_refl; intros; discriminate|].
  assert (H1 : let '(st1, r1) := (if mem_key n (arrs st) then retR st tt else allocate c st n 10) in
               Good c st1 /\ (Jt st -> Jt st1) /\ Rel c st st1 /\ (r1 = Ok tt -> mem_key n (arrs st1) = true) /\
               (forall h, r1 <> Host h) /\ r1 <> OutOfFuel /\ (mem_key n (arrs st) = true -> st1 = st)).
  { destruct (mem_key n (arrs st)) eqn:E.
    - unfold retR. spl; auto using Rel_refl; intros; discriminate.
    - pose proof (allocate_good c st n 10 G) as Ha. destruct (allocate c st n 10) as [st1 r1].
      destruct Ha as (A & B & C & D & E1 & F). spl; auto. discriminate. }
  destruct (if mem_key n (arrs st) then retR st tt else allocate c st n 10) as [st1 r1].
  destruct H1 as (G1 & HJ1 & HR1 & Hm & Hnh & Hnf & Hsame).
  destruct r1 as [[]|e|h|]; cbn [bindR]; try (spl; auto; intros; discriminate).
  specialize (Hm eq_refl). unfold mem_key in Hm.
  destruct (lookup n (arrs st1)) as [[d els]|] eqn:El; [|discriminate].
  destruct (i <? 0) eqn:Ei; [unfold errR; spl; auto; intros; discriminate|].
  destruct (d <? i) eqn:Edi; [unfold errR; spl; auto; intros; discriminate|].
  apply Z.ltb_ge in Ei, Edi. unfold retR. spl; auto; try (intros; discriminate).
  intros _. simpl. split; [exact Ei|]. exists d, els. split; [exact El|].
  destruct (g_arrlen _ _ G1 _ _ _ El) as [Hd Hlen]. rewrite Hlen. lia.
Qed.

(* Arrays.set when the array exists (it always does: LET, MID$, LSET dimension it first) *)
Lemma set_array_good c st n i :
  Good c st -> Jt st -> mem_key n (arrs st) = true ->
  let '(st', r) := set_array c st n i in
  Good c st' /\ Jt st' /\ (forall h, r <> Host h) /\ r <> OutOfFuel /\
  stack st' = stack st /\ tvals st' = tvals st /\ scal st' = scal st /\ fns st' = fns st /\ active st' = active st /\
  (forall m, mem_key m (arrs st) = true -> mem_key m (arrs st') = true) /\
  (forall m d els, lookup m (arrs st) = Some (d, els) -> exists els', lookup m (arrs st') = Some (d, els') /\ length els' = length els).
Proof.
  intros G HJt Hm. unfold set_array. cbv zeta.
  set (st0 := if is_strobj (top_obj st) then fix_temporaries st else st).
  assert (Htop0 : top_obj st0 = top_obj st) by (unfold st0; destruct (is_strobj (top_obj st)); reflexivity).
  assert (Hsame0 : stack st0 = stack st /\ tvals st0 = tvals st /\ scal st0 = scal st /\ arrs st0 = arrs st /\
                   fns st0 = fns st /\ active st0 = active st)
    by (unfold st0; destruct (is_strobj (top_obj st)); simpl; auto 10).
  rewrite Htop0. destruct (is_strobj (top_obj st)) eqn:Eso.
  - destruct (fix_temporaries_good c st G) as (G0 & HJ0 & HR0 & HallJ).
    assert (Est0 : st0 = fix_temporaries st) by (unfold st0; reflexivity).
    rewrite Est0 in *. clear Est0.
    set (p := optr (fix_temporaries st) (top_obj st)).
    assert (Hp : ptr_ok c (fix_temporaries st) p /\ Jp c (fix_temporaries st) p).
    { assert (Hk : ptr_ok c st (optr st (top_obj st))) by (apply obj_ok_ptr; [exact G|apply top_obj_ok, G]).
      assert (Ep : p = optr st (top_obj st)) by (unfold p; destruct (top_obj st); reflexivity).
      rewrite Ep. split; [|apply HallJ, Hk]. eapply ptr_ok_same; [|exact Hk]. reflexivity. }
    pose proof (check_dim_good c (fix_temporaries st) n i G0) as Hcd.
    destruct (check_dim c (fix_temporaries st) n i) as [st1 r1].
    destruct Hcd as (G1 & HJ1 & HR1 & Hok & Hnh & Hnf & Hst1).
    assert (E1 : st1 = fix_temporaries st) by (apply Hst1; simpl; exact Hm). subst st1.
    destruct r1 as [[]|e|h|]; cbn [bindR]; try (spl; eauto; try (intros; discriminate); tauto).
    destruct (Hok eq_refl) as (Hi0 & d & els & Hl & Hlt). unfold retR.
    change (optr (fix_temporaries st) (top_obj (fix_temporaries st))) with p.
    set (st2 := set_loc (fix_temporaries st) (LArr n (Z.to_nat i)) p).
    assert (Hst2 : st2 = set_arrs (fix_temporaries st) (upsert n (d, update_nth (Z.to_nat i) p els) (arrs (fix_temporaries st)))).
    { unfold st2. simpl. simpl in Hl. rewrite Hl. reflexivity. }
    split; [|rewrite Hst2; simpl; spl; auto; try (intros; discriminate); try tauto;
             [intros m Hmm; apply mem_key_upsert, Hmm|
              intros m d0 els0 Hl0; simpl in Hl; destruct (Z.eq_dec m n) as [->|Hne];
              [rewrite Hl in Hl0; inversion Hl0; subst; rewrite lookup_upsert_same; eexists; split; [reflexivity|apply length_update_nth]
              |rewrite lookup_upsert_other by assumption; eauto]]].
    rewrite Hst2. simpl in Hl.
    assert (Hin : forall q, In q (update_nth (Z.to_nat i) p els) -> q = p \/ In q els).
    { clear. generalize (Z.to_nat i). induction els as [|x els IH]; intros [|k] q; simpl; auto.
      - intros [H|H]; auto.
      - intros [H|H]; auto. destruct (IH k q H); auto. }
    assert (Hobj : forall o, obj_ok c (fix_temporaries st) o ->
                   obj_ok c (set_arrs (fix_temporaries st) (upsert n (d, update_nth (Z.to_nat i) p els) (arrs st))) o).
    { intros o Ho. destruct o; simpl in *; auto.
      destruct Ho as (Hi1 & d1 & els1 & Hl1 & Hlt1). split; [exact Hi1|].
      destruct (Z.eq_dec n0 n) as [->|Hne].
      - rewrite Hl in Hl1. inversion Hl1; subst. exists d1, (update_nth (Z.to_nat i) p els1).
        rewrite lookup_upsert_same. split; [reflexivity|]. rewrite length_update_nth. exact Hlt1.
      - exists d1, els1. rewrite lookup_upsert_other by assumption. auto. }
    constructor; simpl.
    + exact (g_chain _ _ G0).
    + exact (g_low _ _ G0).
    + exact (g_j1 _ _ G0).
    + exact (g_nd_scal _ _ G0).
    + rewrite map_fst_upsert_mem; [exact (g_nd_arrs _ _ G0)|exact Hm].
    + exact (g_scal _ _ G0).
    + exact (g_scal_num _ _ G0).
    + intros m d0 els0 Hl0. destruct (Z.eq_dec m n) as [->|Hne].
      * rewrite lookup_upsert_same in Hl0. inversion Hl0; subst. destruct (g_arrs _ _ G0 n d0 els Hl) as [A B].
        split; [exact A|]. intros q Hq. destruct (Hin q Hq) as [->|Hq']; [exact Hp|apply B, Hq'].
      * rewrite lookup_upsert_other in Hl0 by assumption. exact (g_arrs _ _ G0 m d0 els0 Hl0).
    + intros m d0 els0 Hl0. destruct (Z.eq_dec m n) as [->|Hne].
      * rewrite lookup_upsert_same in Hl0. inversion Hl0; subst. rewrite length_update_nth. exact (g_arrlen _ _ G0 n d0 els Hl).
      * rewrite lookup_upsert_other in Hl0 by assumption. exact (g_arrlen _ _ G0 m d0 els0 Hl0).
    + pose proof (g_acur _ _ G0) as Hac0. simpl in Hac0. rewrite Hac0. clear - Hl.
      induction (arrs st) as [|[k [d' e']] l IH]; simpl in *; [discriminate|].
      destruct (n =? k) eqn:Ek; simpl.
      * inversion Hl; subst. reflexivity.
      * rewrite IH by exact Hl. reflexivity.
    + intros fr o Hfr Ho. apply Hobj. eapply (g_stack _ _ G0); eauto.
    + intros o Ho. apply Hobj, (g_tvals _ _ G0), Ho.
    + exact (g_cfg _ _ G0).
  - unfold errR. assert (Est0 : st0 = st) by (unfold st0; reflexivity). rewrite Est0.
    spl; eauto; intros; discriminate.
Qed.

(* ---------- statement-level operations: no expression is being evaluated ---------- *)
Definition idle (st : state) : Prop := stack st = [] /\ tvals st = [] /\ active st = [].

Lemma lookup_remove_same {A} k (l : list (Z * A)) : NoDup (map fst l) -> lookup k (remove_key k l) = None.
Proof.
  induction l as [|[k' v'] l IH]; simpl; intros Hn; [reflexivity|]. inversion Hn as [|? ? Hni Hn']; subst.
  destruct (k =? k') eqn:E.
  - apply Z.eqb_eq in E; subst. destruct (lookup k' l) eqn:El; [|reflexivity].
    exfalso. apply Hni. apply lookup_In in El. apply in_map_iff. exists (k', a). auto.
  - simpl. rewrite E. apply IH, Hn'.
Qed.

Lemma map_fst_remove_key_incl {A} k (l : list (Z * A)) x : In x (map fst (remove_key k l)) -> In x (map fst l).
Proof.
  induction l as [|[k' v'] l IH]; simpl; auto. destruct (k =? k'); simpl; [auto|]. intros [H|H]; auto.
Qed.

Lemma NoDup_remove_key {A} k (l : list (Z * A)) : NoDup (map fst l) -> NoDup (map fst (remove_key k l)).
Proof.
  induction l as [|[k' v'] l IH]; simpl; intros Hn; [constructor|]. inversion Hn; subst.
  destruct (k =? k'); [assumption|]. simpl. constructor; [|auto]. intros H. apply map_fst_remove_key_incl in H. contradiction.
Qed.

Lemma In_remove_key {A} k (l : list (Z * A)) x : In x (remove_key k l) -> In x l.
Proof.
  induction l as [|[k' v'] l IH]; simpl; auto. destruct (k =? k'); simpl; [auto|]. intros [H|H]; auto.
Qed.

Lemma sum_array_mem_nonneg (l : list (Z * (Z * list ptr))) :
  (forall k d0 e0, In (k, (d0, e0)) l -> 0 <= d0) ->
  0 <= fold_right Z.add 0 (map (fun '(_, (d0, _)) => array_mem d0) l).
Proof.
  induction l as [|[k [d' e']] l IH]; simpl; intros H; [lia|].
  assert (0 <= d') by (apply (H k d' e'); left; reflexivity). pose proof (array_mem_pos d' H0).
  assert (0 <= fold_right Z.add 0 (map (fun '(_, (d0, _)) => array_mem d0) l)); [|lia].
  apply IH. intros; eapply H; right; eassumption.
Qed.

Lemma erase_good c st n :
  Good c st -> idle st ->
  let '(st', r) := erase st n in
  Good c st' /\ idle st' /\ tmp st' = tmp st /\ cur st' = cur st /\ (forall h, r <> Host h) /\ r <> OutOfFuel.
Proof.
  intros G (Hs & Ht & Ha). unfold erase. destruct (lookup n (arrs st)) as [[d els]|] eqn:El.
  - unfold retR. split; [|unfold idle; simpl; spl; auto; intros; discriminate].
    destruct (g_arrlen _ _ G _ _ _ El) as [Hd _].
    assert (Hsum : acur st - array_mem d = fold_right Z.add 0 (map (fun '(_, (d0, _)) => array_mem d0) (remove_key n (arrs st)))).
    { rewrite (g_acur _ _ G). clear - El. induction (arrs st) as [|[k [d' e']] l IH]; simpl in *; [discriminate|].
      destruct (n =? k) eqn:Ek; simpl; [inversion El; subst; lia|]. rewrite <- IH by exact El. lia. }
    assert (Hlk : forall m, m <> n -> lookup m (remove_key n (arrs st)) = lookup m (arrs st)) by (intros; apply lookup_remove_other; assumption).
    assert (Hlk2 : forall m v, lookup m (remove_key n (arrs st)) = Some v -> lookup m (arrs st) = Some v).
    { intros m v H. destruct (Z.eq_dec m n) as [->|Hne]; [rewrite lookup_remove_same in H by exact (g_nd_arrs _ _ G); discriminate|].
      rewrite Hlk in H; assumption. }
    constructor; simpl.
    + exact (g_chain _ _ G).
    + destruct (g_low _ _ G) as (H1 & H2 & H3). split; [exact H1|]. split.
      * rewrite Hsum. apply sum_array_mem_nonneg. intros k d0 e0 Hin. apply In_remove_key in Hin.
        apply (In_lookup_nodup _ _ _ (g_nd_arrs _ _ G)) in Hin. apply (g_arrlen _ _ G _ _ _ Hin).
      * pose proof (array_mem_pos d Hd). destruct H3; [left; assumption|right; lia].
    + exact (g_j1 _ _ G).
    + exact (g_nd_scal _ _ G).
    + apply NoDup_remove_key, (g_nd_arrs _ _ G).
    + exact (g_scal _ _ G).
    + exact (g_scal_num _ _ G).
    + intros m d0 e0 H. apply (g_arrs _ _ G m d0 e0), Hlk2, H.
    + intros m d0 e0 H. apply (g_arrlen _ _ G m d0 e0), Hlk2, H.
    + exact Hsum.
    + rewrite Hs. intros fr o [].
    + rewrite Ht. intros o [].
    + exact (g_cfg _ _ G).
  - unfold errR. spl; auto; try (intros; discriminate). unfold idle; auto.
Qed.

Lemma clear_all_good c st : Good c st -> stack st = [] -> Good c (clear_all st) /\ idle (clear_all st) \/ active st <> [].
Proof.
  intros G Hs. destruct (active st) eqn:Ea; [left|right; discriminate].
  split; [|unfold idle, clear_all; simpl; auto].
  constructor; unfold clear_all; simpl.
  - unfold top. simpl. reflexivity.
  - split; [lia|]. split; [lia|]. left; reflexivity.
  - destruct (tmp st); [left; reflexivity|exact I].
  - constructor.
  - constructor.
  - intros n v H. discriminate.
  - intros n v H. discriminate.
  - intros n d els H. discriminate.
  - intros n d els H. discriminate.
  - reflexivity.
  - rewrite Hs. intros fr o [].
  - intros o [].
  - exact (g_cfg _ _ G).
Qed.

(* the state of the variables as BASIC sees it: a value for every scalar and every array element *)
Definition sval_of (c : cfg) (st : state) (n : Z) : res (list Z) * Z :=
  match lookup n (scal st) with
  | Some (SStr p) => (deref c st p, 0)
  | Some (SNum z) => (Ok [], z)
  | None => (Ok [], 0)
  end.
Definition aval_of (c : cfg) (st : state) (n : Z) (i : nat) : res (list Z) := deref c st (arr_ptr st n i).

Lemma reset_temporaries_good c st :
  Good c st -> idle st ->
  Good c (reset_temporaries st) /\ Jt (reset_temporaries st) /\ idle (reset_temporaries st) /\
  (forall n, sval_of c (reset_temporaries st) n = sval_of c st n) /\
  (forall n i, aval_of c (reset_temporaries st) n i = aval_of c st n i) /\
  scal (reset_temporaries st) = scal st /\ arrs (reset_temporaries st) = arrs st /\
  fns (reset_temporaries st) = fns st /\ totmem (reset_temporaries st) = totmem st /\ stksz (reset_temporaries st) = stksz st /\
  scur (reset_temporaries st) = scur st /\ acur (reset_temporaries st) = acur st.
Proof.
  intros G (Hs & Ht & Ha). unfold reset_temporaries.
  set (st1 := match tmp st with Some t => if t =? cur st then st else delete_last st | None => st end).
  (* forget _temp for a moment: it is reset at the end *)
  assert (Jnone : forall s p, Jp c (set_tmp s None) p) by (intros; unfold Jp; simpl; exact I).
  assert (H1 : Good c (set_tmp st1 None) /\ scal st1 = scal st /\ arrs st1 = arrs st /\ stack st1 = [] /\ tvals st1 = [] /\
               active st1 = [] /\ fns st1 = fns st /\ totmem st1 = totmem st /\ stksz st1 = stksz st /\
               scur st1 = scur st /\ acur st1 = acur st /\
               (forall p, ptr_ok c st p -> Jp c st p -> deref c st1 p = deref c st p)).
  { assert (Hsame : Good c (set_tmp st None)).
    { constructor; simpl; try exact I.
      - exact (g_chain _ _ G). - exact (g_low _ _ G). - exact (g_nd_scal _ _ G). - exact (g_nd_arrs _ _ G).
      - intros n v Hl Hn. destruct (g_scal _ _ G n v Hl Hn) as (p & -> & A & B). exists p. auto.
      - exact (g_scal_num _ _ G).
      - intros n d els Hl. destruct (g_arrs _ _ G n d els Hl) as [A B]. split; [exact A|]. intros p Hp. destruct (B p Hp). auto.
      - exact (g_arrlen _ _ G). - exact (g_acur _ _ G).
      - rewrite Hs. intros fr o []. - rewrite Ht. intros o []. - exact (g_cfg _ _ G). }
    unfold st1. destruct (tmp st) as [t|] eqn:Et; [|spl; auto].
    destruct (t =? cur st) eqn:Etc; [spl; auto|]. apply Z.eqb_neq in Etc.
    unfold delete_last. destruct (lookup (cur st + 1) (strs st)) as [bs|] eqn:El; [|spl; auto].
    pose proof (g_chain _ _ G) as Hch. destruct (strs st) as [|[a0 b0] r] eqn:Es; [discriminate|].
    simpl in Hch. destruct Hch as (-> & Hb0 & Hch). simpl in El. rewrite Z.eqb_refl in El. inversion El; subst b0.
    assert (Hrm : remove_key (cur st + 1) ((cur st + 1, bs) :: r) = r) by (simpl; rewrite Z.eqb_refl; reflexivity).
    rewrite Hrm.
    assert (Hlt : cur st < t).
    { pose proof (g_j1 _ _ G) as Hj. rewrite Et, Es in Hj. destruct Hj as [Hj|Hj]; [discriminate|lia]. }
    (* pointers that are permanent keep their binding *)
    assert (Hkeep : forall p, ptr_ok c st p -> Jp c st p ->
                    ptr_ok c (set_tmp (set_strs (set_cur st (cur st + zlen bs)) r) None) p /\
                    deref c (set_strs (set_cur st (cur st + zlen bs)) r) p = deref c st p).
    { intros [l a] [Hok Hnf] HJ. unfold ptr_ok, deref, Jp in *. rewrite Et, Es in *. simpl in *.
      destruct (l =? 0) eqn:El0; [apply Z.eqb_eq in El0; split; [split; [intros; left; exact El0|exact Hnf]|reflexivity]|].
      apply Z.eqb_neq in El0. destruct (var_start c <=? a) eqn:Ev; [|split; [split; [intros; apply Z.leb_gt in Ev; lia|exact Hnf]|reflexivity]].
      apply Z.leb_le in Ev. destruct (Hok Ev) as [H0|(x & Hx & Hz)]; [contradiction|].
      assert (Hpos : 0 < l).
      { destruct (a =? cur st + 1); [inversion Hx; subst; lia|]. apply (chain_lookup _ _ _ _ _ Hch) in Hx. lia. }
      specialize (HJ Hpos Ev). assert (Ene : (a =? cur st + 1) = false) by (apply Z.eqb_neq; lia).
      rewrite Ene in *. split; [split; [intros _; right; eauto|exact Hnf]|reflexivity]. }
    split.
    - constructor; simpl; try exact I.
      + replace (cur st + zlen bs + 1) with (cur st + 1 + zlen bs) by lia. exact Hch.
      + destruct (g_low _ _ G) as (A & B & C). split; [exact A|]. split; [exact B|].
        rewrite Es in C. destruct C as [C|C]; [discriminate|]. right. lia.
      + exact (g_nd_scal _ _ G).
      + exact (g_nd_arrs _ _ G).
      + intros n v Hl Hn. destruct (g_scal _ _ G n v Hl Hn) as (p & -> & A & B). exists p. split; [reflexivity|].
        split; [apply Hkeep; assumption|apply Jnone].
      + exact (g_scal_num _ _ G).
      + intros n d els Hl. destruct (g_arrs _ _ G n d els Hl) as [A B]. split; [exact A|].
        intros p Hp. destruct (B p Hp). split; [apply Hkeep; assumption|apply Jnone].
      + exact (g_arrlen _ _ G).
      + exact (g_acur _ _ G).
      + rewrite Hs. intros fr o [].
      + rewrite Ht. intros o [].
      + exact (g_cfg _ _ G).
    - simpl. spl; auto. intros p Hok HJ. apply Hkeep; assumption. }
  destruct H1 as (G1 & Hsc & Har & Hs1 & Ht1 & Ha1 & Hf1 & Htm1 & Hsz1 & Hscur1 & Hacur1 & Hderef).
  destruct (fix_temporaries_good c (set_tmp st1 None) G1) as (G2 & HJ2 & HR2 & _).
  change (fix_temporaries (set_tmp st1 None)) with (set_tmp st1 (Some (cur st1))) in G2, HJ2.
  split; [exact G2|]. split; [exact HJ2|]. split; [unfold idle; simpl; auto|].
  split.
  - intros n. unfold sval_of. simpl. rewrite Hsc. destruct (lookup n (scal st)) as [[p|z]|] eqn:El; auto.
    destruct (is_strname n) eqn:En.
    + destruct (g_scal _ _ G n _ El En) as (q & Eq & A & B). inversion Eq; subst q.
      unfold deref at 1. simpl. fold (deref c st1 p). rewrite Hderef by assumption. reflexivity.
    + destruct (g_scal_num _ _ G n _ El En) as (z & Hz). discriminate.
  - split.
    + intros n i. unfold aval_of, arr_ptr. simpl. rewrite Har. destruct (lookup n (arrs st)) as [[d els]|] eqn:El.
      * destruct (g_arrs _ _ G n d els El) as [_ B].
        destruct (nth_in_or_default i els (0, 0)) as [Hin|Hd].
        -- destruct (B _ Hin). unfold deref at 1. simpl. fold (deref c st1 (nth i els (0, 0))). rewrite Hderef by assumption. reflexivity.
        -- rewrite Hd. reflexivity.
      * reflexivity.
    + simpl. spl; auto.
Qed.

(* writing an acceptable pointer into an array element *)
Lemma Good_set_arr_elem c st n k p d els :
  Good c st -> lookup n (arrs st) = Some (d, els) -> (k < length els)%nat -> ptr_ok c st p -> Jp c st p ->
  Good c (set_loc st (LArr n k) p).
Proof.
  intros G Hl Hk Hp HJ. simpl. rewrite Hl.
  assert (Hm : mem_key n (arrs st) = true) by (unfold mem_key; rewrite Hl; reflexivity).
  assert (Hin : forall q, In q (update_nth k p els) -> q = p \/ In q els).
  { clear. revert k. induction els as [|x els IH]; intros [|k] q; simpl; auto.
    - intros [H|H]; auto.
    - intros [H|H]; auto. destruct (IH k q H); auto. }
  assert (Hobj : forall o, obj_ok c st o -> obj_ok c (set_arrs st (upsert n (d, update_nth k p els) (arrs st))) o).
  { intros o Ho. destruct o; simpl in *; auto.
    destruct Ho as (Hi1 & d1 & els1 & Hl1 & Hlt1). split; [exact Hi1|].
    destruct (Z.eq_dec n0 n) as [->|Hne].
    - rewrite Hl in Hl1. inversion Hl1; subst. exists d1, (update_nth k p els1).
      rewrite lookup_upsert_same. split; [reflexivity|]. rewrite length_update_nth. exact Hlt1.
    - exists d1, els1. rewrite lookup_upsert_other by assumption. auto. }
  constructor; simpl.
  - exact (g_chain _ _ G).
  - exact (g_low _ _ G).
  - exact (g_j1 _ _ G).
  - exact (g_nd_scal _ _ G).
  - rewrite map_fst_upsert_mem; [exact (g_nd_arrs _ _ G)|exact Hm].
  - exact (g_scal _ _ G).
  - exact (g_scal_num _ _ G).
  - intros m d0 els0 Hl0. destruct (Z.eq_dec m n) as [->|Hne].
    + rewrite lookup_upsert_same in Hl0. inversion Hl0; subst. destruct (g_arrs _ _ G n d0 els Hl) as [A B].
      split; [exact A|]. intros q Hq. destruct (Hin q Hq) as [->|Hq']; [auto|apply B, Hq'].
    + rewrite lookup_upsert_other in Hl0 by assumption. exact (g_arrs _ _ G m d0 els0 Hl0).
  - intros m d0 els0 Hl0. destruct (Z.eq_dec m n) as [->|Hne].
    + rewrite lookup_upsert_same in Hl0. inversion Hl0; subst. rewrite length_update_nth. exact (g_arrlen _ _ G n d0 els Hl).
    + rewrite lookup_upsert_other in Hl0 by assumption. exact (g_arrlen _ _ G m d0 els0 Hl0).
  - rewrite (g_acur _ _ G). clear - Hl.
    induction (arrs st) as [|[k' [d' e']] l IH]; simpl in *; [discriminate|].
    destruct (n =? k') eqn:Ek; simpl.
    + inversion Hl; subst. reflexivity.
    + rewrite IH by exact Hl. reflexivity.
  - intros fr o Hfr Ho. apply Hobj. eapply (g_stack _ _ G); eauto.
  - intros o Ho. apply Hobj, (g_tvals _ _ G), Ho.
  - exact (g_cfg _ _ G).
Qed.
