(* C31 at statement level: the page after PSET, a solid LINE, LINE ,B and LINE ,BF whose defining points are inside
   the viewport ("unclipped"): exactly the specified cells carry the attribute, every other cell (in particular
   every cell outside the viewport and every other page) keeps its value.  The requests come from the
   regenerated generators (exec uses gen_pset / gen_line / gen_box / gen_boxfill). *)
From Coq Require Import ZArith List Bool Lia ZifyBool.
From PCB Require Import lib.Result lib.PyInt lib.GfxPrims gen.Gen_viewport gen.Gen_raster
  model.Matrix model.Viewport model.Raster
  proofs.Matrix_proofs proofs.Viewport_proofs proofs.Raster_bridge proofs.Raster_proofs proofs.Raster_geom
  proofs.Raster_cells.
Import ListNotations.
Open Scope Z_scope.

(* the page cell at viewport coordinates after / before *)
Definition cells_set (vp : viewport) (m m' : matrix) (a : Z) (P : Z -> Z -> Prop) : Prop :=
  forall x y, (P x y -> vp_cell vp m' x y = Some a) /\ (~ P x y -> vp_cell vp m' x y = vp_cell vp m x y).

Lemma the_page_set : forall t b pages n m vp,
  (n < length pages)%nat -> the_page (GS t b (set_page pages n m) n vp) = m.
Proof.
  intros t b pages n m vp Hn. unfold the_page. cbn [g_pages g_apage]. apply nth_error_nth.
  rewrite nth_error_set_page, Nat.eqb_refl. destruct (n <? length pages)%nat eqn:E; [reflexivity | lia].
Qed.

(* a statement that issues pixel requests for the pixel list l *)
Lemma exec_pixels : forall st s a l,
  good_state st -> g_text st = false ->
  stmt_err s = 0 ->
  stmt_reqs st s = Ok (g_vp st, map (pix_req a) l, g_vp st) ->
  exists st', exec st s = (Ok tt, st')
    /\ cells_set (g_vp st) (the_page st) (the_page st') a
         (fun x y => In (x, y) l /\ vp_contains (g_vp st) x y = true)
    /\ g_vp st' = g_vp st /\ g_apage st' = g_apage st.
Proof.
  intros st s a l [Hwf [Hap Hdims]] Ht Hs Hr. unfold exec. rewrite Ht, guard_graphics, Hr.
  assert (Hpage : same_dims (g_vp st) (the_page st)).
  { rewrite Forall_forall in Hdims. apply Hdims. unfold the_page. apply nth_In. exact Hap. }
  destruct (vp_run_pixels (g_vp st) a l (the_page st) Hwf Hpage) as [m' [Hrun [Hd' Hspec]]].
  rewrite Hrun. rewrite Hs. cbn [Z.eqb]. eexists. split; [reflexivity|].
  rewrite the_page_set by exact Hap. split; [exact Hspec | split; reflexivity].
Qed.

(* ---- PSET *)
Theorem exec_pset : forall st x y a,
  good_state st -> g_text st = false ->
  exists st', exec st (SPset x y a) = (Ok tt, st')
    /\ cells_set (g_vp st) (the_page st) (the_page st') a
         (fun x' y' => (x', y') = (x, y) /\ vp_contains (g_vp st) x y = true).
Proof.
  intros st x y a Hg Ht.
  destruct (exec_pixels st (SPset x y a) a [(x, y)] Hg Ht eq_refl) as [st' [He [Hc _]]].
  { cbn [stmt_reqs]. rewrite gen_pset_is_model. reflexivity. }
  exists st'. split; [exact He|]. intros x' y'. destruct (Hc x' y') as [H1 H2]. split.
  - intros [E Hcn]. apply H1. injection E as E1 E2. subst. split; [left; reflexivity | exact Hcn].
  - intros Hn. apply H2. intros [[E|[]] Hcn]. apply Hn. injection E as E1 E2. subst. split; [reflexivity | exact Hcn].
Qed.

(* ---- solid LINE with both endpoints inside the viewport *)
Lemma contains_bounds : forall vp x y, vp_contains vp x y = true <->
  let '(bx0, by0, bx1, by1) := vp_get_bounds vp in bx0 <= x <= bx1 /\ by0 <= y <= by1.
Proof.
  intros [ab vx0 vy0 vx1 vy1 mw mh] x y. unfold_vp. cbn [vp_abs vp_x0 vp_y0 vp_x1 vp_y1 vp_maxw vp_maxh].
  destruct ab; lia.
Qed.

(* the bounds are a rectangle: a point between two contained points is contained *)
Lemma contains_convex : forall vp x0 y0 x1 y1 x y,
  vp_contains vp x0 y0 = true -> vp_contains vp x1 y1 = true ->
  Z.min x0 x1 <= x <= Z.max x0 x1 -> Z.min y0 y1 <= y <= Z.max y0 y1 -> vp_contains vp x y = true.
Proof.
  intros vp x0 y0 x1 y1 x y H0 H1 Hx Hy. apply contains_bounds in H0. apply contains_bounds in H1.
  apply contains_bounds. destruct (vp_get_bounds vp) as [[[bx0 by0] bx1] by1]. lia.
Qed.

Theorem exec_line : forall st x0 y0 x1 y1 a,
  good_state st -> g_text st = false ->
  vp_contains (g_vp st) x0 y0 = true -> vp_contains (g_vp st) x1 y1 = true ->
  exists st', exec st (SLine x0 y0 x1 y1 a 65535) = (Ok tt, st')
    /\ cells_set (g_vp st) (the_page st) (the_page st') a (fun x y => In (x, y) (line_pixels x0 y0 x1 y1)).
Proof.
  intros st x0 y0 x1 y1 a Hg Ht H0 H1. pose proof Hg as [Hwf _].
  destruct (exec_pixels st (SLine x0 y0 x1 y1 a 65535) a (line_pixels x0 y0 x1 y1) Hg Ht eq_refl) as [st' [He [Hc _]]].
  { cbn [stmt_reqs]. rewrite gen_line_is_model. cbn [bind]. unfold line_reqs.
    rewrite (cutoff_id _ _ _ Hwf H0), (cutoff_id _ _ _ Hwf H1).
    destruct (masked_solid (line_pixels x0 y0 x1 y1) 32768) as [Hm _]; [lia|]. rewrite Hm. reflexivity. }
  exists st'. split; [exact He|]. intros x y. destruct (Hc x y) as [Hc1 Hc2]. split.
  - intros Hin. apply Hc1. split; [exact Hin|].
    destruct (line_pixels_is_line x0 y0 x1 y1) as [_ [_ [_ [_ [_ [Hbox _]]]]]].
    specialize (Hbox (x, y) Hin). cbn [fst snd] in Hbox.
    apply (contains_convex _ x0 y0 x1 y1); tauto.
  - intros Hn. apply Hc2. tauto.
Qed.

(* ---- solid box outline *)
Theorem exec_box : forall st x0 y0 x1 y1 a,
  good_state st -> g_text st = false ->
  vp_contains (g_vp st) x0 y0 = true -> vp_contains (g_vp st) x1 y1 = true ->
  exists st', exec st (SBox x0 y0 x1 y1 a 65535) = (Ok tt, st')
    /\ cells_set (g_vp st) (the_page st) (the_page st') a (on_perimeter x0 y0 x1 y1).
Proof.
  intros st x0 y0 x1 y1 a Hg Ht H0 H1. pose proof Hg as [Hwf _].
  destruct (exec_pixels st (SBox x0 y0 x1 y1 a 65535) a (box_pixels x0 y0 x1 y1) Hg Ht eq_refl) as [st' [He [Hc _]]].
  { cbn [stmt_reqs]. rewrite gen_box_is_model. cbn [bind]. unfold box_reqs.
    rewrite (cutoff_id _ _ _ Hwf H0), (cutoff_id _ _ _ Hwf H1).
    destruct (masked_solid (box_pixels x0 y0 x1 y1) 32768) as [Hm _]; [lia|]. rewrite Hm. reflexivity. }
  exists st'. split; [exact He|]. intros x y. destruct (Hc x y) as [Hc1 Hc2]. split.
  - intros Hp. apply Hc1. split; [apply box_pixels_perimeter; exact Hp|].
    destruct Hp as [Hx [Hy _]]. unfold between in *. apply (contains_convex _ x0 y0 x1 y1); assumption.
  - intros Hn. apply Hc2. intros [Hin _]. apply Hn. apply box_pixels_perimeter. exact Hin.
Qed.

(* ---- filled box *)
Lemma vp_boxfill_spec : forall vp m x0 y0 x1 y1 a,
  wf_vp vp -> same_dims vp m -> vp_contains vp x0 y0 = true -> vp_contains vp x1 y1 = true ->
  exists m', vp_run vp m (boxfill_reqs vp x0 y0 x1 y1 a) = Ok m' /\ cells_set vp m m' a (in_box x0 y0 x1 y1).
Proof.
  intros vp m x0 y0 x1 y1 a Hwf [Hh Hw] H0 H1. unfold boxfill_reqs.
  rewrite (cutoff_id _ _ _ Hwf H0), (cutoff_id _ _ _ Hwf H1). cbn [vp_run].
  unfold vp_setitem. cbn [rq_y rq_x rq_data].
  apply contains_bounds in H0. apply contains_bounds in H1.
  destruct vp as [ab vx0 vy0 vx1 vy1 mw mh]. unfold wf_vp in Hwf. unfold cells_set, vp_cell, in_box, between.
  unfold_vp. cbn [vp_abs vp_x0 vp_y0 vp_x1 vp_y1 vp_maxw vp_maxh] in *.
  cbn [is_slice negb andb slice_start slice_stop opt_default].
  (* the absolute rectangle [Y0, Y1) x [X0, X1) *)
  assert (Hgen : forall Y0 Y1 X0 X1 ox oy,
            0 <= Y0 -> Y0 < Y1 -> Y1 <= mh -> 0 <= X0 -> X0 < X1 -> X1 <= mw ->
            X0 = Z.min x0 x1 + ox -> X1 = Z.max x0 x1 + 1 + ox -> Y0 = Z.min y0 y1 + oy -> Y1 = Z.max y0 y1 + 1 + oy ->
            exists m', bind (mat_setitem m (ISlice (Some Y0) (Some Y1)) (ISlice (Some X0) (Some X1)) (Fill a))
                         (fun m'0 => Ok m'0) = Ok m' /\
              forall x y,
                ((Z.min x0 x1 <= x <= Z.max x0 x1 /\ Z.min y0 y1 <= y <= Z.max y0 y1) ->
                 cellZ m' (y + oy) (x + ox) = Some a) /\
                (~ (Z.min x0 x1 <= x <= Z.max x0 x1 /\ Z.min y0 y1 <= y <= Z.max y0 y1) ->
                 cellZ m' (y + oy) (x + ox) = cellZ m (y + oy) (x + ox))).
  { intros Y0 Y1 X0 X1 ox oy HY0 HY01 HY1 HX0 HX01 HX1 EX0 EX1 EY0 EY1.
    destruct (mat_setitem m (ISlice (Some Y0) (Some Y1)) (ISlice (Some X0) (Some X1)) (Fill a)) as [m'| | |] eqn:Em;
      try (cbn [mat_setitem] in Em; destruct (slice_bounds (zlen m) (Some Y0) (Some Y1)); discriminate).
    exists m'. split; [reflexivity|]. intros x y. split.
    - intros [Hx Hy].
      destruct (mat_fill_inside m Y0 Y1 X0 X1 a mw (y + oy) (x + ox)) as [m2 [Em2 Hc]]; try lia; try assumption.
      rewrite Em in Em2. injection Em2 as Em2. subst m2. exact Hc.
    - intros Hn. destruct (cell_dec (cellZ m' (y + oy) (x + ox)) (cellZ m (y + oy) (x + ox))) as [E|E]; [exact E|].
      exfalso. destruct (cellZ_neg _ _ _ _ E) as [Hcy Hcx]. rewrite !cellZ_cell in E by assumption.
      assert (HY0' : 0 <= Y0) by lia. assert (HY1' : 0 <= Y1) by lia.
      assert (HX0' : 0 <= X0) by lia. assert (HX1' : 0 <= X1) by lia. assert (Hmw : 0 <= mw) by lia.
      pose proof (mat_setitem_rect m Y0 Y1 X0 X1 (Fill a) m' mw (Z.to_nat (y + oy)) (Z.to_nat (x + ox))
                    HY0' HY1' HX0' HX1' Hmw Hw I Em) as [_ Hin].
      specialize (Hin E). apply Hn. lia. }
  destruct ab.
  - destruct (Hgen (Z.max (Z.min y0 y1) vy0) (Z.min (Z.max y0 y1 + 1) (vy1 + 1))
                   (Z.max (Z.min x0 x1) vx0) (Z.min (Z.max x0 x1 + 1) (vx1 + 1)) 0 0) as [m' [Hm Hc]]; try lia.
    exists m'. split; [exact Hm|]. intros x y. specialize (Hc x y). rewrite !Z.add_0_r in Hc. exact Hc.
  - destruct (Hgen (Z.max (Z.min y0 y1) 0 + vy0) (Z.min (Z.max y0 y1 + 1) (vy1 - vy0 + 1 - 1 + 1) + vy0)
                   (Z.max (Z.min x0 x1) 0 + vx0) (Z.min (Z.max x0 x1 + 1) (vx1 - vx0 + 1 - 1 + 1) + vx0) vx0 vy0)
      as [m' [Hm Hc]]; try lia.
    exists m'. split; [exact Hm|]. exact Hc.
Qed.

Theorem exec_boxfill : forall st x0 y0 x1 y1 a,
  good_state st -> g_text st = false ->
  vp_contains (g_vp st) x0 y0 = true -> vp_contains (g_vp st) x1 y1 = true ->
  exists st', exec st (SBoxF x0 y0 x1 y1 a) = (Ok tt, st')
    /\ cells_set (g_vp st) (the_page st) (the_page st') a (in_box x0 y0 x1 y1).
Proof.
  intros st x0 y0 x1 y1 a [Hwf [Hap Hdims]] Ht H0 H1. unfold exec. rewrite Ht, guard_graphics.
  cbn [stmt_reqs]. rewrite gen_boxfill_is_model.
  assert (Hpage : same_dims (g_vp st) (the_page st)).
  { rewrite Forall_forall in Hdims. apply Hdims. unfold the_page. apply nth_In. exact Hap. }
  destruct (vp_boxfill_spec (g_vp st) (the_page st) x0 y0 x1 y1 a Hwf Hpage H0 H1) as [m' [Hrun Hc]].
  rewrite Hrun. eexists. split; [reflexivity|]. rewrite the_page_set by exact Hap. exact Hc.
Qed.
