(* Bridge (C30, C31): the request generators REGENERATED from graphics.py (gen/Gen_raster.v: _draw_line with its
   Bresenham loop, _draw_straight, _draw_box, _draw_box_filled, the PSET write) issue exactly the requests of the
   geometric hand model of model/Raster.v - for all coordinates, attributes, line styles and viewports. *)
From Coq Require Import ZArith List Bool Lia ZifyBool.
From PCB Require Import lib.Result lib.PyInt lib.GfxPrims gen.Gen_viewport gen.Gen_raster
  model.Matrix model.Viewport model.Raster.
Import ListNotations.
Open Scope Z_scope.
Ltac Zify.zify_post_hook ::= Z.to_euclidean_division_equations.

Lemma masked_app : forall {A} (l1 l2 : list A) pattern mask,
  masked pattern mask (l1 ++ l2) =
  let '(k1, m1) := masked pattern mask l1 in
  let '(k2, m2) := masked pattern m1 l2 in (k1 ++ k2, m2).
Proof.
  intros A l1. induction l1 as [|p r IH]; intros l2 pattern mask.
  - cbn. destruct (masked pattern mask l2). reflexivity.
  - cbn [app masked]. rewrite IH.
    destruct (masked pattern (next_mask mask) r) as [k1 m1].
    destruct (masked pattern m1 l2) as [k2 m2].
    destruct (negb (Z.land pattern mask =? 0)); reflexivity.
Qed.

Lemma range_len_step : forall a b,
  Z.to_nat (py_range_len a (b + (if b >? a then 1 else -1)) (if b >? a then 1 else -1))
  = Z.to_nat (Z.abs (b - a) + 1).
Proof.
  intros a b. unfold py_range_len. destruct (b >? a) eqn:E.
  - cbn [Z.ltb Z.compare]. replace (b + 1 - a + 1 - 1) with (b - a + 1) by lia.
    rewrite Z.div_1_r. f_equal. lia.
  - cbn [Z.ltb Z.compare Z.opp]. replace (a - (b + -1) - -1 - 1) with (a - b + 1) by lia.
    rewrite Z.div_1_r. f_equal. lia.
Qed.

(* ---------- the Bresenham loop *)
Lemma draw_line_loop : forall fuel st x ab r0 r1 r2 r3 mw mh x0 y0 x1 y1 attr pattern dx dy steep sx sy mask err y OUT,
  exists m' e' y',
    raster_u_draw_line_for_1 fuel st x ab r0 r1 r2 r3 mw mh x0 y0 x1 y1 attr pattern dx dy steep sx sy mask err y OUT
    = Ok (m', e', y',
          rev (map (pix_req attr)
                 (fst (masked pattern mask (map (swap_if steep) (bres fuel st sy dx dy x y err))))) ++ OUT).
Proof.
  induction fuel as [|fuel IH];
    intros st x ab r0 r1 r2 r3 mw mh x0 y0 x1 y1 attr pattern dx dy steep sx sy mask err y OUT.
  - cbn. eauto.
  - cbn [raster_u_draw_line_for_1 bres map masked].
    set (nm := if Z.shiftr mask 1 =? 0 then 32768 else Z.shiftr mask 1).
    assert (Hnm : next_mask mask = nm) by reflexivity.
    rewrite Hnm.
    assert (Hmask : forall T (k : Z -> res T),
               bind (if Z.shiftr mask 1 =? 0 then Ok 32768 else Ok (Z.shiftr mask 1)) k = k nm).
    { intros T k. subst nm. destruct (Z.shiftr mask 1 =? 0); reflexivity. }
    destruct (negb (Z.land pattern mask =? 0)) eqn:Epat.
    + (* pixel drawn *)
      destruct steep.
      * cbn [bind]. rewrite Hmask.
        destruct (err - dy <? 0) eqn:Ee; cbn [bind].
        -- destruct (IH st (x + st) ab r0 r1 r2 r3 mw mh x0 y0 x1 y1 attr pattern dx dy true sx sy nm
                       (err - dy + dx) (y + sy) (WReq (IInt x) (IInt y) (Fill attr) :: OUT)) as [m' [e' [y' H]]].
           exists m', e', y'. rewrite H.
           destruct (masked pattern nm (map (swap_if true) (bres fuel st sy dx dy (x + st) (y + sy) (err - dy + dx)))) as [k mm].
           cbn [fst map rev swap_if snd pix_req]. rewrite <- app_assoc. reflexivity.
        -- destruct (IH st (x + st) ab r0 r1 r2 r3 mw mh x0 y0 x1 y1 attr pattern dx dy true sx sy nm
                       (err - dy) y (WReq (IInt x) (IInt y) (Fill attr) :: OUT)) as [m' [e' [y' H]]].
           exists m', e', y'. rewrite H.
           destruct (masked pattern nm (map (swap_if true) (bres fuel st sy dx dy (x + st) y (err - dy)))) as [k mm].
           cbn [fst map rev swap_if snd pix_req]. rewrite <- app_assoc. reflexivity.
      * cbn [bind]. rewrite Hmask.
        destruct (err - dy <? 0) eqn:Ee; cbn [bind].
        -- destruct (IH st (x + st) ab r0 r1 r2 r3 mw mh x0 y0 x1 y1 attr pattern dx dy false sx sy nm
                       (err - dy + dx) (y + sy) (WReq (IInt y) (IInt x) (Fill attr) :: OUT)) as [m' [e' [y' H]]].
           exists m', e', y'. rewrite H.
           destruct (masked pattern nm (map (swap_if false) (bres fuel st sy dx dy (x + st) (y + sy) (err - dy + dx)))) as [k mm].
           cbn [fst map rev swap_if snd pix_req]. rewrite <- app_assoc. reflexivity.
        -- destruct (IH st (x + st) ab r0 r1 r2 r3 mw mh x0 y0 x1 y1 attr pattern dx dy false sx sy nm
                       (err - dy) y (WReq (IInt y) (IInt x) (Fill attr) :: OUT)) as [m' [e' [y' H]]].
           exists m', e', y'. rewrite H.
           destruct (masked pattern nm (map (swap_if false) (bres fuel st sy dx dy (x + st) y (err - dy)))) as [k mm].
           cbn [fst map rev swap_if snd pix_req]. rewrite <- app_assoc. reflexivity.
    + (* pixel masked out *)
      cbn [bind]. rewrite Hmask.
      destruct (err - dy <? 0) eqn:Ee; cbn [bind].
      * destruct (IH st (x + st) ab r0 r1 r2 r3 mw mh x0 y0 x1 y1 attr pattern dx dy steep sx sy nm
                    (err - dy + dx) (y + sy) OUT) as [m' [e' [y' H]]].
        exists m', e', y'. rewrite H.
        destruct (masked pattern nm (map (swap_if steep) (bres fuel st sy dx dy (x + st) (y + sy) (err - dy + dx)))) as [k mm].
        reflexivity.
      * destruct (IH st (x + st) ab r0 r1 r2 r3 mw mh x0 y0 x1 y1 attr pattern dx dy steep sx sy nm
                    (err - dy) y OUT) as [m' [e' [y' H]]].
        exists m', e', y'. rewrite H.
        destruct (masked pattern nm (map (swap_if steep) (bres fuel st sy dx dy (x + st) y (err - dy)))) as [k mm].
        reflexivity.
Qed.

Theorem gen_line_is_model : forall vp x0 y0 x1 y1 a pattern,
  gen_line vp x0 y0 x1 y1 a pattern = Ok (line_reqs vp x0 y0 x1 y1 a pattern).
Proof.
  intros vp x0 y0 x1 y1 a pattern.
  unfold gen_line, on_gv, raster_u_draw_line, line_reqs, vp_cutoff_coord, on_vp.
  destruct (viewport_cutoff_coord (vp_abs vp) (vp_x0 vp) (vp_y0 vp) (vp_x1 vp) (vp_y1 vp) (vp_maxw vp) (vp_maxh vp) x0 y0)
    as [cx0 cy0].
  destruct (viewport_cutoff_coord (vp_abs vp) (vp_x0 vp) (vp_y0 vp) (vp_x1 vp) (vp_y1 vp) (vp_maxw vp) (vp_maxh vp) x1 y1)
    as [cx1 cy1].
  unfold line_pixels.
  destruct (cy1 <=? cy0) eqn:Esw; cbn [bind].
  - (* endpoints swapped *)
    destruct (Z.abs (cy0 - cy1) >? Z.abs (cx0 - cx1)) eqn:Est; cbn [bind].
    + rewrite range_len_step.
      destruct (draw_line_loop (Z.to_nat (Z.abs (cy0 - cy1) + 1)) (if cy0 >? cy1 then 1 else -1) cy1
                  (vp_abs vp) (vp_x0 vp) (vp_y0 vp) (vp_x1 vp) (vp_y1 vp) (vp_maxw vp) (vp_maxh vp)
                  cy1 cx1 cy0 cx0 a pattern (Z.abs (cy0 - cy1)) (Z.abs (cx0 - cx1)) true
                  (if cy0 >? cy1 then 1 else -1) (if cx0 >? cx1 then 1 else -1) 32768 (Z.abs (cy0 - cy1) / 2) cx1 [])
        as [m' [e' [y' H]]].
      rewrite H. cbn [bind rmap]. rewrite app_nil_r, rev_involutive. reflexivity.
    + rewrite range_len_step.
      destruct (draw_line_loop (Z.to_nat (Z.abs (cx0 - cx1) + 1)) (if cx0 >? cx1 then 1 else -1) cx1
                  (vp_abs vp) (vp_x0 vp) (vp_y0 vp) (vp_x1 vp) (vp_y1 vp) (vp_maxw vp) (vp_maxh vp)
                  cx1 cy1 cx0 cy0 a pattern (Z.abs (cx0 - cx1)) (Z.abs (cy0 - cy1)) false
                  (if cx0 >? cx1 then 1 else -1) (if cy0 >? cy1 then 1 else -1) 32768 (Z.abs (cx0 - cx1) / 2) cy1 [])
        as [m' [e' [y' H]]].
      rewrite H. cbn [bind rmap]. rewrite app_nil_r, rev_involutive. reflexivity.
  - destruct (Z.abs (cy1 - cy0) >? Z.abs (cx1 - cx0)) eqn:Est; cbn [bind].
    + rewrite range_len_step.
      destruct (draw_line_loop (Z.to_nat (Z.abs (cy1 - cy0) + 1)) (if cy1 >? cy0 then 1 else -1) cy0
                  (vp_abs vp) (vp_x0 vp) (vp_y0 vp) (vp_x1 vp) (vp_y1 vp) (vp_maxw vp) (vp_maxh vp)
                  cy0 cx0 cy1 cx1 a pattern (Z.abs (cy1 - cy0)) (Z.abs (cx1 - cx0)) true
                  (if cy1 >? cy0 then 1 else -1) (if cx1 >? cx0 then 1 else -1) 32768 (Z.abs (cy1 - cy0) / 2) cx0 [])
        as [m' [e' [y' H]]].
      rewrite H. cbn [bind rmap]. rewrite app_nil_r, rev_involutive. reflexivity.
    + rewrite range_len_step.
      destruct (draw_line_loop (Z.to_nat (Z.abs (cx1 - cx0) + 1)) (if cx1 >? cx0 then 1 else -1) cx0
                  (vp_abs vp) (vp_x0 vp) (vp_y0 vp) (vp_x1 vp) (vp_y1 vp) (vp_maxw vp) (vp_maxh vp)
                  cx0 cy0 cx1 cy1 a pattern (Z.abs (cx1 - cx0)) (Z.abs (cy1 - cy0)) false
                  (if cx1 >? cx0 then 1 else -1) (if cy1 >? cy0 then 1 else -1) 32768 (Z.abs (cx1 - cx0) / 2) cy0 [])
        as [m' [e' [y' H]]].
      rewrite H. cbn [bind rmap]. rewrite app_nil_r, rev_involutive. reflexivity.
Qed.

(* ---------- _draw_straight *)
Lemma draw_straight_loop : forall fuel st p ab r0 r1 r2 r3 mw mh x0 y0 x1 y1 attr pattern p0 p1 q dir sp mask OUT,
  raster_u_draw_straight_for_2 fuel st p ab r0 r1 r2 r3 mw mh x0 y0 x1 y1 attr pattern p0 p1 q dir sp mask OUT
  = let '(k, m') := masked pattern mask
                      (map (fun p => if dir =? 120 then (p, q) else (q, p)) (zrange_from fuel p st)) in
    Ok (m', rev (map (pix_req attr) k) ++ OUT).
Proof.
  induction fuel as [|fuel IH]; intros st p ab r0 r1 r2 r3 mw mh x0 y0 x1 y1 attr pattern p0 p1 q dir sp mask OUT.
  - reflexivity.
  - cbn [raster_u_draw_straight_for_2 zrange_from map masked].
    set (nm := if Z.shiftr mask 1 =? 0 then 32768 else Z.shiftr mask 1).
    assert (Hnm : next_mask mask = nm) by reflexivity. rewrite Hnm.
    assert (Hmask : forall T (k : Z -> res T),
               bind (if Z.shiftr mask 1 =? 0 then Ok 32768 else Ok (Z.shiftr mask 1)) k = k nm).
    { intros T k. subst nm. destruct (Z.shiftr mask 1 =? 0); reflexivity. }
    destruct (negb (Z.land pattern mask =? 0)) eqn:Epat.
    + destruct (dir =? 120) eqn:Ed; cbn [bind]; rewrite Hmask; rewrite IH; rewrite Ed;
        destruct (masked pattern nm _) as [k mm]; cbn [map rev pix_req fst snd]; rewrite <- app_assoc; reflexivity.
    + cbn [bind]. rewrite Hmask. rewrite IH. destruct (masked pattern nm _) as [k mm]. reflexivity.
Qed.

Lemma draw_straight_is_model : forall OUT ab r0 r1 r2 r3 mw mh x0 y0 x1 y1 attr pattern mask,
  raster_u_draw_straight OUT ab r0 r1 r2 r3 mw mh x0 y0 x1 y1 attr pattern mask
  = let '(k, m') := masked pattern mask (straight_pixels x0 y0 x1 y1) in
    Ok (rev (map (pix_req attr) k) ++ OUT, m').
Proof.
  intros. unfold raster_u_draw_straight, straight_pixels, zrange.
  destruct (x0 =? x1) eqn:E; cbn [bind].
  - rewrite range_len_step. rewrite draw_straight_loop.
    replace (121 =? 120) with false by reflexivity.
    destruct (masked pattern mask _) as [k mm]. reflexivity.
  - rewrite range_len_step. rewrite draw_straight_loop.
    replace (120 =? 120) with true by reflexivity.
    destruct (masked pattern mask _) as [k mm]. reflexivity.
Qed.

Theorem gen_box_is_model : forall vp x0 y0 x1 y1 a pattern,
  gen_box vp x0 y0 x1 y1 a pattern = Ok (box_reqs vp x0 y0 x1 y1 a pattern).
Proof.
  intros vp x0 y0 x1 y1 a pattern.
  unfold gen_box, on_gv, raster_u_draw_box, box_reqs, vp_cutoff_coord, on_vp.
  destruct (viewport_cutoff_coord (vp_abs vp) (vp_x0 vp) (vp_y0 vp) (vp_x1 vp) (vp_y1 vp) (vp_maxw vp) (vp_maxh vp) x0 y0)
    as [cx0 cy0].
  destruct (viewport_cutoff_coord (vp_abs vp) (vp_x0 vp) (vp_y0 vp) (vp_x1 vp) (vp_y1 vp) (vp_maxw vp) (vp_maxh vp) x1 y1)
    as [cx1 cy1].
  unfold box_pixels.
  rewrite draw_straight_is_model.
  destruct (cy0 <? cy1) eqn:Ey.
  - rewrite masked_app.
    destruct (masked pattern 32768 (straight_pixels cx1 cy1 cx0 cy1)) as [k1 m1]. cbn [bind].
    rewrite draw_straight_is_model. rewrite masked_app.
    destruct (masked pattern m1 (straight_pixels cx1 cy0 cx0 cy0)) as [k2 m2]. cbn [bind].
    rewrite draw_straight_is_model. rewrite masked_app.
    destruct (masked pattern m2 (straight_pixels cx1 cy0 cx1 cy1)) as [k3 m3]. cbn [bind].
    rewrite draw_straight_is_model.
    destruct (masked pattern m3 (straight_pixels cx0 cy0 cx0 cy1)) as [k4 m4]. cbn [bind rmap fst].
    rewrite !app_nil_r. rewrite !map_app, !rev_app_distr, !rev_involutive.
    rewrite <- !app_assoc. reflexivity.
  - rewrite masked_app.
    destruct (masked pattern 32768 (straight_pixels cx1 cy1 cx0 cy1)) as [k1 m1]. cbn [bind].
    rewrite draw_straight_is_model. rewrite masked_app.
    destruct (masked pattern m1 (straight_pixels cx1 cy0 cx0 cy0)) as [k2 m2]. cbn [bind].
    rewrite draw_straight_is_model. rewrite masked_app.
    destruct (masked pattern m2 (straight_pixels cx1 cy1 cx1 cy0)) as [k3 m3]. cbn [bind].
    rewrite draw_straight_is_model.
    destruct (masked pattern m3 (straight_pixels cx0 cy1 cx0 cy0)) as [k4 m4]. cbn [bind rmap fst].
    rewrite !app_nil_r. rewrite !map_app, !rev_app_distr, !rev_involutive.
    rewrite <- !app_assoc. reflexivity.
Qed.

Theorem gen_boxfill_is_model : forall vp x0 y0 x1 y1 a,
  gen_boxfill vp x0 y0 x1 y1 a = boxfill_reqs vp x0 y0 x1 y1 a.
Proof.
  intros vp x0 y0 x1 y1 a.
  unfold gen_boxfill, on_gv, raster_u_draw_box_filled, boxfill_reqs, vp_cutoff_coord, on_vp.
  destruct (viewport_cutoff_coord (vp_abs vp) (vp_x0 vp) (vp_y0 vp) (vp_x1 vp) (vp_y1 vp) (vp_maxw vp) (vp_maxh vp) x0 y0)
    as [cx0 cy0].
  destruct (viewport_cutoff_coord (vp_abs vp) (vp_x0 vp) (vp_y0 vp) (vp_x1 vp) (vp_y1 vp) (vp_maxw vp) (vp_maxh vp) x1 y1)
    as [cx1 cy1].
  destruct (cy1 <? cy0) eqn:Ey; destruct (cx1 <? cx0) eqn:Ex; cbn [rev app];
    repeat f_equal; lia.
Qed.

Theorem gen_pset_is_model : forall vp x y a, gen_pset vp x y a = [pix_req a (x, y)].
Proof. reflexivity. Qed.
