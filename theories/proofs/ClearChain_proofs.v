(* C23 - proofs, parts 3-9: the COMMON migration of preserve_commons and the CHAIN theorems *)
From Coq Require Import ZArith List Bool String Lia Permutation.
From RecordUpdate Require Import RecordSet.
From PCB Require Import lib.Result lib.PyInt lib.Harness lib.ClearTable gen.Gen_clear model.ClearChain proofs.ClearChain_reset proofs.ClearChain_closed.
Import ListNotations RecordSetNotations.
Open Scope Z_scope.


Lemma chain_closed s a : cmd_chain a s = chain_spec real_handlers a s.
Proof. apply chain_closed_form. Qed.

(* ------------------------------------------------------------------------------------------------ *)
(* Part 3: the string migration *)

Ltac Zify.zify_post_hook ::= Z.to_euclidean_division_equations.

Lemma bytes_eqb_refl k : list_Z_eqb k k = true.
Proof. apply list_Z_eqb_eq. reflexivity. Qed.
Lemma bytes_eqb_neq k k' : k <> k' -> list_Z_eqb k k' = false.
Proof.
  intro H. destruct (list_Z_eqb k k') eqn:E; [|reflexivity].
  apply list_Z_eqb_eq in E. contradiction.
Qed.

(* a separate string space: the strings stored so far, all above `st_cur` *)
Definition sget (d : store) (p : Z * Z) : option bytes :=
  if fst p =? 0 then Some [] else zlookup (snd p) (st_strs d).
Definition above (d : store) : Prop := forall a, a <= st_cur d -> zlookup a (st_strs d) = None.
Definition ext (d d' : store) : Prop :=
  st_cur d' <= st_cur d /\ forall a, st_cur d < a -> zlookup a (st_strs d') = zlookup a (st_strs d).
Definition pvalid (d : store) (p : Z * Z) : Prop := fst p = 0 \/ st_cur d < snd p.

Lemma ext_refl d : ext d d.
Proof. split; [lia | reflexivity]. Qed.
Lemma ext_trans d1 d2 d3 : ext d1 d2 -> ext d2 d3 -> ext d1 d3.
Proof.
  intros [H1 H2] [H3 H4]. split; [lia|]. intros a Ha. rewrite H4 by lia. apply H2, Ha.
Qed.
Lemma ext_sget d d' p : ext d d' -> pvalid d p -> sget d' p = sget d p.
Proof.
  intros [_ H] [Hp|Hp]; unfold sget.
  - rewrite Hp. reflexivity.
  - destruct (fst p =? 0); [reflexivity | apply H, Hp].
Qed.
Lemma ext_pvalid d d' p : ext d d' -> pvalid d p -> pvalid d' p.
Proof. intros [H _] [Hp|Hp]; [left; exact Hp | right; lia]. Qed.

Lemma zlen_nonneg {A} (l : list A) : 0 <= zlen l.
Proof. unfold zlen. lia. Qed.
Lemma zlen_zero_nil {A} (l : list A) : zlen l = 0 -> l = [].
Proof. destruct l; [reflexivity | unfold zlen; simpl; lia]. Qed.

Lemma store_put_spec s d b p d' : store_put s d b = Ok (p, d') -> above d ->
  p = (zlen b, st_cur d - zlen b + 1) /\ st_cur d' = st_cur d - zlen b /\ zlen b <= 255
  /\ sget d' p = Some b /\ above d' /\ ext d d'.
Proof.
  unfold store_put. intros H Hab.
  destruct (255 <? zlen b) eqn:E255; [discriminate|].
  destruct (check_free_held s (zlen b) err_OUT_OF_STRING_SPACE) as [u| | |]; try discriminate.
  cbn [bind] in H. injection H as Hp Hd. subst p d'. cbn [st_cur st_strs].
  pose proof (zlen_nonneg b) as Hn.
  split; [reflexivity|]. split; [reflexivity|]. split; [lia|].
  destruct (0 <? zlen b) eqn:E0.
  - split; [|split; [|split]].
    + unfold sget. cbn [fst snd st_strs]. replace (zlen b =? 0) with false by lia.
      cbn [zlookup]. rewrite Z.eqb_refl. reflexivity.
    + intros x Hx. cbn [st_cur st_strs zlookup] in *.
      replace (x =? st_cur d - zlen b + 1) with false by lia. apply Hab. lia.
    + cbn [st_cur]. lia.
    + intros x Hx. cbn [st_cur st_strs zlookup] in *.
      replace (x =? st_cur d - zlen b + 1) with false by lia. reflexivity.
  - assert (zlen b = 0) as Hz by lia. pose proof (zlen_zero_nil b Hz) as Hb. subst b.
    change (zlen (@nil Z)) with 0 in *.
    split; [|split; [|split]].
    + unfold sget. cbn [fst]. reflexivity.
    + intros x Hx. cbn [st_cur st_strs] in *. apply Hab. lia.
    + cbn [st_cur]. lia.
    + intros x Hx. reflexivity.
Qed.

Lemma copy_to_spec s d l a p d' : copy_to s d l a = Ok (p, d') -> above d ->
  exists b, view s l a = Ok b /\ sget d' p = Some b /\ fst p = zlen b /\ pvalid d' p
            /\ above d' /\ ext d d'.
Proof.
  unfold copy_to. intros H Hab.
  destruct (view s l a) as [b| | |] eqn:Ev; try discriminate. cbn [bind] in H.
  destruct (st_cur d - zlen b <? m_code_start s); [discriminate|].
  destruct (store_put_spec _ _ _ _ _ H Hab) as (Hp & Hc & H255 & Hg & Hab' & Hext).
  exists b. repeat split; try assumption; try apply Hext.
  - subst p. reflexivity.
  - subst p. cbn [fst snd]. unfold pvalid. cbn [fst snd]. destruct (Z.eq_dec (zlen b) 0); [left; assumption | right; lia].
Qed.

(* what migrate guarantees for every item, in the final store *)
Definition moved {K} (s : state) (d' : store) (it q : K * (Z * Z)) : Prop :=
  fst q = fst it /\
  exists b, view s (fst (snd it)) (snd (snd it)) = Ok b /\ sget d' (snd q) = Some b
            /\ fst (snd q) = zlen b /\ pvalid d' (snd q).

Lemma moved_ext {K} s d d' (it q : K * (Z * Z)) : ext d d' -> moved s d it q -> moved s d' it q.
Proof.
  intros He (Hk & b & Hv & Hg & Hl & Hp). split; [exact Hk|]. exists b.
  repeat split; try assumption.
  - rewrite (ext_sget _ _ _ He Hp). exact Hg.
  - eapply ext_pvalid; eassumption.
Qed.

Lemma migrate_spec {K} s (items : list (K * (Z * Z))) : forall d r d',
  migrate s items d = Ok (r, d') -> above d ->
  above d' /\ ext d d' /\ Forall2 (moved s d') items r.
Proof.
  induction items as [|[k [l a]] items IH]; intros d r d' H Hab.
  - cbn in H. injection H as <- <-. repeat split; [assumption | apply ext_refl | constructor].
  - cbn [migrate] in H.
    destruct (copy_to s d l a) as [[p d1]| | |] eqn:Ec; try discriminate. cbn [bind snd fst] in H.
    destruct (migrate s items d1) as [[r1 d2]| | |] eqn:Em; try discriminate. cbn [bind snd fst] in H.
    injection H as <- <-.
    destruct (copy_to_spec _ _ _ _ _ _ Ec Hab) as (b & Hv & Hg & Hl & Hp & Hab1 & Hext1).
    destruct (IH _ _ _ Em Hab1) as (Hab2 & Hext2 & HF).
    split; [assumption|]. split; [eapply ext_trans; eassumption|].
    constructor; [|assumption].
    apply (moved_ext s d1 d2); [assumption|].
    split; [reflexivity|]. exists b. cbn [fst snd]. repeat split; assumption.
Qed.

(* the descending sort only permutes *)
Lemma ins_desc_perm {K} (x : K * (Z * Z)) l : Permutation (ins_desc x l) (x :: l).
Proof.
  induction l as [|y l IH]; cbn [ins_desc]; [reflexivity|].
  destruct (iaddr y <=? iaddr x); [reflexivity|].
  rewrite IH. apply perm_swap.
Qed.
Lemma sort_desc_perm {K} (l : list (K * (Z * Z))) : Permutation (sort_desc l) l.
Proof.
  induction l as [|x l IH]; cbn [sort_desc]; [reflexivity|].
  rewrite ins_desc_perm. constructor. exact IH.
Qed.

(* ... so every item of the unsorted list has been moved *)
Lemma migrate_sorted_spec {K} s (items : list (K * (Z * Z))) d r d' :
  migrate s (sort_desc items) d = Ok (r, d') -> above d ->
  above d' /\ ext d d' /\ Permutation (map fst r) (map fst items)
  /\ forall it, In it items -> exists q, In q r /\ moved s d' it q.
Proof.
  intros H Hab. destruct (migrate_spec _ _ _ _ _ H Hab) as (Hab' & Hext & HF).
  split; [assumption|]. split; [assumption|]. split.
  - assert (map fst r = map fst (sort_desc items)) as ->.
    { clear -HF. induction HF as [|it q l1 l2 Hm _ IH]; [reflexivity|].
      cbn [map]. destruct Hm as [-> _]. rewrite IH. reflexivity. }
    apply Permutation_map, sort_desc_perm.
  - intros it Hin.
    assert (In it (sort_desc items)) as Hin' by (eapply Permutation_in; [symmetry; apply sort_desc_perm | exact Hin]).
    clear -HF Hin'. induction HF as [|it0 q l1 l2 Hm _ IH]; [contradiction|].
    destruct Hin' as [<-|Hin']; [exists q; split; [left; reflexivity | exact Hm]|].
    destruct (IH Hin') as (q' & Hq & Hm'). exists q'. split; [right; exact Hq | exact Hm'].
Qed.

(* ------------------------------------------------------------------------------------------------ *)
(* Part 4: association lists *)

Lemma alookup_in {V} (l : list (bytes * V)) : NoDup (map fst l) ->
  forall n v, In (n, v) l -> alookup n l = Some v.
Proof.
  induction l as [|[k w] l IH]; intros Hnd n v Hin; [contradiction|].
  cbn [map fst] in Hnd. inversion Hnd as [|? ? Hk Hnd']; subst. cbn [alookup].
  destruct Hin as [Heq|Hin].
  - injection Heq as -> ->. rewrite bytes_eqb_refl. reflexivity.
  - rewrite bytes_eqb_neq; [apply IH; assumption|].
    intros ->. apply Hk. change k with (fst (k, v)). apply in_map, Hin.
Qed.
Lemma alookup_none {V} (l : list (bytes * V)) n : ~ In n (map fst l) -> alookup n l = None.
Proof.
  induction l as [|[k w] l IH]; intro H; [reflexivity|]. cbn [alookup].
  rewrite bytes_eqb_neq; [apply IH|]; intro; apply H; cbn [map fst]; [right|left]; congruence.
Qed.
Lemma alookup_some_in {V} (l : list (bytes * V)) n v : alookup n l = Some v -> In (n, v) l.
Proof.
  induction l as [|[k w] l IH]; cbn [alookup]; intro H; [discriminate|].
  destruct (list_Z_eqb n k) eqn:E.
  - apply list_Z_eqb_eq in E. injection H as ->. subst. left. reflexivity.
  - right. apply IH, H.
Qed.
Lemma alookup_app {V} (l1 l2 : list (bytes * V)) n :
  alookup n (l1 ++ l2) = match alookup n l1 with Some v => Some v | None => alookup n l2 end.
Proof.
  induction l1 as [|[k w] l1 IH]; [reflexivity|]. cbn [alookup app].
  destruct (list_Z_eqb n k); [reflexivity | apply IH].
Qed.
Lemma klookup_alookup n l : klookup n l = alookup n l.
Proof. induction l as [|[k w] l IH]; [reflexivity|]. cbn. rewrite IH. reflexivity. Qed.
Lemma nmem_in n l : nmem n l = true <-> In n l.
Proof.
  induction l as [|k l IH]; cbn [nmem In]; [split; [discriminate|contradiction]|].
  rewrite orb_true_iff, IH, list_Z_eqb_eq. split; intros [H|H]; auto.
Qed.
Lemma nodupb_NoDup l : nodupb l = true -> NoDup l.
Proof.
  induction l as [|k l IH]; cbn [nodupb]; intro H; [constructor|].
  apply andb_true_iff in H as [H1 H2]. constructor; [|apply IH, H2].
  intro Hin. apply nmem_in in Hin. rewrite Hin in H1. discriminate.
Qed.
Lemma amem_in {V} n (l : list (bytes * V)) : amem n l = true <-> In n (map fst l).
Proof.
  unfold amem. split.
  - destruct (alookup n l) eqn:E; [|discriminate]. intros _.
    apply alookup_some_in in E. change n with (fst (n, v)). apply in_map, E.
  - intro H. destruct (alookup n l) eqn:E; [reflexivity|].
    exfalso. clear -H E. induction l as [|[k w] l IH]; [contradiction|].
    cbn [alookup] in E. destruct (list_Z_eqb n k) eqn:E2; [discriminate|].
    destruct H as [H|H]; [cbn in H; subst; rewrite bytes_eqb_refl in E2; discriminate | apply IH; assumption].
Qed.

Lemma NoDup_app_intro {A} (l1 l2 : list A) :
  NoDup l1 -> NoDup l2 -> (forall x, In x l1 -> In x l2 -> False) -> NoDup (l1 ++ l2).
Proof.
  induction l1 as [|a l1 IH]; intros H1 H2 H; [exact H2|].
  inversion H1 as [|? ? Ha H1']; subst. cbn [app]. constructor.
  - intro Hin. apply in_app_iff in Hin as [Hin|Hin]; [contradiction | apply (H a); [left; reflexivity | exact Hin]].
  - apply IH; [assumption | assumption |]. intros x Hx. apply H. right. exact Hx.
Qed.

Lemma Forall2_impl_in {A B} (P Q : A -> B -> Prop) l l' :
  Forall2 P l l' -> (forall x y, In x l -> In y l' -> P x y -> Q x y) -> Forall2 Q l l'.
Proof.
  induction 1 as [|x y l l' Hp _ IH]; intro H; constructor.
  - apply H; [left; reflexivity | left; reflexivity | exact Hp].
  - apply IH. intros x' y' Hx Hy. apply H; right; assumption.
Qed.
Lemma Forall2_in_l {A B} (P : A -> B -> Prop) l l' x :
  Forall2 P l l' -> In x l -> exists y, In y l' /\ P x y.
Proof.
  induction 1 as [|x0 y l l' Hp _ IH]; intro Hin; [contradiction|].
  destruct Hin as [<-|Hin]; [exists y; split; [left; reflexivity | exact Hp]|].
  destruct (IH Hin) as (y' & Hy & Hp'). exists y'. split; [right; exact Hy | exact Hp'].
Qed.
Lemma Forall2_map_fst {A B C} (P : A * B -> A * C -> Prop) l l' :
  Forall2 P l l' -> (forall x y, P x y -> fst y = fst x) -> map fst l' = map fst l.
Proof.
  induction 1 as [|x y l l' Hp _ IH]; intro H; [reflexivity|].
  cbn [map]. rewrite (H _ _ Hp), IH by exact H. reflexivity.
Qed.

(* ------------------------------------------------------------------------------------------------ *)
(* Part 5: COMMON scalars through preserve_commons *)

Lemma pack3_unpack3 p v : pack3 p = Ok v -> unpack3 v = Ok p.
Proof.
  destruct p as [l a]. unfold pack3.
  destruct ((0 <=? l) && (l <=? 255) && (0 <=? a) && (a <=? 65535)) eqn:E; [|discriminate].
  intro H. injection H as <-. cbn [unpack3]. f_equal. f_equal. lia.
Qed.

Lemma pick_scalars_spec cs s :
  map fst (pick_scalars cs s) = filter (fun n => amem n (sc_vars s)) cs
  /\ forall n v, In (n, v) (pick_scalars cs s) <-> In n cs /\ alookup n (sc_vars s) = Some v.
Proof.
  induction cs as [|k cs [IH1 IH2]]; cbn [pick_scalars filter].
  - split; [reflexivity|]. intros n v. split; [contradiction | intros [[] _]].
  - unfold amem. destruct (alookup k (sc_vars s)) as [w|] eqn:E.
    + split; [cbn [map fst]; rewrite IH1; reflexivity|]. intros n v. cbn [In]. rewrite IH2. split.
      * intros [H|[H1 H2]]; [injection H as <- <-; auto | auto].
      * intros [[<-|H1] H2]; [left; congruence | right; auto].
    + split; [exact IH1|]. intros n v. rewrite IH2. cbn [In]. split.
      * intros [H1 H2]; auto.
      * intros [[<-|H1] H2]; [congruence | auto].
Qed.

Lemma scalar_items_spec l : forall items, scalar_items l = Ok items ->
  map fst items = filter is_str_scalar (map fst l)
  /\ (forall n p, In (n, p) items -> exists v, In (n, v) l /\ unpack3 v = Ok p /\ is_str_scalar n = true)
  /\ (forall n v, In (n, v) l -> is_str_scalar n = true -> exists p, unpack3 v = Ok p /\ In (n, p) items).
Proof.
  induction l as [|[k w] l IH]; intros items H; cbn [scalar_items] in H.
  - injection H as <-. repeat split; try reflexivity; intros; contradiction.
  - cbn [map fst filter]. destruct (is_str_scalar k) eqn:Ek.
    + destruct (unpack3 w) as [p| | |] eqn:Eu; try discriminate. cbn [bind] in H.
      destruct (scalar_items l) as [t| | |] eqn:Et; try discriminate. cbn [bind] in H.
      injection H as <-. destruct (IH _ eq_refl) as (H1 & H2 & H3).
      split; [cbn [map fst]; rewrite H1; reflexivity|]. split.
      * intros n q [Hq|Hq].
        -- injection Hq as <- <-. exists w. repeat split; [left; reflexivity | assumption | assumption].
        -- destruct (H2 _ _ Hq) as (v & Hv & Hu & Hs). exists v. repeat split; [right|..]; assumption.
      * intros n v [Hv|Hv] Hs.
        -- injection Hv as <- <-. exists p. split; [assumption | left; reflexivity].
        -- destruct (H3 _ _ Hv Hs) as (q & Hu & Hq). exists q. split; [assumption | right; assumption].
    + destruct (IH _ H) as (H1 & H2 & H3). split; [exact H1|]. split.
      * intros n q Hq. destruct (H2 _ _ Hq) as (v & Hv & Hu & Hs). exists v. repeat split; [right|..]; assumption.
      * intros n v [Hv|Hv] Hs; [injection Hv as <- <-; congruence | apply H3; assumption].
Qed.

Lemma patch_scalars_spec ptrs l : forall l', patch_scalars l ptrs = Ok l' ->
  Forall2 (fun x y => fst y = fst x /\
             match klookup (fst x) ptrs with Some p => pack3 p = Ok (snd y) | None => snd y = snd x end) l l'.
Proof.
  induction l as [|[k w] l IH]; intros l' H; cbn [patch_scalars] in H.
  - injection H as <-. constructor.
  - destruct (match klookup k ptrs with Some p => pack3 p | None => Ok w end) as [v'| | |] eqn:Ev; try discriminate.
    cbn [bind] in H. destruct (patch_scalars l ptrs) as [t| | |]; try discriminate. cbn [bind] in H.
    injection H as <-. constructor; [|apply IH; reflexivity]. cbn [fst snd]. split; [reflexivity|].
    destruct (klookup k ptrs); [exact Ev | injection Ev as ->; reflexivity].
Qed.

(* what preserve_commons keeps of one scalar: v before, v' in the saved dictionary, strings in store d *)
Definition scalar_ok (s : state) (d : store) (n v v' : bytes) : Prop :=
  if is_str_scalar n then
    exists p p' b, unpack3 v = Ok p /\ view s (fst p) (snd p) = Ok b /\ pack3 p' = Ok v'
                   /\ sget d p' = Some b /\ fst p' = zlen b /\ pvalid d p'
  else v' = v.

Lemma scalar_ok_ext s d d' n v v' : ext d d' -> scalar_ok s d n v v' -> scalar_ok s d' n v v'.
Proof.
  unfold scalar_ok. intro He. destruct (is_str_scalar n); [|auto].
  intros (p & p' & b & H1 & H2 & H3 & H4 & H5 & H6). exists p, p', b.
  repeat split; try assumption.
  - rewrite (ext_sget _ _ _ He H6). exact H4.
  - eapply ext_pvalid; eassumption.
Qed.

Lemma migrate_scalars_ok s scal items r d0 d1 scal' :
  NoDup (map fst scal) -> scalar_items scal = Ok items ->
  migrate s (sort_desc items) d0 = Ok (r, d1) -> above d0 ->
  patch_scalars scal r = Ok scal' ->
  above d1 /\ ext d0 d1 /\
  Forall2 (fun x y => fst y = fst x /\ scalar_ok s d1 (fst x) (snd x) (snd y)) scal scal'.
Proof.
  intros Hnd Hit Hm Hab Hp.
  destruct (scalar_items_spec _ _ Hit) as (Hk & Hi1 & Hi2).
  destruct (migrate_sorted_spec _ _ _ _ _ Hm Hab) as (Hab1 & Hext & Hperm & Hmv).
  split; [assumption|]. split; [assumption|].
  assert (NoDup (map fst r)) as Hndr.
  { eapply Permutation_NoDup; [symmetry; exact Hperm|]. rewrite Hk. apply NoDup_filter, Hnd. }
  eapply Forall2_impl_in; [apply patch_scalars_spec, Hp|].
  intros [n v] [n' v'] Hin _ [Hfst Hlook]. cbn [fst snd] in *. subst n'. split; [reflexivity|].
  unfold scalar_ok. destruct (is_str_scalar n) eqn:Es.
  - destruct (Hi2 _ _ Hin Es) as (p & Hu & Hinp).
    destruct (Hmv _ Hinp) as ([n2 p'] & Hq & Hk2 & b & Hv & Hg & Hl & Hpv). cbn [fst snd] in *. subst n2.
    rewrite klookup_alookup, (alookup_in _ Hndr _ _ Hq) in Hlook.
    exists p, p', b. repeat split; assumption.
  - rewrite klookup_alookup, alookup_none in Hlook; [exact Hlook|].
    intro Hc. apply (Permutation_in _ Hperm) in Hc. rewrite Hk in Hc.
    apply filter_In in Hc as [_ Hc]. congruence.
Qed.

(* ------------------------------------------------------------------------------------------------ *)
(* Part 6: COMMON arrays through preserve_commons *)

(* the 3-byte string pointers of a buffer, with their offsets *)
Inductive chunked (n : bytes) : Z -> bytes -> list ((bytes * Z) * (Z * Z)) -> Prop :=
| ch_nil off : chunked n off [] []
| ch_cons off l lo hi r t : chunked n (off + 3) r t ->
    chunked n off (l :: lo :: hi :: r) (((n, off), (l, lo + 256 * hi)) :: t).

(* buffer b before, b' in the saved dictionary: every pointer re-packed, its string in store d *)
Inductive buf_moved (s : state) (d : store) : bytes -> bytes -> Prop :=
| bm_nil : buf_moved s d [] []
| bm_cons l lo hi r p' c r' x :
    view s l (lo + 256 * hi) = Ok x -> pack3 p' = Ok c -> sget d p' = Some x -> fst p' = zlen x ->
    pvalid d p' -> buf_moved s d r r' -> buf_moved s d (l :: lo :: hi :: r) (c ++ r').

Lemma buf_moved_ext s d d' b b' : ext d d' -> buf_moved s d b b' -> buf_moved s d' b b'.
Proof.
  intros He H. induction H; econstructor; try eassumption.
  - rewrite (ext_sget _ _ _ He); eassumption.
  - eapply ext_pvalid; eassumption.
Qed.

Lemma chunk_items_spec n : forall fuel off b items,
  chunk_items n off b fuel = Ok items -> chunked n off b items.
Proof.
  induction fuel as [|f IH]; intros off b items H; [destruct b; discriminate H|].
  destruct b as [|l [|lo [|hi r]]]; cbn [chunk_items] in H; try discriminate.
  - injection H as <-. constructor.
  - destruct (chunk_items n (off + 3) r f) as [t| | |] eqn:E; try discriminate. cbn [bind] in H.
    injection H as <-. constructor. apply IH, E.
Qed.

Lemma chunked_keys n off b items : chunked n off b items ->
  Forall (fun it => fst (fst it) = n /\ off <= snd (fst it)) items /\ NoDup (map fst items).
Proof.
  induction 1 as [|off l lo hi r t _ [IH1 IH2]]; [split; constructor|].
  split.
  - constructor; [cbn; split; [reflexivity | lia]|].
    eapply Forall_impl; [|exact IH1]. cbn. intros it [H1 H2]. split; [assumption | lia].
  - cbn [map fst]. constructor; [|assumption].
    intro Hin. apply in_map_iff in Hin as (it & Hk & Hin).
    rewrite Forall_forall in IH1. destruct (IH1 _ Hin) as [_ H2]. rewrite Hk in H2. cbn in H2. lia.
Qed.

Lemma k2lookup_in l : NoDup (map fst l) -> forall n off p, In ((n, off), p) l -> k2lookup n off l = Some p.
Proof.
  induction l as [|[[k o] w] l IH]; intros Hnd n off p Hin; [contradiction|].
  cbn [map fst] in Hnd. inversion Hnd as [|? ? Hk Hnd']; subst. cbn [k2lookup].
  destruct Hin as [Heq|Hin].
  - injection Heq as -> -> ->. rewrite bytes_eqb_refl, Z.eqb_refl. reflexivity.
  - destruct (list_Z_eqb n k && (off =? o)) eqn:E; [|apply IH; assumption].
    apply andb_true_iff in E as [E1 E2]. apply list_Z_eqb_eq in E1. apply Z.eqb_eq in E2. subst.
    exfalso. apply Hk. change (k, o) with (fst ((k, o), p)). apply in_map, Hin.
Qed.

Lemma patch_buffer_spec s d n ptrs : forall fuel off b items b',
  chunked n off b items ->
  (forall k p, In (k, p) items -> exists p' x, k2lookup (fst k) (snd k) ptrs = Some p'
      /\ view s (fst p) (snd p) = Ok x /\ sget d p' = Some x /\ fst p' = zlen x /\ pvalid d p') ->
  patch_buffer n off b ptrs fuel = Ok b' -> buf_moved s d b b'.
Proof.
  induction fuel as [|f IH]; intros off b items b' Hch Hall H; [destruct b; discriminate H|].
  inversion Hch as [|off' l lo hi r t Hch']; subst; cbn [patch_buffer] in H.
  - injection H as <-. constructor.
  - destruct (Hall (n, off) (l, lo + 256 * hi) (or_introl eq_refl)) as (p' & x & Hk & Hv & Hg & Hl & Hp).
    cbn [fst snd] in *. rewrite Hk in H.
    destruct (pack3 p') as [c| | |] eqn:Ec; try discriminate. cbn [bind] in H.
    destruct (patch_buffer n (off + 3) r ptrs f) as [t'| | |] eqn:Et; try discriminate. cbn [bind] in H.
    injection H as <-. econstructor; try eassumption.
    eapply IH; [exact Hch' | | exact Et]. intros k p Hin. apply Hall. right. exact Hin.
Qed.

Definition array_ok (s : state) (d : store) (n : bytes) (x y : list Z * bytes) : Prop :=
  fst y = fst x /\ if is_str_name n then buf_moved s d (snd x) (snd y) else snd y = snd x.

Lemma array_ok_ext s d d' n x y : ext d d' -> array_ok s d n x y -> array_ok s d' n x y.
Proof.
  unfold array_ok. intros He [H1 H2]. split; [assumption|].
  destruct (is_str_name n); [eapply buf_moved_ext; eassumption | assumption].
Qed.

Lemma array_items_spec arrs : forall aitems, NoDup (map fst arrs) -> array_items arrs = Ok aitems ->
  NoDup (map fst aitems)
  /\ (forall k p, In (k, p) aitems -> In (fst k) (map fst arrs))
  /\ (forall n d b, In (n, (d, b)) arrs -> is_str_name n = true ->
        exists its, chunked n 0 b its /\ incl its aitems).
Proof.
  induction arrs as [|[k [dd bb]] arrs IH]; intros aitems Hnd H; cbn [array_items] in H.
  - injection H as <-. repeat split; [constructor | intros; contradiction | intros; contradiction].
  - cbn [map fst] in Hnd. inversion Hnd as [|? ? Hk Hnd']; subst.
    destruct (is_str_name k) eqn:Ek.
    + destruct (chunk_items k 0 bb (S (List.length bb))) as [c| | |] eqn:Ec; try discriminate. cbn [bind] in H.
      destruct (array_items arrs) as [t| | |] eqn:Et; try discriminate. cbn [bind] in H.
      injection H as <-. destruct (IH _ Hnd' eq_refl) as (H1 & H2 & H3).
      pose proof (chunk_items_spec _ _ _ _ _ Ec) as Hch.
      destruct (chunked_keys _ _ _ _ Hch) as [Hc1 Hc2]. rewrite Forall_forall in Hc1.
      split; [|split].
      * rewrite map_app. apply NoDup_app_intro; [assumption | assumption |].
        intros key Hin1 Hin2. apply in_map_iff in Hin1 as (it & <- & Hit).
        apply in_map_iff in Hin2 as ([k2 p2] & Hk2 & Hit2). cbn [fst] in Hk2. subst k2.
        destruct (Hc1 _ Hit) as [Hn _]. apply Hk. rewrite <- Hn. exact (H2 _ _ Hit2).
      * intros key p Hin. apply in_app_iff in Hin as [Hin|Hin].
        -- destruct (Hc1 _ Hin) as [Hn _]. cbn [fst] in Hn. left. cbn [fst]. congruence.
        -- right. exact (H2 _ _ Hin).
      * intros n d b [Hin|Hin] Hs.
        -- injection Hin as <- <- <-. exists c. split; [assumption | apply incl_appl, incl_refl].
        -- destruct (H3 _ _ _ Hin Hs) as (its & Hch' & Hinc). exists its. split; [assumption | apply incl_appr, Hinc].
    + destruct (IH _ Hnd' H) as (H1 & H2 & H3). split; [assumption|]. split.
      * intros key p Hin. right. exact (H2 _ _ Hin).
      * intros n d b [Hin|Hin] Hs; [injection Hin as <- <- <-; congruence | exact (H3 _ _ _ Hin Hs)].
Qed.

Lemma patch_arrays_spec ptrs arrs : forall arrs', patch_arrays arrs ptrs = Ok arrs' ->
  Forall2 (fun x y => fst y = fst x /\ fst (snd y) = fst (snd x) /\
             if is_str_name (fst x)
             then patch_buffer (fst x) 0 (snd (snd x)) ptrs (S (List.length (snd (snd x)))) = Ok (snd (snd y))
             else snd (snd y) = snd (snd x)) arrs arrs'.
Proof.
  induction arrs as [|[k [dd bb]] arrs IH]; intros arrs' H; cbn [patch_arrays] in H.
  - injection H as <-. constructor.
  - destruct (if is_str_name k then patch_buffer k 0 bb ptrs (S (List.length bb)) else Ok bb) as [b'| | |] eqn:Eb;
      try discriminate. cbn [bind] in H.
    destruct (patch_arrays arrs ptrs) as [t| | |]; try discriminate. cbn [bind] in H.
    injection H as <-. constructor; [|apply IH; reflexivity]. cbn [fst snd].
    split; [reflexivity|]. split; [reflexivity|].
    destruct (is_str_name k); [exact Eb | injection Eb as ->; reflexivity].
Qed.

Lemma migrate_arrays_ok s arrs aitems r d1 d2 arrs' :
  NoDup (map fst arrs) -> array_items arrs = Ok aitems ->
  migrate s (sort_desc aitems) d1 = Ok (r, d2) -> above d1 ->
  patch_arrays arrs r = Ok arrs' ->
  above d2 /\ ext d1 d2 /\
  Forall2 (fun x y => fst y = fst x /\ array_ok s d2 (fst x) (snd x) (snd y)) arrs arrs'.
Proof.
  intros Hnd Hit Hm Hab Hp.
  destruct (array_items_spec _ _ Hnd Hit) as (Hndk & _ & Hch).
  destruct (migrate_sorted_spec _ _ _ _ _ Hm Hab) as (Hab2 & Hext & Hperm & Hmv).
  split; [assumption|]. split; [assumption|].
  assert (NoDup (map fst r)) as Hndr by (eapply Permutation_NoDup; [symmetry; exact Hperm | exact Hndk]).
  eapply Forall2_impl_in; [apply patch_arrays_spec, Hp|].
  intros [n [dd bb]] [n' [dd' bb']] Hin _ (Hfst & Hdims & Hbuf). cbn [fst snd] in *. subst n' dd'.
  split; [reflexivity|]. unfold array_ok. cbn [fst snd]. split; [reflexivity|].
  destruct (is_str_name n) eqn:Es; [|exact Hbuf].
  destruct (Hch _ _ _ Hin Es) as (its & Hchk & Hinc).
  eapply patch_buffer_spec; [exact Hchk | | exact Hbuf].
  intros k p Hk. destruct (Hmv _ (Hinc _ Hk)) as ([k2 p'] & Hq & Hk2 & x & Hv & Hg & Hl & Hpv).
  cbn [fst snd] in *. subst k2. exists p', x. destruct k as [kn ko]. cbn [fst snd].
  rewrite (k2lookup_in _ Hndr _ _ _ Hq). repeat split; assumption.
Qed.

(* ------------------------------------------------------------------------------------------------ *)
(* Part 7: preserve_commons as a whole *)

Lemma Forall2_in_r {A B} (P : A -> B -> Prop) l l' y :
  Forall2 P l l' -> In y l' -> exists x, In x l /\ P x y.
Proof.
  induction 1 as [|x0 y0 l l' Hp _ IH]; intro Hin; [contradiction|].
  destruct Hin as [<-|Hin]; [exists x0; split; [left; reflexivity | exact Hp]|].
  destruct (IH Hin) as (x' & Hx & Hp'). exists x'. split; [right; exact Hx | exact Hp'].
Qed.

Lemma pick_arrays_spec ca s : forall arrs, pick_arrays ca s = Ok arrs ->
  map fst arrs = filter (fun n => amem n (ar_dims s)) ca
  /\ forall n d b, In (n, (d, b)) arrs <->
       In n ca /\ alookup n (ar_dims s) = Some d /\ alookup n (ar_bufs s) = Some b.
Proof.
  induction ca as [|k ca IH]; intros arrs H; cbn [pick_arrays filter] in *.
  - injection H as <-. split; [reflexivity|]. intros n d b. split; [contradiction | intros [[] _]].
  - unfold amem. destruct (alookup k (ar_dims s)) as [dd|] eqn:Ed.
    + destruct (alookup k (ar_bufs s)) as [bb|] eqn:Eb; [|discriminate].
      destruct (pick_arrays ca s) as [t| | |] eqn:Et; try discriminate. cbn [bind] in H.
      injection H as <-. destruct (IH _ eq_refl) as [IH1 IH2].
      split; [cbn [map fst]; rewrite IH1; reflexivity|]. intros n d b. cbn [In]. rewrite IH2. split.
      * intros [Hq|(H1 & H2 & H3)]; [injection Hq as <- <- <-; auto | auto].
      * intros ([<-|H1] & H2 & H3); [left; congruence | right; auto].
    + destruct (IH _ H) as [IH1 IH2]. split; [exact IH1|]. intros n d b. rewrite IH2. cbn [In]. split.
      * intros (H1 & H2 & H3); auto.
      * intros ([<-|H1] & H2 & H3); [congruence | auto].
Qed.

Lemma migrate_commons_spec cs ca s sv : NoDup cs -> NoDup ca -> migrate_commons cs ca s = Ok sv ->
  exists arrs, pick_arrays ca s = Ok arrs
  /\ above (sv_store sv)
  /\ Forall2 (fun x y => fst y = fst x /\ scalar_ok s (sv_store sv) (fst x) (snd x) (snd y))
             (pick_scalars cs s) (sv_scalars sv)
  /\ Forall2 (fun x y => fst y = fst x /\ array_ok s (sv_store sv) (fst x) (snd x) (snd y))
             arrs (sv_arrays sv).
Proof.
  intros Hcs Hca H. unfold migrate_commons in H.
  destruct (pick_arrays ca s) as [arrs| | |] eqn:Ea; try discriminate. cbn [bind] in H.
  destruct (scalar_items (pick_scalars cs s)) as [sitems| | |] eqn:Esi; try discriminate. cbn [bind] in H.
  destruct (array_items arrs) as [aitems| | |] eqn:Eai; try discriminate. cbn [bind] in H.
  destruct (migrate s (sort_desc sitems) (mkStore [] (stack_start s))) as [[r1 d1]| | |] eqn:Em1; try discriminate.
  cbn [bind fst snd] in H.
  destruct (patch_scalars (pick_scalars cs s) r1) as [scal'| | |] eqn:Ep1; try discriminate. cbn [bind] in H.
  destruct (migrate s (sort_desc aitems) d1) as [[r2 d2]| | |] eqn:Em2; try discriminate. cbn [bind fst snd] in H.
  destruct (patch_arrays arrs r2) as [arrs'| | |] eqn:Ep2; try discriminate. cbn [bind] in H.
  injection H as <-. cbn [sv_store sv_scalars sv_arrays].
  assert (above (mkStore [] (stack_start s))) as Hab0 by (intros x _; reflexivity).
  assert (NoDup (map fst (pick_scalars cs s))) as Hnd1.
  { rewrite (proj1 (pick_scalars_spec cs s)). apply NoDup_filter, Hcs. }
  assert (NoDup (map fst arrs)) as Hnd2.
  { rewrite (proj1 (pick_arrays_spec _ _ _ Ea)). apply NoDup_filter, Hca. }
  destruct (migrate_scalars_ok _ _ _ _ _ _ _ Hnd1 Esi Em1 Hab0 Ep1) as (Hab1 & Hext1 & HF1).
  destruct (migrate_arrays_ok _ _ _ _ _ _ _ Hnd2 Eai Em2 Hab1 Ep2) as (Hab2 & Hext2 & HF2).
  exists arrs. split; [reflexivity|]. split; [assumption|]. split; [|assumption].
  eapply Forall2_impl_in; [exact HF1|]. intros x y _ _ [Hf Hok]. split; [assumption|].
  eapply scalar_ok_ext; eassumption.
Qed.

(* --- the part after the yield --- *)

Definition out_state (o : out) : option state :=
  match o with Done s | Raised _ s | Crashed _ s => Some s | _ => None end.

(* everything Scalars.set / Arrays.allocate do not touch *)
Definition frame (s : state) :=
  (m_total s, m_stack s, m_code_start s, m_prog_size s, m_allow_collect s,
   (ss_strs s, ss_current s, foreign s), deftype s, functions s,
   (gosub_stack s, for_stack s, while_stack s),
   (on_error s, err_handle s, err_resume s, err_num s, err_pos s),
   (stop_pos s, data_pos s, run_mode s, tron s), seed s,
   (ev_enabled s, ev_gosub s, ev_stopped s, ev_suspend s), files s, stick_on s, def_seg s, math_raise s).
Definition scalar_part (s : state) := (sc_vars s, sc_mem s, sc_current s).
Definition array_part (s : state) := (ar_dims s, ar_bufs s, ar_mem s, ar_current s, ar_base s, ar_base_by_dim s).

Lemma scalars_set_frame n v s s' : out_state (scalars_set n v s) = Some s' ->
  frame s' = frame s /\ array_part s' = array_part s.
Proof.
  unfold scalars_set, lift.
  destruct (nmem n (sc_mem s)); [|destruct (scalar_size n); [destruct (check_free_held _ _ _)|..]];
    cbn [sc_vars]; repeat match goal with
    | |- context [match ?x with _ => _ end] => destruct x
    end; cbn [out_state]; intro H; try discriminate; injection H as <-; split; reflexivity.
Qed.

Lemma scalars_set_new n v s s' : scalars_set n v s = Done s' -> alookup n (sc_vars s) = None ->
  sc_vars s' = sc_vars s ++ [(n, v)].
Proof.
  unfold scalars_set, lift. intros H Hn.
  destruct (nmem n (sc_mem s)); [|destruct (scalar_size n); [destruct (check_free_held _ _ _)|..]];
    cbn -[Z.add Z.max Z.leb] in H; try rewrite Hn in H; try discriminate; injection H as <-; reflexivity.
Qed.

Lemma restore_scalars_spec l : forall s o s', restore_scalars l s = o -> out_state o = Some s' ->
  frame s' = frame s /\ array_part s' = array_part s.
Proof.
  induction l as [|[n v] l IH]; intros s o s' H Ho; cbn [restore_scalars] in H.
  - subst o. injection Ho as <-. split; reflexivity.
  - destruct (scalars_set n v s) as [s1| | | |] eqn:E.
    + destruct (scalars_set_frame n v s s1) as [F1 F2]; [rewrite E; reflexivity|].
      destruct (IH _ _ _ H Ho) as [G1 G2]. split; congruence.
    + subst o. apply (scalars_set_frame n v s s'). rewrite E. exact Ho.
    + subst o. apply (scalars_set_frame n v s s'). rewrite E. exact Ho.
    + subst o. discriminate.
    + subst o. discriminate.
Qed.

Lemma restore_scalars_lookup l : forall s s', restore_scalars l s = Done s' ->
  NoDup (map fst l) -> (forall n, In n (map fst l) -> alookup n (sc_vars s) = None) ->
  forall n, alookup n (sc_vars s') = match alookup n l with Some v => Some v | None => alookup n (sc_vars s) end.
Proof.
  induction l as [|[k v] l IH]; intros s s' H Hnd Hfresh n; cbn [restore_scalars] in H.
  - injection H as <-. reflexivity.
  - destruct (scalars_set k v s) as [s1| | | |] eqn:E; try discriminate.
    cbn [map fst] in Hnd. inversion Hnd as [|? ? Hk Hnd']; subst.
    pose proof (scalars_set_new _ _ _ _ E (Hfresh k (or_introl eq_refl))) as Hv.
    assert (forall n0, In n0 (map fst l) -> alookup n0 (sc_vars s1) = None) as Hfresh1.
    { intros n0 Hin. rewrite Hv, alookup_app, (Hfresh n0 (or_intror Hin)). cbn [alookup].
      rewrite bytes_eqb_neq; [reflexivity | intros ->; contradiction]. }
    rewrite (IH _ _ H Hnd' Hfresh1 n). cbn [alookup].
    destruct (list_Z_eqb n k) eqn:Enk.
    + apply list_Z_eqb_eq in Enk. subst n. rewrite (alookup_none l k Hk).
      rewrite Hv, alookup_app, (Hfresh k (or_introl eq_refl)). cbn [alookup]. rewrite bytes_eqb_refl. reflexivity.
    + destruct (alookup n l); [reflexivity|].
      rewrite Hv, alookup_app. destruct (alookup n (sc_vars s)); [reflexivity|]. cbn [alookup]. rewrite Enk. reflexivity.
Qed.

Lemma arrays_restore_frame n d b s s' : out_state (arrays_restore n d b s) = Some s' ->
  frame s' = frame s /\ scalar_part s' = scalar_part s.
Proof.
  unfold arrays_restore, lift. destruct d as [|d0 d]; [cbn; intro H; injection H as <-; split; reflexivity|].
  repeat match goal with
  | |- context [match ?x with _ => _ end] => destruct x
  end; cbn [out_state]; intro H; try discriminate; injection H as <-; split; reflexivity.
Qed.

Lemma arrays_restore_new n d b s s' : arrays_restore n d b s = Done s' ->
  ar_dims s' = ar_dims s ++ [(n, d)] /\ ar_bufs s' = ar_bufs s ++ [(n, b)].
Proof.
  unfold arrays_restore, lift. destruct d as [|d0 d]; [discriminate|].
  repeat match goal with
  | |- context [match ?x with _ => _ end] => destruct x
  end; intro H; try discriminate; injection H as <-; split; reflexivity.
Qed.

Lemma restore_arrays_spec l : forall s o s', restore_arrays l s = o -> out_state o = Some s' ->
  frame s' = frame s /\ scalar_part s' = scalar_part s.
Proof.
  induction l as [|[n [d b]] l IH]; intros s o s' H Ho; cbn [restore_arrays] in H.
  - subst o. injection Ho as <-. split; reflexivity.
  - destruct (arrays_restore n d b s) as [s1| | | |] eqn:E.
    + destruct (arrays_restore_frame n d b s s1) as [F1 F2]; [rewrite E; reflexivity|].
      destruct (IH _ _ _ H Ho) as [G1 G2]. split; congruence.
    + subst o. apply (arrays_restore_frame n d b s s'). rewrite E. exact Ho.
    + subst o. apply (arrays_restore_frame n d b s s'). rewrite E. exact Ho.
    + subst o. discriminate.
    + subst o. discriminate.
Qed.

Lemma restore_arrays_lookup l : forall s s', restore_arrays l s = Done s' ->
  NoDup (map fst l) ->
  (forall n, In n (map fst l) -> alookup n (ar_dims s) = None /\ alookup n (ar_bufs s) = None) ->
  forall n,
    alookup n (ar_dims s') = match alookup n l with Some x => Some (fst x) | None => alookup n (ar_dims s) end
    /\ alookup n (ar_bufs s') = match alookup n l with Some x => Some (snd x) | None => alookup n (ar_bufs s) end.
Proof.
  induction l as [|[k [d b]] l IH]; intros s s' H Hnd Hfresh n; cbn [restore_arrays] in H.
  - injection H as <-. split; reflexivity.
  - destruct (arrays_restore k d b s) as [s1| | | |] eqn:E; try discriminate.
    cbn [map fst] in Hnd. inversion Hnd as [|? ? Hk Hnd']; subst.
    destruct (arrays_restore_new _ _ _ _ _ E) as [Hd Hb].
    destruct (Hfresh k (or_introl eq_refl)) as [Hkd Hkb].
    assert (forall n0, In n0 (map fst l) -> alookup n0 (ar_dims s1) = None /\ alookup n0 (ar_bufs s1) = None) as Hfresh1.
    { intros n0 Hin. destruct (Hfresh n0 (or_intror Hin)) as [H1 H2].
      rewrite Hd, Hb, !alookup_app, H1, H2. cbn [alookup].
      rewrite bytes_eqb_neq; [split; reflexivity | intros ->; contradiction]. }
    destruct (IH _ _ H Hnd' Hfresh1 n) as [I1 I2]. rewrite I1, I2. cbn [alookup].
    destruct (list_Z_eqb n k) eqn:Enk.
    + apply list_Z_eqb_eq in Enk. subst n. rewrite (alookup_none l k Hk).
      rewrite Hd, Hb, !alookup_app, Hkd, Hkb. cbn [alookup fst snd]. rewrite bytes_eqb_refl. split; reflexivity.
    + destruct (alookup n l); [split; reflexivity|].
      rewrite Hd, Hb, !alookup_app.
      destruct (alookup n (ar_dims s)), (alookup n (ar_bufs s)); cbn [alookup]; rewrite ?Enk; split; reflexivity.
Qed.

(* ------------------------------------------------------------------------------------------------ *)
(* Part 8: CHAIN keeps exactly the COMMON variables *)

Lemma size_bytes_pos n z : size_bytes n = Ok z -> 0 < z.
Proof.
  unfold size_bytes. destruct n; [discriminate|].
  repeat match goal with |- context [if ?c then _ else _] => destruct c end;
    intro H; try discriminate; injection H as <-; lia.
Qed.
Lemma sum_scalar_sizes_nonneg l : forall z, sum_scalar_sizes l = Ok z -> 0 <= z.
Proof.
  induction l as [|[n v] l IH]; intros z H; cbn [sum_scalar_sizes] in H; [injection H as <-; lia|].
  unfold scalar_size in H. destruct (size_bytes n) as [sz| | |] eqn:Es; try discriminate. cbn [bind] in H.
  destruct (sum_scalar_sizes l) as [t| | |]; try discriminate. cbn [bind] in H. injection H as <-.
  pose proof (size_bytes_pos _ _ Es). pose proof (IH _ eq_refl). pose proof (zlen_nonneg n). lia.
Qed.
Lemma flat_index_nonneg b dims : forall big area, Forall (fun x => b <= x) dims ->
  0 <= big -> 0 <= area -> 0 <= flat_index b dims big area.
Proof.
  induction dims as [|d dims IH]; intros big area HF Hb Ha; cbn [flat_index]; [assumption|].
  inversion HF; subst. apply IH; [assumption | nia | nia].
Qed.
Lemma sum_array_sizes_nonneg base l : forall z, sum_array_sizes base l = Ok z ->
  (forall n d b0, In (n, (d, b0)) l -> forall b, base = Some b -> Forall (fun x => b <= x) d) -> 0 <= z.
Proof.
  induction l as [|[n [d b0]] l IH]; intros z H Hd; cbn [sum_array_sizes] in H; [injection H as <-; lia|].
  unfold array_size, array_buffer_size in H.
  destruct (flat_length base d) as [fl| | |] eqn:Ef; try discriminate. cbn [bind] in H.
  destruct (size_bytes n) as [sz| | |] eqn:Es; try discriminate. cbn [bind] in H.
  destruct (sum_array_sizes base l) as [t| | |] eqn:Et; try discriminate. cbn [bind] in H. injection H as <-.
  pose proof (size_bytes_pos _ _ Es).
  assert (0 <= t) by (apply IH; [reflexivity | intros; eapply Hd; [right|]; eassumption]).
  assert (1 <= fl).
  { unfold flat_length in Ef. destruct d as [|d0 d]; [injection Ef as <-; lia|].
    destruct base as [b|]; [|discriminate]. cbv beta iota in Ef.
    assert (flat_index b (d0 :: d) 0 1 + 1 = fl) as <- by congruence.
    assert (0 <= flat_index b (d0 :: d) 0 1) as Hfi.
    { apply flat_index_nonneg; [|lia|lia]. eapply Hd; [left; reflexivity | reflexivity]. }
    lia. }
  unfold array_record_size. pose proof (zlen_nonneg n). pose proof (zlen_nonneg d). nia.
Qed.

Lemma subset_in a b : subset a b = true -> forall n, In n a -> In n b.
Proof.
  unfold subset. rewrite forallb_forall. intros H n Hn. apply nmem_in, H, Hn.
Qed.
Lemma same_set_nmem a b n : same_set a b = true -> nmem n a = nmem n b.
Proof.
  unfold same_set. intro H. apply andb_true_iff in H as [H _]. apply andb_true_iff in H as [H1 H2].
  destruct (nmem n a) eqn:Ea, (nmem n b) eqn:Eb; try reflexivity.
  - apply nmem_in in Ea. apply (subset_in _ _ H1) in Ea. apply nmem_in in Ea. congruence.
  - apply nmem_in in Eb. apply (subset_in _ _ H2) in Eb. apply nmem_in in Eb. congruence.
Qed.

(* what a successful CHAIN went through *)
Lemma chain_done_inv a s s' : cmd_chain a s = Done s' ->
  exists gs ga sv sz s6,
    gather (deftype s) 0 (c_decls a) [] = Ok gs /\ gather (deftype s) 1 (c_decls a) [] = Ok ga
    /\ same_set gs (c_cs_order a) = true /\ nodupb (c_cs_order a) = true
    /\ same_set ga (c_ca_order a) = true /\ nodupb (c_ca_order a) = true
    /\ let kb := c_all a || (nonempty (c_cs_order a) || nonempty (c_ca_order a)) in
       let cs' := if c_all a then map fst (sc_vars s) else c_cs_order a in
       let ca' := if c_all a then map fst (ar_dims s) else c_ca_order a in
       let s1 := s <| m_allow_collect := false |> in
       let s4 := (chain_loaded a kb s1) <| run_mode := true |> in
       let s5 := s4 <| ss_strs := st_strs (sv_store sv) ++ [] |> <| ss_current := st_cur (sv_store sv) |> in
       migrate_commons cs' ca' s1 = Ok sv /\ sizes_of sv s4 = Ok sz
       /\ var_start s4 + sz <= st_cur (sv_store sv)
       /\ restore_all sv s5 = Done s6 /\ s' = gc_on s6.
Proof.
  rewrite chain_closed. unfold chain_spec. cbn [h_gather h_setok h_migrate h_sizes h_restore real_handlers].
  destruct (c_delete a && c_to_line_missing a); [discriminate|].
  destruct (c_merge a && c_protected a); [discriminate|].
  destruct (gather (deftype s) 0 (c_decls a) []) as [gs| | |]; try discriminate.
  destruct (gather (deftype s) 1 (c_decls a) []) as [ga| | |]; try discriminate.
  destruct (same_set gs (c_cs_order a) && nodupb (c_cs_order a)
            && (same_set ga (c_ca_order a) && nodupb (c_ca_order a))) eqn:Eset; [|discriminate].
  apply andb_true_iff in Eset as [E1 E2].
  apply andb_true_iff in E1 as [E1 E1']. apply andb_true_iff in E2 as [E2 E2'].
  match goal with |- context [migrate_commons ?x ?y ?z] => destruct (migrate_commons x y z) as [sv| | |] eqn:Em end;
    try discriminate.
  destruct (c_file_missing a); [discriminate|].
  destruct (match c_jumpnum a with Some _ => c_jump_missing a | None => false end); [discriminate|].
  match goal with |- context [sizes_of sv ?z] => destruct (sizes_of sv z) as [sz| | |] eqn:Es end; try discriminate.
  match goal with |- context [Z.leb ?x ?y] => destruct (Z.leb x y) eqn:Elt end; [discriminate|].
  match goal with |- context [restore_all sv ?z] => destruct (restore_all sv z) as [s6| | | |] eqn:Er end;
    try discriminate.
  intro H. injection H as <-.
  exists gs, ga, sv, sz, s6. repeat split; try assumption; try reflexivity. lia.
Qed.

Lemma view_restored s' d : ss_strs s' = st_strs d ++ [] -> var_start s' <= st_cur d ->
  forall p x, pvalid d p -> sget d p = Some x -> fst p = zlen x -> view s' (fst p) (snd p) = Ok x.
Proof.
  intros Hs Hv p x Hp Hg Hl. unfold view, sget in *.
  destruct (fst p =? 0) eqn:E0.
  - injection Hg as <-. reflexivity.
  - destruct Hp as [Hp|Hp]; [lia|].
    replace (var_start s' <=? snd p) with true by lia.
    rewrite Hs, app_nil_r, Hg. reflexivity.
Qed.

Lemma view_same s s' : m_code_start s' = m_code_start s -> m_prog_size s' = m_prog_size s ->
  ss_strs s' = ss_strs s -> foreign s' = foreign s -> forall l a, view s' l a = view s l a.
Proof. intros H1 H2 H3 H4 l a. unfold view, var_start. rewrite H1, H2, H3, H4. reflexivity. Qed.

Lemma pick_scalars_same cs s1 s : sc_vars s1 = sc_vars s -> pick_scalars cs s1 = pick_scalars cs s.
Proof. intro H. induction cs as [|k cs IH]; [reflexivity|]. cbn [pick_scalars]. rewrite H, IH. reflexivity. Qed.
Lemma pick_arrays_same ca s1 s : ar_dims s1 = ar_dims s -> ar_bufs s1 = ar_bufs s ->
  pick_arrays ca s1 = pick_arrays ca s.
Proof. intros H1 H2. induction ca as [|k ca IH]; [reflexivity|]. cbn [pick_arrays]. rewrite H1, H2, IH. reflexivity. Qed.
Lemma scalar_ok_same s1 s d n v v' : (forall l a, view s1 l a = view s l a) ->
  scalar_ok s1 d n v v' -> scalar_ok s d n v v'.
Proof.
  unfold scalar_ok. intro Hv. destruct (is_str_scalar n); [|auto].
  intros (p & p' & b & H1 & H2 & H3). exists p, p', b. rewrite <- Hv. auto.
Qed.
Lemma buf_moved_same s1 s d b b' : (forall l a, view s1 l a = view s l a) ->
  buf_moved s1 d b b' -> buf_moved s d b b'.
Proof. intros Hv H. induction H; econstructor; try eassumption. rewrite <- Hv. assumption. Qed.
Lemma array_ok_same s1 s d n x y : (forall l a, view s1 l a = view s l a) ->
  array_ok s1 d n x y -> array_ok s d n x y.
Proof.
  unfold array_ok. intros Hv [H1 H2]. split; [assumption|].
  destruct (is_str_name n); [eapply buf_moved_same; eassumption | assumption].
Qed.

(* the facts about a successful CHAIN that the two theorems below share *)
Lemma chain_done_facts a s s' : cmd_chain a s = Done s' ->
  NoDup (map fst (sc_vars s)) -> NoDup (map fst (ar_dims s)) -> dims_ok s ->
  exists gs ga sv arrs,
    gather (deftype s) 0 (c_decls a) [] = Ok gs /\ gather (deftype s) 1 (c_decls a) [] = Ok ga
    /\ let cs' := if c_all a then map fst (sc_vars s) else c_cs_order a in
       let ca' := if c_all a then map fst (ar_dims s) else c_ca_order a in
       let d := sv_store sv in
       (forall n, nmem n gs = nmem n (c_cs_order a)) /\ (forall n, nmem n ga = nmem n (c_ca_order a))
       /\ NoDup cs' /\ NoDup ca'
       /\ pick_arrays ca' s = Ok arrs
       /\ Forall2 (fun x y => fst y = fst x /\ scalar_ok s d (fst x) (snd x) (snd y))
                  (pick_scalars cs' s) (sv_scalars sv)
       /\ Forall2 (fun x y => fst y = fst x /\ array_ok s d (fst x) (snd x) (snd y)) arrs (sv_arrays sv)
       /\ (forall n, alookup n (sc_vars s') = alookup n (sv_scalars sv))
       /\ (forall n, alookup n (ar_dims s') = option_map fst (alookup n (sv_arrays sv))
                     /\ alookup n (ar_bufs s') = option_map snd (alookup n (sv_arrays sv)))
       /\ (forall p x, pvalid d p -> sget d p = Some x -> fst p = zlen x -> view s' (fst p) (snd p) = Ok x).
Proof.
  intros H Hnds Hnda Hdims.
  destruct (chain_done_inv _ _ _ H) as (gs & ga & sv & sz & s6 & Hg0 & Hg1 & Hs0 & Hn0 & Hs1 & Hn1 & Hrest).
  cbv zeta in Hrest. destruct Hrest as (Hm & Hsz & Hfit & Hr & ->).
  set (kb := c_all a || (nonempty (c_cs_order a) || nonempty (c_ca_order a))) in *.
  set (cs' := if c_all a then map fst (sc_vars s) else c_cs_order a) in *.
  set (ca' := if c_all a then map fst (ar_dims s) else c_ca_order a) in *.
  set (s1 := s <| m_allow_collect := false |>) in *.
  set (s4 := (chain_loaded a kb s1) <| run_mode := true |>) in *.
  set (s5 := s4 <| ss_strs := st_strs (sv_store sv) ++ [] |> <| ss_current := st_cur (sv_store sv) |>) in *.
  assert (NoDup cs') as Hndcs by (unfold cs'; destruct (c_all a); [assumption | apply nodupb_NoDup; assumption]).
  assert (NoDup ca') as Hndca by (unfold ca'; destruct (c_all a); [assumption | apply nodupb_NoDup; assumption]).
  destruct (migrate_commons_spec _ _ _ _ Hndcs Hndca Hm) as (arrs & Hpa & Hab & HF1 & HF2).
  rewrite (pick_scalars_same cs' s1 s eq_refl) in HF1.
  rewrite (pick_arrays_same ca' s1 s eq_refl eq_refl) in Hpa.
  assert (forall l x, view s1 l x = view s l x) as Hview by (intros; reflexivity).
  assert (Forall2 (fun x y => fst y = fst x /\ scalar_ok s (sv_store sv) (fst x) (snd x) (snd y))
                  (pick_scalars cs' s) (sv_scalars sv)) as HF1'.
  { eapply Forall2_impl_in; [exact HF1|]. intros x y _ _ [E O]. split; [exact E|].
    eapply scalar_ok_same; eassumption. }
  assert (Forall2 (fun x y => fst y = fst x /\ array_ok s (sv_store sv) (fst x) (snd x) (snd y))
                  arrs (sv_arrays sv)) as HF2'.
  { eapply Forall2_impl_in; [exact HF2|]. intros x y _ _ [E O]. split; [exact E|].
    eapply array_ok_same; eassumption. }
  clear HF1 HF2. rename HF1' into HF1. rename HF2' into HF2.
  exists gs, ga, sv, arrs. split; [assumption|]. split; [assumption|]. cbv zeta.
  split; [intro n; apply same_set_nmem; assumption|].
  split; [intro n; apply same_set_nmem; assumption|].
  split; [assumption|]. split; [assumption|]. split; [assumption|].
  (* the saved dictionaries have distinct keys *)
  assert (map fst (sv_scalars sv) = map fst (pick_scalars cs' s)) as Hk1
    by (eapply Forall2_map_fst; [exact HF1 | intros x y [E _]; exact E]).
  assert (map fst (sv_arrays sv) = map fst arrs) as Hk2
    by (eapply Forall2_map_fst; [exact HF2 | intros x y [E _]; exact E]).
  assert (NoDup (map fst (sv_scalars sv))) as Hnd1.
  { rewrite Hk1, (proj1 (pick_scalars_spec cs' s)). apply NoDup_filter, Hndcs. }
  assert (NoDup (map fst (sv_arrays sv))) as Hnd2.
  { rewrite Hk2, (proj1 (pick_arrays_spec _ _ _ Hpa)). apply NoDup_filter, Hndca. }
  (* the restore loops *)
  unfold restore_all in Hr.
  destruct (restore_scalars (sv_scalars sv) s5) as [s5a| | | |] eqn:Ers; try discriminate.
  destruct (restore_scalars_spec _ _ _ _ Ers eq_refl) as [Fr1 Ar1].
  destruct (restore_arrays_spec _ _ _ _ Hr eq_refl) as [Fr2 Sc2].
  pose proof (restore_scalars_lookup _ _ _ Ers Hnd1 (fun n _ => eq_refl)) as Lk1.
  assert (forall n, In n (map fst (sv_arrays sv)) ->
            alookup n (ar_dims s5a) = None /\ alookup n (ar_bufs s5a) = None) as Hfresh.
  { intros n _. unfold array_part in Ar1. injection Ar1 as -> -> _ _ _ _. split; reflexivity. }
  pose proof (restore_arrays_lookup _ _ _ Hr Hnd2 Hfresh) as Lk2.
  split; [|split; [|split; [|split]]].
  - exact HF1.
  - exact HF2.
  - intro n. cbn [gc_on]. change (sc_vars (gc_on s6)) with (sc_vars s6).
    unfold scalar_part in Sc2. injection Sc2 as -> _ _. rewrite Lk1.
    destruct (alookup n (sv_scalars sv)); reflexivity.
  - intro n. change (ar_dims (gc_on s6)) with (ar_dims s6). change (ar_bufs (gc_on s6)) with (ar_bufs s6).
    destruct (Lk2 n) as [L1 L2]. rewrite L1, L2.
    unfold array_part in Ar1. injection Ar1 as -> -> _ _ _ _.
    destruct (alookup n (sv_arrays sv)); split; reflexivity.
  - (* the restored pointers lie in the rebuilt string space, above the variables *)
    assert (frame s6 = frame s5) as Fr by congruence.
    unfold frame in Fr. injection Fr as _ _ Fc Fp _ Fs _ Ff _ _ _ _ _ _ _ _ _ _ _ _ _ _ _ _ _ _ _ _ _ _ _.
    assert (0 <= sz) as Hsz0.
    { unfold sizes_of in Hsz.
      destruct (sum_scalar_sizes (sv_scalars sv)) as [z1| | |] eqn:E1; try discriminate. cbn [bind] in Hsz.
      destruct (sum_array_sizes (ar_base s4) (sv_arrays sv)) as [z2| | |] eqn:E2; try discriminate. cbn [bind] in Hsz.
      injection Hsz as <-. pose proof (sum_scalar_sizes_nonneg _ _ E1).
      assert (0 <= z2); [|lia]. eapply sum_array_sizes_nonneg; [exact E2|].
      intros n dd b0 Hin b Hb.
      destruct (Forall2_in_r _ _ _ _ HF2 Hin) as ([n' [dd' bb']] & Hin' & Hf & Hok). cbn [fst snd] in *. subst n'.
      destruct Hok as [Hdd _]. cbn [fst snd] in Hdd. subst dd'.
      apply (proj2 (pick_arrays_spec _ _ _ Hpa)) in Hin' as (_ & Hd & _).
      apply alookup_some_in in Hd. eapply Hdims; [exact Hd|].
      change (ar_base s4) with (if kb then ar_base s else None) in Hb.
      destruct kb; [exact Hb | discriminate]. }
    apply view_restored.
    + change (ss_strs (gc_on s6)) with (ss_strs s6). rewrite Fs. reflexivity.
    + change (var_start (gc_on s6)) with (m_code_start s6 + m_prog_size s6). rewrite Fc, Fp.
      change (var_start s4) with (m_code_start s + c_new_prog_size a) in Hfit.
      change (m_code_start s5 + m_prog_size s5) with (m_code_start s + c_new_prog_size a). lia.
Qed.

Lemma alookup_none_notin {V} (l : list (bytes * V)) n : alookup n l = None -> ~ In n (map fst l).
Proof.
  intros H Hin. apply amem_in in Hin. unfold amem in Hin. rewrite H in Hin. discriminate.
Qed.

(* membership in the set preserve_commons iterates over *)
Lemma in_commons_scalar a s gs n v :
  (forall n, nmem n gs = nmem n (c_cs_order a)) -> alookup n (sc_vars s) = Some v ->
  c_all a || nmem n gs = true ->
  In n (if c_all a then map fst (sc_vars s) else c_cs_order a).
Proof.
  intros Hg Hv Hc. destruct (c_all a).
  - apply alookup_some_in in Hv. change n with (fst (n, v)). apply in_map, Hv.
  - cbn [orb] in Hc. rewrite Hg in Hc. apply nmem_in, Hc.
Qed.
Lemma commons_cond a gs l n :
  (forall n, nmem n gs = nmem n (c_cs_order a)) ->
  In n (if c_all a then l else c_cs_order a) -> c_all a || nmem n gs = true.
Proof.
  intros Hg Hin. destruct (c_all a); [reflexivity|]. cbn [orb]. rewrite Hg. apply nmem_in, Hin.
Qed.

Theorem chain_scalars_exact a s s' : cmd_chain a s = Done s' ->
  NoDup (map fst (sc_vars s)) -> NoDup (map fst (ar_dims s)) -> dims_ok s ->
  exists gs, gather (deftype s) 0 (c_decls a) [] = Ok gs /\
    forall n, scalar_value s' n = if c_all a || nmem n gs then scalar_value s n else None.
Proof.
  intros H Hnds Hnda Hdims.
  destruct (chain_done_facts _ _ _ H Hnds Hnda Hdims) as (gs & ga & sv & arrs & Hg0 & _ & Hrest).
  cbv zeta in Hrest. destruct Hrest as (Hgs & _ & Hndcs & _ & _ & HF1 & _ & L1 & _ & V).
  exists gs. split; [assumption|]. intro n. unfold scalar_value. rewrite L1.
  set (cs' := if c_all a then map fst (sc_vars s) else c_cs_order a) in *.
  assert (map fst (sv_scalars sv) = map fst (pick_scalars cs' s)) as Hk
    by (eapply Forall2_map_fst; [exact HF1 | intros x y [E _]; exact E]).
  destruct (alookup n (sv_scalars sv)) as [v'|] eqn:El.
  - apply alookup_some_in in El.
    destruct (Forall2_in_r _ _ _ _ HF1 El) as ([n0 v] & Hin & Hf & Hok). cbn [fst snd] in *. subst n0.
    apply (proj2 (pick_scalars_spec cs' s)) in Hin as [Hc Hv]. rewrite Hv.
    rewrite (commons_cond a gs _ n Hgs Hc). f_equal.
    unfold scalar_ok in Hok. destruct (is_str_scalar n); [|congruence].
    destruct Hok as (p & p' & b & Hu & Hvw & Hp & Hg & Hl & Hpv).
    unfold str_of. rewrite (pack3_unpack3 _ _ Hp), Hu. cbn [bind].
    rewrite (V _ _ Hpv Hg Hl), Hvw. reflexivity.
  - apply alookup_none_notin in El. rewrite Hk, (proj1 (pick_scalars_spec cs' s)) in El.
    destruct (c_all a || nmem n gs) eqn:Ec; [|reflexivity].
    destruct (alookup n (sc_vars s)) as [v|] eqn:Ev; [|reflexivity].
    exfalso. apply El. apply filter_In. split.
    + exact (in_commons_scalar a s gs n v Hgs Ev Ec).
    + unfold amem. rewrite Ev. reflexivity.
Qed.

Lemma buf_moved_strs s d s' b b' : buf_moved s d b b' ->
  (forall p x, pvalid d p -> sget d p = Some x -> fst p = zlen x -> view s' (fst p) (snd p) = Ok x) ->
  buf_strs s' b' = buf_strs s b.
Proof.
  intros H V. induction H as [|l lo hi r p' c r' x Hv Hp Hg Hl Hpv _ IH]; [reflexivity|].
  destruct p' as [l' a']. unfold pack3 in Hp.
  destruct ((0 <=? l') && (l' <=? 255) && (0 <=? a') && (a' <=? 65535)) eqn:E; [|discriminate].
  injection Hp as <-. cbn [app buf_strs].
  replace (a' mod 256 + 256 * (a' / 256)) with a' by lia.
  pose proof (V (l', a') x Hpv Hg Hl) as Hvv. cbn [fst snd] in Hvv.
  rewrite Hvv, Hv, IH. reflexivity.
Qed.

Theorem chain_arrays_exact a s s' : cmd_chain a s = Done s' ->
  NoDup (map fst (sc_vars s)) -> NoDup (map fst (ar_dims s)) -> dims_ok s ->
  exists ga, gather (deftype s) 1 (c_decls a) [] = Ok ga /\
    forall n, array_value s' n = if c_all a || nmem n ga then array_value s n else None.
Proof.
  intros H Hnds Hnda Hdims.
  destruct (chain_done_facts _ _ _ H Hnds Hnda Hdims) as (gs & ga & sv & arrs & _ & Hg1 & Hrest).
  cbv zeta in Hrest. destruct Hrest as (_ & Hga & _ & Hndca & Hpa & _ & HF2 & _ & L2 & V).
  exists ga. split; [assumption|]. intro n. unfold array_value.
  destruct (L2 n) as [Ld Lb]. rewrite Ld, Lb.
  set (ca' := if c_all a then map fst (ar_dims s) else c_ca_order a) in *.
  assert (map fst (sv_arrays sv) = map fst arrs) as Hk
    by (eapply Forall2_map_fst; [exact HF2 | intros x y [E _]; exact E]).
  assert (forall d, alookup n (ar_dims s) = Some d -> c_all a || nmem n ga = true -> In n ca') as Hinca.
  { intros d Hd Hc. unfold ca'. destruct (c_all a).
    - apply alookup_some_in in Hd. change n with (fst (n, d)). apply in_map, Hd.
    - cbn [orb] in Hc. rewrite Hga in Hc. apply nmem_in, Hc. }
  destruct (alookup n (sv_arrays sv)) as [[d' b']|] eqn:El; cbn [option_map fst snd].
  - apply alookup_some_in in El.
    destruct (Forall2_in_r _ _ _ _ HF2 El) as ([n0 [d b]] & Hin & Hf & Hok). cbn [fst snd] in *. subst n0.
    apply (proj2 (pick_arrays_spec _ _ _ Hpa)) in Hin as (Hc & Hd & Hb). rewrite Hd, Hb.
    assert (c_all a || nmem n ga = true) as ->.
    { unfold ca' in Hc. destruct (c_all a); [reflexivity|]. cbn [orb]. rewrite Hga. apply nmem_in, Hc. }
    destruct Hok as [Hdd Hbb]. cbn [fst snd] in *. subst d'. f_equal. f_equal.
    destruct (is_str_name n); [|congruence]. eapply buf_moved_strs; eassumption.
  - apply alookup_none_notin in El. rewrite Hk, (proj1 (pick_arrays_spec _ _ _ Hpa)) in El.
    destruct (c_all a || nmem n ga) eqn:Ec; [|reflexivity].
    destruct (alookup n (ar_dims s)) as [d|] eqn:Ed; [|reflexivity].
    destruct (alookup n (ar_bufs s)) as [b|] eqn:Eb; [|reflexivity].
    exfalso. apply El. apply filter_In. split; [exact (Hinca d eq_refl eq_refl)|].
    unfold amem. rewrite Ed. reflexivity.
Qed.

(* everything else after a successful CHAIN *)
Theorem chain_rest a s s' : cmd_chain a s = Done s' ->
  (gosub_stack s', for_stack s', while_stack s') = ([], [], [])
  /\ (on_error s', err_handle s', err_resume s', err_num s', err_pos s') = (None, false, false, 0, 0)
  /\ (stop_pos s', data_pos s', seed s', math_raise s') = (None, 0, 5228370, false)
  /\ (ev_enabled s', ev_gosub s', ev_stopped s', ev_suspend s') = ([], [], [], false)
  /\ deftype s' = (if c_merge a then deftype s else repeat 33 26)
  /\ functions s' = (if c_all a then functions s else [])
  /\ m_prog_size s' = c_new_prog_size a /\ run_mode s' = true /\ m_allow_collect s' = true
  /\ (m_total s', m_stack s', m_code_start s', files s', def_seg s')
     = (m_total s, m_stack s, m_code_start s, files s, def_seg s).
Proof.
  intro H.
  destruct (chain_done_inv _ _ _ H) as (gs & ga & sv & sz & s6 & _ & _ & _ & _ & _ & _ & Hrest).
  cbv zeta in Hrest. destruct Hrest as (_ & _ & _ & Hr & ->).
  unfold restore_all in Hr.
  match type of Hr with context [restore_scalars ?l ?z] => destruct (restore_scalars l z) as [s5a| | | |] eqn:Ers end;
    try discriminate.
  destruct (restore_scalars_spec _ _ _ _ Ers eq_refl) as [Fr1 _].
  destruct (restore_arrays_spec _ _ _ _ Hr eq_refl) as [Fr2 _].
  assert (frame s6 = frame _) as Fr by (etransitivity; [exact Fr2 | exact Fr1]).
  unfold frame in Fr.
  injection Fr as F1 F2 F3 F4 _ _ _ _ F9 F10 F11 F12 F13 F14 F15 F16 F17 F18 F19 F20 F21 F22 F23 F24 F25 F26 F27 F28 _ F30 F31.
  unfold gc_on. cbn -[repeat].
  rewrite ?F1, ?F2, ?F3, ?F4, ?F9, ?F10, ?F11, ?F12, ?F13, ?F14, ?F15, ?F16, ?F17, ?F18, ?F19, ?F20, ?F21, ?F22, ?F23, ?F24, ?F25, ?F26, ?F27, ?F28, ?F30, ?F31.
  repeat split; destruct (c_merge a), (c_all a); reflexivity.
Qed.

(* no outcome of CHAIN leaves string garbage collection switched off (hold_garbage's `finally:`) *)
Theorem chain_gc_on a s s' : out_state (cmd_chain a s) = Some s' ->
  m_allow_collect s = true -> m_allow_collect s' = true.
Proof.
  rewrite chain_closed. unfold chain_spec. intros H Hs.
  repeat match type of H with
  | context [match ?x with _ => _ end] => destruct x
  end; cbn [out_state] in H; try discriminate; injection H as <-; try reflexivity; exact Hs.
Qed.

(* Out of memory in CHAIN: where it can come from and what is left *)
Theorem chain_oom a s s' : cmd_chain a s = Raised err_OUT_OF_MEMORY s' ->
  (* (1) while the COMMON strings are copied: nothing has been touched *)
  s' = s <| m_allow_collect := true |>
  \/ (* (2) the variables do not fit under the new program, (3) or the last one does not when it is allocated:
        the new program is in place, everything was cleared, at most COMMON variables exist *)
     (m_prog_size s' = c_new_prog_size a /\ run_mode s' = true /\ m_allow_collect s' = true
      /\ (gosub_stack s', for_stack s', while_stack s', on_error s', seed s', data_pos s')
         = ([], [], [], None, 5228370, 0)).
Proof.
  rewrite chain_closed. unfold chain_spec. cbn [h_gather h_setok h_migrate h_sizes h_restore real_handlers].
  intro H.
  destruct (c_delete a && c_to_line_missing a); [discriminate|].
  destruct (c_merge a && c_protected a); [discriminate|].
  destruct (gather (deftype s) 0 (c_decls a) []); try discriminate.
  destruct (gather (deftype s) 1 (c_decls a) []); try discriminate.
  match type of H with context [if ?c then _ else _] => destruct c end; [|discriminate].
  match type of H with context [migrate_commons ?x ?y ?z] => destruct (migrate_commons x y z) as [sv| | |] end;
    try discriminate.
  - destruct (c_file_missing a); [discriminate|].
    destruct (match c_jumpnum a with Some _ => c_jump_missing a | None => false end); [discriminate|].
    match type of H with context [sizes_of sv ?z] => destruct (sizes_of sv z) as [sz| | |] end; try discriminate.
    + match type of H with context [Z.leb ?x ?y] => destruct (Z.leb x y) end.
      * injection H as <-. right. repeat split.
      * match type of H with context [restore_all sv ?z] => destruct (restore_all sv z) as [s6|n s6| | |] eqn:Er end;
          try discriminate.
        injection H as -> <-. right.
        unfold restore_all in Er.
        match type of Er with context [restore_scalars ?l ?z] =>
          destruct (restore_scalars l z) as [s5a|n5 s5a| | |] eqn:Ers end; try discriminate.
        -- destruct (restore_scalars_spec _ _ _ _ Ers eq_refl) as [Fr1 _].
           destruct (restore_arrays_spec _ _ _ _ Er eq_refl) as [Fr2 _].
           assert (frame s6 = frame _) as Fr by (etransitivity; [exact Fr2 | exact Fr1]).
           unfold frame in Fr.
           injection Fr as _ _ _ F4 _ _ _ _ _ _ F11 F12 F13 F14 _ _ _ _ _ F20 F21 _ F23 _ _ _ _ _ _ _ _.
           unfold gc_on. cbn. rewrite ?F4, ?F11, ?F12, ?F13, ?F14, ?F20, ?F21, ?F23. repeat split.
        -- injection Er as -> ->.
           destruct (restore_scalars_spec _ _ _ _ Ers eq_refl) as [Fr _]. unfold frame in Fr.
           injection Fr as _ _ _ F4 _ _ _ _ _ _ F11 F12 F13 F14 _ _ _ _ _ F20 F21 _ F23 _ _ _ _ _ _ _ _.
           unfold gc_on. cbn. rewrite ?F4, ?F11, ?F12, ?F13, ?F14, ?F20, ?F21, ?F23. repeat split.
    + injection H as _ <-. right. repeat split.
  - injection H as _ <-. left. reflexivity.
Qed.

(* ------------------------------------------------------------------------------------------------ *)
(* Part 9: gather_commons *)

Lemma gather_spec dt k decls : forall acc r, gather dt k decls acc = Ok r -> NoDup acc ->
  NoDup r /\ forall n, In n r <-> In n acc \/ exists m, In (m, k) decls /\ complete_name dt m = Ok n.
Proof.
  induction decls as [|[m k'] decls IH]; intros acc r H Hnd; cbn [gather] in H.
  - injection H as <-. split; [assumption|]. intro n. split; [auto | intros [Hn|(m & [] & _)]; assumption].
  - destruct (k' =? k) eqn:Ek.
    + apply Z.eqb_eq in Ek. subst k'.
      destruct (complete_name dt m) as [n'| | |] eqn:Ec; try discriminate. cbn [bind] in H.
      assert (NoDup (if nmem n' acc then acc else acc ++ [n'])) as Hnd'.
      { destruct (nmem n' acc) eqn:En; [assumption|].
        apply NoDup_app_intro; [assumption | constructor; [intros [] | constructor] |].
        intros x Hx [<-|[]]. apply nmem_in in Hx. congruence. }
      destruct (IH _ _ H Hnd') as [R1 R2]. split; [assumption|]. intro n. rewrite R2. split.
      * intros [Hn|(m' & Hin & Hc)].
        -- destruct (nmem n' acc) eqn:En; [left; assumption|].
           apply in_app_iff in Hn as [Hn|[<-|[]]]; [left; assumption|].
           right. exists m. split; [left; reflexivity | assumption].
        -- right. exists m'. split; [right; assumption | assumption].
      * intros [Hn|(m' & [Heq|Hin] & Hc)].
        -- left. destruct (nmem n' acc); [assumption | apply in_app_iff; left; assumption].
        -- injection Heq as ->. rewrite Ec in Hc. injection Hc as <-. left.
           destruct (nmem n' acc) eqn:En; [apply nmem_in, En | apply in_app_iff; right; left; reflexivity].
        -- right. exists m'. split; assumption.
    + destruct (IH _ _ H Hnd) as [R1 R2]. split; [assumption|]. intro n. rewrite R2. split.
      * intros [Hn|(m' & Hin & Hc)]; [left; assumption | right; exists m'; split; [right|]; assumption].
      * intros [Hn|(m' & [Heq|Hin] & Hc)]; [left; assumption | | right; exists m'; split; assumption].
        injection Heq as -> ->. rewrite Z.eqb_refl in Ek. discriminate.
Qed.

(* the gathered set: the completed names of the declarations of one kind, each once *)
Theorem gather_commons_spec dt k decls r : gather dt k decls [] = Ok r ->
  NoDup r /\ forall n, In n r <-> exists m, In (m, k) decls /\ complete_name dt m = Ok n.
Proof.
  intro H. destruct (gather_spec dt k decls [] r H (NoDup_nil _)) as [H1 H2]. split; [assumption|].
  intro n. rewrite H2. split; [intros [[]|Hx]; exact Hx | auto].
Qed.
