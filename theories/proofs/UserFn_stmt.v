(* C10: statements keep the invariant: LET, SWAP, ERASE, DIM, CLEAR, DEF FN (MID$/LSET/RSET: see design notes). *)
From Coq Require Import ZArith List Bool Lia.
From PCB Require Import lib.Result lib.PyInt model.StrSpace model.UserFn
     proofs.StrSpace_base proofs.StrSpace_gc proofs.StrSpace_inv proofs.StrSpace_ops proofs.UserFn_proofs.
Import ListNotations.
Open Scope Z_scope.

Section Stmt.
Variable c : cfg.

(* between statements: invariant, no expression in progress *)
Definition SInv (st : state) : Prop := Good c st /\ idle st.

Definition keeps (st s' : state) : Prop := forall n, mem_key n (arrs st) = true -> mem_key n (arrs s') = true.

Definition EVI {A} (Q : state -> A -> Prop) (st : state) (x : R A) : Prop :=
  let '(s', r) := x in Good c s' /\ Jt s' /\ idle s' /\ keeps st s' /\ (forall a, r = Ok a -> Q s' a).

Lemma Rel_keeps X st s' : RelX c X st s' -> keeps st s'.
Proof.
  intros H n Hm. unfold mem_key in *. destruct (lookup n (arrs st)) as [[d els]|] eqn:E; [|discriminate].
  destruct (r_arrs _ _ _ _ H n d els E) as (els' & -> & _). reflexivity.
Qed.

Lemma Rel_idle X st s' : RelX c X st s' -> active s' = active st -> idle st -> idle s'.
Proof.
  intros H Ha (H1 & H2 & H3). pose proof (r_stack _ _ _ _ H) as Hs. pose proof (r_tvals _ _ _ _ H) as Ht.
  rewrite H1 in Hs. rewrite H2 in Ht. inversion Hs. inversion Ht. unfold idle. spl; auto. congruence.
Qed.

Lemma EV_EVI {A} (Q : state -> A -> Prop) st (x : R A) : idle st -> EV c Q st x -> EVI Q st x.
Proof.
  unfold EV, EVI. destruct x as [s' r]. intros Hi (G & J & Rl & Ac & Hq).
  spl; auto; [eapply Rel_idle; eassumption|eapply Rel_keeps; eassumption].
Qed.

Lemma keeps_refl st : keeps st st.
Proof. intros n H; exact H. Qed.
Lemma keeps_trans a b d : keeps a b -> keeps b d -> keeps a d.
Proof. intros H1 H2 n H. apply H2, H1, H. Qed.

Lemma EVI_bind {A B} (Q : state -> A -> Prop) (Q' : state -> B -> Prop) st (x : R A) (f : state -> A -> R B) :
  EVI Q st x ->
  (forall st1 a, Good c st1 -> Jt st1 -> idle st1 -> keeps st st1 -> Q st1 a -> EVI Q' st1 (f st1 a)) ->
  EVI Q' st (bindR x f).
Proof.
  unfold EVI. destruct x as [st1 r]. intros (G1 & J1 & I1 & K1 & Q1) Hf. unfold bindR.
  destruct r as [a|e|h|]; try (spl; auto; intros; discriminate).
  specialize (Hf st1 a G1 J1 I1 K1 (Q1 a eq_refl)). destruct (f st1 a) as [st2 r2].
  destruct Hf as (G2 & J2 & I2 & K2 & Q2). spl; auto. eapply keeps_trans; eassumption.
Qed.

Lemma EVI_ret {A} (Q : state -> A -> Prop) st a : Good c st -> Jt st -> idle st -> Q st a -> EVI Q st (retR st a).
Proof. intros. unfold EVI, retR. spl; auto using keeps_refl. intros a' E. inversion E; subst; assumption. Qed.

Lemma EVI_err {A} (Q : state -> A -> Prop) st e : Good c st -> Jt st -> idle st -> EVI Q st (errR st e).
Proof. intros. unfold EVI, errR. spl; auto using keeps_refl. intros; discriminate. Qed.

Lemma EVI_weaken_start {A} (Q : state -> A -> Prop) st0 st (x : R A) : keeps st0 st -> EVI Q st x -> EVI Q st0 x.
Proof. unfold EVI. destruct x as [s r]. intros K (a1 & a2 & a3 & a4 & a5). spl; auto. eapply keeps_trans; eassumption. Qed.

(* ---------- Scalars.set / check_dim / allocate as statement steps ---------- *)
Lemma EVI_set_scalar st n v :
  Good c st -> Jt st -> idle st -> match v with Some s => src_ok c s | None => True end ->
  EVI (fun s (_ : unit) => mem_key n (scal s) = true) st (set_scalar c st n v).
Proof.
  intros G J Hi Hv. pose proof (set_scalar_good c st n v G Hv) as H. pose proof (set_scalar_active c st n v G) as Ha.
  destruct (set_scalar c st n v) as [s r]. simpl in Ha. destruct H as (G' & J' & R' & _ & _ & Hm). specialize (J' J).
  unfold EVI. spl; auto; [eapply Rel_idle; eassumption|eapply Rel_keeps; eassumption|]. intros [] E. apply Hm, E.
Qed.

Lemma EVI_check_dim st n i : Good c st -> Jt st -> idle st ->
  EVI (fun s (_ : unit) => obj_ok c s (OArr n i)) st (check_dim c st n i).
Proof. intros G J Hi. apply EV_EVI; [exact Hi|]. apply EV_check_dim; assumption. Qed.

Lemma obj_ok_arr_mem st n i : obj_ok c st (OArr n i) -> mem_key n (arrs st) = true.
Proof. simpl. intros (_ & d & els & H & _). unfold mem_key. rewrite H. reflexivity. Qed.

(* ---------- DataSegment.set_variable ---------- *)
Lemma set_variable_EVI st l v :
  Good c st -> Jt st -> idle st -> obj_ok c st v ->
  (forall n i, l = LvA n i -> mem_key n (arrs st) = true) ->
  EVI (fun _ (_ : unit) => True) st (set_variable c st l v).
Proof.
  intros G J (Hs & Ht & Ha) Hv Harr. unfold set_variable, finallyR.
  set (st1 := push_obj (push_frame st) v).
  assert (Est1 : stack st1 = [[v]] /\ tvals st1 = [] /\ active st1 = [] /\ arrs st1 = arrs st).
  { unfold st1, push_obj, push_frame. simpl. rewrite Hs. simpl. auto. }
  destruct Est1 as (Es1 & Et1 & Ea1 & Ear1).
  assert (G1 : Good c st1).
  { unfold st1. apply push_obj_good; [apply push_frame_good, G|]. eapply obj_ok_same; [|exact Hv]. unfold push_frame. apply same_mem_set_stack. }
  assert (J1 : Jt st1) by (unfold st1; rewrite (proj1 (push_obj_fields _ _)); exact J).
  destruct l as [n|n i].
  - pose proof (set_scalar_good c st1 n (Some VTop) G1 I) as H. pose proof (set_scalar_active c st1 n (Some VTop) G1) as Hac.
    destruct (set_scalar c st1 n (Some VTop)) as [s r]. simpl in Hac. destruct H as (G' & J' & R' & _). specialize (J' J1).
    pose proof (r_stack _ _ _ _ R') as Hst. pose proof (r_tvals _ _ _ _ R') as Htv. rewrite Es1 in Hst. rewrite Et1 in Htv.
    inversion Hst as [|? fr' ? rs' Hfr Hrs]; subst. inversion Hrs; subst. inversion Htv.
    unfold EVI. split; [apply pop_frame_good, G'|]. split; [exact J'|].
    split; [unfold idle, pop_frame; simpl; rewrite <- H1; simpl; spl; auto; congruence|].
    split; [|auto]. intros m Hm. assert (Hm1 : mem_key m (arrs st1) = true) by (rewrite Ear1; exact Hm). exact (Rel_keeps _ _ _ R' m Hm1).
  - pose proof (set_array_good c st1 n i G1 J1) as H. rewrite Ear1 in H. specialize (H (Harr n i eq_refl)).
    destruct (set_array c st1 n i) as [s r]. destruct H as (G' & J' & _ & _ & Hst & Htv & _ & _ & Hac & Hk & _).
    unfold EVI. split; [apply pop_frame_good, G'|]. split; [exact J'|].
    split; [unfold idle, pop_frame; simpl; rewrite Hst, Es1, Htv, Et1, Hac, Ea1; auto|].
    split; [|auto]. intros m Hm. assert (Hm1 : mem_key m (arrs st1) = true) by (rewrite Ear1; exact Hm). exact (Hk m Hm1).
Qed.

(* ---------- parse_expression ---------- *)
Lemma parse_expression_EVI fuel e st : Good c st -> idle st -> EVI (obj_ok c) st (parse_expression c fuel e st).
Proof.
  intros G Hi. unfold parse_expression.
  destruct (reset_temporaries_good c st G Hi) as (G1 & J1 & I1 & _ & _ & _ & Har & _).
  eapply EVI_weaken_start; [|apply EV_EVI; [exact I1|apply parse_EV; assumption]].
  intros n Hm. rewrite Har. exact Hm.
Qed.

(* steps before the first expression of a statement: _temp may be stale (after CLEAR), so no Jt yet *)
Definition EVN {A} (Q : state -> A -> Prop) (st : state) (x : R A) : Prop :=
  let '(s', r) := x in Good c s' /\ idle s' /\ keeps st s' /\ (forall a, r = Ok a -> Q s' a).

Lemma EVI_EVN {A} (Q : state -> A -> Prop) st (x : R A) : EVI Q st x -> EVN Q st x.
Proof. unfold EVI, EVN. destruct x. intros (a1 & a2 & a3 & a4 & a5). auto. Qed.

Lemma EVN_bind {A B} (Q : state -> A -> Prop) (Q' : state -> B -> Prop) st (x : R A) (f : state -> A -> R B) :
  EVN Q st x ->
  (forall st1 a, Good c st1 -> idle st1 -> keeps st st1 -> Q st1 a -> EVN Q' st1 (f st1 a)) ->
  EVN Q' st (bindR x f).
Proof.
  unfold EVN. destruct x as [st1 r]. intros (G1 & I1 & K1 & Q1) Hf. unfold bindR.
  destruct r as [a|e|h|]; try (spl; auto; intros; discriminate).
  specialize (Hf st1 a G1 I1 K1 (Q1 a eq_refl)). destruct (f st1 a) as [st2 r2].
  destruct Hf as (G2 & I2 & K2 & Q2). spl; auto. eapply keeps_trans; eassumption.
Qed.

Lemma EVN_ret {A} (Q : state -> A -> Prop) st a : Good c st -> idle st -> Q st a -> EVN Q st (retR st a).
Proof. intros. unfold EVN, retR. spl; auto using keeps_refl. intros a' E. inversion E; subst; assumption. Qed.

Lemma EVN_err {A} (Q : state -> A -> Prop) st e : Good c st -> idle st -> EVN Q st (errR st e).
Proof. intros. unfold EVN, errR. spl; auto using keeps_refl. intros; discriminate. Qed.

Lemma EVN_set_scalar st n v :
  Good c st -> idle st -> match v with Some s => src_ok c s | None => True end ->
  EVN (fun s (_ : unit) => mem_key n (scal s) = true) st (set_scalar c st n v).
Proof.
  intros G Hi Hv. pose proof (set_scalar_good c st n v G Hv) as H. pose proof (set_scalar_active c st n v G) as Ha.
  destruct (set_scalar c st n v) as [s r]. simpl in Ha. destruct H as (G' & _ & R' & _ & _ & Hm).
  unfold EVN. spl; auto; [eapply Rel_idle; eassumption|eapply Rel_keeps; eassumption|]. intros [] E. apply Hm, E.
Qed.

Lemma check_dim_active st n i : Good c st -> active (fst (check_dim c st n i)) = active st.
Proof.
  intros G. pose proof (EV_check_dim c st n i G) as H.
  (* EV needs Jt only for its own Jt conclusion; redo the active part directly *)
  clear H. unfold check_dim. destruct (negb (is_strname n)); [reflexivity|].
  destruct (mem_key n (arrs st)) eqn:Em.
  - unfold bindR, retR. destruct (lookup n (arrs st)) as [[d els]|]; [destruct (i <? 0); [|destruct (d <? i)]|]; reflexivity.
  - unfold allocate. rewrite Em. destruct (negb (is_strname n)); [reflexivity|]. destruct (10 <? 0); [reflexivity|].
    pose proof (check_free_active c st (array_mem 10) 7 G) as Ha.
    destruct (check_free c st (array_mem 10) 7) as [s1 r1]. simpl in Ha.
    unfold bindR, retR. destruct r1 as [[]|?|?|]; simpl; try exact Ha.
    rewrite lookup_upsert_same. destruct (i <? 0); [|destruct (10 <? i)]; simpl; exact Ha.
Qed.

Lemma EVN_check_dim st n i : Good c st -> idle st ->
  EVN (fun s (_ : unit) => obj_ok c s (OArr n i)) st (check_dim c st n i).
Proof.
  intros G Hi. pose proof (check_dim_good c st n i G) as H. pose proof (check_dim_active st n i G) as Ha.
  destruct (check_dim c st n i) as [s r]. simpl in Ha. destruct H as (G' & _ & R' & Hok & _).
  unfold EVN. spl; auto; [eapply Rel_idle; eassumption|eapply Rel_keeps; eassumption|]. intros [] E. apply Hok, E.
Qed.

Definition pre_ok (l : lval) (s : state) (_ : unit) : Prop :=
  match l with LvS _ => True | LvA n i => mem_key n (arrs s) = true end.

Lemma preallocate_EVN st l : Good c st -> idle st -> EVN (pre_ok l) st (preallocate c st l).
Proof.
  intros G Hi. destruct l as [n|n i]; unfold preallocate.
  - pose proof (EVN_set_scalar st n None G Hi I) as H. unfold EVN in *. destruct (set_scalar c st n None) as [s r].
    destruct H as (a1 & a2 & a3 & _). spl; auto. intros; exact I.
  - pose proof (EVN_check_dim st n i G Hi) as H. unfold EVN in *. destruct (check_dim c st n i) as [s r].
    destruct H as (a1 & a2 & a3 & a4). spl; auto. intros a E. unfold pre_ok. eapply obj_ok_arr_mem. apply (a4 a E).
Qed.

(* LET *)
Lemma exec_let fuel l e st : Good c st -> idle st -> EVN (fun _ _ => True) st (exec c fuel false (SLet l e) st)
                                                    /\ EVN (fun _ _ => True) st (exec c fuel true (SLet l e) st).
Proof.
  intros G Hi.
  assert (H : EVN (fun _ (_ : unit) => True) st
                (doR (st1, _) <- preallocate c st l;
                 doR (st2, v) <- parse_expression c fuel e st1;
                 doR (st3, v') <-
                   (if is_strobj v then
                      let p := optr st2 v in
                      if is_permanent st2 p || is_field c p then
                        match deref c st2 p with
                        | Ok bs => doR (st3, p') <- store c st2 bs; retR st3 (OStr p')
                        | x => liftR st2 (bind x (fun _ => Err 13))
                        end
                      else retR st2 v
                    else retR st2 v);
                 set_variable c st3 l v')).
  { eapply EVN_bind; [apply preallocate_EVN; assumption|]. intros st1 [] G1 I1 K1 Hpre.
    apply EVI_EVN. eapply EVI_bind; [apply parse_expression_EVI; assumption|]. intros st2 v G2 J2 I2 K2 Hv.
    eapply (EVI_bind (obj_ok c)).
    - destruct (is_strobj v); [|apply EVI_ret; assumption]. cbv zeta.
      destruct (is_permanent st2 (optr st2 v) || is_field c (optr st2 v)); [|apply EVI_ret; assumption].
      apply EV_EVI; [exact I2|]. destruct (deref c st2 (optr st2 v)) as [bs|er|h|]; try (apply EV_fail; assumption).
      apply EV_store_obj; assumption.
    - intros st3 v' G3 J3 I3 K3 Hv'. apply set_variable_EVI; auto.
      intros n i ->. simpl in Hpre. apply K3, K2. exact Hpre. }
  split; exact H.
Qed.

(* ---------- ERASE, DIM, CLEAR, DEF FN ---------- *)
Lemma clear_all_good_any st : code_start c <= var_start c -> stack st = [] -> active st = [] -> Good c (clear_all st) /\ idle (clear_all st).
Proof.
  intros Hcfg Hs Ha. split; [|unfold idle, clear_all; simpl; auto].
  constructor; unfold clear_all; simpl.
  - unfold top. simpl. reflexivity.
  - split; [lia|]. split; [lia|]. left; reflexivity.
  - destruct (tmp st); [left; reflexivity|exact I].
  - constructor.
  - constructor.
  - intros n v H. discriminate.
  - intros n v H. discriminate.
  - intros n d els H. discriminate.
  - intros n d els H. discriminate.
  - reflexivity.
  - rewrite Hs. intros fr o [].
  - intros o [].
  - exact Hcfg.
Qed.

Lemma Good_set_fns st x : Good c st -> Good c (set_fns st x).
Proof.
  intros G. apply (Good_containers c st _ G).
  - unfold same_mem. simpl. repeat split; reflexivity.
  - simpl. exact (g_stack _ _ G).
  - simpl. exact (g_tvals _ _ G).
Qed.

Lemma allocate_active st n d : Good c st -> active (fst (allocate c st n d)) = active st.
Proof.
  intros G. unfold allocate. destruct (negb (is_strname n)); [reflexivity|]. destruct (mem_key n (arrs st)); [reflexivity|].
  destruct (d <? 0); [reflexivity|]. pose proof (check_free_active c st (array_mem d) 7 G) as Ha.
  destruct (check_free c st (array_mem d) 7) as [s1 r1]. simpl in Ha. unfold bindR. destruct r1; simpl; exact Ha.
Qed.

(* ---------- SWAP ---------- *)
Lemma obj_ok_arr_Rel X st st' n i : RelX c X st st' -> obj_ok c st (OArr n i) -> obj_ok c st' (OArr n i).
Proof.
  intros H (Hi & d & els & Hl & Hlt). destruct (r_arrs _ _ _ _ H n d els Hl) as (els' & Hl' & HF).
  split; [exact Hi|]. exists d, els'. split; [exact Hl'|]. rewrite <- (Forall2_length _ _ _ HF). exact Hlt.
Qed.

Definition slot_ok (st : state) (l : lval) : Prop :=
  match l with LvS _ => True | LvA n i => obj_ok c st (OArr n i) /\ is_strname n = true end.

Definition sw_get (st : state) (l : lval) : sval :=
  match l with
  | LvS n => match lookup n (scal st) with Some v => v | None => szero n end
  | LvA n i => SStr (arr_ptr st n (Z.to_nat i))
  end.
Definition sw_put (s : state) (l : lval) (v : sval) : state :=
  match l, v with
  | LvS n, _ => set_scal s (upsert n v (scal s))
  | LvA n i, SStr p => set_loc s (LArr n (Z.to_nat i)) p
  | LvA _ _, _ => s
  end.

(* a value that is acceptable in a slot of the type of name n *)
Definition val_ok (st : state) (n : Z) (v : sval) : Prop :=
  (is_strname n = true -> exists p, v = SStr p /\ ptr_ok c st p /\ Jp c st p) /\
  (is_strname n = false -> exists z, v = SNum z).

Lemma sw_get_ok st l : Good c st -> slot_ok st l -> val_ok st (lv_name l) (sw_get st l).
Proof.
  intros G Hl. destruct l as [n|n i]; simpl in *.
  - destruct (lookup n (scal st)) as [v|] eqn:E.
    + split; intros Hn; [exact (g_scal _ _ G n v E Hn)|exact (g_scal_num _ _ G n v E Hn)].
    + unfold szero. split; intros Hn; rewrite Hn; eauto. exists (0, 0). auto using zero_ptr_ok, zero_Jp.
  - destruct Hl as [(Hi0 & d & els & Hlk & Hlt) Hs]. split; [|intros Hn; congruence]. intros _.
    unfold arr_ptr. rewrite Hlk. destruct (g_arrs _ _ G n d els Hlk) as [_ B]. eexists. split; [reflexivity|]. apply B, nth_In, Hlt.
Qed.

Lemma val_ok_same st st' n v : strs st' = strs st -> tmp st' = tmp st -> val_ok st n v -> val_ok st' n v.
Proof.
  intros Hs Ht [A B]. split; [|exact B]. intros Hn. destruct (A Hn) as (p & E & H1 & H2). exists p.
  split; [exact E|]. split; [eapply ptr_ok_same; eauto|eapply Jp_same_tmp; eauto].
Qed.

Lemma sw_put_good st l v : Good c st -> idle st -> slot_ok st l -> val_ok st (lv_name l) v ->
  Good c (sw_put st l v) /\ idle (sw_put st l v) /\ strs (sw_put st l v) = strs st /\ tmp (sw_put st l v) = tmp st /\
  (forall l', slot_ok st l' -> slot_ok (sw_put st l v) l').
Proof.
  intros G Hi Hl [Hv1 Hv2]. destruct l as [n|n i]; simpl in *.
  - destruct (restore_scalar_good c st n v G Hv1 Hv2) as [G' _].
    split; [exact G'|]. unfold idle in *. simpl. spl; auto; try tauto; try (intros l' H; exact H).
  - destruct Hl as [(Hi0 & d & els & Hlk & Hlt) Hs]. destruct (Hv1 Hs) as (p & -> & A & B).
    split; [eapply Good_set_arr_elem; eauto|]. simpl. rewrite Hlk. unfold idle in *. simpl. spl; auto; try tauto.
    intros [m|m j]; simpl; [auto|]. intros [(Hj0 & d1 & els1 & Hl1 & Hlt1) Hm]. split; [|exact Hm]. split; [exact Hj0|].
    destruct (Z.eq_dec m n) as [->|Hne].
    + rewrite Hlk in Hl1. inversion Hl1; subst. exists d1, (update_nth (Z.to_nat i) p els1).
      rewrite lookup_upsert_same. split; [reflexivity|]. rewrite length_update_nth. exact Hlt1.
    + exists d1, els1. rewrite lookup_upsert_other by assumption. auto.
Qed.

Lemma val_ok_type st n m v : nty n = nty m -> val_ok st n v -> val_ok st m v.
Proof. unfold val_ok, is_strname. intros ->. auto. Qed.

(* Scalars.set(name) / check_dim on a swap operand: the slot exists afterwards *)
Lemma swap_operand st l (must_exist : bool) : Good c st -> idle st ->
  let '(s, r) := (match l with
                  | LvS n => if must_exist then (if mem_key n (scal st) then retR st tt
                                                 else doR (st2, _) <- set_scalar c st n None; errR st2 5)
                             else set_scalar c st n None
                  | LvA n i => check_dim c st n i
                  end) in
  Good c s /\ idle s /\ Rel c st s /\ (r = Ok tt -> slot_ok s l).
Proof.
  intros G Hi. destruct l as [n|n i].
  - assert (Hset : let '(s, r) := set_scalar c st n None in Good c s /\ idle s /\ Rel c st s).
    { pose proof (alloc_scalar_good c st n G) as H. pose proof (alloc_scalar_active c st n G) as Ha.
      change (set_scalar c st n None) with (alloc_scalar c st n). destruct (alloc_scalar c st n) as [s r]. simpl in Ha.
      destruct H as (G' & _ & R' & _). spl; auto. eapply Rel_idle; eassumption. }
    destruct must_exist.
    + destruct (mem_key n (scal st)); [unfold retR; spl; auto using Rel_refl; intros; exact I|].
      destruct (set_scalar c st n None) as [s r]. destruct Hset as (a1 & a2 & a3).
      unfold bindR. destruct r; unfold errR; spl; auto; intros; discriminate.
    + destruct (set_scalar c st n None) as [s r]. destruct Hset as (a1 & a2 & a3). spl; auto. intros; exact I.
  - pose proof (check_dim_good c st n i G) as H. pose proof (check_dim_active st n i G) as Ha.
    assert (Hguard : forall s r, check_dim c st n i = (s, r) -> r = Ok tt -> is_strname n = true).
    { intros s r E Er. unfold check_dim in E. destruct (is_strname n); [reflexivity|]. simpl in E. inversion E; subst; discriminate. }
    destruct (check_dim c st n i) as [s r] eqn:E. simpl in Ha. destruct H as (G' & _ & R' & Hok & _).
    spl; auto; [eapply Rel_idle; eassumption|]. intros Er. split; [apply Hok, Er|eapply Hguard; eauto].
Qed.

Lemma slot_ok_Rel X st st' l : RelX c X st st' -> slot_ok st l -> slot_ok st' l.
Proof. intros H. destruct l as [n|n i]; simpl; auto. intros [A B]. split; [eapply obj_ok_arr_Rel; eauto|exact B]. Qed.

Lemma exec_swap_inv fuel d a b st : SInv st -> SInv (fst (exec c fuel d (SSwap a b) st)).
Proof.
  intros [G Hi]. cbn [exec]. destruct (negb (nty (lv_name a) =? nty (lv_name b))) eqn:Ety; [simpl; split; assumption|].
  apply negb_false_iff, Z.eqb_eq in Ety.
  pose proof (swap_operand st a false G Hi) as H1.
  assert (E1 : preallocate c st a = match a with LvS n => set_scalar c st n None | LvA n i => check_dim c st n i end)
    by (destruct a; reflexivity).
  rewrite E1. cbv beta iota in H1.
  destruct (match a with LvS n => set_scalar c st n None | LvA n i => check_dim c st n i end) as [st1 r1].
  destruct H1 as (G1 & I1 & R1 & Ha). unfold bindR at 1.
  destruct r1 as [[]|?|?|]; try (simpl; split; assumption). specialize (Ha eq_refl).
  pose proof (swap_operand st1 b true G1 I1) as H2. cbv beta iota in H2.
  destruct (match b with
            | LvS n => if mem_key n (scal st1) then retR st1 tt else doR (st2, _) <- set_scalar c st1 n None; errR st2 5
            | LvA n i => check_dim c st1 n i
            end) as [st2 r2].
  destruct H2 as (G2 & I2 & R2 & Hb). unfold bindR.
  destruct r2 as [[]|?|?|]; try (simpl; split; assumption). specialize (Hb eq_refl).
  assert (Ha2 : slot_ok st2 a) by (eapply slot_ok_Rel; eauto).
  (* the two assignments *)
  change (fst (retR ?s tt)) with s. unfold retR. simpl fst.
  pose proof (sw_get_ok st2 a G2 Ha2) as Va. pose proof (sw_get_ok st2 b G2 Hb) as Vb.
  fold (sw_get st2 a). fold (sw_get st2 b).
  assert (Vb' : val_ok st2 (lv_name a) (sw_get st2 b)) by (eapply val_ok_type; [symmetry; exact Ety|exact Vb]).
  destruct (sw_put_good st2 a (sw_get st2 b) G2 I2 Ha2 Vb') as (G3 & I3 & S3 & T3 & K3).
  assert (Va' : val_ok (sw_put st2 a (sw_get st2 b)) (lv_name b) (sw_get st2 a)).
  { eapply val_ok_same; [exact S3|exact T3|]. eapply val_ok_type; [exact Ety|exact Va]. }
  destruct (sw_put_good _ b (sw_get st2 a) G3 I3 (K3 b Hb) Va') as (G4 & I4 & _).
  split; [exact G4|exact I4].
Qed.

Definition simple (s : stmt) : Prop :=
  match s with SLet _ _ | SSwap _ _ | SErase _ | SDim _ _ | SClear _ | SDef _ _ _ | SDeftype _ _ _ => True | _ => False end.

Lemma def_params_EVN : forall ps st, Good c st -> idle st ->
  EVN (fun _ (_ : unit) => True) st
    ((fix go (ps : list Z) (s : state) : R unit :=
        match ps with
        | [] => retR s tt
        | p :: r => doR (s1, _) <- set_scalar c s (resolve s p) None; go r s1
        end) ps st).
Proof.
  induction ps as [|p ps IH]; intros st G Hi.
  - apply EVN_ret; auto.
  - eapply EVN_bind; [apply EVN_set_scalar; auto|]. intros st1 [] G1 I1 K1 _. apply IH; assumption.
Qed.

Theorem exec_simple_inv fuel d s st : simple s -> SInv st -> SInv (fst (exec c fuel d s st)).
Proof.
  intros Hs [G Hi]. destruct s; try contradiction.
  - (* LET *)
    destruct (exec_let fuel l e st G Hi) as [H1 H2]. destruct d.
    + unfold EVN in H2. destruct (exec c fuel true (SLet l e) st). simpl. split; tauto.
    + unfold EVN in H1. destruct (exec c fuel false (SLet l e) st). simpl. split; tauto.
  - (* SWAP *)
    apply exec_swap_inv. split; assumption.
  - (* ERASE *)
    cbn [exec]. pose proof (erase_good c st n G Hi) as H. destruct (erase st n). simpl. split; tauto.
  - (* DIM *)
    cbn [exec]. pose proof (allocate_good c st n d0 G) as H. pose proof (allocate_active st n d0 G) as Ha.
    destruct (allocate c st n d0) as [s r]. simpl in *. destruct H as (G' & _ & R' & _).
    split; [exact G'|]. eapply Rel_idle; eassumption.
  - (* CLEAR *)
    cbn [exec]. destruct Hi as (Hst & Htv & Hac). destruct k as [k|].
    + destruct (reset_temporaries_good c st G (conj Hst (conj Htv Hac))) as (G1 & _ & I1 & _).
      destruct (var_start c + 514 + k <=? 0); [simpl; split; assumption|].
      destruct (totmem (reset_temporaries st) <? var_start c + 514 + k); [simpl; split; assumption|].
      simpl. destruct I1 as (a1 & a2 & a3). apply clear_all_good_any; simpl; try assumption. exact (g_cfg _ _ G).
    + simpl. apply clear_all_good_any; try assumption. exact (g_cfg _ _ G).
  - (* DEF FN *)
    cbn [exec]. destruct d; [simpl; split; assumption|].
    assert (G1 : Good c (set_fns st (upsert f (params, body) (fns st)))) by (apply Good_set_fns, G).
    assert (I1 : idle (set_fns st (upsert f (params, body) (fns st)))) by exact Hi.
    assert (H : EVN (fun _ (_ : unit) => True) (set_fns st (upsert f (params, body) (fns st)))
                  (doR (st2, _) <- set_scalar c (set_fns st (upsert f (params, body) (fns st))) (1000 + f)
                                     (Some (VObj (if is_strname f then OStr (0, 0) else ONum (nty f) 0)));
                   (fix go (ps : list Z) (s : state) : R unit :=
                      match ps with
                      | [] => retR s tt
                      | p :: r => doR (s1, _) <- set_scalar c s (resolve s p) None; go r s1
                      end) params st2)).
    { eapply EVN_bind; [apply EVN_set_scalar; auto|].
      - simpl. destruct (is_strname f); simpl; spl; auto; try (intros; discriminate). intros; apply zero_ptr_ok.
      - intros st2 [] G2 I2 K2 _. apply def_params_EVN; assumption. }
    unfold EVN in H. destruct (bindR _ _) as [s r]. simpl. split; tauto.
  - (* DEFINT / DEFSNG / DEFDBL / DEFSTR *)
    cbn [exec]. simpl. split; [|exact Hi].
    apply (Good_containers c st _ G).
    + unfold same_mem. simpl. repeat split; reflexivity.
    + simpl. exact (g_stack _ _ G).
    + simpl. exact (g_tvals _ _ G).
Qed.
End Stmt.
