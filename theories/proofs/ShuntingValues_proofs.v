(* C18, typing clause: facts about the type dispatch table of the operator functions (model/ShuntingValues.v) *)
From Coq Require Import ZArith List Bool Lia.
From PCB Require Import lib.Result lib.PyInt lib.Harness gen.Gen_prec model.Shunting model.ShuntingValues
  proofs.Shunting_proofs.
Import ListNotations.
Open Scope Z_scope.

Definition numeric (t : ty) : Prop := t <> TStr.
Definition arith (o : bop) : bool := match o with Add | Sub | Mul | Div => true | _ => false end.

(* + - * / on numbers: the widest operand type, integers being promoted to single *)
Lemma rt_arith dm o a b : arith o = true -> numeric a -> numeric b ->
  rt_binop dm o a b = Ok (widest (to_float a) b)
  /\ ty_rank (widest (to_float a) b) = Z.max 1 (Z.max (ty_rank a) (ty_rank b)).
Proof.
  unfold numeric. intros Ho Ha Hb.
  destruct o; try discriminate; destruct a; try congruence; destruct b; try congruence; split; reflexivity.
Qed.

(* / and ^ never give an integer *)
Lemma rt_div_pow_not_int dm o a b t : o = Div \/ o = Pow -> rt_binop dm o a b = Ok t -> t <> TInt /\ t <> TStr.
Proof.
  intros [-> | ->] H; destruct dm, a, b; simpl in H; inversion H; subst; split; discriminate.
Qed.

(* ^ is single, or double under the double_math option with a double operand *)
Lemma rt_pow dm a b : numeric a -> numeric b ->
  rt_binop dm Pow a b = Ok (if dm && (is_dbl a || is_dbl b) then TDbl else TSng).
Proof.
  unfold numeric. intros Ha Hb. destruct a; try congruence; destruct b; try congruence; destruct dm; reflexivity.
Qed.

(* relational operators give an integer, on two numbers or on two strings *)
Lemma rt_relational dm o a b : relational o = true -> is_str a = is_str b -> rt_binop dm o a b = Ok TInt.
Proof. intros Ho H. destruct o; try discriminate; destruct a, b; try discriminate; reflexivity. Qed.

(* \ MOD AND OR XOR EQV IMP give an integer *)
Lemma rt_integer_op dm o a b : integer_op o = true -> numeric a -> numeric b -> rt_binop dm o a b = Ok TInt.
Proof.
  unfold numeric. intros Ho Ha Hb.
  destruct o; try discriminate; destruct a; try congruence; destruct b; try congruence; reflexivity.
Qed.

(* a string mixed with a number is a Type mismatch for every binary operator *)
Lemma rt_mismatch dm o a b : is_str a <> is_str b -> rt_binop dm o a b = Err tmm.
Proof. intros H. destruct o, a, b; simpl in *; congruence. Qed.

(* two strings: concatenation and comparison only *)
Lemma rt_strings dm o :
  rt_binop dm o TStr TStr = if relational o then Ok TInt else match o with Add => Ok TStr | _ => Err tmm end.
Proof. destruct o; reflexivity. Qed.

Lemma rt_unary o a :
  rt_unop o a = match o with
                | Neg => Ok (to_float a)
                | Pos => Ok a
                | Not => if is_str a then Err tmm else Ok TInt
                end.
Proof. destruct o; reflexivity. Qed.

(* the type dispatch never fails with anything but Type mismatch *)
Lemma rt_binop_total dm o a b : (exists t, rt_binop dm o a b = Ok t) \/ rt_binop dm o a b = Err tmm.
Proof. destruct dm, o, a, b; simpl; eauto. Qed.
Lemma rt_unop_total o a : (exists t, rt_unop o a = Ok t) \/ rt_unop o a = Err tmm.
Proof. destruct o, a; simpl; eauto. Qed.

(* ---- values carry the type the dispatch table says *)
Lemma num_type t x v : num t x = Ok v -> v = VNum t x.
Proof. unfold num. destruct (in_dom t x); [intros [= <-]; reflexivity | discriminate]. Qed.

Definition num_branch (o : bop) (t : ty) (x y : Z) : res val :=
  if integer_op o
  then do x' <- int_arg x; do y' <- int_arg y; do r <- num_binop o x' y'; num t r
  else do r <- num_binop o x y; if sng_edge o t x y then out_of_domain else num t r.

Lemma num_branch_type o t x y v : num_branch o t x y = Ok v -> exists r, v = VNum t r.
Proof.
  unfold num_branch. destruct (integer_op o).
  - destruct (int_arg x); cbn [bind]; try discriminate. destruct (int_arg y); cbn [bind]; try discriminate.
    destruct (num_binop o a a0); cbn [bind]; try discriminate. intros H. apply num_type in H. eauto.
  - destruct (num_binop o x y); cbn [bind]; try discriminate.
    destruct (sng_edge o t x y); [discriminate|]. intros H. apply num_type in H. eauto.
Qed.

Lemma int_arg_ok x x' : int_arg x = Ok x' -> x' = x.
Proof.
  unfold int_arg. destruct (in_dom TInt x); [congruence|]. destruct (x =? -32768); discriminate.
Qed.

Lemma v_binop_type dm o a b v : v_binop dm o a b = Ok v -> rt_binop dm o (ty_of a) (ty_of b) = Ok (ty_of v).
Proof.
  unfold v_binop. destruct (left_conv o a) as [[]| | |]; cbn [bind]; try discriminate.
  destruct (rt_binop dm o (ty_of a) (ty_of b)) as [t| | |] eqn:E; cbn [bind]; try discriminate.
  destruct a as [ta x|s1], b as [tb y|s2]; try discriminate.
  - intros H. apply (num_branch_type o t x y) in H as [r ->]. reflexivity.
  - destruct (relational o) eqn:RO.
    + intros [= <-]. reflexivity.
    + destruct (zlen s1 + zlen s2 <=? 255); [|discriminate]. intros [= <-].
      destruct o; try discriminate RO; simpl in E |- *; congruence.
Qed.

Lemma v_binop_mismatch dm o a b e : left_conv o a = Ok tt ->
  rt_binop dm o (ty_of a) (ty_of b) = Err e -> v_binop dm o a b = Err e.
Proof. unfold v_binop. intros -> ->. reflexivity. Qed.

Lemma left_conv_not_integer o a : integer_op o = false -> left_conv o a = Ok tt.
Proof. unfold left_conv. intros ->. reflexivity. Qed.

Lemma v_unop_type o a v : v_unop o a = Ok v -> rt_unop o (ty_of a) = Ok (ty_of v).
Proof.
  unfold v_unop. destruct (rt_unop o (ty_of a)) as [t| | |] eqn:E; cbn [bind]; try discriminate.
  destruct o, a as [ta x|s]; simpl in *; try discriminate;
    try (intros H; apply num_type in H; subst v; reflexivity);
    try (intros [= <-]; simpl; congruence).
  destruct (int_arg x); cbn [bind]; try discriminate.
  intros H; apply num_type in H; subst v; reflexivity.
Qed.

(* relational operators yield the integer -1 or 0 *)
Lemma v_relational dm o a b v : relational o = true -> v_binop dm o a b = Ok v ->
  v = VNum TInt (-1) \/ v = VNum TInt 0.
Proof.
  intros Ho H. pose proof (v_binop_type _ _ _ _ _ H) as Ht.
  assert (Hti : ty_of v = TInt).
  { destruct o; try discriminate; destruct (ty_of a), (ty_of b); simpl in Ht; congruence. }
  unfold v_binop in H. rewrite left_conv_not_integer in H by (destruct o; try discriminate; reflexivity).
  cbn [bind] in H.
  destruct (rt_binop dm o (ty_of a) (ty_of b)) as [t| | |]; cbn [bind] in H; try discriminate.
  injection Ht as Ht. rewrite Hti in Ht. subst t.
  destruct a as [ta x|s1], b as [tb y|s2]; try discriminate.
  - destruct o; try discriminate; cbn [integer_op num_binop bind sng_edge] in H; apply num_type in H; subst v;
      unfold b2i; match goal with |- context [if ?c then _ else _] => destruct c end; auto.
  - rewrite Ho in H. injection H as <-. unfold b2i.
    match goal with |- context [if ?c then _ else _] => destruct c end; auto.
Qed.

(* ---- mixed precision: the operation is done on the exact values in the widest operand type, whichever side
   the wider operand is on - nothing is narrowed *)
Lemma v_compare_exact dm o ta x tb y : relational o = true -> numeric ta -> numeric tb ->
  v_binop dm o (VNum ta x) (VNum tb y) = Ok (VNum TInt (b2i (rel o (x =? y) (x >? y) (x <? y)))).
Proof.
  unfold numeric. intros Ho Ha Hb.
  destruct o; try discriminate; destruct ta; try congruence; destruct tb; try congruence;
    cbn [v_binop left_conv ty_of rt_binop bind integer_op num_binop sng_edge]; unfold num, b2i;
    match goal with |- context [rel ?o ?a ?b ?c] => destruct (rel o a b c) end; reflexivity.
Qed.

Lemma v_addsub_widest dm o ta x tb y :
  o = Add \/ o = Sub -> numeric ta -> numeric tb ->
  let t := widest (to_float ta) tb in
  let r := match o with Add => x + y | _ => x - y end in
  in_dom t r = true -> sng_edge o t x y = false ->
  v_binop dm o (VNum ta x) (VNum tb y) = Ok (VNum t r)
  /\ (ta = TDbl \/ tb = TDbl -> t = TDbl).
Proof.
  unfold numeric. intros Ho Ha Hb. cbv zeta. intros D G. split.
  - destruct Ho as [-> | ->]; destruct ta; try congruence; destruct tb; try congruence;
      cbn [v_binop left_conv ty_of rt_binop bind integer_op num_binop is_str orb]; unfold num;
      cbn [to_float widest is_dbl is_sng orb] in *; rewrite ?G, D; reflexivity.
  - intros H; destruct ta, tb; try congruence; destruct H; try discriminate; reflexivity.
Qed.

(* the model operators never answer with an IndexError (needed to instantiate the parser theorem) *)
Lemma num_no_idx t x : num t x <> Host host_IndexError.
Proof. unfold num. destruct (in_dom t x); discriminate. Qed.

Lemma int_arg_no_idx x : int_arg x <> Host host_IndexError.
Proof. unfold int_arg. destruct (in_dom TInt x); [discriminate|]. destruct (x =? -32768); discriminate. Qed.

Lemma v_binop_no_idx dm o a b : v_binop dm o a b <> Host host_IndexError.
Proof.
  unfold v_binop.
  assert (L : left_conv o a <> Host host_IndexError).
  { unfold left_conv. destruct (integer_op o); [|discriminate]. destruct a as [ta x|s]; [|discriminate].
    pose proof (int_arg_no_idx x) as Ix. destruct (int_arg x); cbn [bind]; try discriminate.
    intros [= ->]. apply Ix. reflexivity. }
  destruct (left_conv o a) as [[]| | x0 |]; cbn [bind]; try discriminate;
    [| intros [= ->]; apply L; reflexivity].
  destruct (rt_binop_total dm o (ty_of a) (ty_of b)) as [[t ->] | ->]; cbn [bind]; [|discriminate].
  destruct a as [ta x|s1], b as [tb y|s2]; try discriminate.
  - assert (N : forall x y, (exists r, num_binop o x y = Ok r) \/ num_binop o x y = Host host_Other).
    { intros x0 y0. destruct o; simpl; eauto;
        repeat match goal with |- context [if ?c then _ else _] => destruct c end; eauto. }
    destruct (integer_op o).
    + pose proof (int_arg_no_idx x) as Ix. destruct (int_arg x) as [x'| | |]; cbn [bind]; try discriminate;
        [|intros [= ->]; apply Ix; reflexivity].
      pose proof (int_arg_no_idx y) as Iy. destruct (int_arg y) as [y'| | |]; cbn [bind]; try discriminate;
        [|intros [= ->]; apply Iy; reflexivity].
      destruct (N x' y') as [[r ->] | ->]; cbn [bind]; [apply num_no_idx | discriminate].
    + destruct (N x y) as [[r ->] | ->]; cbn [bind]; [|discriminate].
      destruct (sng_edge o t x y); [discriminate | apply num_no_idx].
  - destruct (relational o); [discriminate|]. destruct (zlen s1 + zlen s2 <=? 255); discriminate.
Qed.

Lemma v_unop_no_idx o a : v_unop o a <> Host host_IndexError.
Proof.
  unfold v_unop. destruct (rt_unop_total o (ty_of a)) as [[t ->] | ->]; cbn [bind]; [|discriminate].
  destruct o, a; try discriminate; try apply num_no_idx.
  pose proof (int_arg_no_idx x) as Ix. destruct (int_arg x) as [x'| | |]; cbn [bind]; try discriminate;
    [apply num_no_idx | intros [= ->]; apply Ix; reflexivity].
Qed.

Lemma rt_binop_no_idx dm o a b : rt_binop dm o a b <> Host host_IndexError.
Proof. destruct (rt_binop_total dm o a b) as [[t ->] | ->]; discriminate. Qed.
Lemma rt_unop_no_idx o a : rt_unop o a <> Host host_IndexError.
Proof. destruct (rt_unop_total o a) as [[t ->] | ->]; discriminate. Qed.

Lemma tr_binop_no_idx o a b : tr_binop o a b <> Host host_IndexError.
Proof.
  unfold tr_binop. destruct (tr_poison 240 _ a); [discriminate|]. destruct (tr_poison 250 _ b); discriminate.
Qed.
Lemma tr_unop_no_idx o a : tr_unop o a <> Host host_IndexError.
Proof. unfold tr_unop. destruct (tr_poison 240 _ a); discriminate. Qed.

(* ---- the static type of an expression, computed on its operator tree, is the type of its value *)
Definition leaf_ty (r : res val) : res ty := rmap ty_of r.
Fixpoint ety (e : expr val) : expr ty :=
  match e with
  | Leaf r => Leaf (leaf_ty r)
  | Par e1 => Par (ety e1)
  | Un o e1 => Un o (ety e1)
  | Bin o l r => Bin o (ety l) (ety r)
  end.

Theorem eval_type dm e v :
  eval val v_unop (v_binop dm) e = Ok v ->
  eval ty rt_unop (rt_binop dm) (ety e) = Ok (ty_of v).
Proof.
  revert v. induction e as [r| e1 IH | o e1 IH | o l IHl r IHr]; intros v; cbn [ety eval].
  - intros ->. reflexivity.
  - apply IH.
  - destruct (eval val v_unop (v_binop dm) e1) as [a| | |]; cbn [bind]; try discriminate.
    intros H. rewrite (IH a eq_refl). cbn [bind]. apply v_unop_type. exact H.
  - destruct (eval val v_unop (v_binop dm) l) as [a| | |]; cbn [bind]; try discriminate.
    destruct (eval val v_unop (v_binop dm) r) as [b| | |]; cbn [bind]; try discriminate.
    intros H. rewrite (IHl a eq_refl), (IHr b eq_refl). cbn [bind]. apply v_binop_type. exact H.
Qed.

(* a Type mismatch found on the types is the error of the evaluation, provided nothing failed before it *)
Theorem eval_type_mismatch dm o l r a b :
  eval val v_unop (v_binop dm) l = Ok a -> eval val v_unop (v_binop dm) r = Ok b ->
  left_conv o a = Ok tt ->
  is_str (ty_of a) <> is_str (ty_of b) ->
  eval val v_unop (v_binop dm) (Bin o l r) = Err tmm.
Proof.
  intros Hl Hr LC M. cbn [eval]. rewrite Hl, Hr. cbn [bind].
  apply v_binop_mismatch; [exact LC | apply rt_mismatch; exact M].
Qed.
