(* C10: MID$(v$, start[, num]) = e$ keeps the invariant.  Same device as LSET (G0 between the in-place write and
   fix_temporaries); the source value is kept on a stack while the target is made writable (fix D10c), so the
   middle part runs on a non-idle state and is followed through the stack shape `shp`. *)
From Coq Require Import ZArith List Bool Lia.
From PCB Require Import lib.Result lib.PyInt model.StrSpace model.UserFn
     proofs.StrSpace_base proofs.StrSpace_gc proofs.StrSpace_inv proofs.StrSpace_ops proofs.UserFn_proofs proofs.UserFn_stmt
     proofs.UserFn_inplace.
Import ListNotations.
Open Scope Z_scope.

Section Mid.
Variable c : cfg.

Lemma deref_total s p : ptr_ok c s p -> exists bs, deref c s p = Ok bs.
Proof.
  intros [Hb Hf]. destruct p as [l a]. simpl in *. unfold deref.
  destruct (l =? 0) eqn:El; [eauto|]. apply Z.eqb_neq in El.
  destruct (var_start c <=? a) eqn:Ev.
  - apply Z.leb_le in Ev. destruct (Hb Ev) as [H|(bs & Hl & _)]; [lia|]. rewrite Hl. eauto.
  - destruct (code_start c <=? a) eqn:Ec; [eauto|]. apply Z.leb_gt in Ec. specialize (Hf Ec). lia.
Qed.

Lemma length_copy_bytewise n off i b : length (copy_bytewise n off i b) = length b.
Proof. revert i b. induction n as [|n IH]; intros i b; simpl; [reflexivity|]. rewrite IH, length_update_nth. reflexivity. Qed.

Lemma splice_length b off src : 0 <= off -> off + zlen src <= zlen b -> zlen (splice b off src) = zlen b.
Proof.
  unfold splice, takeZ, dropZ, zlen. intros H1 H2. rewrite !app_length, firstn_length, skipn_length. lia.
Qed.

(* the second view of the target: the variable exists, nothing is allocated *)
Lemma view_var_again s l : Good c s -> (forall n i, l = LvA n i -> mem_key n (arrs s) = true) ->
  let '(s', r) := view_var c s l in
  s' = s /\ (forall v, r = Ok v -> obj_ok c s v /\ (is_strobj v = true -> stable v)).
Proof.
  intros G Ha. destruct l as [n|n i]; cbn [view_var].
  - destruct (is_strname n) eqn:En; unfold retR; (split; [reflexivity|]); intros v Ev; inversion Ev; subst v.
    + split.
      * unfold mem_key. destruct (lookup n (scal s)) as [w|] eqn:El; [|apply str_ok_zero].
        simpl. split; [exact En|]. destruct (g_scal _ _ G n w El En) as (p & -> & _). eauto.
      * intros _. destruct (mem_key n (scal s)); simpl; auto.
    + split; [exact I|discriminate].
  - pose proof (check_dim_good c s n i G) as H. destruct (check_dim c s n i) as [s' r].
    destruct H as (_ & _ & _ & Hok & _ & _ & Hsame). specialize (Hsame (Ha n i eq_refl)). subst s'.
    unfold bindR. destruct r as [[]|?|?|]; (split; [reflexivity|]); try (intros; discriminate).
    unfold retR. intros v Ev. inversion Ev; subst v. split; [apply Hok; reflexivity|intros _; exact I].
Qed.

Definition lv_str (l : lval) : bool := match l with LvS n => is_strname n | LvA _ _ => true end.
Lemma view_var_kind s l s' v : view_var c s l = (s', Ok v) -> is_strobj v = lv_str l.
Proof.
  destruct l as [n|n i]; cbn [view_var lv_str].
  - destruct (is_strname n); unfold retR; intros H; inversion H; [destruct (mem_key n (scal s'))|]; reflexivity.
  - destruct (check_dim c s n i) as [s1 [[]|?|?|]]; unfold bindR, retR; intros H; inversion H; reflexivity.
Qed.

Lemma shp_fin s s6 v : Good c s -> shp s = shp s6 -> stack s6 = [[v]] -> tvals s6 = [] -> active s6 = [] -> SInv c (pop_frame s).
Proof.
  intros G Hs E1 E2 E3. split; [apply pop_frame_good, G|].
  unfold shp in Hs. rewrite E1, E2, E3 in Hs. injection Hs as H1 H2 H3.
  unfold idle, pop_frame. simpl. split; [|split; [|exact H3]].
  - destruct (stack s) as [|f [|g r]]; simpl in *; try discriminate; reflexivity.
  - destruct (tvals s); [reflexivity|discriminate].
Qed.

Lemma shp_same_fields s s' : stack s' = stack s -> tvals s' = tvals s -> active s' = active s -> shp s' = shp s.
Proof. intros H1 H2 H3. unfold shp. rewrite H1, H2, H3. reflexivity. Qed.

Theorem exec_mid_inv fuel d l se ne e st : SInv c st -> SInv c (fst (exec c fuel d (SMid l se ne e) st)).
Proof.
  intros [G Hi]. cbn [exec].
  pose proof (preallocate_EVN c st l G Hi) as H0. unfold EVN in H0. destruct (preallocate c st l) as [st1 r0].
  destruct H0 as (G1 & I1 & K1 & _). unfold bindR at 1. destruct r0 as [[]|?|?|]; try (simpl; split; assumption).
  pose proof (parse_expression_stable c fuel se st1 G1 I1) as H2. destruct (parse_expression c fuel se st1) as [st2 r2].
  destruct H2 as (G2 & J2 & I2 & K2 & S2 & Q2). unfold bindR at 1. destruct r2 as [sv|?|?|]; try (simpl; split; assumption).
  destruct (to_int16 sv) as [start|?|?|]; try (simpl; split; assumption).
  (* the optional length *)
  assert (H3 : let '(st3, r3) := match ne with
                                 | Some ne' => bindR (parse_expression c fuel ne' st2) (fun st3 nv => liftR st3 (to_int16 nv))
                                 | None => retR st2 255
                                 end in Good c st3 /\ idle st3).
  { destruct ne as [ne'|]; [|unfold retR; auto].
    pose proof (parse_expression_stable c fuel ne' st2 G2 I2) as H. destruct (parse_expression c fuel ne' st2) as [s r].
    destruct H as (a1 & _ & a3 & _). unfold bindR, liftR. destruct r; auto. }
  destruct (match ne with
            | Some ne' => bindR (parse_expression c fuel ne' st2) (fun st3 nv => liftR st3 (to_int16 nv))
            | None => retR st2 255
            end) as [st3 r3].
  destruct H3 as [G3 I3]. unfold bindR at 1. destruct r3 as [num|?|?|]; try (simpl; split; assumption).
  pose proof (view_var_spec c st3 l G3 I3) as H4. destruct (view_var c st3 l) as [st4 r4] eqn:Ev4.
  destruct H4 as (G4 & I4 & K4 & Q4). unfold bindR at 1. destruct r4 as [tv|?|?|]; try (simpl; split; assumption).
  destruct (Q4 tv eq_refl) as (Htv & _ & Harr).
  destruct (is_strobj tv) eqn:Etv; cbn [negb]; [|simpl; split; assumption].
  destruct (deref c st4 (optr st4 tv)) as [sbytes|?|?|]; try (simpl; split; assumption).
  destruct ((num <? 0) || (255 <? num)) eqn:En; [simpl; split; assumption|].
  destruct ((0 <? num) && ((start <? 1) || (zlen sbytes <? start))) eqn:Est; [simpl; split; assumption|].
  pose proof (parse_expression_stable c fuel e st4 G4 I4) as H5. destruct (parse_expression c fuel e st4) as [st5 r5].
  destruct H5 as (G5 & J5 & I5 & K5 & S5 & Q5). unfold bindR at 1. destruct r5 as [val|?|?|]; try (simpl; split; assumption).
  destruct (is_strobj val) eqn:Eval; cbn [negb]; [|simpl; split; assumption].
  specialize (Q5 val eq_refl).
  (* the value goes onto a stack of its own *)
  unfold finallyR. cbv zeta.
  set (st6 := push_obj (push_frame st5) val).
  destruct I5 as (I5s & I5t & I5a).
  assert (E6 : stack st6 = [[val]] /\ tvals st6 = [] /\ active st6 = [] /\ arrs st6 = arrs st5).
  { unfold st6, push_obj, push_frame. simpl. rewrite I5s. auto. }
  destruct E6 as (E6s & E6t & E6a & E6r).
  assert (G6 : Good c st6).
  { unfold st6. apply push_obj_good; [apply push_frame_good, G5|]. eapply obj_ok_same; [|exact Q5]. unfold push_frame. apply same_mem_set_stack. }
  assert (J6 : Jt st6) by (unfold st6; rewrite (proj1 (push_obj_fields _ _)); exact J5).
  assert (Harr6 : forall n i, l = LvA n i -> mem_key n (arrs st6) = true).
  { intros n i E. rewrite E6r. apply K5. eapply Harr; eauto. }
  assert (Top6 : top_obj st6 = val) by (unfold top_obj; rewrite E6s; reflexivity).
  pose proof (view_var_again st6 l G6 Harr6) as H7. destruct (view_var c st6 l) as [st7 r7] eqn:Ev7.
  destruct H7 as [-> Q7]. unfold bindR at 1.
  destruct r7 as [tgt|?|?|]; try (simpl; eapply shp_fin; eauto).
  destruct (Q7 tgt eq_refl) as (Htgt & Hstab).
  assert (Hst : is_strobj tgt = true) by (rewrite (view_var_kind _ _ _ _ Ev7), <- (view_var_kind _ _ _ _ Ev4); exact Etv).
  specialize (Hstab Hst).
  rewrite Top6.
  set (p0 := optr st6 tgt). set (len := fst p0). set (off := start - 1).
  set (num1 := Z.min num (fst (optr st6 val))).
  set (num2 := if len <? off + num1 then len - off else num1).
  assert (Hp0 : ptr_ok c st6 p0) by (apply obj_ok_ptr; assumption).
  destruct (num2 <=? 0) eqn:En2.
  - (* nothing to copy *)
    unfold retR, bindR at 1.
    pose proof (set_variable_shp c st6 l tgt G6 J6 Htgt Harr6) as H. destruct (set_variable c st6 l tgt) as [s' r'].
    destruct H as (G' & _ & Hs' & _). simpl. eapply shp_fin; eauto.
  - apply Z.leb_gt in En2.
    (* arithmetic of the slice *)
    assert (Har : 0 <= off /\ 0 < len /\ 0 < num2 /\ off + num2 <= len).
    { apply orb_false_iff in En as [En1 En3]. apply Z.ltb_ge in En1.
      unfold num2, num1 in *. destruct (len <? off + Z.min num (fst (optr st6 val))) eqn:E1.
      - apply Z.ltb_lt in E1. assert (0 < num) by lia.
        apply andb_false_iff in Est as [Est|Est]; [apply Z.ltb_ge in Est; lia|].
        apply orb_false_iff in Est as [Est _]. apply Z.ltb_ge in Est. unfold off in *. lia.
      - apply Z.ltb_ge in E1. assert (0 < num) by lia.
        apply andb_false_iff in Est as [Est|Est]; [apply Z.ltb_ge in Est; lia|].
        apply orb_false_iff in Est as [Est _]. apply Z.ltb_ge in Est. unfold off in *. lia. }
    destruct Har as (Hoff & Hlen & Hn2 & Hfit).
    pose proof (check_modify_spec c st6 p0 G6 J6 Hp0) as H8. destruct (check_modify c st6 p0) as [st8 r8].
    destruct H8 as (G8 & J8 & R8 & A8 & Q8).
    assert (Hs8 : shp st8 = shp st6) by (eapply Rel_shp; eauto).
    unfold bindR at 2.
    destruct r8 as [target|?|?|]; try (unfold bindR; simpl; eapply shp_fin; eauto).
    destruct (Q8 target eq_refl) as (Ht & Hcase).
    assert (Hv8 : obj_ok c st8 tgt).
    { eapply stable_Rel; eauto. }
    set (st9 := write_obj st8 tgt target).
    pose proof (write_obj_G0 c st8 tgt target G8 Hv8 Ht) as G9. fold st9 in G9.
    destruct (write_obj_fields st8 tgt target) as (F1 & F2 & F3 & F4 & F5 & F6). fold st9 in F1, F2, F3, F4, F5, F6.
    (* the target is a stored string of length len *)
    assert (Hbound : fst target = len /\ var_start c <= snd target /\ exists old, lookup (snd target) (strs st9) = Some old /\ zlen old = len).
    { rewrite F1. destruct Hcase as [(-> & -> & Hnc)|(Hc & Hpos & _)].
      - split; [reflexivity|]. destruct Hp0 as [Hb Hf]. fold len in Hb, Hf.
        destruct (Z.lt_ge_cases (snd p0) (var_start c)) as [Hlt|Hge].
        + destruct (Z.lt_ge_cases (snd p0) (code_start c)) as [Hlt2|Hge2]; [specialize (Hf Hlt2); lia|].
          exfalso. apply Hnc. lia.
        + split; [exact Hge|]. destruct (Hb Hge) as [H0|(bs & A & B)]; [lia|]. eauto.
      - destruct (Hpos Hlen) as (A & B & bs & D & E). split; [exact A|]. split; [exact B|]. eauto. }
    destruct Hbound as (Hfl & Hvs & old & Hlk & Hzo).
    assert (Ed : deref c st9 target = Ok old).
    { destruct target as [tl ta]. simpl in *. unfold deref.
      assert (E0 : (tl =? 0) = false) by (apply Z.eqb_neq; lia). rewrite E0.
      assert (E1 : (var_start c <=? ta) = true) by (apply Z.leb_le; exact Hvs). rewrite E1, Hlk. reflexivity. }
    rewrite Ed.
    assert (Hsrc : exists sb, deref c st9 (optr st9 (top_obj st9)) = Ok sb).
    { apply (deref_total (set_tmp st9 None)). apply (obj_ok_ptr c (set_tmp st9 None)); [exact G9|]. apply (top_obj_ok c (set_tmp st9 None) G9). }
    destruct Hsrc as (sb & Esb). rewrite Esb.
    assert (E1 : (var_start c <=? snd target) = true) by (apply Z.leb_le; exact Hvs). rewrite E1.
    set (nb := if (fst (optr st9 (top_obj st9)) =? fst target) && (snd (optr st9 (top_obj st9)) =? snd target)
               then copy_bytewise (Z.to_nat num2) (Z.to_nat off) 0 old
               else splice old off (takeZ num2 sb)).
    assert (Hnb : zlen nb = zlen old).
    { unfold nb. destruct ((fst (optr st9 (top_obj st9)) =? fst target) && (snd (optr st9 (top_obj st9)) =? snd target)).
      - unfold zlen. rewrite length_copy_bytewise. reflexivity.
      - apply splice_length; [exact Hoff|]. rewrite zlen_takeZ by lia. lia. }
    unfold retR. unfold bindR at 1.
    set (st10 := set_binding st9 (snd target) nb).
    assert (G10 : Good c (set_tmp st10 None)).
    { change (set_tmp st10 None) with (set_binding (set_tmp st9 None) (snd target) nb).
      eapply set_binding_good; [exact G9|exact Hlk|exact Hnb]. }
    assert (H9 : obj_ok c (set_tmp st9 None) tgt).
    { pose proof (write_obj_obj_ok c st8 tgt target Hstab Hv8 Ht) as W. fold st9 in W.
      destruct tgt; simpl in *; try contradiction; auto. }
    assert (Htg10 : obj_ok c (set_tmp st10 None) tgt).
    { change (set_tmp st10 None) with (set_binding (set_tmp st9 None) (snd target) nb).
      destruct tgt; simpl in *; auto.
      + eapply ptr_ok_set_binding; eauto.
      + destruct H9 as (a1 & a2 & a3). spl; auto. eapply ptr_ok_set_binding; eauto. }
    assert (Harr10 : forall n i, l = LvA n i -> mem_key n (arrs (set_tmp st10 None)) = true).
    { intros n i E. simpl. apply F6. apply (Rel_keeps c _ _ _ R8). apply Harr6 with i; exact E. }
    rewrite (set_variable_ignores_tmp c st10 l tgt Hst).
    pose proof (set_variable_shp c (set_tmp st10 None) l tgt G10 I Htg10 Harr10) as H.
    destruct (set_variable c (set_tmp st10 None) l tgt) as [s' r'].
    destruct H as (G' & _ & Hs' & _). simpl. eapply shp_fin; [exact G'| |exact E6s|exact E6t|exact E6a].
    rewrite Hs'. rewrite <- Hs8. apply shp_same_fields; simpl; [exact F2|exact F3|exact F4].
Qed.
End Mid.
