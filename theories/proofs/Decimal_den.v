(* Decimal_den.v - the denormalised-level routines of the decimal conversion (C07):
   _apply_carry_den, _mul10_den, _div_den by ten / _div10_den (gen/Gen_mbf.v, gen/Gen_dec.v).
   A "den" is (exp, man, neg) with man carrying 8 guard bits: value = man * 2^(exp - bias - 8).
   For each routine: totality on normalised input, normalised output, the exponent change, and the
   error of one step measured in units of the last guard bit of the result. *)
From Coq Require Import ZArith List Bool Lia ZifyBool.
From PCB Require Import lib.Result lib.PyInt lib.Harness lib.MBFPrims gen.Gen_mbf gen.Gen_dec model.MBF
  proofs.MBF_base.
Import ListNotations.
Open Scope Z_scope.
Ltac Zify.zify_post_hook ::= Z.to_euclidean_division_equations.

(* ------------------------------------------------------------------------------------------------ *)
(* bit facts *)

Lemma lxor_low8 m : 0 <= m -> Z.lxor m (Z.land m 255) = 256 * (m / 256).
Proof.
  intros Hm.
  assert (E : Z.lxor m (Z.land m 255) = Z.ldiff m (Z.ones 8)).
  { apply Z.bits_inj'. intros k Hk. rewrite Z.lxor_spec, Z.land_spec, Z.ldiff_spec.
    change 255 with (Z.ones 8). destruct (Z.testbit m k), (Z.testbit (Z.ones 8) k); reflexivity. }
  rewrite E, Z.ldiff_ones_r by lia. rewrite Z.shiftl_mul_pow2, Z.shiftr_div_pow2 by lia.
  change (2 ^ 8) with 256. lia.
Qed.

Lemma lor_1 x : 0 <= x -> Z.lor x 1 = if Z.odd x then x else x + 1.
Proof.
  intros Hx. destruct (Z.odd x) eqn:E.
  - apply Z.bits_inj'. intros k Hk. rewrite Z.lor_spec.
    destruct (Z.eq_dec k 0) as [->|Hk0].
    + rewrite Z.bit0_odd, E. reflexivity.
    + replace (Z.testbit 1 k) with false; [apply orb_false_r|].
      symmetry. change 1 with (2 ^ 0). rewrite Z.pow2_bits_eqb by lia. apply Z.eqb_neq. lia.
  - assert (Hl : Z.land x 1 = 0).
    { change 1 with (Z.ones 1). rewrite Z.land_ones by lia. change (2 ^ 1) with 2.
      rewrite Zmod_odd, E. reflexivity. }
    rewrite <- Z.lxor_lor by exact Hl. rewrite <- Z.add_nocarry_lxor by exact Hl. reflexivity.
Qed.

Lemma land3 m : Z.land m 3 = m mod 4.
Proof. change 3 with (Z.ones 2). rewrite Z.land_ones by lia. reflexivity. Qed.

(* ------------------------------------------------------------------------------------------------ *)
Section Den.
Variable C : fconst.
Hypothesis HC : fmt_ok C.

(* 2^(mbits-1): the smallest mantissa; a normalised den mantissa lies in [256 * hb, 512 * hb) *)
Definition hb : Z := 2 ^ (mbits C - 1).
Definition den_norm (m : Z) : Prop := 256 * hb <= m < 512 * hb.

Lemma hb_pos : 0 < hb.
Proof. unfold hb. pose proof (mbits_ge C HC). apply pow2_pos. lia. Qed.
Lemma hb_even : hb = 2 * (hb / 2) /\ hb = 4 * (hb / 4) /\ 16384 <= hb.
Proof.
  unfold hb. pose proof (mbits_ge C HC).
  replace (mbits C - 1) with (15 + (mbits C - 16)) by lia. rewrite pow2_split by lia.
  assert (0 < 2 ^ (mbits C - 16)) by (apply pow2_pos; lia). change (2 ^ 15) with 32768. lia.
Qed.
Lemma den_mask_hb : c_den_mask C = 256 * hb.
Proof.
  rewrite (ok_den_mask C HC). unfold hb. pose proof (mbits_ge C HC).
  replace (mbits C + 7) with (8 + (mbits C - 1)) by lia. rewrite pow2_split by lia. reflexivity.
Qed.
Lemma den_upper_hb : c_den_upper C = 512 * hb.
Proof.
  rewrite (ok_den_upper C HC). unfold hb. pose proof (mbits_ge C HC).
  replace (mbits C + 8) with (9 + (mbits C - 1)) by lia. rewrite pow2_split by lia. reflexivity.
Qed.

(* --- _apply_carry_den: round the guard byte away (half up), renormalise *)
Lemma apply_carry_spec e m neg : den_norm m ->
  exists e' m', mbf_apply_carry_den C (e, m, neg) = (e', m', neg) /\ den_norm m' /\ m' mod 256 = 0 /\
    ((e' = e /\ m' = 256 * ((m + 128) / 256)) \/ (e' = e + 1 /\ m' = 256 * hb /\ 512 * hb - 128 <= m)).
Proof.
  unfold den_norm. intros Hm. pose proof hb_pos as Hp.
  unfold mbf_apply_carry_den. rewrite land255, den_upper_hb.
  destruct (Z.gtb_spec (m mod 256) 127) as [Hup|Hdn].
  - destruct (Z.geb_spec (m + 256) (512 * hb)) as [Hc|Hnc].
    + exists (e + 1), (256 * hb). rewrite Z.shiftr_div_pow2 by lia. change (2 ^ 1) with 2.
      rewrite lxor_low8 by lia.
      assert (E : (m + 256) / 2 / 256 = hb) by lia. rewrite E.
      split; [reflexivity|]. split; [lia|]. split; [lia|]. right. lia.
    + exists e, (256 * ((m + 128) / 256)). rewrite lxor_low8 by lia.
      assert (E : (m + 256) / 256 = (m + 128) / 256) by lia. rewrite E.
      split; [reflexivity|]. split; [lia|]. split; [lia|]. left. lia.
  - destruct (Z.geb_spec m (512 * hb)) as [Hc|Hnc]; [lia|].
    exists e, (256 * ((m + 128) / 256)). rewrite lxor_low8 by lia.
    assert (E : m / 256 = (m + 128) / 256) by lia. rewrite E.
    split; [reflexivity|]. split; [lia|]. split; [lia|]. left. lia.
Qed.

(* on a mantissa without guard bits it is the identity *)
Lemma apply_carry_id e m neg : den_norm m -> m mod 256 = 0 -> mbf_apply_carry_den C (e, m, neg) = (e, m, neg).
Proof.
  unfold den_norm. intros Hm H0. unfold mbf_apply_carry_den. rewrite land255, den_upper_hb, H0.
  change (0 >? 127) with false. cbv iota.
  destruct (Z.geb_spec m (512 * hb)); [lia|]. rewrite lxor_low8 by lia.
  replace (256 * (m / 256)) with m by lia. reflexivity.
Qed.

End Den.
