(* Decimal_den.v - the denormalised-level routines of the decimal conversion (C07):
   _apply_carry_den, _mul10_den, _div_den by ten / _div10_den (gen/Gen_mbf.v, gen/Gen_dec.v).
   A "den" is (exp, man, neg) with man carrying 8 guard bits: value = man * 2^(exp - bias - 8).
   For each routine: totality on normalised input, normalised output, the exponent change, and the
   error of one step measured in units of the last guard bit of the result. *)
From Coq Require Import ZArith List Bool Lia ZifyBool.
From PCB Require Import lib.Result lib.PyInt lib.Harness lib.MBFPrims gen.Gen_mbf gen.Gen_dec model.MBF
  proofs.MBF_base.
Import ListNotations.
Open Scope Z_scope.
Ltac Zify.zify_post_hook ::= Z.to_euclidean_division_equations.

(* ------------------------------------------------------------------------------------------------ *)
(* bit facts *)

Lemma lxor_low8 m : 0 <= m -> Z.lxor m (Z.land m 255) = 256 * (m / 256).
Proof.
  intros Hm.
  assert (E : Z.lxor m (Z.land m 255) = Z.ldiff m (Z.ones 8)).
  { apply Z.bits_inj'. intros k Hk. rewrite Z.lxor_spec, Z.land_spec, Z.ldiff_spec.
    change 255 with (Z.ones 8). destruct (Z.testbit m k), (Z.testbit (Z.ones 8) k); reflexivity. }
  rewrite E, Z.ldiff_ones_r by lia. rewrite Z.shiftl_mul_pow2, Z.shiftr_div_pow2 by lia.
  change (2 ^ 8) with 256. lia.
Qed.

Lemma lor_1 x : 0 <= x -> Z.lor x 1 = if Z.odd x then x else x + 1.
Proof.
  intros Hx. destruct (Z.odd x) eqn:E.
  - apply Z.bits_inj'. intros k Hk. rewrite Z.lor_spec.
    destruct (Z.eq_dec k 0) as [->|Hk0].
    + rewrite Z.bit0_odd, E. reflexivity.
    + replace (Z.testbit 1 k) with false; [apply orb_false_r|].
      symmetry. change 1 with (2 ^ 0). rewrite Z.pow2_bits_eqb by lia. apply Z.eqb_neq. lia.
  - assert (Hl : Z.land x 1 = 0).
    { change 1 with (Z.ones 1). rewrite Z.land_ones by lia. change (2 ^ 1) with 2.
      rewrite Zmod_odd, E. reflexivity. }
    rewrite <- Z.lxor_lor by exact Hl. rewrite <- Z.add_nocarry_lxor by exact Hl. reflexivity.
Qed.

Lemma land3 m : Z.land m 3 = m mod 4.
Proof. change 3 with (Z.ones 2). rewrite Z.land_ones by lia. reflexivity. Qed.

(* ------------------------------------------------------------------------------------------------ *)
Section Den.
Variable C : fconst.
Hypothesis HC : fmt_ok C.

(* 2^(mbits-1): the smallest mantissa; a normalised den mantissa lies in [256 * hb, 512 * hb) *)
Definition hb : Z := 2 ^ (mbits C - 1).
Definition den_norm (m : Z) : Prop := 256 * hb <= m < 512 * hb.

Lemma hb_pos : 0 < hb.
Proof. unfold hb. pose proof (mbits_ge C HC). apply pow2_pos. lia. Qed.
Lemma hb_even : hb = 2 * (hb / 2) /\ hb = 4 * (hb / 4) /\ 16384 <= hb.
Proof.
  unfold hb. pose proof (mbits_ge C HC).
  replace (mbits C - 1) with (15 + (mbits C - 16)) by lia. rewrite pow2_split by lia.
  assert (0 < 2 ^ (mbits C - 16)) by (apply pow2_pos; lia). change (2 ^ 15) with 32768. lia.
Qed.
Lemma den_mask_hb : c_den_mask C = 256 * hb.
Proof.
  rewrite (ok_den_mask C HC). unfold hb. pose proof (mbits_ge C HC).
  replace (mbits C + 7) with (8 + (mbits C - 1)) by lia. rewrite pow2_split by lia. reflexivity.
Qed.
Lemma den_upper_hb : c_den_upper C = 512 * hb.
Proof.
  rewrite (ok_den_upper C HC). unfold hb. pose proof (mbits_ge C HC).
  replace (mbits C + 8) with (9 + (mbits C - 1)) by lia. rewrite pow2_split by lia. reflexivity.
Qed.

(* --- _apply_carry_den: round the guard byte away (half up), renormalise *)
Lemma apply_carry_spec e m neg : den_norm m ->
  exists e' m', mbf_apply_carry_den C (e, m, neg) = (e', m', neg) /\ den_norm m' /\ m' mod 256 = 0 /\
    ((e' = e /\ m' = 256 * ((m + 128) / 256)) \/ (e' = e + 1 /\ m' = 256 * hb /\ 512 * hb - 128 <= m)).
Proof.
  unfold den_norm. intros Hm. pose proof hb_pos as Hp.
  unfold mbf_apply_carry_den. rewrite land255, den_upper_hb.
  destruct (Z.gtb_spec (m mod 256) 127) as [Hup|Hdn].
  - destruct (Z.geb_spec (m + 256) (512 * hb)) as [Hc|Hnc].
    + exists (e + 1), (256 * hb). rewrite Z.shiftr_div_pow2 by lia. change (2 ^ 1) with 2.
      rewrite lxor_low8 by lia.
      assert (E : (m + 256) / 2 / 256 = hb) by lia. rewrite E.
      split; [reflexivity|]. split; [lia|]. split; [lia|]. right. lia.
    + exists e, (256 * ((m + 128) / 256)). rewrite lxor_low8 by lia.
      assert (E : (m + 256) / 256 = (m + 128) / 256) by lia. rewrite E.
      split; [reflexivity|]. split; [lia|]. split; [lia|]. left. lia.
  - destruct (Z.geb_spec m (512 * hb)) as [Hc|Hnc]; [lia|].
    exists e, (256 * ((m + 128) / 256)). rewrite lxor_low8 by lia.
    assert (E : m / 256 = (m + 128) / 256) by lia. rewrite E.
    split; [reflexivity|]. split; [lia|]. split; [lia|]. left. lia.
Qed.

(* on a mantissa without guard bits it is the identity *)
Lemma apply_carry_id e m neg : den_norm m -> m mod 256 = 0 -> mbf_apply_carry_den C (e, m, neg) = (e, m, neg).
Proof.
  unfold den_norm. intros Hm H0. unfold mbf_apply_carry_den. rewrite land255, den_upper_hb, H0.
  change (0 >? 127) with false. cbv iota.
  destruct (Z.geb_spec m (512 * hb)); [lia|]. rewrite lxor_low8 by lia.
  replace (256 * (m / 256)) with m by lia. reflexivity.
Qed.

(* --- _mul10_den *)
Lemma mul10_eq e m neg : 0 <= e -> 0 <= m ->
  mbf_mul10_den C (e, m, neg) =
    let s := m / 4 + m in
    let e1 := if s >=? 512 * hb then e + 4 else e + 3 in
    let s1 := if s >=? 512 * hb then s / 2 else s in
    (e1, (if m mod 4 =? 0 then s1 else Z.lor s1 1), neg).
Proof.
  intros He Hm. unfold mbf_mul10_den, mbf_add_den.
  destruct (Z.eqb_spec (e + 3) 0); [lia|]. destruct (Z.eqb_spec (e + 1) 0); [lia|].
  destruct (Z.gtb_spec (e + 1) (e + 3)); [lia|]. destruct (Z.eqb_spec (e + 1) (e + 3)); [lia|].
  cbn [orb andb]. cbv iota beta.
  replace (e + 3 - (e + 1)) with 2 by lia. change (Z.shiftl 1 2 - 1) with 3.
  rewrite land3, eqb_reflx. cbn [negb andb]. rewrite andb_false_r. cbv iota.
  rewrite Z.shiftr_div_pow2 by lia. change (2 ^ 2) with 4. rewrite den_upper_hb.
  rewrite Z.add_comm with (n := m / 4) at 1.
  destruct (Z.geb_spec (m + m / 4) (512 * hb)) as [Hs|Hs];
    destruct (Z.geb_spec (m / 4 + m) (512 * hb)) as [Hs'|Hs']; try lia.
  - cbv zeta. rewrite Z.shiftr_div_pow2 by lia. change (2 ^ 1) with 2.
    replace (m + m / 4) with (m / 4 + m) by lia. replace (e + 3 + 1) with (e + 4) by lia.
    destruct (Z.eqb_spec (m mod 4) 0); cbn [negb andb]; reflexivity.
  - cbv zeta. replace (m + m / 4) with (m / 4 + m) by lia.
    destruct (Z.eqb_spec (m mod 4) 0); cbn [negb andb]; reflexivity.
Qed.

Lemma mul10_spec e m neg : 0 <= e -> den_norm m ->
  exists e' m', mbf_mul10_den C (e, m, neg) = (e', m', neg) /\ den_norm m' /\
    ((e' = e + 3 /\ -4 < 4 * m' - 5 * m < 4) \/ (e' = e + 4 /\ -8 < 8 * m' - 5 * m < 8)).
Proof.
  unfold den_norm. intros He Hm. pose proof hb_pos as Hp. destruct hb_even as (Hh2 & Hh4 & Hh).
  rewrite mul10_eq by lia. cbv zeta.
  set (s := m / 4 + m).
  destruct (Z.geb_spec s (512 * hb)) as [Hs|Hs].
  - destruct (Z.eqb_spec (m mod 4) 0) as [Hz|Hz].
    + exists (e + 4), (s / 2). split; [reflexivity|]. split; [unfold s in *; lia|]. right. unfold s in *. lia.
    + exists (e + 4), (Z.lor (s / 2) 1). split; [reflexivity|]. rewrite lor_1 by (unfold s; lia).
      destruct (Z.odd (s / 2)) eqn:Eo.
      * split; [unfold s in *; lia|]. right. unfold s in *. lia.
      * assert (Hev : s / 2 = 2 * (s / 2 / 2)).
        { pose proof (Zmod_odd (s / 2)) as Ho. rewrite Eo in Ho. lia. }
        split; [unfold s in *; lia|]. right. unfold s in *. lia.
  - destruct (Z.eqb_spec (m mod 4) 0) as [Hz|Hz].
    + exists (e + 3), s. split; [reflexivity|]. split; [unfold s in *; lia|]. left. unfold s in *. lia.
    + exists (e + 3), (Z.lor s 1). split; [reflexivity|]. rewrite lor_1 by (unfold s; lia).
      destruct (Z.odd s) eqn:Eo.
      * split; [unfold s in *; lia|]. left. unfold s in *. lia.
      * assert (Hev : s = 2 * (s / 2)).
        { pose proof (Zmod_odd s) as Ho. rewrite Eo in Ho. lia. }
        split; [unfold s in *; lia|]. left. unfold s in *. lia.
Qed.

(* exact when no bit is shifted out *)
Lemma mul10_exact e m neg : 0 <= e -> den_norm m -> m mod 8 = 0 ->
  mbf_mul10_den C (e, m, neg) =
    if 5 * (m / 8) <? 256 * hb then (e + 3, 10 * (m / 8), neg) else (e + 4, 5 * (m / 8), neg).
Proof.
  unfold den_norm. intros He Hm H8. pose proof hb_pos as Hp. destruct hb_even as (Hh2 & Hh4 & Hh).
  rewrite mul10_eq by lia. cbv zeta.
  assert (H4 : m mod 4 = 0) by lia. rewrite H4. change (0 =? 0) with true. cbv iota.
  destruct (Z.geb_spec (m / 4 + m) (512 * hb)) as [Hs|Hs];
    destruct (Z.ltb_spec (5 * (m / 8)) (256 * hb)) as [Hq|Hq]; try lia.
  - f_equal. f_equal. lia.
  - f_equal. f_equal. lia.
Qed.

(* --- the long division loop of _div_den, as a structurally recursive function *)
Fixpoint dl (k : nat) (lman work rman : Z) : Z * Z :=
  match k with
  | O => (lman, work)
  | S k' => if work >? rman then dl k' (2 * lman + 1) (work - rman) (rman / 2)
            else dl k' (2 * lman) work (rman / 2)
  end.

Lemma div_loop_dl : forall (k fuel : nat) lden rden lneg rexp rneg lman lexp work rman,
  (k < fuel)%nat -> 0 <= rman < 2 ^ Z.of_nat k -> (k = O \/ 2 ^ (Z.of_nat k - 1) <= rman) ->
  dec_div_den_loop_101 fuel C lden rden lneg rexp rneg lman lexp work rman =
    Ok (fst (dl k lman work rman), lexp - Z.of_nat k, snd (dl k lman work rman), 0).
Proof.
  induction k as [|k IH]; intros fuel lden rden lneg rexp rneg lman lexp work rman Hf Hr Hlo.
  - destruct fuel as [|f]; [lia|]. cbn [dec_div_den_loop_101 dl fst snd].
    change (2 ^ Z.of_nat 0) with 1 in Hr. assert (rman = 0) by lia. subst rman.
    change (0 >? 0) with false. cbv iota. rewrite Z.sub_0_r. reflexivity.
  - destruct fuel as [|f]; [lia|]. cbn [dec_div_den_loop_101 dl].
    assert (Hk : 2 ^ Z.of_nat (S k) = 2 * 2 ^ Z.of_nat k).
    { rewrite Nat2Z.inj_succ. unfold Z.succ. rewrite pow2_split by lia. lia. }
    assert (Hp : 0 < 2 ^ Z.of_nat k) by (apply pow2_pos; lia).
    assert (Hge : 2 ^ Z.of_nat k <= rman).
    { destruct Hlo as [Hlo|Hlo]; [discriminate|]. replace (Z.of_nat (S k) - 1) with (Z.of_nat k) in Hlo by lia. exact Hlo. }
    destruct (Z.gtb_spec rman 0) as [_|]; [|lia].
    rewrite Z.shiftl_mul_pow2, Z.shiftr_div_pow2 by lia. change (2 ^ 1) with 2.
    rewrite Hk in Hr. clear Hlo Hk.
    assert (Hr2 : 0 <= rman / 2 < 2 ^ Z.of_nat k) by lia.
    assert (Hlo2 : k = O \/ 2 ^ (Z.of_nat k - 1) <= rman / 2).
    { destruct k as [|k']; [left; reflexivity | right].
      replace (Z.of_nat (S k')) with (1 + (Z.of_nat (S k') - 1)) in Hge by lia.
      rewrite pow2_split in Hge by lia. change (2 ^ 1) with 2 in Hge. lia. }
    destruct (Z.gtb_spec work rman) as [Hw|Hw]; cbn [bind]; cbv beta iota.
    + rewrite IH by (try lia; assumption). replace (lman * 2 + 1) with (2 * lman + 1) by lia.
      replace (lexp - Z.of_nat (S k)) with (lexp - 1 - Z.of_nat k) by lia. reflexivity.
    + rewrite IH by (try lia; assumption). replace (lman * 2) with (2 * lman) by lia.
      replace (lexp - Z.of_nat (S k)) with (lexp - 1 - Z.of_nat k) by lia. reflexivity.
Qed.

Lemma dl_S k l w R : dl (S k) l w R =
  if w >? R then dl k (2 * l + 1) (w - R) (R / 2) else dl k (2 * l) w (R / 2).
Proof. reflexivity. Qed.

Lemma dl_app : forall (a b : nat) l w R, 0 <= R ->
  dl (a + b) l w R = dl b (fst (dl a l w R)) (snd (dl a l w R)) (R / 2 ^ Z.of_nat a).
Proof.
  induction a as [|a IH]; intros b l w R HR.
  - cbn [dl Nat.add fst snd]. change (2 ^ Z.of_nat 0) with 1. rewrite Z.div_1_r. reflexivity.
  - cbn [dl Nat.add].
    assert (Hk : 2 ^ Z.of_nat (S a) = 2 * 2 ^ Z.of_nat a).
    { rewrite Nat2Z.inj_succ. unfold Z.succ. rewrite pow2_split by lia. lia. }
    assert (Hp : 0 < 2 ^ Z.of_nat a) by (apply pow2_pos; lia).
    assert (E : R / 2 ^ Z.of_nat (S a) = R / 2 / 2 ^ Z.of_nat a).
    { rewrite Hk, Z.div_div by lia. reflexivity. }
    rewrite E. destruct (w >? R); apply IH; lia.
Qed.

(* the exact phase: while the divisor 5 * 2^j is halved without loss *)
Lemma dl_pow2 : forall (j : nat) l w, 0 < w <= 10 * 2 ^ Z.of_nat j ->
  l * (10 * 2 ^ Z.of_nat j) + w = 5 * fst (dl (S j) l w (5 * 2 ^ Z.of_nat j)) + snd (dl (S j) l w (5 * 2 ^ Z.of_nat j))
  /\ 0 < snd (dl (S j) l w (5 * 2 ^ Z.of_nat j)) <= 5.
Proof.
  induction j as [|j IH]; intros l w Hw.
  - change (2 ^ Z.of_nat 0) with 1 in *. cbn [dl]. change (5 * 1) with 5.
    destruct (Z.gtb_spec w 5); cbn [fst snd]; lia.
  - assert (Hk : 2 ^ Z.of_nat (S j) = 2 * 2 ^ Z.of_nat j).
    { rewrite Nat2Z.inj_succ. unfold Z.succ. rewrite pow2_split by lia. lia. }
    assert (Hp : 0 < 2 ^ Z.of_nat j) by (apply pow2_pos; lia).
    rewrite Hk in *. clear Hk. rewrite (dl_S (S j)).
    assert (E : 5 * (2 * 2 ^ Z.of_nat j) / 2 = 5 * 2 ^ Z.of_nat j) by lia. rewrite E.
    destruct (Z.gtb_spec w (5 * (2 * 2 ^ Z.of_nat j))) as [Hgt|Hle].
    + destruct (IH (2 * l + 1) (w - 5 * (2 * 2 ^ Z.of_nat j)) ltac:(lia)) as [I1 I2]. split; [lia|exact I2].
    + destruct (IH (2 * l) w ltac:(lia)) as [I1 I2]. split; [lia|exact I2].
Qed.

(* dividing W by 5 * 2^j with j+3 quotient bits: the quotient is 4W/5 rounded down, minus one when exact *)
Lemma dl_ten (j : nat) W : 0 < W <= 10 * 2 ^ Z.of_nat j ->
  let q := fst (dl (S j + 2) 0 W (5 * 2 ^ Z.of_nat j)) in 5 * q < 4 * W <= 5 * q + 5.
Proof.
  intros HW. assert (Hp : 0 < 2 ^ Z.of_nat j) by (apply pow2_pos; lia).
  assert (Hk : 2 ^ Z.of_nat (S j) = 2 * 2 ^ Z.of_nat j).
  { rewrite Nat2Z.inj_succ. unfold Z.succ. rewrite pow2_split by lia. lia. }
  cbv zeta. rewrite dl_app by (clear Hk; lia). rewrite Hk. clear Hk.
  assert (E : 5 * 2 ^ Z.of_nat j / (2 * 2 ^ Z.of_nat j) = 2).
  { rewrite Z.div_mul_cancel_r by lia. reflexivity. }
  destruct (dl_pow2 j 0 W HW) as [I1 I2].
  set (l := fst (dl (S j) 0 W (5 * 2 ^ Z.of_nat j))) in *.
  set (w := snd (dl (S j) 0 W (5 * 2 ^ Z.of_nat j))) in *.
  rewrite E.
  cbn [dl]. change (2 / 2) with 1.
  destruct (Z.gtb_spec w 2) as [H2|H2].
  - destruct (Z.gtb_spec (w - 2) 1); cbn [fst]; lia.
  - destruct (Z.gtb_spec w 1); cbn [fst]; lia.
Qed.

(* --- _div10_den *)
Hypothesis Hten : mbf_denormalise C (c_ten C) = (132, 320 * hb, false).

Lemma loop102_S f lden t neg e m :
  mbf_div10_den_loop_102 (S f) C lden t neg e m =
    if m <? c_den_mask C then mbf_div10_den_loop_102 f C lden t neg (e - 1) (Z.shiftl m 1) else Ok (e, m).
Proof. reflexivity. Qed.

Lemma div10_spec e m neg : den_norm m ->
  exists e' m', mbf_div10_den C (e, m, neg) = Ok (e', m', neg) /\ den_norm m' /\
    ((e' = e - 3 /\ 5 * m' < 4 * m <= 5 * m' + 5) \/ (e' = e - 4 /\ 5 * m' < 8 * m <= 5 * m' + 10)).
Proof.
  unfold den_norm. intros Hm. pose proof hb_pos as Hp.
  pose proof (mbits_ge C HC) as Hg. pose proof (mbits_le C HC) as Hl.
  set (j := Z.to_nat (mbits C + 5)).
  assert (Hj : 2 ^ Z.of_nat j = 64 * hb).
  { unfold j, hb. rewrite Z2Nat.id by lia. replace (mbits C + 5) with (6 + (mbits C - 1)) by lia.
    rewrite pow2_split by lia. reflexivity. }
  assert (Hk : 2 ^ Z.of_nat (S j + 2) = 512 * hb /\ 2 ^ (Z.of_nat (S j + 2) - 1) = 256 * hb).
  { unfold j, hb. replace (Z.of_nat (S (Z.to_nat (mbits C + 5)) + 2)) with (mbits C + 8) by lia. split.
    - replace (mbits C + 8) with (9 + (mbits C - 1)) by lia. rewrite pow2_split by lia. reflexivity.
    - replace (mbits C + 8 - 1) with (8 + (mbits C - 1)) by lia. rewrite pow2_split by lia. reflexivity. }
  destruct Hk as [Hk1 Hk2].
  assert (Hkk : Z.of_nat (S j + 2) = mbits C + 8) by (unfold j; lia).
  assert (Hfuel : (S j + 2 < 1000)%nat) by (unfold j; lia).
  assert (Hr : 320 * hb = 5 * 2 ^ Z.of_nat j) by lia.
  assert (HW : 0 < m <= 10 * 2 ^ Z.of_nat j) by lia.
  pose proof (dl_ten j m HW) as Hq. cbv zeta in Hq. rewrite <- Hr in Hq.
  unfold mbf_div10_den. rewrite Hten. unfold dec_div_den.
  rewrite (div_loop_dl (S j + 2) 1000 _ _ _ _ _ _ _ _ _ Hfuel) by (rewrite ?Hk1, ?Hk2; lia).
  cbn [bind]. cbv beta iota.
  set (q := fst (dl (S j + 2) 0 m (320 * hb))) in *.
  rewrite Hkk, (ok_bias C HC).
  replace (e - (132 - (128 + mbits C) - 8) + 1 - (mbits C + 8)) with (e - 3) by lia.
  assert (Hneg : negb (Bool.eqb neg false) = neg) by (destruct neg; reflexivity). rewrite Hneg.
  change 1000%nat with (S 999). rewrite loop102_S, den_mask_hb.
  destruct (Z.ltb_spec q (256 * hb)) as [Hs|Hs].
  - rewrite Z.shiftl_mul_pow2 by lia. change (2 ^ 1) with 2.
    change 999%nat with (S 998). rewrite loop102_S, den_mask_hb.
    destruct (Z.ltb_spec (q * 2) (256 * hb)) as [Hs2|Hs2]; [lia|]. cbn [bind]. cbv beta iota.
    exists (e - 3 - 1), (q * 2). split; [reflexivity|]. split; [lia|]. right. lia.
  - cbn [bind]. cbv beta iota. exists (e - 3), q. split; [reflexivity|]. split; [lia|]. left. lia.
Qed.

End Den.
