(* C17: the finite facts about a (to_keyword, to_token) table pair that the round-trip proof uses, as one
   boolean check `tables_ok` (evaluated by vm_compute on each regenerated dialect table), and the lemmas that
   extract them. *)
From Coq Require Import ZArith List Bool Lia.
From PCB Require Import lib.Result lib.PyInt lib.Harness gen.Gen_tokens model.Tok model.Lister model.Lines
  proofs.Tok_tables proofs.Tok_words.
Import ListNotations.
Open Scope Z_scope.

(* a token is one byte above 126, or two bytes whose first byte is above 126 and is not a token by itself *)
Definition tok_shape (tkw : list (list Z * list Z)) (t : list Z) : bool :=
  match t with
  | [b] => 126 <? b
  | [b1; b2] => (126 <? b1) && negb (has_key [b1] tkw)
  | _ => false
  end.

Definition alpha_word (k : list Z) : bool := match k with c :: _ => is_letter c | [] => false end.

Definition entry_ok (tkw kw : list (list Z * list Z)) (p : list Z * list Z) : bool :=
  let (k, t) := p in
  tok_shape tkw t
  && implb (alpha_word k) (kw_word_ok kw k)
  && implb (list_Z_eqb t tk_REM) (list_Z_eqb k tk_KW_REM)
  && implb (list_Z_eqb t tk_WHILE) (list_Z_eqb k tk_KW_WHILE)
  && implb (list_Z_eqb t tk_ELSE) (list_Z_eqb k tk_KW_ELSE)
  && implb (lmem t tk_COMMENT) (list_Z_eqb k tk_KW_REM || list_Z_eqb k tk_KW_O_REM).

Definition assoc_is (k t : list Z) (d : list (list Z * list Z)) : bool :=
  match assoc k d with Some x => list_Z_eqb x t | None => false end.

Definition op_ok (kw : list (list Z * list Z)) (c : Z) : bool :=
  match assoc [c] kw with
  | Some t => lmem t lst_no_space_before && lmem t lst_no_space_after_token
  | None => false
  end.

Definition tables_ok (tkw kw : list (list Z * list Z)) : bool :=
  inv_ok kw tkw && inv_ok tkw kw
  && forallb (entry_ok tkw kw) kw
  && assoc_is tk_KW_REM tk_REM kw && assoc_is tk_KW_ELSE tk_ELSE kw && assoc_is tk_KW_WHILE tk_WHILE kw
  && assoc_is tk_KW_DATA tk_DATA kw && assoc_is tk_KW_O_REM tk_O_REM kw && assoc_is [43] tk_O_PLUS kw
  && forallb (op_ok kw) tok_ascii_operators.

Lemma tables_ok_advanced : tables_ok to_keyword_advanced to_token_advanced = true.
Proof. vm_compute. reflexivity. Qed.
Lemma tables_ok_pcjr : tables_ok to_keyword_pcjr to_token_pcjr = true.
Proof. vm_compute. reflexivity. Qed.
Lemma tables_ok_tandy : tables_ok to_keyword_tandy to_token_tandy = true.
Proof. vm_compute. reflexivity. Qed.

Section Extract.
Variable tkw kw : list (list Z * list Z).
Hypothesis Htab : tables_ok tkw kw = true.

Lemma assoc_is_spec k t d : assoc_is k t d = true -> assoc k d = Some t.
Proof.
  unfold assoc_is. destruct (assoc k d) as [x|]; [|discriminate]. intro H. apply list_Z_eqb_eq in H. subst.
  reflexivity.
Qed.

Ltac split_tab :=
  let H := fresh "H" in
  pose proof Htab as H; unfold tables_ok in H;
  repeat (let H1 := fresh "T" in apply andb_true_iff in H as [H H1]).

Lemma tab_kw_tkw k t : assoc k kw = Some t -> assoc t tkw = Some k.
Proof. split_tab. apply inv_ok_spec. assumption. Qed.

Lemma tab_tkw_kw t k : assoc t tkw = Some k -> assoc k kw = Some t.
Proof. split_tab. apply inv_ok_spec. assumption. Qed.

Lemma tab_entry k t : assoc k kw = Some t -> entry_ok tkw kw (k, t) = true.
Proof.
  split_tab. intro Ha. apply assoc_In in Ha.
  match goal with X : forallb (entry_ok tkw kw) kw = true |- _ => rewrite forallb_forall in X; exact (X _ Ha) end.
Qed.

Lemma tab_rem : assoc tk_KW_REM kw = Some tk_REM.
Proof. split_tab. apply assoc_is_spec. assumption. Qed.
Lemma tab_else : assoc tk_KW_ELSE kw = Some tk_ELSE.
Proof. split_tab. apply assoc_is_spec. assumption. Qed.
Lemma tab_while : assoc tk_KW_WHILE kw = Some tk_WHILE.
Proof. split_tab. apply assoc_is_spec. assumption. Qed.
Lemma tab_data : assoc tk_KW_DATA kw = Some tk_DATA.
Proof. split_tab. apply assoc_is_spec. assumption. Qed.
Lemma tab_orem : assoc tk_KW_O_REM kw = Some tk_O_REM.
Proof. split_tab. apply assoc_is_spec. assumption. Qed.
Lemma tab_plus : assoc [43] kw = Some tk_O_PLUS.
Proof. split_tab. apply assoc_is_spec. assumption. Qed.

Lemma tab_op c : mem c tok_ascii_operators = true ->
  exists t, assoc [c] kw = Some t /\ lmem t lst_no_space_before = true /\ lmem t lst_no_space_after_token = true.
Proof.
  split_tab. intro Hc. apply mem_In in Hc.
  match goal with X : forallb (op_ok kw) _ = true |- _ => rewrite forallb_forall in X; pose proof (X _ Hc) as Ho end.
  unfold op_ok in Ho. destruct (assoc [c] kw) as [t|]; [|discriminate].
  apply andb_true_iff in Ho as [H1 H2]. exists t. auto.
Qed.

(* facts of one entry *)
Lemma entry_shape k t : assoc k kw = Some t -> tok_shape tkw t = true.
Proof.
  intro Ha. pose proof (tab_entry k t Ha) as H. unfold entry_ok in H.
  repeat (apply andb_true_iff in H as [H ?]). exact H.
Qed.

Lemma entry_word k t : assoc k kw = Some t -> alpha_word k = true -> kw_word_ok kw k = true.
Proof.
  intros Ha Hk. pose proof (tab_entry k t Ha) as H. unfold entry_ok in H.
  repeat (apply andb_true_iff in H as [H ?]).
  match goal with X : implb (alpha_word k) _ = true |- _ => rewrite Hk in X; exact X end.
Qed.

Lemma entry_not_special k t : assoc k kw = Some t -> not_special_word k = true ->
  list_Z_eqb t tk_REM = false /\ list_Z_eqb t tk_WHILE = false /\ list_Z_eqb t tk_ELSE = false
  /\ lmem t tk_COMMENT = false.
Proof.
  intros Ha Hs. pose proof (tab_entry k t Ha) as H. unfold entry_ok in H.
  repeat (apply andb_true_iff in H as [H ?]).
  unfold not_special_word in Hs. repeat (apply andb_true_iff in Hs as [Hs ?]).
  repeat match goal with X : negb _ = true |- _ => apply negb_true_iff in X end.
  repeat match goal with
         | X : list_Z_eqb k ?w = false, Y : context [list_Z_eqb k ?w] |- _ => rewrite X in Y
         end.
  cbn [orb] in *.
  repeat split.
  - destruct (list_Z_eqb t tk_REM); [discriminate|reflexivity].
  - destruct (list_Z_eqb t tk_WHILE); [discriminate|reflexivity].
  - destruct (list_Z_eqb t tk_ELSE); [discriminate|reflexivity].
  - destruct (lmem t tk_COMMENT); [discriminate|reflexivity].
Qed.

End Extract.
