(* C08: digit strings of the PRINT USING model: decimal value of b'%d', thousands grouping,
   fixed-point and scientific assembly relative to the (mantissa, exponent) of the numeric layer. *)
From Coq Require Import ZArith List Bool Lia ZifyBool.
From PCB Require Import lib.Result lib.PyInt lib.Harness gen.Gen_using model.Using proofs.Using_proofs.
Import ListNotations.
Open Scope Z_scope.
Ltac Zify.zify_post_hook ::= Z.to_euclidean_division_equations.

(* ------------------------------------------------------------------ decimal value of a digit string *)
Fixpoint dval_from (acc : Z) (l : list Z) : Z :=
  match l with [] => acc | c :: r => dval_from (10 * acc + (c - cZERO)) r end.
Definition dval (l : list Z) : Z := dval_from 0 l.
Definition is_digit (c : Z) : Prop := cZERO <= c <= cZERO + 9.

Lemma dval_from_app acc a b : dval_from acc (a ++ b) = dval_from (dval_from acc a) b.
Proof. revert acc. induction a as [|c a IH]; intros acc; simpl; [reflexivity|apply IH]. Qed.

Lemma dval_from_lin acc l : dval_from acc l = acc * 10 ^ Z.of_nat (length l) + dval_from 0 l.
Proof.
  revert acc. induction l as [|c l IH]; intros acc.
  - simpl. lia.
  - cbn [dval_from length]. rewrite IH. rewrite (IH (10 * 0 + (c - cZERO))).
    rewrite Nat2Z.inj_succ, Z.pow_succ_r by lia. ring.
Qed.

Lemma dval_app a b : dval (a ++ b) = dval a * 10 ^ Z.of_nat (length b) + dval b.
Proof. unfold dval. rewrite dval_from_app, dval_from_lin. reflexivity. Qed.

Lemma dval_zeros n : dval (repeat cZERO n) = 0.
Proof.
  induction n as [|n IH]; [reflexivity|]. unfold dval in *. cbn [repeat dval_from].
  replace (10 * 0 + (cZERO - cZERO)) with 0 by lia. exact IH.
Qed.

Lemma dval_leading_zeros n l : dval (repeat cZERO n ++ l) = dval l.
Proof. rewrite dval_app, dval_zeros. lia. Qed.

Lemma dval_trailing_zeros l n : dval (l ++ repeat cZERO n) = dval l * 10 ^ Z.of_nat n.
Proof. rewrite dval_app, dval_zeros, repeat_length. lia. Qed.

(* b'%d' % n *)
Lemma digs_rev_value fuel n :
  0 <= n < 2 ^ Z.of_nat fuel -> (0 < fuel)%nat -> dval (rev (digs_rev fuel n)) = n.
Proof.
  revert n. induction fuel as [|f IH]; intros n Hn Hf; [lia|].
  cbn [digs_rev]. destruct (n <? 10) eqn:E.
  - unfold dval. cbn [rev app dval_from]. lia.
  - cbn [rev]. rewrite dval_app. cbn [length]. change (Z.of_nat 1) with 1. rewrite Z.pow_1_r.
    rewrite Nat2Z.inj_succ, Z.pow_succ_r in Hn by lia.
    assert (Hf' : (0 < f)%nat).
    { destruct f; [|lia]. change (2 ^ Z.of_nat 0) with 1 in Hn. lia. }
    rewrite IH; [|lia|exact Hf'].
    unfold dval. cbn [dval_from]. lia.
Qed.

Lemma dec_str_value n : 0 <= n -> dval (dec_str n) = n.
Proof.
  intros Hn. unfold dec_str. apply digs_rev_value; [|lia].
  destruct (Z.eq_dec n 0) as [->|Hne]; [simpl; lia|].
  rewrite Nat2Z.inj_succ, Z2Nat.id by apply Z.log2_nonneg.
  pose proof (Z.log2_spec n ltac:(lia)). lia.
Qed.

Lemma digs_rev_length fuel n k : 0 <= n < 10 ^ k -> 1 <= k -> Z.of_nat (length (digs_rev fuel n)) <= k.
Proof.
  revert n k. induction fuel as [|f IH]; intros n k Hn Hk; [simpl; lia|].
  cbn [digs_rev]. destruct (n <? 10) eqn:E; [simpl; lia|].
  cbn [length]. rewrite Nat2Z.inj_succ.
  assert (Hk2 : 2 <= k).
  { destruct (Z.eq_dec k 1) as [->|]; [simpl in Hn; lia|lia]. }
  specialize (IH (n / 10) (k - 1)).
  replace k with (Z.succ (k - 1)) in Hn by lia. rewrite Z.pow_succ_r in Hn by lia.
  assert (H1 : 0 <= n / 10 < 10 ^ (k - 1)) by lia.
  specialize (IH H1 ltac:(lia)). lia.
Qed.

Lemma dec_str_length n k : 0 <= n < 10 ^ k -> 1 <= k -> Z.of_nat (length (dec_str n)) <= k.
Proof. intros. unfold dec_str. rewrite rev_length. apply digs_rev_length; assumption. Qed.

Lemma digs_rev_nonempty fuel n : (0 < fuel)%nat -> digs_rev fuel n <> [].
Proof. destruct fuel; [lia|]. intros _. cbn [digs_rev]. destruct (n <? 10); discriminate. Qed.

Lemma dec_str_nonempty n : dec_str n <> [].
Proof.
  unfold dec_str. intros H.
  destruct (digs_rev (S (Z.to_nat (Z.log2 n))) n) as [|c l] eqn:E.
  - revert E. apply digs_rev_nonempty. lia.
  - cbn [rev] in H. destruct (rev l); discriminate.
Qed.

Lemma digs_rev_digits fuel n : 0 <= n -> Forall is_digit (digs_rev fuel n).
Proof.
  revert n. induction fuel as [|f IH]; intros n Hn; [constructor|].
  cbn [digs_rev]. destruct (n <? 10) eqn:E.
  - constructor; [unfold is_digit; lia|constructor].
  - constructor; [unfold is_digit; lia|]. apply IH. lia.
Qed.

Lemma dec_str_digits n : 0 <= n -> Forall is_digit (dec_str n).
Proof.
  intros Hn. unfold dec_str. apply Forall_forall. intros x Hx. apply in_rev in Hx.
  pose proof (digs_rev_digits (S (Z.to_nat (Z.log2 n))) n Hn) as H.
  rewrite Forall_forall in H. apply H. exact Hx.
Qed.

(* ------------------------------------------------------------------ thousands separators *)
Lemma chunks3_mult m : forall fuel l,
  length l = (3 * m)%nat -> (m <= fuel)%nat ->
  concat (chunks3 fuel l) = l /\ Forall (fun c => length c = 3%nat) (chunks3 fuel l)
  /\ length (chunks3 fuel l) = m.
Proof.
  induction m as [|m IH]; intros fuel l Hl Hf.
  - destruct l; [|simpl in Hl; lia]. destruct fuel; simpl; repeat split; constructor.
  - destruct fuel as [|fuel]; [lia|].
    destruct l as [|a [|b [|c l]]]; simpl in Hl; try lia.
    cbn [chunks3 firstn skipn].
    destruct (IH fuel l ltac:(lia) ltac:(lia)) as [H1 [H2 H3]].
    cbn [concat length]. rewrite H1, H3. repeat split; try reflexivity.
    constructor; [reflexivity|exact H2].
Qed.

Lemma join_comma_cons c cs : join_comma (c :: cs) = c ++ flat_map (fun x => cCOMMA :: x) cs.
Proof.
  revert c. induction cs as [|d cs IH]; intros c.
  - simpl. rewrite app_nil_r. reflexivity.
  - change (join_comma (c :: d :: cs)) with (c ++ cCOMMA :: join_comma (d :: cs)).
    rewrite IH. reflexivity.
Qed.

(* Float._group_thousands: a first group of one to three digits, then `,` + three digits each *)
Theorem group_thousands_spec d :
  d <> [] ->
  exists first chunks,
    d = first ++ concat chunks
    /\ (1 <= length first <= 3)%nat
    /\ Forall (fun c => length c = 3%nat) chunks
    /\ group_thousands d = first ++ flat_map (fun x => cCOMMA :: x) chunks.
Proof.
  intros Hd. unfold group_thousands.
  set (first := Nat.modulo (length d) 3).
  assert (Hfirst : (first < 3)%nat) by (apply Nat.mod_upper_bound; lia).
  assert (Hlen : exists m, length (skipn first d) = (3 * m)%nat /\ (m <= length d)%nat).
  { exists (Nat.div (length d) 3). rewrite skipn_length.
    pose proof (Nat.div_mod (length d) 3 ltac:(lia)) as H. fold first in H. lia. }
  destruct Hlen as [m [Hm Hmf]].
  destruct (chunks3_mult m (length d) (skipn first d) Hm Hmf) as [H1 [H2 H3]].
  destruct (Nat.eqb first 0) eqn:E.
  - apply Nat.eqb_eq in E. rewrite E in *. cbn [skipn] in *.
    destruct (chunks3 (length d) d) as [|c cs] eqn:Ec.
    + simpl in H1. congruence.
    + exists c, cs. rewrite join_comma_cons. inversion H2 as [|? ? Hc Hcs]; subst.
      repeat split; auto; try lia. 
  - apply Nat.eqb_neq in E.
    exists (firstn first d), (chunks3 (length d) (skipn first d)).
    rewrite join_comma_cons, H1, firstn_skipn. repeat split; auto.
    + rewrite firstn_length. assert (first <= length d)%nat by (apply Nat.mod_le; lia). lia.
    + rewrite firstn_length. lia.
Qed.

Lemma group_thousands_nil : group_thousands [] = [].
Proof. reflexivity. Qed.

(* removing the separators gives the digits back *)
Definition strip_commas (l : list Z) : list Z := filter (fun c => negb (c =? cCOMMA)) l.

Lemma strip_commas_digits l : Forall is_digit l -> strip_commas l = l.
Proof.
  induction 1 as [|c l Hc _ IH]; [reflexivity|]. unfold strip_commas in *. cbn [filter].
  unfold is_digit in Hc. destruct (c =? cCOMMA) eqn:E; [unfold cCOMMA, cZERO in *; lia|].
  cbn [negb]. rewrite IH. reflexivity.
Qed.

Lemma strip_commas_app a b : strip_commas (a ++ b) = strip_commas a ++ strip_commas b.
Proof. apply filter_app. Qed.

Lemma group_thousands_strip d : Forall is_digit d -> strip_commas (group_thousands d) = d.
Proof.
  intros Hd. destruct d as [|c d']; [reflexivity|].
  destruct (group_thousands_spec (c :: d') ltac:(discriminate)) as [first [chunks [H1 [H2 [H3 H4]]]]].
  rewrite H4. rewrite H1 in Hd. apply Forall_app in Hd as [Hf Hc].
  rewrite strip_commas_app, (strip_commas_digits _ Hf). rewrite H1. f_equal.
  clear H1 H3 H4. induction chunks as [|x xs IH]; [reflexivity|].
  cbn [flat_map concat] in *. apply Forall_app in Hc as [Hx Hxs].
  change (strip_commas ((cCOMMA :: x) ++ flat_map (fun x0 => cCOMMA :: x0) xs))
    with (strip_commas (cCOMMA :: x ++ flat_map (fun x0 => cCOMMA :: x0) xs)).
  unfold strip_commas at 1. cbn [filter]. rewrite Z.eqb_refl. cbn [negb].
  fold (strip_commas (x ++ flat_map (fun x0 => cCOMMA :: x0) xs)).
  rewrite strip_commas_app, (strip_commas_digits _ Hx), IH by exact Hxs. reflexivity.
Qed.

(* ------------------------------------------------------------------ fixed-point assembly *)
Definition grp (g : bool) (l : list Z) : list Z := if g then group_thousands l else l.

Lemma decimal_notation_cases ds e fd g :
  (Z.of_nat (length ds) <= e + 1 /\ decimal_notation ds e fd g
                   = grp g (ds ++ zeros (e + 1 - Z.of_nat (length ds))) ++ (if fd then [cDOT] else []))
  \/ (0 < e + 1 < Z.of_nat (length ds) /\ decimal_notation ds e fd g
                         = grp g (firstn (Z.to_nat (e + 1)) ds) ++ cDOT :: skipn (Z.to_nat (e + 1)) ds)
  \/ (e + 1 <= 0 /\ decimal_notation ds e fd g = cDOT :: zeros (- (e + 1)) ++ ds).
Proof.
  unfold decimal_notation, grp.
  destruct (e + 1 >=? Z.of_nat (length ds)) eqn:E1; [left; split; [lia|reflexivity]|].
  destruct (e + 1 >? 0) eqn:E2; [right; left; split; [lia|reflexivity]|].
  right; right. split; [lia|reflexivity].
Qed.

Lemma zeros_length n : 0 <= n -> Z.of_nat (length (zeros n)) = n.
Proof. intros H. unfold zeros. rewrite repeat_length. lia. Qed.

Lemma zeros_digits n : Forall is_digit (zeros n).
Proof. unfold zeros. apply Forall_forall. intros x Hx. apply repeat_spec in Hx. subst. unfold is_digit. lia. Qed.

(* the text of a non-zero number in a fixed-point field: integer digits (grouped if the field has a comma),
   the point if the field has one, exactly n_dec decimals; the number shown is mantissa * 10^exponent *)
Theorem to_str_fixed_digits v n_dec fd g m e :
  nv_zero v = false -> fixed_pair v n_dec = Ok (m, e) -> 0 <= n_dec -> - e <= n_dec ->
  exists ip fp,
    to_str_fixed v n_dec fd g
      = Ok (grp g ip ++ (if (0 <? n_dec) || fd then [cDOT] else []) ++ fp)
    /\ Z.of_nat (length fp) = n_dec
    /\ Forall is_digit (ip ++ fp)
    /\ dval (ip ++ fp) = Z.abs m * 10 ^ (n_dec + e).
Proof.
  intros Hz Hp Hnd He. unfold to_str_fixed. rewrite Hz, Hp. cbn [bind fst snd].
  set (ds := dec_str (Z.abs m)).
  set (len := Z.of_nat (length ds)).
  assert (Hlen : 1 <= len).
  { unfold len. pose proof (dec_str_nonempty (Z.abs m)). fold ds in H. destruct ds; [contradiction|].
    cbn [length]. lia. }
  assert (Hdig : Forall is_digit ds) by (apply dec_str_digits; lia).
  assert (Hval : dval ds = Z.abs m) by (apply dec_str_value; lia).
  set (nb := len - - e).
  set (total := n_dec + nb).
  assert (Htot : len <= total) by (unfold total, nb; lia).
  set (digitstr := ljust ds (Z.to_nat total) cZERO).
  assert (Hds : digitstr = ds ++ zeros (n_dec + e)).
  { unfold digitstr, ljust, zeros. f_equal. f_equal. unfold total, nb, len. lia. }
  assert (HlenD : Z.of_nat (length digitstr) = total).
  { rewrite Hds, app_length, Nat2Z.inj_add, zeros_length by lia. fold len. unfold total, nb. lia. }
  assert (HdigD : Forall is_digit digitstr).
  { rewrite Hds. apply Forall_app. split; [exact Hdig|apply zeros_digits]. }
  assert (HvalD : dval digitstr = Z.abs m * 10 ^ (n_dec + e)).
  { rewrite Hds. unfold zeros. rewrite dval_trailing_zeros, Hval, Z2Nat.id by lia. reflexivity. }
  destruct (decimal_notation_cases digitstr (nb - 1) fd g) as [[C1 HH]|[[C2 HH]|[C3 HH]]];
    rewrite HH; clear HH; rewrite ?HlenD in *; replace (nb - 1 + 1) with nb in * by lia.
  - (* no decimals *)
    assert (n_dec = 0) by (unfold total in C1; lia). subst n_dec.
    exists digitstr, []. replace (nb - total) with 0 by (unfold total; lia).
    change (zeros 0) with (@nil Z). rewrite !app_nil_r. cbn [orb Z.ltb Z.compare].
    repeat split; auto.
  - exists (firstn (Z.to_nat nb) digitstr), (skipn (Z.to_nat nb) digitstr).
    assert (0 < n_dec) by (unfold total in C2; lia).
    replace (0 <? n_dec) with true by lia. cbn [orb app].
    rewrite firstn_skipn. repeat split; auto.
    rewrite skipn_length. unfold total in *. lia.
  - exists [], (zeros (- nb) ++ digitstr).
    assert (0 < n_dec) by (unfold total, nb in *; lia).
    replace (0 <? n_dec) with true by lia. cbn [orb app].
    assert (Hg : grp g [] = []) by (destruct g; reflexivity). rewrite Hg. cbn [app].
    repeat split.
    + rewrite app_length, Nat2Z.inj_add, zeros_length, HlenD by lia. unfold total. lia.
    + apply Forall_app. split; [apply zeros_digits|exact HdigD].
    + unfold zeros. rewrite dval_leading_zeros. exact HvalD.
Qed.

(* which (mantissa, exponent) a fixed-point field shows *)
Lemma fixed_pair_spec v n_dec q :
  fixed_pair v n_dec = Ok q ->
  exists m0 e0, to_decimal v (nv_digits v) = Ok (m0, e0) /\
    let n_work := nv_digits v - (- e0 - n_dec) in
    (- e0 <= n_dec /\ q = (m0, e0))
    \/ (n_dec < - e0 /\ 0 < n_work /\ to_decimal v n_work = Ok q)
    \/ (n_dec < - e0 /\ n_work <= 0
        /\ q = (b2z ((n_work =? 0) && (10 ^ nv_digits v <=? 2 * Z.abs m0)), - n_dec)).
Proof.
  unfold fixed_pair. destruct (to_decimal v (nv_digits v)) as [[m0 e0]| | |]; cbn [bind fst snd]; try discriminate.
  intros H. exists m0, e0. split; [reflexivity|]. cbv zeta.
  unfold using_n_work, using_round_small in H.
  destruct (- e0 >? n_dec) eqn:E1.
  - destruct (nv_digits v - (- e0 - n_dec) >? 0) eqn:E2.
    + right. left. repeat split; [lia|lia|exact H].
    + right. right. repeat split; [lia|lia|]. injection H as <-. rewrite Z.geb_leb. reflexivity.
  - left. split; [lia|]. congruence.
Qed.

Lemma to_str_fixed_zero v n_dec fd g :
  nv_zero v = true ->
  to_str_fixed v n_dec fd g
  = Ok (if fd then cDOT :: zeros n_dec else if n_dec =? 0 then [cZERO] else zeros n_dec).
Proof. intros H. unfold to_str_fixed. rewrite H. destruct fd; [reflexivity|]. destruct (n_dec =? 0); reflexivity. Qed.

(* ------------------------------------------------------------------ scientific assembly *)
Lemma sci_pair_spec v w m0 e0 :
  to_decimal v w = Ok (m0, e0) -> 0 < w -> Z.abs m0 <= 10 ^ w ->
  exists m e, sci_pair v w = Ok (m, e + w) /\ Z.abs m < 10 ^ w
    /\ m * 10 ^ (e - e0) = m0 /\ e0 <= e.
Proof.
  intros Hd Hw Hm. unfold sci_pair. rewrite Hd. cbn [bind fst snd]. unfold using_sci_carry.
  replace (Z.gtb w 0) with true by lia. cbn [andb].
  destruct (Z.geb (Z.abs m0) (10 ^ w)) eqn:E.
  - exists (m0 / 10), (e0 + 1). split; [reflexivity|].
    assert (Hp : 10 ^ w = 10 * 10 ^ (w - 1)).
    { replace w with (Z.succ (w - 1)) at 1 by lia. apply Z.pow_succ_r. lia. }
    assert (Hp1 : 0 < 10 ^ (w - 1)) by (apply Z.pow_pos_nonneg; lia).
    replace (e0 + 1 - e0) with 1 by lia. rewrite Z.pow_1_r.
    assert (Z.abs m0 = 10 ^ w) by lia.
    destruct (Z.abs_eq_or_opp m0) as [Ha|Ha]; rewrite Ha in H; repeat split; try lia.
  - exists m0, e0. split; [reflexivity|]. replace (e0 - e0) with 0 by lia.
    repeat split; lia.
Qed.

Lemma scientific_notation_eq v ds x dtd fd :
  scientific_notation v ds x dtd fd =
  (let n := Z.to_nat dtd in
   if Z.of_nat (length ds) >? dtd then firstn n ds ++ cDOT :: skipn n ds
   else if (Z.of_nat (length ds) =? dtd) && fd then firstn n ds ++ [cDOT] else firstn n ds)
  ++ exp_sign v :: (if x - dtd + 1 <? 0 then cMINUS else cPLUS) :: get_digits (Z.abs (x - dtd + 1)) 2.
Proof. reflexivity. Qed.

Lemma get_digits_spec m k :
  Z.abs m < 10 ^ k -> 1 <= k ->
  Z.of_nat (length (get_digits m k)) = k /\ dval (get_digits m k) = Z.abs m
  /\ Forall is_digit (get_digits m k).
Proof.
  intros Hm Hk. unfold get_digits, rjust.
  pose proof (dec_str_length (Z.abs m) k ltac:(lia) Hk) as Hl.
  repeat split.
  - rewrite app_length, repeat_length. lia.
  - rewrite dval_leading_zeros. apply dec_str_value. lia.
  - apply Forall_app. split.
    + apply Forall_forall. intros x Hx. apply repeat_spec in Hx. subst. unfold is_digit. lia.
    + apply dec_str_digits. lia.
Qed.

Lemma get_digits_min m k :
  (Z.to_nat k <= length (get_digits m k))%nat /\ dval (get_digits m k) = Z.abs m
  /\ Forall is_digit (get_digits m k).
Proof.
  unfold get_digits, rjust. repeat split.
  - rewrite app_length, repeat_length. lia.
  - rewrite dval_leading_zeros. apply dec_str_value. lia.
  - apply Forall_app. split.
    + apply Forall_forall. intros x Hx. apply repeat_spec in Hx. subst. unfold is_digit. lia.
    + apply dec_str_digits. lia.
Qed.

(* the text of a non-zero number in a ^^^^ field: db digits, the point, da digits, E or D, the sign of
   the exponent and at least two exponent digits; digits * 10^(exponent - da) = mantissa * 10^(radix - w) *)
Theorem to_str_scientific_digits v db da fd m radix :
  nv_zero v = false -> 0 <= db -> 0 <= da ->
  let req := db + da in
  let w := Z.min (nv_digits v) req in
  sci_pair v w = Ok (m, radix) -> (0 < w -> Z.abs m < 10 ^ w) ->
  exists ip fp dd,
    to_str_scientific v db da fd
      = Ok (ip ++ (if (0 <? da) || fd then [cDOT] else []) ++ fp
            ++ exp_sign v :: (if radix - db <? 0 then cMINUS else cPLUS) :: dd)
    /\ Z.of_nat (length ip) = db /\ Z.of_nat (length fp) = da
    /\ Forall is_digit (ip ++ fp)
    /\ (0 < w -> dval (ip ++ fp) = Z.abs m * 10 ^ (req - w))
    /\ (2 <= length dd)%nat /\ Forall is_digit dd /\ dval dd = Z.abs (radix - db).
Proof.
  intros Hz Hdb Hda req w Hp Hm. unfold to_str_scientific. rewrite Hz.
  change (using_work_digits (nv_digits v) (db + da)) with w. rewrite Hp. cbn [bind fst snd].
  fold req.
  set (digitstr := firstn (Z.to_nat req) (ljust (get_digits m w) (Z.to_nat req) cZERO)).
  assert (Hwreq : w <= req) by (unfold w; lia).
  assert (Hw0 : 0 <= w) by (unfold w, nv_digits, req; destruct (nv_dbl v); unfold using_digits_double, using_digits_single; lia).
  assert (HD : Z.of_nat (length digitstr) = req /\ Forall is_digit digitstr
               /\ (0 < w -> dval digitstr = Z.abs m * 10 ^ (req - w))).
  { destruct (Z.eq_dec w 0) as [Hw|Hw].
    - (* no digit positions *)
      assert (req = 0).
      { unfold w, nv_digits in Hw. destruct (nv_dbl v); unfold using_digits_double, using_digits_single in Hw; lia. }
      unfold digitstr. rewrite H. cbn [Z.to_nat firstn length]. repeat split; [constructor|lia].
    - destruct (get_digits_spec m w (Hm ltac:(lia)) ltac:(lia)) as [G1 [G2 G3]].
      assert (Hl : ljust (get_digits m w) (Z.to_nat req) cZERO = get_digits m w ++ zeros (req - w)).
      { unfold ljust, zeros. f_equal. f_equal. lia. }
      unfold digitstr. rewrite Hl, firstn_all2 by (rewrite app_length; unfold zeros; rewrite repeat_length; lia).
      repeat split.
      + rewrite app_length, Nat2Z.inj_add, zeros_length by lia. lia.
      + apply Forall_app. split; [exact G3|apply zeros_digits].
      + intros _. unfold zeros. rewrite dval_trailing_zeros, G2, Z2Nat.id by lia. reflexivity. }
  destruct HD as [HlenD [HdigD HvalD]].
  rewrite scientific_notation_eq. cbv zeta.
  replace (radix - 1 - db + 1) with (radix - db) by lia.
  destruct (get_digits_min (radix - db) 2) as [X1 [X2 X3]].
  exists (firstn (Z.to_nat db) digitstr), (skipn (Z.to_nat db) digitstr), (get_digits (Z.abs (radix - db)) 2).
  rewrite firstn_skipn, HlenD.
  assert (Hfl : Z.of_nat (length (firstn (Z.to_nat db) digitstr)) = db).
  { rewrite firstn_length. unfold req in HlenD. lia. }
  assert (Hsl : Z.of_nat (length (skipn (Z.to_nat db) digitstr)) = da).
  { rewrite skipn_length. unfold req in HlenD. lia. }
  destruct (get_digits_min (Z.abs (radix - db)) 2) as [Y1 [Y2 Y3]].
  rewrite Z.abs_involutive in Y2.
  split; [|repeat split; auto; try lia].
  f_equal.
  destruct (req >? db) eqn:E1.
  - replace (0 <? da) with true by (unfold req in E1; lia). cbn [orb].
    rewrite <- app_assoc. reflexivity.
  - assert (Hda0 : da = 0) by (unfold req in E1; lia).
    replace (req =? db) with true by (unfold req; lia).
    assert (Hsk : skipn (Z.to_nat db) digitstr = []).
    { apply length_zero_iff_nil. lia. }
    rewrite Hsk. replace (0 <? da) with false by lia. cbn [orb andb].
    destruct fd; [rewrite <- app_assoc|]; reflexivity.
Qed.

Lemma to_str_scientific_zero v db da fd :
  nv_zero v = true ->
  to_str_scientific v db da fd
  = Ok (if fd then cDOT :: zeros da ++ [exp_sign v; cPLUS; cZERO; cZERO]
        else if nv_dbl v then [cZERO; cD; cPLUS; cZERO; cZERO] else [cE; cPLUS; cZERO; cZERO]).
Proof. intros H. unfold to_str_scientific. rewrite H. destruct fd; [reflexivity|]. destruct (nv_dbl v); reflexivity. Qed.
