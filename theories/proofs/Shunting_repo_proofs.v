(* C18: obligations about the operator tables REGENERATED from /repo (gen/Gen_prec.v), discharged by
   computation.  Editing a precedence, a callback, OPERATORS or COMBINABLE in parser/operators.py breaks
   gen_tables_ok (and nothing in proofs/Shunting_proofs.v, which is generic in the tables). *)
From Coq Require Import ZArith List Bool Lia.
From PCB Require Import lib.Result lib.PyInt gen.Gen_prec model.Shunting proofs.Shunting_proofs.
Import ListNotations.
Open Scope Z_scope.

(* every operator of the property statement, in every spelling, is found in UNARY / BINARY / PRECEDENCE /
   OPERATORS with the callback and the precedence level of the statement:
   ^ 13 > unary - + 12 > * / 11 > \ 10 > MOD 9 > + - 8 > relational 7 > NOT 6 > AND 5 > OR 4 > XOR 3 > EQV 2 > IMP 1 *)
Lemma gen_tables_ok : tables_ok gen_tables gen_utok gen_bspell.
Proof.
  split; [intros [] | intros [] []]; vm_compute; repeat split; reflexivity.
Qed.

Lemma gen_ops_closed : ops_closed gen_tables = true.
Proof. vm_compute. reflexivity. Qed.

Lemma memZ_combinable n : memZ n prec_combinable = true ->
  n = prec_tk_O_LT \/ n = prec_tk_O_EQ \/ n = prec_tk_O_GT.
Proof.
  unfold memZ, prec_combinable. cbn [existsb]. rewrite !orb_true_iff, !Z.eqb_eq.
  unfold prec_tk_O_LT, prec_tk_O_EQ, prec_tk_O_GT. intuition.
Qed.

Section Repo.
Variable V : Type.
Variable unop : uop -> V -> res V.
Variable binop : bop -> V -> V -> res V.
Notation sy_parse := (sy_parse V unop binop gen_tables).

(* a binary-only operator where an operand is expected is a Syntax error ("illegal unary") *)
Lemma leading_relational k rest : In k [prec_tk_O_GT; prec_tk_O_EQ; prec_tk_O_LT] ->
  sy_parse (TOp k :: rest) = Err prec_err_STX.
Proof.
  intros H. destruct rest as [|[r|n| | | | | ] rest];
    try (cbn [In] in H; destruct H as [<- | [<- | [<- | []]]]; reflexivity).
  destruct (memZ n prec_combinable) eqn:C.
  - apply memZ_combinable in C.
    cbn [In] in H. destruct H as [<- | [<- | [<- | []]]]; destruct C as [-> | [-> | ->]]; reflexivity.
  - unfold Shunting.sy_parse. cbn [run].
    replace (memZ n (t_combinable gen_tables)) with false by (symmetry; exact C).
    cbn [In] in H. destruct H as [<- | [<- | [<- | []]]]; reflexivity.
Qed.

Lemma leading_binary o a rest : o <> Add -> o <> Sub ->
  sy_parse (btoks V gen_bspell a o ++ rest) = Err prec_err_STX.
Proof.
  intros NA NS. unfold btoks.
  destruct o; try congruence; cbn [gen_bspell];
    try (destruct (a _)); cbn [spelling_toks map app];
    try (apply leading_relational; cbn [In]; tauto);
    destruct rest as [|[] rest]; reflexivity.
Qed.

(* == << >> (and any other pair of combinable tokens that is not an operator) are Syntax errors *)
Lemma illegal_combination v k rest : In k [prec_tk_O_EQ; prec_tk_O_LT; prec_tk_O_GT] ->
  sy_parse (TUnit (Ok v) :: TOp k :: TOp k :: rest) = Err prec_err_STX.
Proof.
  intros H. cbn [In] in H. destruct H as [<- | [<- | [<- | []]]]; reflexivity.
Qed.

End Repo.
