(* MBFArith_values.v - from the byte level (Float.iadd/isub/imul/idiv on buffers of one class) to the
   values.py entry points on BASIC values: promotion to the widest type, the FloatErrorHandler in both
   modes, and the statements of C04 / C05 on the exact value function value_scaled. *)
From Coq Require Import ZArith List Bool Lia ZifyBool.
From PCB Require Import lib.Result lib.PyInt lib.Harness lib.MBFPrims gen.Gen_mbf model.MBF model.MBFArith
  proofs.MBF_base proofs.MBF_compare proofs.MBF_convert proofs.MBF_round proofs.MBF_values
  proofs.MBFArith_norm proofs.MBFArith_mul proofs.MBFArith_add proofs.MBFArith_div proofs.MBFArith_addbound.
Import ListNotations.
Open Scope Z_scope.
Ltac Zify.zify_post_hook ::= Z.to_euclidean_division_equations.

(* ------------------------------------------------------------------------------------------------ *)
(* signs and zeros *)

Lemma sval_zero_iff C b : fmt_ok C -> buf_ok C b -> (f_sval C b = 0 <-> f_zero b = true).
Proof.
  intros HC Hb. split.
  - intros H0. destruct (f_zero b) eqn:E; [reflexivity|].
    pose proof (f_mag_pos C b HC Hb E). rewrite f_sval_mag in H0. destruct (f_neg C b); lia.
  - intros E. unfold f_sval. rewrite E. reflexivity.
Qed.

Lemma sval_sign C b : fmt_ok C -> buf_ok C b -> f_zero b = false ->
  (f_sval C b <? 0) = f_neg C b /\ Z.abs (f_sval C b) = f_mag C b.
Proof.
  intros HC Hb E. pose proof (f_mag_pos C b HC Hb E). rewrite f_sval_mag.
  destruct (f_neg C b); split; lia.
Qed.

Lemma sval_abs C b : fmt_ok C -> buf_ok C b -> Z.abs (f_sval C b) = f_mag C b.
Proof.
  intros HC Hb. pose proof (f_mag_nonneg C b HC Hb). rewrite f_sval_mag. destruct (f_neg C b); lia.
Qed.

(* ------------------------------------------------------------------------------------------------ *)
(* the signed form of mag_post *)

Definition sval_post (C : fconst) (strict : bool) (w den : Z) (N Dn : Z) (r : res (list Z)) : Prop :=
  (match r return Prop with
   | Host x => x = 5 /\ (2 ^ mbits C - 1) * 2 ^ 255 * Dn < Z.abs N
   | Ok b => buf_ok C b /\
             (if f_zero b then Z.abs N < 2 ^ mbits C * Dn
              else err_ok strict (den * Z.abs (f_sval C b * Dn - N)) (w * 2 ^ f_exp b * Dn))
   | _ => False
   end) /\ (2 ^ mbits C * 2 ^ 255 * Dn <= Z.abs N -> r = Host 5).

Lemma mag_to_sval C strict w den Nm Dn (neg : bool) N r : 0 <= Nm -> N = (if neg then - Nm else Nm) ->
  mag_post C strict w den Nm Dn neg r -> sval_post C strict w den N Dn r.
Proof.
  intros HNm HN [H1 H2].
  assert (Habs : Z.abs N = Nm) by (destruct neg; lia).
  split; [|rewrite Habs; exact H2].
  destruct r as [b|e|x|]; try exact H1.
  - destruct H1 as [Hok Hrest]. split; [exact Hok|].
    destruct (f_zero b); [rewrite Habs; exact Hrest|].
    destruct Hrest as [Hn Herr]. rewrite f_sval_mag, Hn.
    replace (Z.abs ((if neg then - f_mag C b else f_mag C b) * Dn - N)) with (Z.abs (f_mag C b * Dn - Nm))
      by (destruct neg; lia).
    exact Herr.
  - rewrite Habs. exact H1.
Qed.

(* ------------------------------------------------------------------------------------------------ *)
(* promotion of the two operands to the widest type *)

Lemma cls_ok t : fmt_ok2 (cls t).
Proof. unfold cls. destruct (t =? 8); [exact Double_ok2 | exact Single_ok2]. Qed.

Lemma wide_sym x y : wide x y = wide y x.
Proof. destruct x, y; reflexivity. Qed.

Lemma promote_spec x y : value_ok x -> value_ok y -> is_num x = true -> is_num y = true ->
  let t := widest x y in
  exists xa ya, buf_ok (cls t) xa /\ buf_ok (cls t) ya /\
    f_sval (cls t) xa * scale_of t = value_scaled x /\ f_sval (cls t) ya * scale_of t = value_scaled y /\
    (v_tag x = t -> xa = v_bytes x) /\ (v_tag y = t -> ya = v_bytes y) /\
    forall op hard, v_arith op hard x y = rmap (mkf t) (op hard (cls t) xa ya).
Proof.
  intros Hx Hy Nx Ny t. unfold widest in t. unfold v_arith.
  destruct (wide x y) eqn:Ew; subst t.
  - destruct (to_double_exact x Hx Nx) as (dx & Ex & Okx & Vx).
    destruct (to_double_exact y Hy Ny) as (dy & Ey & Oky & Vy).
    exists dx, dy. change (cls 8) with Double_consts. change (scale_of 8) with 1. rewrite !Z.mul_1_r.
    split; [exact Okx|]. split; [exact Oky|]. split; [exact Vx|]. split; [exact Vy|].
    split; [|split].
    + intros Ht. destruct x; cbn in Ht; try discriminate; cbn in Ex |- *; congruence.
    + intros Ht. destruct y; cbn in Ht; try discriminate; cbn in Ey |- *; congruence.
    + intros op hard. rewrite Ex, Ey. reflexivity.
  - assert (Sx : exists b, x = VInt b \/ x = VSng b) by (destruct x, y; try discriminate; eauto).
    assert (Sy : exists b, y = VInt b \/ y = VSng b) by (destruct x, y; try discriminate; eauto).
    destruct (to_single_exact true x Hx Sx) as (sx & Ex & Okx & Vx).
    destruct (to_single_exact true y Hy Sy) as (sy & Ey & Oky & Vy).
    exists sx, sy. change (cls 4) with Single_consts. change (scale_of 4) with (2 ^ 32).
    split; [exact Okx|]. split; [exact Oky|]. split; [exact Vx|]. split; [exact Vy|].
    split; [|split].
    + intros Ht. destruct x; cbn in Ht; try discriminate; cbn in Ex |- *; congruence.
    + intros Ht. destruct y; cbn in Ht; try discriminate; cbn in Ey |- *; congruence.
    + intros op hard. rewrite Ex, Ey. reflexivity.
Qed.

(* ------------------------------------------------------------------------------------------------ *)
(* from the byte level to val_post *)

Lemma err_conv strict x y : err_ok strict x y <-> err_le strict x y.
Proof. destruct strict; reflexivity. Qed.

Lemma err_ok_mul strict x y c : 0 < c -> err_ok strict x y -> err_ok strict (x * c) (y * c).
Proof. intros Hc. destruct strict; cbn [err_ok]; nia. Qed.

Lemma f_max_ok C neg : fmt_ok C -> buf_ok C (f_max C neg).
Proof.
  intros HC. pose proof (ok_size C HC) as Hs. pose proof (mbits_ge C HC).
  assert (HP : 0 < 2 ^ (mbits C - 1)) by (apply pow2_pos; lia).
  unfold f_max. destruct neg; [rewrite (ok_neg_max C HC) | rewrite (ok_pos_max C HC)]; split.
  - rewrite zlen_app, zlen_le_encode. change (zlen [255]) with 1. lia.
  - apply bytes_ok_app. split; [apply le_encode_bytes | repeat constructor; unfold byte_ok; lia].
  - rewrite zlen_app, zlen_le_encode. change (zlen [255]) with 1. lia.
  - apply bytes_ok_app. split; [apply le_encode_bytes | repeat constructor; unfold byte_ok; lia].
Qed.

Lemma tag_cases t : t = 4 \/ t = 8 -> 
  mbits (cls t) = fbits t /\ 2 ^ (311 - fbits t) = 2 ^ 255 * scale_of t /\
  2 ^ fbits t * scale_of t = min_scaled /\ 2 ^ 311 = 2 ^ fbits t * 2 ^ 255 * scale_of t /\ 0 < scale_of t.
Proof. intros [-> | ->]; repeat split; reflexivity. Qed.

Lemma val_of_sval t strict w den Nb Dn r payload N D :
  t = 4 \/ t = 8 -> 0 < Dn -> 0 < den -> 0 <= w ->
  sval_post (cls t) strict w den Nb Dn r ->
  N = Nb * (scale_of t * scale_of t) -> D = Dn * scale_of t ->
  (r = Host 5 -> payload = f_max (cls t) (N <? 0)) ->
  (forall x, r = Host x -> x = 5) ->
  val_post t strict w den N D (rmap (mkf t) (arith_safe true r payload)) (rmap (mkf t) (arith_safe false r payload)).
Proof.
  intros Ht HDn Hden Hw [H1 H2] HN HD Hpay Hhost.
  destruct (tag_cases t Ht) as (Hm & Hmax & Hmin & H311 & Hsc).
  set (sc := scale_of t) in *.
  assert (HabsN : Z.abs N = Z.abs Nb * (sc * sc)) by (rewrite HN, Z.abs_mul; f_equal; nia).
  split.
  - destruct r as [b|e|x|]; cbn [arith_safe rmap bind]; try contradiction.
    + destruct H1 as [Hok Hrest]. split; [reflexivity|].
      assert (Htag : v_tag (mkf t b) = t) by (unfold mkf; destruct Ht as [-> | ->]; reflexivity).
      split; [exact Htag|].
      assert (Hvok : value_ok (mkf t b)) by (unfold mkf, cls in *; destruct Ht as [-> | ->]; exact Hok).
      split; [exact Hvok|].
      assert (Hz : is_zero_value (mkf t b) = f_zero b) by (unfold mkf; destruct Ht as [-> | ->]; reflexivity).
      rewrite Hz. destruct (f_zero b).
      * rewrite HabsN, HD, <- Hmin. rewrite Hm in Hrest. nia.
      * assert (Hvs : value_scaled (mkf t b) = f_sval (cls t) b * sc).
        { unfold mkf, cls, sc, scale_of. destruct Ht as [-> | ->]; cbn [Z.eqb Pos.eqb value_scaled]; lia. }
        assert (Hulp : ulp_scaled (mkf t b) = 2 ^ f_exp b * sc).
        { unfold mkf, sc, scale_of. destruct Ht as [-> | ->]; cbn [Z.eqb Pos.eqb ulp_scaled]; [|lia].
          pose proof (f_exp_bound Single_consts b Single_ok Hok). apply pow2_split; lia. }
        rewrite Hvs, Hulp, HN, HD. apply err_conv.
        apply (err_ok_mul strict _ _ (sc * sc)) in Hrest; [|nia].
        eapply err_ok_le; [| |exact Hrest].
        -- replace (f_sval (cls t) b * sc * (Dn * sc) - Nb * (sc * sc)) with ((f_sval (cls t) b * Dn - Nb) * (sc * sc)) by lia.
           rewrite Z.abs_mul. rewrite (Z.abs_eq (sc * sc)) by nia. lia.
        -- lia.
    + destruct H1 as [Ex Hlt]. subst x. cbn [arith_safe rmap bind]. split; [reflexivity|].
      split.
      * unfold max_scaled. rewrite Hmax, HabsN, HD. rewrite Hm in Hlt. fold sc. nia.
      * rewrite (Hpay eq_refl). reflexivity.
  - intros Hbig. rewrite H2; [reflexivity|].
    rewrite Hm. rewrite HabsN, HD, H311 in Hbig. fold sc in Hbig.
    assert (2 ^ fbits t * 2 ^ 255 * Dn * (sc * sc) <= Z.abs Nb * (sc * sc)) by nia.
    nia.
Qed.

(* ------------------------------------------------------------------------------------------------ *)
(* C04 for multiplication *)

Lemma D184 t : t = 4 \/ t = 8 -> 2 ^ c_bias (cls t) * scale_of t = 2 ^ 184.
Proof. intros [-> | ->]; reflexivity. Qed.

Lemma widest_cases x y : widest x y = 4 \/ widest x y = 8.
Proof. unfold widest. destruct (wide x y); auto. Qed.

Lemma host_of_sval C strict w den N Dn r : sval_post C strict w den N Dn r -> forall x, r = Host x -> x = 5.
Proof. intros [H _] x ->. apply H. Qed.

Lemma mul_sign (na nb : bool) ma mb :
  (if na then - ma else ma) * (if nb then - mb else mb) = if negb (Bool.eqb na nb) then - (ma * mb) else ma * mb.
Proof. destruct na, nb; cbn [Bool.eqb negb]; lia. Qed.

Theorem imul_sval C a b : fmt_ok2 C -> buf_ok C a -> buf_ok C b ->
  sval_post C true 1 1 (f_sval C a * f_sval C b) (2 ^ c_bias C) (mbf_imul C a b).
Proof.
  intros HC Ha Hb. pose proof HC as [HC1 _].
  apply (mag_to_sval C true 1 1 (f_mag C a * f_mag C b) _ (negb (Bool.eqb (f_neg C a) (f_neg C b)))).
  - pose proof (f_mag_nonneg C a HC1 Ha). pose proof (f_mag_nonneg C b HC1 Hb). nia.
  - rewrite !f_sval_mag. apply mul_sign.
  - apply imul_post; assumption.
Qed.

Theorem v_mul_post x y : value_ok x -> value_ok y -> is_num x = true -> is_num y = true ->
  val_post (widest x y) true 1 1 (value_scaled x * value_scaled y) (2 ^ 184) (v_mul true x y) (v_mul false x y).
Proof.
  intros Hx Hy Nx Ny.
  destruct (promote_spec x y Hx Hy Nx Ny) as (xa & ya & Hxa & Hya & Vx & Vy & _ & _ & Harith). cbv zeta in *.
  set (t := widest x y) in *. pose proof (widest_cases x y) as Ht. fold t in Ht.
  assert (Hm : forall hard, v_mul hard x y = rmap (mkf t) (f_mul hard (cls t) xa ya)).
  { intros hard. unfold v_mul, v_num2. rewrite <- Harith. destruct x, y; try discriminate; reflexivity. }
  rewrite !Hm. unfold f_mul.
  pose proof (cls_ok t) as HC2. pose proof HC2 as [HC _].
  pose proof (imul_sval (cls t) xa ya HC2 Hxa Hya) as Hs.
  assert (HDn : 0 < 2 ^ c_bias (cls t)).
  { apply pow2_pos. rewrite (ok_bias _ HC). pose proof (mbits_ge _ HC). lia. }
  assert (HN : value_scaled x * value_scaled y
               = f_sval (cls t) xa * f_sval (cls t) ya * (scale_of t * scale_of t)) by (rewrite <- Vx, <- Vy; lia).
  assert (HD : 2 ^ 184 = 2 ^ c_bias (cls t) * scale_of t) by (symmetry; apply D184; exact Ht).
  apply (val_of_sval t true 1 1 _ _ _ _ _ _ Ht HDn ltac:(lia) ltac:(lia) Hs HN HD).
  - intros Er. f_equal. rewrite !is_negative_spec by assumption.
    destruct Hs as [H1 _]. rewrite Er in H1. destruct H1 as [_ Hlt].
    pose proof (mbits_ge _ HC).
    assert (Hpos : 0 < (2 ^ mbits (cls t) - 1) * 2 ^ 255 * 2 ^ c_bias (cls t)).
    { assert (2 <= 2 ^ mbits (cls t)) by (change 2 with (2 ^ 1) at 1; apply pow2_le; lia).
      assert (0 < 2 ^ 255) by (apply pow2_pos; lia). nia. }
    assert (Hnz : f_sval (cls t) xa * f_sval (cls t) ya <> 0) by lia.
    assert (Hza : f_zero xa = false).
    { destruct (f_zero xa) eqn:E; [|reflexivity]. apply (sval_zero_iff _ _ HC Hxa) in E. rewrite E in Hnz. lia. }
    assert (Hzb : f_zero ya = false).
    { destruct (f_zero ya) eqn:E; [|reflexivity]. apply (sval_zero_iff _ _ HC Hya) in E. rewrite E in Hnz. lia. }
    destruct (sval_sign _ _ HC Hxa Hza) as [Sa _]. destruct (sval_sign _ _ HC Hya Hzb) as [Sb _].
    rewrite <- Sa, <- Sb. rewrite HN.
    destruct (tag_cases t Ht) as (_ & _ & _ & _ & Hsc).
    set (sa := f_sval (cls t) xa) in *. set (sb := f_sval (cls t) ya) in *. set (sc := scale_of t) in *.
    clear - Hsc Hnz.
    destruct (Z.ltb_spec sa 0), (Z.ltb_spec sb 0), (Z.ltb_spec (sa * sb * (sc * sc)) 0); cbn; try reflexivity; exfalso; nia.
  - apply (host_of_sval _ _ _ _ _ _ _ Hs).
Qed.

(* ------------------------------------------------------------------------------------------------ *)
(* C05: commutativity, bit for bit including the raised error and the soft-handled result *)

Lemma f_add_comm hard C a b : fmt_ok C -> buf_ok C a -> buf_ok C b -> f_add hard C a b = f_add hard C b a.
Proof.
  intros HC Ha Hb. unfold f_add, add_den_neg. rewrite !iadd_norm3.
  destruct (add_den_comm C a b HC Ha Hb) as [E|[E1 E2]]; cbv zeta in *.
  - rewrite E. destruct (mbf_add_den C (mbf_denormalise C b) (mbf_denormalise C a)) as [[e m] n].
    unfold norm3. rewrite (normalise_buf_indep C a b) by (try assumption; apply Ha || apply Hb). reflexivity.
  - rewrite E1, E2. reflexivity.
Qed.

Lemma f_mul_comm hard C a b : fmt_ok C -> buf_ok C a -> buf_ok C b -> f_mul hard C a b = f_mul hard C b a.
Proof.
  intros HC Ha Hb. unfold f_mul. rewrite (imul_comm C a b) by assumption.
  replace (Bool.eqb (mbf_is_negative C b) (mbf_is_negative C a))
    with (Bool.eqb (mbf_is_negative C a) (mbf_is_negative C b))
    by (destruct (mbf_is_negative C a), (mbf_is_negative C b); reflexivity).
  reflexivity.
Qed.

Lemma v_arith_comm op hard x y : value_ok x -> value_ok y -> is_num x = true -> is_num y = true ->
  (forall C a b, fmt_ok C -> buf_ok C a -> buf_ok C b -> op hard C a b = op hard C b a) ->
  v_arith op hard x y = v_arith op hard y x.
Proof.
  intros Hx Hy Nx Ny Hop. unfold v_arith. rewrite (wide_sym y x).
  destruct (wide x y) eqn:Ew.
  - destruct (to_double_exact x Hx Nx) as (dx & Ex & Okx & _).
    destruct (to_double_exact y Hy Ny) as (dy & Ey & Oky & _).
    rewrite Ex, Ey. cbn [bind v_bytes]. rewrite (Hop Double_consts dx dy Double_ok Okx Oky). reflexivity.
  - assert (Sx : exists b, x = VInt b \/ x = VSng b) by (destruct x, y; try discriminate; eauto).
    assert (Sy : exists b, y = VInt b \/ y = VSng b) by (destruct x, y; try discriminate; eauto).
    destruct (to_single_exact true x Hx Sx) as (sx & Ex & Okx & _).
    destruct (to_single_exact true y Hy Sy) as (sy & Ey & Oky & _).
    rewrite Ex, Ey. cbn [bind v_bytes]. rewrite (Hop Single_consts sx sy Single_ok Okx Oky). reflexivity.
Qed.

Theorem v_add_comm hard x y : value_ok x -> value_ok y -> v_add hard x y = v_add hard y x.
Proof.
  intros Hx Hy. destruct x as [a|a|a|a], y as [b|b|b|b]; try reflexivity;
    apply v_arith_comm; try assumption; try reflexivity; intros; apply f_add_comm; assumption.
Qed.

Theorem v_mul_comm hard x y : value_ok x -> value_ok y -> v_mul hard x y = v_mul hard y x.
Proof.
  intros Hx Hy. destruct x as [a|a|a|a], y as [b|b|b|b]; try reflexivity;
    apply v_arith_comm; try assumption; try reflexivity; intros; apply f_mul_comm; assumption.
Qed.

(* ------------------------------------------------------------------------------------------------ *)
(* C05: neutral elements, x - x *)

Lemma v_num2_arith op hard x y : is_num x = true -> is_num y = true -> v_num2 op hard x y = v_arith op hard x y.
Proof. destruct x, y; try discriminate; reflexivity. Qed.
Lemma v_add_arith hard x y : is_num x = true -> is_num y = true -> v_add hard x y = v_arith f_add hard x y.
Proof. destruct x, y; try discriminate; reflexivity. Qed.

Lemma zeros_cls t : t = 4 \/ t = 8 -> value_scaled (mkf t (zeros (c_size (cls t)))) = 0 /\ v_tag (mkf t (zeros (c_size (cls t)))) = t.
Proof. intros [-> | ->]; split; reflexivity. Qed.

Lemma mkf_scaled t b : t = 4 \/ t = 8 -> value_scaled (mkf t b) = f_sval (cls t) b * scale_of t /\ v_tag (mkf t b) = t.
Proof. intros [-> | ->]; split; try reflexivity; cbn; lia. Qed.

Lemma mkf_bytes t x : v_tag x = t -> t = 4 \/ t = 8 -> mkf t (v_bytes x) = x.
Proof. intros Hx [-> | ->]; destruct x; try discriminate; reflexivity. Qed.

(* the result of an operation that returns its operand xa, or the canonical zero if xa is a zero *)
Lemma same_or_zero t x xa (b : bool) : t = 4 \/ t = 8 -> value_ok x -> buf_ok (cls t) xa ->
  f_sval (cls t) xa * scale_of t = value_scaled x -> (v_tag x = t -> xa = v_bytes x) ->
  let r := mkf t (if f_zero xa then zeros (c_size (cls t)) else xa) in
  value_scaled r = value_scaled x /\ v_tag r = t /\ (v_tag x = t -> canonical x = true -> r = x).
Proof.
  intros Ht Hx Hxa Vx Hsame. cbv zeta. pose proof (cls_ok t) as [HC _].
  destruct (f_zero xa) eqn:Ez.
  - destruct (zeros_cls t Ht) as [Z1 Z2]. split; [|split; [exact Z2|]].
    + rewrite Z1. apply (sval_zero_iff _ _ HC Hxa) in Ez. rewrite <- Vx, Ez. lia.
    + intros Hxt Hcan. specialize (Hsame Hxt). subst xa.
      assert (E : v_bytes x = zeros (c_size (cls t))).
      { destruct Ht as [-> | ->]; destruct x as [v|v|v|v]; try discriminate; cbn [v_bytes canonical] in *;
          rewrite Ez in Hcan; cbn [negb orb] in Hcan; apply list_Z_eqb_eq in Hcan; rewrite Hcan;
          f_equal; apply Hx. }
      rewrite <- E. apply mkf_bytes; assumption.
  - destruct (mkf_scaled t xa Ht) as [M1 M2]. split; [|split; [exact M2|]].
    + rewrite M1. exact Vx.
    + intros Hxt _. rewrite (Hsame Hxt). apply mkf_bytes; assumption.
Qed.

Lemma widest_left x z : is_num x = true -> is_num z = true -> v_tag z <= v_tag x -> v_tag x <> 2 -> widest x z = v_tag x.
Proof. destruct x, z; cbn; try discriminate; lia. Qed.

Theorem v_add_zero hard x z : value_ok x -> value_ok z -> is_num x = true -> is_num z = true ->
  value_scaled z = 0 ->
  exists r, v_add hard x z = Ok r /\ v_add hard z x = Ok r /\
    value_scaled r = value_scaled x /\ v_tag r = widest x z /\
    (v_tag z <= v_tag x -> v_tag x <> 2 -> canonical x = true -> r = x).
Proof.
  intros Hx Hz Nx Nz Vz0.
  destruct (promote_spec x z Hx Hz Nx Nz) as (xa & za & Hxa & Hza & Vx & Vz & Sx & _ & Harith). cbv zeta in *.
  set (t := widest x z) in *. pose proof (widest_cases x z) as Ht. fold t in Ht.
  pose proof (cls_ok t) as [HC _]. destruct (tag_cases t Ht) as (_ & _ & _ & _ & Hsc).
  assert (Hzz : f_zero za = true).
  { apply (sval_zero_iff _ _ HC Hza). rewrite Vz0 in Vz. nia. }
  destruct (iadd_zero (cls t) xa za HC Hxa Hza Hzz) as [E1 E2].
  destruct (same_or_zero t x xa true Ht Hx Hxa Vx Sx) as (R1 & R2 & R3). cbv zeta in *.
  exists (mkf t (if f_zero xa then zeros (c_size (cls t)) else xa)).
  split; [|split; [|split; [exact R1|split; [exact R2|]]]].
  - rewrite v_add_arith, Harith by assumption. unfold f_add. rewrite E1. reflexivity.
  - rewrite v_add_comm by assumption. rewrite v_add_arith, Harith by assumption. unfold f_add. rewrite E1. reflexivity.
  - intros H1 H2 H3. apply R3; [|exact H3]. symmetry. apply widest_left; assumption.
Qed.

Lemma one_unique C b : fmt_ok C -> buf_ok C b -> f_sval C b = 2 ^ c_bias C -> b = c_one C.
Proof.
  intros HC Hb Hv. pose proof (mbits_ge C HC) as Hg.
  assert (Hbias : c_bias C = 128 + mbits C) by apply (ok_bias C HC).
  assert (Hone_ok : buf_ok C (c_one C)).
  { rewrite one_encode by assumption. apply f_encode_ok; [assumption | unfold byte_ok; lia |].
    assert (0 < 2 ^ (mbits C - 1)) by (apply pow2_pos; lia). rewrite (pow2_pred (mbits C)) by lia. lia. }
  assert (Hone_v : f_sval C (c_one C) = 2 ^ c_bias C).
  { rewrite one_encode by assumption. rewrite f_encode_sval; [| assumption | lia |].
    - rewrite Hbias. replace (128 + mbits C) with ((mbits C - 1) + 129) by lia. rewrite pow2_split by lia. lia.
    - assert (0 < 2 ^ (mbits C - 1)) by (apply pow2_pos; lia). rewrite (pow2_pred (mbits C)) by lia. lia. }
  pose proof (mbf_eq_spec C b (c_one C) HC Hb Hone_ok) as He. rewrite Hv, Hone_v, Z.eqb_refl in He.
  unfold mbf_eq in He. rewrite is_zero_spec in He.
  destruct (f_zero b) eqn:Ez.
  - apply (sval_zero_iff C b HC Hb) in Ez. assert (0 < 2 ^ c_bias C) by (apply pow2_pos; lia). lia.
  - apply list_Z_eqb_eq. exact He.
Qed.

Theorem v_mul_one hard x o : value_ok x -> value_ok o -> is_num x = true -> is_num o = true ->
  value_scaled o = 2 ^ 184 ->
  exists r, v_mul hard x o = Ok r /\ v_mul hard o x = Ok r /\
    value_scaled r = value_scaled x /\ v_tag r = widest x o /\
    (v_tag o <= v_tag x -> v_tag x <> 2 -> canonical x = true -> r = x).
Proof.
  intros Hx Ho Nx No Vo1.
  destruct (promote_spec x o Hx Ho Nx No) as (xa & oa & Hxa & Hoa & Vx & Vo & Sx & _ & Harith). cbv zeta in *.
  set (t := widest x o) in *. pose proof (widest_cases x o) as Ht. fold t in Ht.
  pose proof (cls_ok t) as HC2. pose proof HC2 as [HC _]. destruct (tag_cases t Ht) as (_ & _ & _ & _ & Hsc).
  assert (Eo : oa = c_one (cls t)).
  { apply one_unique; try assumption. rewrite Vo1, <- (D184 t Ht) in Vo. nia. }
  subst oa. destruct (imul_one (cls t) xa HC2 Hxa) as [E1 E2].
  destruct (same_or_zero t x xa true Ht Hx Hxa Vx Sx) as (R1 & R2 & R3). cbv zeta in *.
  exists (mkf t (if f_zero xa then zeros (c_size (cls t)) else xa)).
  split; [|split; [|split; [exact R1|split; [exact R2|]]]].
  - unfold v_mul. rewrite v_num2_arith, Harith by assumption. unfold f_mul. rewrite E1. reflexivity.
  - rewrite v_mul_comm by assumption. unfold v_mul. rewrite v_num2_arith, Harith by assumption.
    unfold f_mul. rewrite E1. reflexivity.
  - intros H1 H2 H3. apply R3; [|exact H3]. symmetry. apply widest_left; assumption.
Qed.

Theorem v_div_one hard x o : value_ok x -> value_ok o -> is_num x = true -> is_num o = true ->
  value_scaled o = 2 ^ 184 ->
  exists r, v_div hard x o = Ok r /\ value_scaled r = value_scaled x /\ v_tag r = widest x o /\
    (v_tag o <= v_tag x -> v_tag x <> 2 -> r = x).
Proof.
  intros Hx Ho Nx No Vo1.
  destruct (promote_spec x o Hx Ho Nx No) as (xa & oa & Hxa & Hoa & Vx & Vo & Sx & _ & Harith). cbv zeta in *.
  set (t := widest x o) in *. pose proof (widest_cases x o) as Ht. fold t in Ht.
  pose proof (cls_ok t) as [HC _]. destruct (tag_cases t Ht) as (_ & _ & _ & _ & Hsc).
  assert (Eo : oa = c_one (cls t)).
  { apply one_unique; try assumption. rewrite Vo1, <- (D184 t Ht) in Vo. nia. }
  subst oa. pose proof (idiv_one (cls t) xa HC Hxa) as E1.
  destruct (mkf_scaled t xa Ht) as [M1 M2].
  exists (mkf t xa). split; [|split; [|split]].
  - unfold v_div. rewrite v_num2_arith, Harith by assumption. unfold f_div. rewrite E1. reflexivity.
  - rewrite M1. exact Vx.
  - exact M2.
  - intros H1 H2. assert (Hxt : v_tag x = t) by (symmetry; apply widest_left; assumption).
    rewrite (Sx Hxt). apply mkf_bytes; assumption.
Qed.

Theorem v_sub_self hard x : value_ok x -> is_num x = true ->
  exists r, v_sub hard x x = Ok r /\ value_scaled r = 0 /\ v_tag r = widest x x.
Proof.
  intros Hx Nx. unfold v_sub. rewrite v_num2_arith by assumption. unfold v_arith, widest.
  destruct (wide x x) eqn:Ew.
  - destruct (to_double_exact x Hx Nx) as (dx & Ex & Okx & _). rewrite Ex. cbn [bind v_bytes].
    unfold f_sub. rewrite (isub_self Double_consts dx Double_ok Okx). cbn [arith_safe rmap bind].
    eexists. split; [reflexivity|]. split; reflexivity.
  - assert (Sx : exists b, x = VInt b \/ x = VSng b) by (destruct x; try discriminate; eauto).
    destruct (to_single_exact true x Hx Sx) as (sx & Ex & Okx & _). rewrite Ex. cbn [bind v_bytes].
    unfold f_sub. rewrite (isub_self Single_consts sx Single_ok Okx). cbn [arith_safe rmap bind].
    eexists. split; [reflexivity|]. split; reflexivity.
Qed.

(* ------------------------------------------------------------------------------------------------ *)
(* C05: negation, absolute value, sign *)

(* changing the sign byte m of a buffer lo ++ [m; e] to m' with the same low 7 bits *)
Lemma sign_byte_change C lo m m' e : fmt_ok C -> buf_ok C (lo ++ [m; e]) -> byte_ok m' -> m' mod 128 = m mod 128 ->
  let b := lo ++ [m; e] in let b' := lo ++ [m'; e] in
  buf_ok C b' /\ f_exp b' = f_exp b /\ f_man C b' = f_man C b /\
  f_neg C b = (128 <=? m) /\ f_neg C b' = (128 <=? m').
Proof.
  intros HC Hb Hm' Hmod. cbv zeta. pose proof (mbits_ge C HC) as Hg.
  destruct Hb as [Hlen Hbytes]. apply bytes_ok_app in Hbytes as [Hlo Hme].
  inversion Hme as [|? ? Hm He']; subst. inversion He' as [|? ? He _]; subst.
  rewrite zlen_app in Hlen. change (zlen [m; e]) with 2 in Hlen.
  assert (Hok' : buf_ok C (lo ++ [m'; e])).
  { split; [rewrite zlen_app; change (zlen [m'; e]) with 2; lia|].
    apply bytes_ok_app. split; [assumption|]. unfold bytes_ok.
    constructor; [exact Hm'|]. constructor; [exact He|]. constructor. }
  pose proof (ok_size C HC) as Hs.
  assert (H256 : 256 ^ zlen lo = 2 ^ (mbits C - 8)).
  { rewrite pow256 by lia. f_equal. unfold mbits. lia. }
  set (Q := 2 ^ (mbits C - 8)) in *. assert (HQ : 0 < Q) by (apply pow2_pos; lia).
  assert (HP : 2 ^ (mbits C - 1) = 128 * Q).
  { unfold Q. replace (mbits C - 1) with (7 + (mbits C - 8)) by lia. rewrite pow2_split by lia. reflexivity. }
  assert (Hraw : forall x, f_raw (lo ++ [x; e]) = le_decode lo + Q * x).
  { intros x. unfold f_raw. rewrite removelast_2, le_decode_app, H256. cbn [le_decode]. lia. }
  pose proof (le_decode_bound lo Hlo) as Hl. rewrite H256 in Hl.
  split; [exact Hok'|]. split; [unfold f_exp; rewrite !py_nth_m1; reflexivity|].
  unfold f_man, f_neg. rewrite !Hraw, HP. unfold byte_ok in *.
  split; [|split].
  - f_equal.
    assert (E : forall x, 0 <= x < 256 -> (le_decode lo + Q * x) mod (128 * Q) = le_decode lo + Q * (x mod 128)).
    { intros x Hx. symmetry. apply (Z.mod_unique_pos _ _ (x / 128)); [|nia]. nia. }
    rewrite !E by lia. rewrite Hmod. reflexivity.
  - apply eq_true_iff_eq. rewrite !Z.leb_le. nia.
  - apply eq_true_iff_eq. rewrite !Z.leb_le. nia.
Qed.

Lemma ineg_spec C b : fmt_ok C -> buf_ok C b ->
  exists b', mbf_ineg C b = Ok b' /\ buf_ok C b' /\ f_exp b' = f_exp b /\ f_man C b' = f_man C b /\
    f_neg C b' = negb (f_neg C b) /\ mbf_ineg C b' = Ok b.
Proof.
  intros HC Hb. destruct (buf_split C b HC Hb) as (lo & m & e & -> & Hlen & Hlo & Hm & He).
  assert (Hx : forall x, byte_ok x -> mbf_ineg C (lo ++ [x; e]) = Ok (lo ++ [Z.lxor x 128; e]) /\ byte_ok (Z.lxor x 128) /\
                         Z.lxor x 128 mod 128 = x mod 128 /\ Z.lxor (Z.lxor x 128) 128 = x /\
                         (128 <=? Z.lxor x 128) = negb (128 <=? x)).
  { intros x Hxb. unfold mbf_ineg. change (- 2) with (-2). rewrite py_nth_m2.
    rewrite byte_lxor128 by assumption. unfold byte_ok in *.
    assert (Hb' : 0 <= (if x <? 128 then x + 128 else x - 128) < 256) by (destruct (Z.ltb_spec x 128); lia).
    unfold set_byte. destruct (Z.leb_spec 0 (if x <? 128 then x + 128 else x - 128)); [|lia].
    destruct (Z.ltb_spec (if x <? 128 then x + 128 else x - 128) 256); [|lia]. cbn [andb bind].
    rewrite list_set_m2. split; [reflexivity|]. split; [exact Hb'|].
    rewrite byte_lxor128 by (unfold byte_ok; exact Hb').
    destruct (Z.ltb_spec x 128).
    - destruct (Z.ltb_spec (x + 128) 128); [lia|]. repeat split; lia.
    - destruct (Z.ltb_spec (x - 128) 128); [|lia]. repeat split; lia. }
  destruct (Hx m Hm) as (E1 & Hb1 & Hmod & Hinv & Hflip).
  destruct (sign_byte_change C lo m (Z.lxor m 128) e HC Hb Hb1 Hmod) as (Hok' & He' & Hman' & Hn & Hn').
  cbv zeta in *.
  exists (lo ++ [Z.lxor m 128; e]). split; [exact E1|]. split; [exact Hok'|]. split; [exact He'|].
  split; [exact Hman'|]. split; [rewrite Hn', Hn; exact Hflip|].
  destruct (Hx (Z.lxor m 128) Hb1) as (E2 & _). rewrite E2, Hinv. reflexivity.
Qed.

Lemma iabs_spec C b : fmt_ok C -> buf_ok C b ->
  exists b', mbf_iabs C b = Ok b' /\ buf_ok C b' /\ f_exp b' = f_exp b /\ f_man C b' = f_man C b /\
    f_neg C b' = false /\ (if f_neg C b then mbf_ineg C b = Ok b' else b' = b).
Proof.
  intros HC Hb. destruct (buf_split C b HC Hb) as (lo & m & e & -> & Hlen & Hlo & Hm & He).
  unfold mbf_iabs. change (- 2) with (-2). rewrite py_nth_m2, land127.
  unfold byte_ok in Hm. assert (Hb' : 0 <= m mod 128 < 256) by lia.
  unfold set_byte. destruct (Z.leb_spec 0 (m mod 128)); [|lia]. destruct (Z.ltb_spec (m mod 128) 256); [|lia].
  cbn [andb bind]. rewrite list_set_m2.
  destruct (sign_byte_change C lo m (m mod 128) e HC Hb ltac:(unfold byte_ok; lia) ltac:(lia)) as (Hok' & He' & Hman' & Hn & Hn').
  cbv zeta in *. exists (lo ++ [m mod 128; e]). split; [reflexivity|]. split; [exact Hok'|]. split; [exact He'|].
  split; [exact Hman'|]. split; [rewrite Hn'; lia|].
  rewrite Hn. destruct (Z.leb_spec 128 m) as [Hge|Hlt].
  - unfold mbf_ineg. change (- 2) with (-2). rewrite py_nth_m2. rewrite byte_lxor128 by (unfold byte_ok; lia).
    destruct (Z.ltb_spec m 128); [lia|]. unfold set_byte.
    destruct (Z.leb_spec 0 (m - 128)); [|lia]. destruct (Z.ltb_spec (m - 128) 256); [|lia]. cbn [andb bind].
    rewrite list_set_m2. replace (m mod 128) with (m - 128) by lia. reflexivity.
  - rewrite Z.mod_small by lia. reflexivity.
Qed.

Lemma sval_fields C a b : f_exp a = f_exp b -> f_man C a = f_man C b -> f_neg C a = f_neg C b ->
  f_sval C a = f_sval C b.
Proof. intros E1 E2 E3. unfold f_sval, f_zero. rewrite E1, E2, E3. reflexivity. Qed.

Lemma sval_negated C a b : f_exp a = f_exp b -> f_man C a = f_man C b -> f_neg C a = negb (f_neg C b) ->
  f_sval C a = - f_sval C b.
Proof. intros E1 E2 E3. unfold f_sval, f_zero. rewrite E1, E2, E3. destruct (f_exp b =? 0), (f_neg C b); cbn [negb]; lia. Qed.

(* values.neg / abs_ on the float obtained by to_float *)
Lemma v_to_float_spec x : value_ok x -> is_num x = true ->
  exists t b, (t = 4 \/ t = 8) /\ v_to_float x = Ok (mkf t b) /\ buf_ok (cls t) b /\
    f_sval (cls t) b * scale_of t = value_scaled x /\ t = Z.max 4 (v_tag x) /\ (v_tag x <> 2 -> mkf t b = x).
Proof.
  intros Hx Nx. destruct x as [b|b|b|s]; try discriminate.
  - destruct (to_single_exact true (VInt b) Hx ltac:(eauto)) as (s & Es & Oks & Vs).
    exists 4, s. split; [auto|]. split; [exact Es|]. split; [exact Oks|]. split; [exact Vs|]. split; [reflexivity|].
    intros H. exfalso. apply H. reflexivity.
  - exists 4, b. split; [auto|]. split; [reflexivity|]. split; [exact Hx|]. split; [reflexivity|]. split; [reflexivity|]. reflexivity.
  - exists 8, b. split; [auto|]. split; [reflexivity|]. split; [exact Hx|].
    split; [change (cls 8) with Double_consts; change (scale_of 8) with 1; cbn [value_scaled]; lia|]. split; [reflexivity|]. reflexivity.
Qed.

Lemma v_unary_float op t b : t = 4 \/ t = 8 -> v_unary op (mkf t b) = rmap (mkf t) (op (cls t) b).
Proof. intros [-> | ->]; reflexivity. Qed.

Lemma v_unary_num op x t b : is_num x = true -> v_to_float x = Ok (mkf t b) -> t = 4 \/ t = 8 ->
  v_unary op x = rmap (mkf t) (op (cls t) b).
Proof.
  intros Nx E Ht. unfold v_unary. destruct x as [c|c|c|c]; try discriminate; rewrite E; cbn [bind];
    destruct Ht as [-> | ->]; reflexivity.
Qed.

Theorem v_neg_spec x : value_ok x -> is_num x = true ->
  exists r, v_neg x = Ok r /\ value_scaled r = - value_scaled x /\ v_tag r = Z.max 4 (v_tag x) /\
    exists r2, v_neg r = Ok r2 /\ value_scaled r2 = value_scaled x /\ v_tag r2 = v_tag r /\ (v_tag x <> 2 -> r2 = x).
Proof.
  intros Hx Nx. destruct (v_to_float_spec x Hx Nx) as (t & b & Ht & Ef & Hb & Vb & Htag & Hsame).
  pose proof (cls_ok t) as [HC _].
  destruct (ineg_spec (cls t) b HC Hb) as (b' & E1 & Hok' & He & Hm & Hn & E2).
  destruct (mkf_scaled t b' Ht) as [M1 M2]. destruct (mkf_scaled t b Ht) as [M3 M4].
  exists (mkf t b'). unfold v_neg. rewrite (v_unary_num _ x t b Nx Ef Ht), E1. cbn [rmap bind].
  split; [reflexivity|]. split.
  { rewrite M1, <- Vb. rewrite (sval_negated (cls t) b' b He Hm Hn). lia. }
  split; [rewrite M2; exact Htag|].
  exists (mkf t b). rewrite (v_unary_float _ t b' Ht), E2. cbn [rmap bind].
  split; [reflexivity|]. split; [rewrite M3; exact Vb|]. split; [rewrite M2, M4; reflexivity|]. exact Hsame.
Qed.

Theorem v_abs_spec x : value_ok x -> is_num x = true ->
  exists r, v_abs x = Ok r /\ value_scaled r = Z.abs (value_scaled x) /\ v_tag r = Z.max 4 (v_tag x) /\
    (v_tag x <> 2 -> r = x \/ v_neg x = Ok r).
Proof.
  intros Hx Nx. destruct (v_to_float_spec x Hx Nx) as (t & b & Ht & Ef & Hb & Vb & Htag & Hsame).
  pose proof (cls_ok t) as [HC _]. destruct (tag_cases t Ht) as (_ & _ & _ & _ & Hsc).
  destruct (iabs_spec (cls t) b HC Hb) as (b' & E1 & Hok' & He & Hm & Hn & Hcase).
  destruct (mkf_scaled t b' Ht) as [M1 M2].
  exists (mkf t b'). unfold v_abs. rewrite (v_unary_num _ x t b Nx Ef Ht), E1. cbn [rmap bind].
  split; [reflexivity|]. split.
  { rewrite M1, <- Vb. rewrite Z.abs_mul, (Z.abs_eq (scale_of t)) by lia. f_equal.
    rewrite (sval_abs _ _ HC Hb). rewrite f_sval_mag, Hn. unfold f_mag, f_zero. rewrite He, Hm. reflexivity. }
  split; [rewrite M2; exact Htag|].
  intros Hnt. specialize (Hsame Hnt). destruct (f_neg (cls t) b).
  - right. unfold v_neg. rewrite (v_unary_num _ x t b Nx Ef Ht), Hcase. reflexivity.
  - left. rewrite Hcase. exact Hsame.
Qed.

Lemma i_from_int_small s : -1 <= s <= 1 -> i_from_int s false = Ok (i_encode s).
Proof. intros H. assert (s = -1 \/ s = 0 \/ s = 1) as [-> | [-> | ->]] by lia; reflexivity. Qed.

Lemma mbf_sign_spec C b : fmt_ok C -> buf_ok C b -> mbf_sign C b = Z.sgn (f_sval C b).
Proof.
  intros HC Hb. unfold mbf_sign. fold (f_exp b). fold (f_zero b).
  destruct (f_zero b) eqn:Ez.
  - apply (sval_zero_iff C b HC Hb) in Ez. rewrite Ez. reflexivity.
  - pose proof (f_mag_pos C b HC Hb Ez) as Hp. rewrite f_sval_mag.
    assert (Hn : negb (Z.land (py_nth 0 b (- 2)) 128 =? 0) = f_neg C b).
    { rewrite <- is_negative_spec by assumption. unfold mbf_is_negative.
      destruct (buf_split C b HC Hb) as (lo & m & e & -> & _ & _ & Hm & _). change (- 2) with (-2).
      rewrite py_nth_m2, byte_land128 by assumption. destruct (Z.ltb_spec m 128), (Z.geb_spec m 128); try lia; reflexivity. }
    rewrite Hn. destruct (f_neg C b); [rewrite Z.sgn_neg by lia | rewrite Z.sgn_pos by lia]; reflexivity.
Qed.

Lemma int_sign_spec b : zlen b = 2 -> bytes_ok b -> int_sign b = Z.sgn (i_val b).
Proof.
  intros Hl Hb. destruct (int_buf b Hl Hb) as (a0 & a1 & -> & H0 & H1). rewrite i_val_2.
  unfold int_sign. change (py_nth 0 [a0; a1] (- 1)) with a1. rewrite byte_land128 by assumption.
  unfold byte_ok in *. cbn [list_Z_eqb].
  destruct (Z.ltb_spec a1 128); cbn [Z.eqb negb].
  - destruct (Z.ltb_spec (a0 + 256 * a1) 32768); [|lia].
    destruct (Z.eqb_spec a0 0), (Z.eqb_spec a1 0); cbn [andb]; try (rewrite Z.sgn_pos by lia; reflexivity).
    subst. reflexivity.
  - destruct (Z.ltb_spec (a0 + 256 * a1) 32768); [lia|]. rewrite Z.sgn_neg by lia. reflexivity.
Qed.

Theorem v_sgn_spec x : value_ok x -> is_num x = true ->
  v_sgn x = Ok (VInt (i_encode (Z.sgn (value_scaled x)))).
Proof.
  intros Hx Nx. destruct x as [b|b|b|s]; try discriminate; cbn [v_sgn value_scaled].
  - destruct Hx as [Hl Hb]. rewrite (int_sign_spec b Hl Hb).
    rewrite Z.sgn_mul. change (Z.sgn (2 ^ 184)) with 1. rewrite Z.mul_1_r.
    rewrite i_from_int_small by (destruct (i_val b); cbn; lia). reflexivity.
  - rewrite (mbf_sign_spec Single_consts b Single_ok Hx).
    rewrite Z.sgn_mul. change (Z.sgn (2 ^ 32)) with 1. rewrite Z.mul_1_r.
    rewrite i_from_int_small by (destruct (f_sval Single_consts b); cbn; lia). reflexivity.
  - rewrite (mbf_sign_spec Double_consts b Double_ok Hx).
    rewrite i_from_int_small by (destruct (f_sval Double_consts b); cbn; lia). reflexivity.
Qed.

(* ------------------------------------------------------------------------------------------------ *)
(* C05: the result type is the widest operand type (integers count as single), and the operation is
   the one of that class applied to the exactly promoted operands *)

Theorem v_result_type (which : Z) hard x y r : value_ok x -> value_ok y -> is_num x = true -> is_num y = true ->
  (if which =? 0 then v_add hard x y else if which =? 1 then v_sub hard x y
   else if which =? 2 then v_mul hard x y else v_div hard x y) = Ok r ->
  v_tag r = widest x y.
Proof.
  intros Hx Hy Nx Ny Hr.
  destruct (promote_spec x y Hx Hy Nx Ny) as (xa & ya & _ & _ & _ & _ & _ & _ & Harith). cbv zeta in *.
  pose proof (widest_cases x y) as Ht.
  assert (Hgen : forall op, v_arith op hard x y = Ok r -> v_tag r = widest x y).
  { intros op E. rewrite Harith in E. destruct (op hard (cls (widest x y)) xa ya); cbn in E; try discriminate.
    injection E as <-. apply mkf_scaled. exact Ht. }
  destruct (which =? 0); [rewrite v_add_arith in Hr by assumption; eapply Hgen; eassumption|].
  destruct (which =? 1); [unfold v_sub in Hr; rewrite v_num2_arith in Hr by assumption; eapply Hgen; eassumption|].
  destruct (which =? 2); [unfold v_mul in Hr; rewrite v_num2_arith in Hr by assumption; eapply Hgen; eassumption|].
  unfold v_div in Hr; rewrite v_num2_arith in Hr by assumption; eapply Hgen; eassumption.
Qed.

(* ------------------------------------------------------------------------------------------------ *)
(* the payload of Overflow / Division by zero is the largest number of the sign *)

Lemma f_max_encode C neg : fmt_ok C -> f_max C neg = f_encode C neg 255 (2 ^ mbits C - 1).
Proof.
  intros HC. pose proof (mbits_ge C HC). assert (HP : 0 < 2 ^ (mbits C - 1)) by (apply pow2_pos; lia).
  unfold f_max, f_encode. rewrite (pow2_pred (mbits C)) by lia.
  destruct neg; [rewrite (ok_neg_max C HC) | rewrite (ok_pos_max C HC)]; rewrite ?(pow2_pred (mbits C)) by lia;
    f_equal; f_equal; lia.
Qed.

Theorem max_value t neg : t = 4 \/ t = 8 ->
  value_scaled (mkf t (f_max (cls t) neg)) = (if neg then -1 else 1) * max_scaled t /\
  v_tag (mkf t (f_max (cls t) neg)) = t /\ value_ok (mkf t (f_max (cls t) neg)).
Proof. intros [-> | ->]; destruct neg; (split; [|split; [reflexivity|]]); try reflexivity; vm_compute; intuition discriminate || (repeat constructor; intuition discriminate). Qed.

Theorem v_div_by_zero x y : value_ok x -> value_ok y -> is_num x = true -> is_num y = true ->
  value_scaled y = 0 ->
  let t := widest x y in
  v_div true x y = Err err_div_zero /\
  exists neg, v_div false x y = Ok (mkf t (f_max (cls t) neg)) /\
    (value_scaled x < 0 -> neg = true) /\ (0 < value_scaled x -> neg = false).
Proof.
  intros Hx Hy Nx Ny Vy0. cbv zeta.
  destruct (promote_spec x y Hx Hy Nx Ny) as (xa & ya & Hxa & Hya & Vx & Vy & _ & _ & Harith). cbv zeta in *.
  set (t := widest x y) in *. pose proof (widest_cases x y) as Ht. fold t in Ht.
  pose proof (cls_ok t) as [HC _]. destruct (tag_cases t Ht) as (_ & _ & _ & _ & Hsc).
  assert (Hzy : f_zero ya = true) by (apply (sval_zero_iff _ _ HC Hya); rewrite Vy0 in Vy; nia).
  unfold v_div. rewrite !v_num2_arith, !Harith by assumption. unfold f_div.
  rewrite (idiv_by_zero (cls t) xa ya Hzy), is_zero_spec, Hzy. cbn [arith_safe rmap bind].
  split; [reflexivity|]. exists (mbf_is_negative (cls t) xa). split; [reflexivity|].
  rewrite is_negative_spec by assumption. rewrite <- Vx. rewrite f_sval_mag.
  pose proof (f_mag_nonneg _ _ HC Hxa). destruct (f_neg (cls t) xa); split; intros; try reflexivity; exfalso; nia.
Qed.

(* ------------------------------------------------------------------------------------------------ *)
(* C04 for division (non-zero divisor; division by zero: v_div_by_zero) *)

Lemma sgn_sval C b : fmt_ok C -> buf_ok C b -> f_zero b = false ->
  Z.sgn (f_sval C b) = (if f_neg C b then -1 else 1).
Proof.
  intros HC Hb Hz. pose proof (f_mag_pos C b HC Hb Hz). rewrite f_sval_mag.
  destruct (f_neg C b); [apply Z.sgn_neg | apply Z.sgn_pos]; lia.
Qed.

Theorem idiv_sval C a b : fmt_ok2 C -> mbits C <= 56 -> buf_ok C a -> buf_ok C b -> f_zero b = false ->
  sval_post C true 1 1 (f_sval C a * 2 ^ c_bias C * Z.sgn (f_sval C b)) (f_mag C b) (mbf_idiv C a b).
Proof.
  intros HC Hm Ha Hb Hzb. pose proof HC as [HC1 _].
  apply (mag_to_sval C true 1 1 (f_mag C a * 2 ^ c_bias C) _ (negb (Bool.eqb (f_neg C a) (f_neg C b)))).
  - pose proof (f_mag_nonneg C a HC1 Ha). assert (0 < 2 ^ c_bias C); [|nia].
    apply pow2_pos. rewrite (ok_bias C HC1). pose proof (mbits_ge C HC1). lia.
  - rewrite (sgn_sval C b HC1 Hb Hzb). rewrite f_sval_mag.
    destruct (f_neg C a), (f_neg C b); cbn [Bool.eqb negb]; lia.
  - apply idiv_post; assumption.
Qed.

Theorem v_div_post x y : value_ok x -> value_ok y -> is_num x = true -> is_num y = true ->
  value_scaled y <> 0 ->
  val_post (widest x y) true 1 1 (value_scaled x * 2 ^ 184 * Z.sgn (value_scaled y)) (Z.abs (value_scaled y))
           (v_div true x y) (v_div false x y).
Proof.
  intros Hx Hy Nx Ny Vy0.
  destruct (promote_spec x y Hx Hy Nx Ny) as (xa & ya & Hxa & Hya & Vx & Vy & _ & _ & Harith). cbv zeta in *.
  set (t := widest x y) in *. pose proof (widest_cases x y) as Ht. fold t in Ht.
  assert (Hm : forall hard, v_div hard x y = rmap (mkf t) (f_div hard (cls t) xa ya)).
  { intros hard. unfold v_div. rewrite v_num2_arith by assumption. apply Harith. }
  rewrite !Hm. unfold f_div.
  pose proof (cls_ok t) as HC2. pose proof HC2 as [HC _].
  destruct (tag_cases t Ht) as (Hmb & _ & _ & _ & Hsc).
  assert (Hzy : f_zero ya = false).
  { destruct (f_zero ya) eqn:E; [|reflexivity]. apply (sval_zero_iff _ _ HC Hya) in E. rewrite E in Vy. lia. }
  rewrite is_zero_spec, Hzy.
  assert (Hm56 : mbits (cls t) <= 56) by (rewrite Hmb; unfold fbits; destruct (t =? 8); lia).
  pose proof (idiv_sval (cls t) xa ya HC2 Hm56 Hxa Hya Hzy) as Hs.
  pose proof (f_mag_pos _ _ HC Hya Hzy) as HDn.
  assert (Hsg : Z.sgn (value_scaled y) = Z.sgn (f_sval (cls t) ya)).
  { rewrite <- Vy. rewrite Z.sgn_mul, (Z.sgn_pos (scale_of t)) by lia. lia. }
  assert (HN : value_scaled x * 2 ^ 184 * Z.sgn (value_scaled y)
               = f_sval (cls t) xa * 2 ^ c_bias (cls t) * Z.sgn (f_sval (cls t) ya) * (scale_of t * scale_of t)).
  { rewrite Hsg, <- Vx, <- (D184 t Ht). lia. }
  assert (HD : Z.abs (value_scaled y) = f_mag (cls t) ya * scale_of t).
  { rewrite <- Vy, Z.abs_mul, (Z.abs_eq (scale_of t)) by lia. rewrite (sval_abs _ _ HC Hya). reflexivity. }
  apply (val_of_sval t true 1 1 _ _ _ _ _ _ Ht HDn ltac:(lia) ltac:(lia) Hs HN HD).
  - intros Er. f_equal. rewrite !is_negative_spec by assumption.
    destruct Hs as [H1 _]. rewrite Er in H1. destruct H1 as [_ Hlt].
    pose proof (mbits_ge _ HC).
    assert (Hpos : 0 <= (2 ^ mbits (cls t) - 1) * 2 ^ 255 * f_mag (cls t) ya).
    { assert (2 <= 2 ^ mbits (cls t)) by (change 2 with (2 ^ 1) at 1; apply pow2_le; lia).
      assert (0 < 2 ^ 255) by (apply pow2_pos; lia). nia. }
    assert (Hnz : f_sval (cls t) xa <> 0).
    { intro E0. rewrite E0, !Z.mul_0_l in Hlt. change (Z.abs 0) with 0 in Hlt. lia. }
    assert (Hza : f_zero xa = false).
    { destruct (f_zero xa) eqn:E; [|reflexivity]. apply (sval_zero_iff _ _ HC Hxa) in E. contradiction. }
    rewrite HN. rewrite (sgn_sval _ _ HC Hya Hzy).
    pose proof (f_mag_pos _ _ HC Hxa Hza) as Hpa. rewrite (f_sval_mag _ xa).
    assert (Hpb : 0 < 2 ^ c_bias (cls t)) by (apply pow2_pos; rewrite (ok_bias _ HC); lia).
    set (ma := f_mag (cls t) xa) in *. set (B := 2 ^ c_bias (cls t)) in *. set (sc := scale_of t) in *.
    assert (Hprod : 0 < ma * B * (sc * sc)) by (clear - Hpa Hpb Hsc; nia).
    destruct (f_neg (cls t) xa), (f_neg (cls t) ya); cbn [Bool.eqb negb]; symmetry.
    + apply Z.ltb_ge. replace (- ma * B * -1 * (sc * sc)) with (ma * B * (sc * sc)) by lia. lia.
    + apply Z.ltb_lt. replace (- ma * B * 1 * (sc * sc)) with (- (ma * B * (sc * sc))) by lia. lia.
    + apply Z.ltb_lt. replace (ma * B * -1 * (sc * sc)) with (- (ma * B * (sc * sc))) by lia. lia.
    + apply Z.ltb_ge. replace (ma * B * 1 * (sc * sc)) with (ma * B * (sc * sc)) by lia. lia.
  - apply (host_of_sval _ _ _ _ _ _ _ Hs).
Qed.

(* ------------------------------------------------------------------------------------------------ *)
(* C04 for addition and subtraction *)

Lemma val_post_unscale t strict w den N D c rh rs : 0 < c -> 0 < D ->
  val_post t strict w den (N * c) (D * c) rh rs -> val_post t strict w den N D rh rs.
Proof.
  intros Hc HD [H1 H2].
  assert (Habs : Z.abs (N * c) = Z.abs N * c) by (rewrite Z.abs_mul, (Z.abs_eq c) by lia; reflexivity).
  assert (Hlt : (N * c <? 0) = (N <? 0)) by (destruct (Z.ltb_spec (N * c) 0), (Z.ltb_spec N 0); try reflexivity; exfalso; nia).
  split.
  - destruct rh as [r|e|x|]; try exact H1.
    + destruct H1 as (E & Ht & Hok & Hrest). split; [exact E|]. split; [exact Ht|]. split; [exact Hok|].
      destruct (is_zero_value r).
      * rewrite Habs in Hrest. nia.
      * unfold err_le in *.
        replace (value_scaled r * (D * c) - N * c) with ((value_scaled r * D - N) * c) in Hrest by lia.
        rewrite Z.abs_mul, (Z.abs_eq c) in Hrest by lia.
        destruct strict; nia.
    + destruct H1 as (E & Hm & Hrs). split; [exact E|]. split; [rewrite Habs in Hm; nia|]. rewrite Hlt in Hrs. exact Hrs.
  - intros Hbig. apply H2. rewrite Habs. nia.
Qed.

Lemma v_addsub_post (sub : bool) x y : value_ok x -> value_ok y -> is_num x = true -> is_num y = true ->
  let N := if sub then value_scaled x - value_scaled y else value_scaled x + value_scaled y in
  val_post (widest x y) false 2 1 N 1
           (if sub then v_sub true x y else v_add true x y) (if sub then v_sub false x y else v_add false x y).
Proof.
  intros Hx Hy Nx Ny N.
  destruct (promote_spec x y Hx Hy Nx Ny) as (xa & ya & Hxa & Hya & Vx & Vy & _ & _ & Harith). cbv zeta in *.
  set (t := widest x y) in *. pose proof (widest_cases x y) as Ht. fold t in Ht.
  pose proof (cls_ok t) as [HC _]. destruct (tag_cases t Ht) as (_ & _ & _ & _ & Hsc).
  apply (val_post_unscale t false 2 1 N 1 (scale_of t) _ _ Hsc ltac:(lia)).
  set (Nb := if sub then f_sval (cls t) xa - f_sval (cls t) ya else f_sval (cls t) xa + f_sval (cls t) ya).
  assert (HN : N * scale_of t = Nb * (scale_of t * scale_of t)).
  { unfold N, Nb. rewrite <- Vx, <- Vy. destruct sub; lia. }
  assert (HD : 1 * scale_of t = 1 * scale_of t) by reflexivity.
  destruct sub.
  - unfold v_sub. rewrite !v_num2_arith, !Harith by assumption. unfold f_sub.
    destruct (isub_sval (cls t) xa ya HC Hxa Hya) as [Hs Hneg].
    apply (val_of_sval t false 2 1 Nb 1 _ _ _ _ Ht ltac:(lia) ltac:(lia) ltac:(lia) Hs HN HD).
    + intros Er. f_equal. unfold add_den_neg, den_negate. rewrite (Hneg Er). unfold Nb.
      destruct (Z.ltb_spec (f_sval (cls t) xa - f_sval (cls t) ya) 0), (Z.ltb_spec (N * scale_of t) 0); try reflexivity; exfalso;
        rewrite HN in *; unfold Nb in *; nia.
    + apply (host_of_sval _ _ _ _ _ _ _ Hs).
  - rewrite !v_add_arith, !Harith by assumption. unfold f_add.
    destruct (iadd_sval (cls t) xa ya HC Hxa Hya) as [Hs Hneg].
    apply (val_of_sval t false 2 1 Nb 1 _ _ _ _ Ht ltac:(lia) ltac:(lia) ltac:(lia) Hs HN HD).
    + intros Er. f_equal. unfold add_den_neg. rewrite (Hneg Er). unfold Nb.
      destruct (Z.ltb_spec (f_sval (cls t) xa + f_sval (cls t) ya) 0), (Z.ltb_spec (N * scale_of t) 0); try reflexivity; exfalso;
        rewrite HN in *; unfold Nb in *; nia.
    + apply (host_of_sval _ _ _ _ _ _ _ Hs).
Qed.

Theorem v_add_post x y : value_ok x -> value_ok y -> is_num x = true -> is_num y = true ->
  val_post (widest x y) false 2 1 (value_scaled x + value_scaled y) 1 (v_add true x y) (v_add false x y).
Proof. exact (v_addsub_post false x y). Qed.

Theorem v_sub_post x y : value_ok x -> value_ok y -> is_num x = true -> is_num y = true ->
  val_post (widest x y) false 2 1 (value_scaled x - value_scaled y) 1 (v_sub true x y) (v_sub false x y).
Proof. exact (v_addsub_post true x y). Qed.

(* ------------------------------------------------------------------------------------------------ *)
(* the rounding band above the largest number: when the exact result exceeds MAX and no Overflow is
   raised, an operation whose error is below one unit in the last place returns exactly +-MAX *)

(* value level: val_post with error < 1 ulp *)
Theorem band_value t N D r rs : t = 4 \/ t = 8 -> 0 < D ->
  val_post t true 1 1 N D (Ok r) rs -> max_scaled t * D < Z.abs N ->
  value_scaled r = (if N <? 0 then -1 else 1) * max_scaled t /\ rs = Ok r.
Proof.
  intros Ht HD [(Ers & Htag & Hok & Hrest) _] Hbig. split; [|exact Ers].
  destruct (tag_cases t Ht) as (Hmb & Hmax & Hmin & _ & Hsc).
  pose proof (cls_ok t) as [HC _].
  assert (Hr : exists b, r = mkf t b /\ buf_ok (cls t) b).
  { destruct Ht as [-> | ->]; destruct r as [b|b|b|b]; try discriminate; exists b; split; try reflexivity; exact Hok. }
  destruct Hr as (b & -> & Hb).
  assert (Hzv : is_zero_value (mkf t b) = f_zero b) by (destruct Ht as [-> | ->]; reflexivity).
  rewrite Hzv in Hrest. destruct (mkf_scaled t b Ht) as [Hvs _].
  assert (Hulp : ulp_scaled (mkf t b) = 2 ^ f_exp b * scale_of t).
  { destruct Ht as [-> | ->]; cbn [mkf Z.eqb Pos.eqb ulp_scaled scale_of]; [|lia].
    pose proof (f_exp_bound Single_consts b Single_ok Hb). apply pow2_split; lia. }
  set (sc := scale_of t) in *.
  assert (Hmaxv : max_scaled t = (2 ^ mbits (cls t) - 1) * 2 ^ 255 * sc).
  { unfold max_scaled. rewrite Hmax, Hmb. fold sc. lia. }
  destruct (f_zero b) eqn:Hz.
  - exfalso. assert (min_scaled <= max_scaled t) by (destruct Ht as [-> | ->]; vm_compute; discriminate).
    assert (min_scaled * D <= max_scaled t * D) by (apply Z.mul_le_mono_nonneg_r; lia). lia.
  - unfold err_le in Hrest. rewrite !Z.mul_1_l, Hvs, Hulp in Hrest.
    rewrite Hvs, Hmaxv.
    assert (Hbb := band_bytes (cls t) b N (sc * D) HC Hb ltac:(nia) Hz).
    rewrite Hbb; [lia | |].
    + replace (f_sval (cls t) b * (sc * D)) with (f_sval (cls t) b * sc * D) by lia.
      replace (2 ^ f_exp b * (sc * D)) with (2 ^ f_exp b * sc * D) by lia. exact Hrest.
    + rewrite Hmaxv in Hbig. replace ((2 ^ mbits (cls t) - 1) * 2 ^ 255 * (sc * D)) with ((2 ^ mbits (cls t) - 1) * 2 ^ 255 * sc * D) by lia.
      exact Hbig.
Qed.

(* the band for + and - (the proved error of a true addition is below one unit in the last place) *)
Lemma arith_safe_ok r payload b : arith_safe true r payload = Ok b -> r = Ok b.
Proof.
  destruct r as [b'|e|x|]; cbn [arith_safe]; try discriminate; [auto|].
  destruct x as [|p|p]; try discriminate. do 4 (destruct p as [p|p|]; try discriminate).
Qed.

Theorem v_addsub_band (sub : bool) x y r : value_ok x -> value_ok y -> is_num x = true -> is_num y = true ->
  let N := if sub then value_scaled x - value_scaled y else value_scaled x + value_scaled y in
  (if sub then v_sub true x y else v_add true x y) = Ok r ->
  max_scaled (widest x y) < Z.abs N ->
  value_scaled r = (if N <? 0 then -1 else 1) * max_scaled (widest x y).
Proof.
  intros Hx Hy Nx Ny N E Hbig.
  destruct (promote_spec x y Hx Hy Nx Ny) as (xa & ya & Hxa & Hya & Vx & Vy & _ & _ & Harith). cbv zeta in *.
  set (t := widest x y) in *. pose proof (widest_cases x y) as Ht. fold t in Ht.
  pose proof (cls_ok t) as [HC _]. destruct (tag_cases t Ht) as (Hmb & Hmax & _ & _ & Hsc).
  set (sc := scale_of t) in *.
  set (Nb := if sub then f_sval (cls t) xa - f_sval (cls t) ya else f_sval (cls t) xa + f_sval (cls t) ya).
  assert (HN : N = Nb * sc) by (unfold N, Nb; rewrite <- Vx, <- Vy; destruct sub; lia).
  assert (Hmaxv : max_scaled t = (2 ^ mbits (cls t) - 1) * 2 ^ 255 * sc).
  { unfold max_scaled. rewrite Hmax, Hmb. fold sc. lia. }
  assert (Hbigb : (2 ^ mbits (cls t) - 1) * 2 ^ 255 * 1 < Z.abs Nb).
  { rewrite HN, Z.abs_mul, (Z.abs_eq sc), Hmaxv in Hbig by lia. nia. }
  assert (Hsign : (N <? 0) = (Nb <? 0)).
  { rewrite HN. destruct (Z.ltb_spec (Nb * sc) 0), (Z.ltb_spec Nb 0); try reflexivity; exfalso; nia. }
  assert (Hb0 : exists b0, r = mkf t b0 /\ (if sub then mbf_isub (cls t) xa ya else mbf_iadd (cls t) xa ya) = Ok b0).
  { destruct sub.
    - unfold v_sub in E. rewrite v_num2_arith, Harith in E by assumption. unfold f_sub in E.
      destruct (arith_safe true (mbf_isub (cls t) xa ya) _) as [b0| | |] eqn:Ea; cbn in E; try discriminate.
      exists b0. split; [congruence|]. apply (arith_safe_ok _ _ _ Ea).
    - rewrite v_add_arith, Harith in E by assumption. unfold f_add in E.
      destruct (arith_safe true (mbf_iadd (cls t) xa ya) _) as [b0| | |] eqn:Ea; cbn in E; try discriminate.
      exists b0. split; [congruence|]. apply (arith_safe_ok _ _ _ Ea). }
  destruct Hb0 as (b0 & -> & Eop). destruct (mkf_scaled t b0 Ht) as [Hvs _]. rewrite Hvs, Hsign, Hmaxv. fold sc.
  assert (Hs : f_sval (cls t) b0 = (if Nb <? 0 then -1 else 1) * ((2 ^ mbits (cls t) - 1) * 2 ^ 255)).
  { unfold Nb in *. destruct sub; [apply (isub_band (cls t) xa ya b0) | apply (iadd_band (cls t) xa ya b0)]; assumption. }
  rewrite Hs. lia.
Qed.
