(* C10: basic lemmas for the string-space model: association lists, locations, the root list, the chain of
   stored strings, and the invariant Inv. *)
From Coq Require Import ZArith List Bool Lia.
From PCB Require Import lib.Result lib.PyInt model.StrSpace.
Import ListNotations.
Open Scope Z_scope.

(* ---------- association lists ---------- *)
Lemma lookup_upsert_same {A} k (v : A) l : lookup k (upsert k v l) = Some v.
Proof.
  induction l as [|[k' v'] l IH]; simpl.
  - rewrite Z.eqb_refl. reflexivity.
  - destruct (k =? k') eqn:E; simpl; [rewrite Z.eqb_refl|rewrite E]; auto.
Qed.

Lemma lookup_upsert_other {A} k k0 (v : A) l : k <> k0 -> lookup k (upsert k0 v l) = lookup k l.
Proof.
  intros Hne. induction l as [|[k' v'] l IH]; simpl.
  - destruct (k =? k0) eqn:E; auto. apply Z.eqb_eq in E. contradiction.
  - destruct (k0 =? k') eqn:E0; simpl.
    + apply Z.eqb_eq in E0; subst k'. destruct (k =? k0) eqn:E; auto. apply Z.eqb_eq in E. contradiction.
    + destruct (k =? k'); auto.
Qed.

Lemma map_fst_upsert_mem {A} k (v : A) l : mem_key k l = true -> map fst (upsert k v l) = map fst l.
Proof.
  unfold mem_key. induction l as [|[k' v'] l IH]; simpl; intros H.
  - discriminate.
  - destruct (k =? k') eqn:E; simpl.
    + apply Z.eqb_eq in E; subst; reflexivity.
    + f_equal. apply IH. exact H.
Qed.

Lemma mem_key_upsert {A} k k0 (v : A) l : mem_key k l = true -> mem_key k (upsert k0 v l) = true.
Proof.
  unfold mem_key. intros H. destruct (Z.eq_dec k k0) as [->|Hne].
  - rewrite lookup_upsert_same. reflexivity.
  - rewrite lookup_upsert_other by assumption. exact H.
Qed.

Lemma mem_key_upsert_same {A} k (v : A) l : mem_key k (upsert k v l) = true.
Proof. unfold mem_key. rewrite lookup_upsert_same. reflexivity. Qed.

Lemma lookup_In {A} k (v : A) l : lookup k l = Some v -> In (k, v) l.
Proof.
  induction l as [|[k' v'] l IH]; simpl; intros H; [discriminate|].
  destruct (k =? k') eqn:E.
  - apply Z.eqb_eq in E. inversion H; subst. left; reflexivity.
  - right. apply IH, H.
Qed.

Lemma In_mem_key {A} k (v : A) l : In (k, v) l -> mem_key k l = true.
Proof.
  unfold mem_key. induction l as [|[k' v'] l IH]; simpl; intros H; [contradiction|].
  destruct (k =? k') eqn:E; [reflexivity|].
  destruct H as [H|H]; [inversion H; subst; rewrite Z.eqb_refl in E; discriminate | apply IH, H].
Qed.

Lemma lookup_remove_other {A} k k0 (l : list (Z * A)) : k <> k0 -> lookup k (remove_key k0 l) = lookup k l.
Proof.
  intros Hne. induction l as [|[k' v'] l IH]; simpl; auto.
  destruct (k0 =? k') eqn:E0; simpl.
  - apply Z.eqb_eq in E0; subst k'. destruct (k =? k0) eqn:E; auto. apply Z.eqb_eq in E; contradiction.
  - destruct (k =? k'); auto.
Qed.

(* ---------- update_nth ---------- *)
Lemma length_update_nth {A} n (x : A) l : length (update_nth n x l) = length l.
Proof. revert n; induction l; intros [|n]; simpl; auto. Qed.

Lemma nth_update_nth_same {A} n (x d : A) l : (n < length l)%nat -> nth n (update_nth n x l) d = x.
Proof. revert n; induction l; intros [|n] H; simpl in *; try lia; auto. apply IHl; lia. Qed.

Lemma nth_update_nth_other {A} n m (x d : A) l : n <> m -> nth n (update_nth m x l) d = nth n l d.
Proof. revert n m; induction l; intros [|n] [|m] H; simpl; auto; try congruence. Qed.

Lemma nth_error_update_nth_same {A} n (x : A) l : (n < length l)%nat -> nth_error (update_nth n x l) n = Some x.
Proof. revert n; induction l; intros [|n] H; simpl in *; try lia; auto. apply IHl; lia. Qed.

Lemma nth_error_update_nth_other {A} n m (x : A) l : n <> m -> nth_error (update_nth m x l) n = nth_error l n.
Proof. revert n m; induction l; intros [|n] [|m] H; simpl; auto; try congruence. Qed.

Lemma nth_error_nth' {A} (l : list A) n d x : nth_error l n = Some x -> nth n l d = x.
Proof. revert n; induction l; intros [|n] H; simpl in *; try discriminate; [inversion H; auto | auto]. Qed.

Lemma update_nth_same_id {A} n (l : list A) d : (n < length l)%nat -> update_nth n (nth n l d) l = l.
Proof. revert n; induction l; intros [|n] H; simpl in *; try lia; auto. f_equal. apply IHl; lia. Qed.

(* ---------- locations ---------- *)
Definition loc_eqb (a b : loc) : bool :=
  match a, b with
  | LScal n, LScal m => n =? m
  | LArr n i, LArr m j => (n =? m) && Nat.eqb i j
  | LStk f k, LStk g j => Nat.eqb f g && Nat.eqb k j
  | LTmp k, LTmp j => Nat.eqb k j
  | _, _ => false
  end.

Lemma loc_eqb_eq a b : loc_eqb a b = true <-> a = b.
Proof.
  destruct a, b; simpl; split; intros H; try discriminate; try congruence.
  - apply Z.eqb_eq in H; congruence.
  - inversion H; apply Z.eqb_refl.
  - apply andb_true_iff in H as [H1 H2]. apply Z.eqb_eq in H1. apply Nat.eqb_eq in H2. congruence.
  - inversion H; subst. rewrite Z.eqb_refl, Nat.eqb_refl. reflexivity.
  - apply andb_true_iff in H as [H1 H2]. apply Nat.eqb_eq in H1. apply Nat.eqb_eq in H2. congruence.
  - inversion H; subst. rewrite !Nat.eqb_refl. reflexivity.
  - apply Nat.eqb_eq in H. congruence.
  - inversion H; subst. apply Nat.eqb_refl.
Qed.

Lemma loc_eq_dec (a b : loc) : {a = b} + {a <> b}.
Proof.
  destruct (loc_eqb a b) eqn:E.
  - left. apply loc_eqb_eq, E.
  - right. intros H. apply loc_eqb_eq in H. congruence.
Qed.

Definition is_own (o : obj) : bool := match o with OStr _ | OSaveS _ _ => true | _ => false end.

Definition valid_loc (st : state) (l : loc) : Prop :=
  match l with
  | LScal n => exists p, lookup n (scal st) = Some (SStr p)
  | LArr n i => exists d els, lookup n (arrs st) = Some (d, els) /\ (i < length els)%nat
  | LStk f k => exists fr o, nth_error (stack st) f = Some fr /\ nth_error fr k = Some o /\ is_own o = true
  | LTmp k => exists o, nth_error (tvals st) k = Some o /\ is_own o = true
  end.

Lemma own_ptr_set o p : is_own o = true -> obj_own_ptr (set_obj_ptr o p) = p.
Proof. destruct o; simpl; intros H; try discriminate; reflexivity. Qed.

Lemma is_own_set o p : is_own (set_obj_ptr o p) = is_own o.
Proof. destruct o; reflexivity. Qed.

Lemma get_set_loc_same st l p : valid_loc st l -> get_loc (set_loc st l p) l = p.
Proof.
  destruct l as [n|n i|f k|k]; simpl; intros H.
  - unfold scal_ptr; simpl. rewrite lookup_upsert_same. reflexivity.
  - destruct H as (d & els & Hl & Hi). rewrite Hl. unfold arr_ptr; simpl.
    rewrite lookup_upsert_same. apply nth_update_nth_same, Hi.
  - destruct H as (fr & o & Hf & Hk & Ho).
    assert (Hfl : (f < length (stack st))%nat) by (apply nth_error_Some; congruence).
    assert (Hkl : (k < length fr)%nat) by (apply nth_error_Some; congruence).
    rewrite (nth_error_nth' _ _ [] _ Hf).
    rewrite (nth_update_nth_same f _ [] (stack st) Hfl).
    rewrite (nth_update_nth_same k _ (ONum 0 0) fr Hkl).
    rewrite (nth_error_nth' _ _ (ONum 0 0) _ Hk). apply own_ptr_set, Ho.
  - destruct H as (o & Hk & Ho).
    assert (Hkl : (k < length (tvals st))%nat) by (apply nth_error_Some; congruence).
    rewrite (nth_update_nth_same k _ (ONum 0 0) _ Hkl).
    rewrite (nth_error_nth' _ _ (ONum 0 0) _ Hk). apply own_ptr_set, Ho.
Qed.

Lemma get_set_loc_other st l0 l p : l <> l0 -> get_loc (set_loc st l0 p) l = get_loc st l.
Proof.
  intros Hne. destruct l0 as [n0|n0 i0|f0 k0|k0]; destruct l as [n|n i|f k|k]; simpl; try reflexivity.
  - unfold scal_ptr; simpl. rewrite lookup_upsert_other; [reflexivity|]. congruence.
  - destruct (lookup n0 (arrs st)) as [[d els]|] eqn:E; reflexivity.
  - destruct (lookup n0 (arrs st)) as [[d els]|] eqn:E; [|reflexivity].
    unfold arr_ptr; simpl. destruct (Z.eq_dec n n0) as [->|Hn].
    + rewrite lookup_upsert_same, E. apply nth_update_nth_other. congruence.
    + rewrite lookup_upsert_other by assumption. reflexivity.
  - destruct (lookup n0 (arrs st)) as [[d els]|] eqn:E; reflexivity.
  - destruct (lookup n0 (arrs st)) as [[d els]|] eqn:E; reflexivity.
  - destruct (Nat.eq_dec f f0) as [->|Hf].
    + destruct (Nat.lt_ge_cases f0 (length (stack st))) as [Hl|Hl].
      * rewrite (nth_update_nth_same f0 _ [] _ Hl). rewrite nth_update_nth_other; [reflexivity|congruence].
      * assert (E : update_nth f0 (update_nth k0 (set_obj_ptr (nth k0 (nth f0 (stack st) []) (ONum 0 0)) p)
                                  (nth f0 (stack st) [])) (stack st) = stack st).
        { clear - Hl. generalize (update_nth k0 (set_obj_ptr (nth k0 (nth f0 (stack st) []) (ONum 0 0)) p)
                                  (nth f0 (stack st) [])). intros x.
          revert f0 Hl. induction (stack st); intros [|f0] Hl; simpl in *; try lia; auto.
          f_equal. apply IHl. lia. }
        rewrite E. reflexivity.
    + rewrite nth_update_nth_other by assumption. reflexivity.
  - rewrite nth_update_nth_other; [reflexivity|congruence].
Qed.

(* ---------- the root list only depends on names, array sizes and object kinds ---------- *)
Lemma scalar_roots_keys st :
  scalar_roots st = flat_map (fun n => if is_strname n then [LScal n] else []) (map fst (scal st)).
Proof.
  unfold scalar_roots. induction (scal st) as [|[n v] l IH]; simpl; [reflexivity|]. rewrite IH. reflexivity.
Qed.

Definition arr_shape (a : list (Z * (Z * list ptr))) : list (Z * nat) :=
  map (fun '(n, (_, els)) => (n, length els)) a.

Lemma array_roots_shape st :
  array_roots st = flat_map (fun '(n, len) => if is_strname n then map (LArr n) (seq_nat 0 len) else [])
                            (arr_shape (arrs st)).
Proof.
  unfold array_roots, arr_shape. induction (arrs st) as [|[n [d els]] l IH]; simpl; [reflexivity|].
  rewrite IH. reflexivity.
Qed.

Lemma arr_shape_upsert n d els i p a :
  lookup n a = Some (d, els) -> arr_shape (upsert n (d, update_nth i p els) a) = arr_shape a.
Proof.
  unfold arr_shape. induction a as [|[n' [d' els']] a IH]; simpl; intros H; [discriminate|].
  destruct (n =? n') eqn:E; simpl.
  - apply Z.eqb_eq in E; subst. inversion H; subst. rewrite length_update_nth. reflexivity.
  - f_equal. apply IH, H.
Qed.

Lemma obj_root_set own k o p : obj_root own k (set_obj_ptr o p) = obj_root own k o.
Proof. destruct o; reflexivity. Qed.

Lemma objs_roots_update own k0 os j p :
  objs_roots own k0 (update_nth j (set_obj_ptr (nth j os (ONum 0 0)) p) os) = objs_roots own k0 os.
Proof.
  revert k0 j. induction os as [|o os IH]; intros k0 [|j]; simpl; auto.
  - rewrite obj_root_set. reflexivity.
  - rewrite IH. reflexivity.
Qed.

Lemma frames_roots_update f0 frs f j p :
  frames_roots f0 (update_nth f (update_nth j (set_obj_ptr (nth j (nth f frs []) (ONum 0 0)) p) (nth f frs [])) frs)
  = frames_roots f0 frs.
Proof.
  revert f0 f. induction frs as [|fr frs IH]; intros f0 [|f]; simpl; auto.
  - unfold frame_roots. rewrite objs_roots_update. reflexivity.
  - rewrite IH. reflexivity.
Qed.

Lemma roots_set_loc st l p : valid_loc st l -> roots (set_loc st l p) = roots st.
Proof.
  intros Hv. unfold roots. destruct l as [n|n i|f k|k]; simpl in *.
  - destruct Hv as (p0 & Hp0). f_equal. rewrite !scalar_roots_keys. simpl.
    rewrite map_fst_upsert_mem; [reflexivity|]. unfold mem_key. rewrite Hp0. reflexivity.
  - destruct Hv as (d & els & Hl & Hi). rewrite Hl. f_equal. f_equal.
    rewrite !array_roots_shape. simpl. rewrite (arr_shape_upsert _ _ _ _ _ _ Hl). reflexivity.
  - f_equal. f_equal. f_equal. unfold stack_roots. simpl. apply frames_roots_update.
  - f_equal. f_equal. f_equal. unfold temp_roots. simpl. rewrite objs_roots_update. reflexivity.
Qed.

Lemma valid_set_loc st l0 p l : valid_loc st l0 -> valid_loc st l -> valid_loc (set_loc st l0 p) l.
Proof.
  intros Hv0 Hv. destruct l0 as [n0|n0 i0|f0 k0|k0]; simpl in *.
  - destruct l as [n|n i|f k|k]; simpl in *; auto. destruct Hv as (q & Hq).
    destruct (Z.eq_dec n n0) as [->|Hn].
    + exists p. apply lookup_upsert_same.
    + exists q. rewrite lookup_upsert_other by assumption. exact Hq.
  - destruct Hv0 as (d0 & els0 & Hl0 & Hi0). rewrite Hl0.
    destruct l as [n|n i|f k|k]; simpl in *; auto.
    destruct Hv as (d & els & Hl & Hi). destruct (Z.eq_dec n n0) as [->|Hn].
    + rewrite Hl0 in Hl. inversion Hl; subst. exists d, (update_nth i0 p els). rewrite lookup_upsert_same.
      split; [reflexivity|]. rewrite length_update_nth. exact Hi.
    + exists d, els. rewrite lookup_upsert_other by assumption. auto.
  - destruct Hv0 as (fr0 & o0 & Hf0 & Hk0 & Ho0).
    destruct l as [n|n i|f k|k]; simpl in *; auto.
    destruct Hv as (fr & o & Hf & Hk & Ho).
    assert (Hfl : (f0 < length (stack st))%nat) by (apply nth_error_Some; congruence).
    assert (Hkl : (k0 < length fr0)%nat) by (apply nth_error_Some; congruence).
    rewrite (nth_error_nth' _ _ [] _ Hf0).
    destruct (Nat.eq_dec f f0) as [->|Hfn].
    + rewrite Hf0 in Hf. inversion Hf; subst fr0.
      rewrite nth_error_update_nth_same by assumption.
      destruct (Nat.eq_dec k k0) as [->|Hkn].
      * eexists _, _. split; [reflexivity|]. rewrite nth_error_update_nth_same by assumption.
        split; [reflexivity|]. rewrite is_own_set. rewrite (nth_error_nth' _ _ (ONum 0 0) _ Hk0). exact Ho0.
      * eexists _, o. split; [reflexivity|]. rewrite nth_error_update_nth_other by assumption. auto.
    + exists fr, o. rewrite nth_error_update_nth_other by assumption. auto.
  - destruct Hv0 as (o0 & Hk0 & Ho0).
    destruct l as [n|n i|f k|k]; simpl in *; auto.
    destruct Hv as (o & Hk & Ho).
    assert (Hkl : (k0 < length (tvals st))%nat) by (apply nth_error_Some; congruence).
    destruct (Nat.eq_dec k k0) as [->|Hkn].
    + eexists. rewrite nth_error_update_nth_same by assumption. split; [reflexivity|].
      rewrite is_own_set. rewrite (nth_error_nth' _ _ (ONum 0 0) _ Hk0). exact Ho0.
    + exists o. rewrite nth_error_update_nth_other by assumption. auto.
Qed.

(* fields that set_loc does not touch *)
Lemma set_loc_strs st l p : strs (set_loc st l p) = strs st.
Proof. destruct l; simpl; auto. destruct (lookup n (arrs st)) as [[? ?]|]; reflexivity. Qed.
Lemma set_loc_cur st l p : cur (set_loc st l p) = cur st.
Proof. destruct l; simpl; auto. destruct (lookup n (arrs st)) as [[? ?]|]; reflexivity. Qed.
Lemma set_loc_tmp st l p : tmp (set_loc st l p) = tmp st.
Proof. destruct l; simpl; auto. destruct (lookup n (arrs st)) as [[? ?]|]; reflexivity. Qed.
Lemma set_loc_top st l p : top (set_loc st l p) = top st.
Proof. unfold top. destruct l; simpl; auto. destruct (lookup n (arrs st)) as [[? ?]|]; reflexivity. Qed.
Lemma set_loc_scur st l p : scur (set_loc st l p) = scur st.
Proof. destruct l; simpl; auto. destruct (lookup n (arrs st)) as [[? ?]|]; reflexivity. Qed.
Lemma set_loc_acur st l p : acur (set_loc st l p) = acur st.
Proof. destruct l; simpl; auto. destruct (lookup n (arrs st)) as [[? ?]|]; reflexivity. Qed.

(* ---------- the chain of stored strings ---------- *)
Fixpoint chain (lo : Z) (l : list (Z * list Z)) (hi : Z) : Prop :=
  match l with
  | [] => lo = hi
  | (a, bs) :: r => a = lo /\ 0 < zlen bs <= 255 /\ chain (lo + zlen bs) r hi
  end.

Lemma chain_le lo l hi : chain lo l hi -> lo <= hi.
Proof.
  revert lo; induction l as [|[a bs] l IH]; simpl; intros lo H.
  - lia.
  - destruct H as (_ & Hb & H). apply IH in H. lia.
Qed.

Lemma chain_lookup lo l hi a bs :
  chain lo l hi -> lookup a l = Some bs -> lo <= a /\ a + zlen bs <= hi /\ 0 < zlen bs <= 255.
Proof.
  revert lo; induction l as [|[a' bs'] l IH]; simpl; intros lo H Hl; [discriminate|].
  destruct H as (-> & Hb & H). destruct (a =? lo) eqn:E.
  - apply Z.eqb_eq in E; subst. inversion Hl; subst. apply chain_le in H. lia.
  - apply (IH _ H) in Hl. lia.
Qed.

Lemma chain_lookup_below lo l hi a : chain lo l hi -> a < lo -> lookup a l = None.
Proof.
  intros H Ha. destruct (lookup a l) eqn:E; [|reflexivity].
  apply (chain_lookup _ _ _ _ _ H) in E. lia.
Qed.

(* ---------- the invariant ---------- *)
(* a pointer is acceptable if it is empty, or points into string space to a stored string of its length, or points
   into the program text (never below it with a non-zero length: FIELD buffers are outside the model) *)
Definition ptr_ok (c : cfg) (st : state) (p : ptr) : Prop :=
  (var_start c <= snd p -> fst p = 0 \/ exists bs, lookup (snd p) (strs st) = Some bs /\ zlen bs = fst p) /\
  (snd p < code_start c -> fst p = 0).

Lemma ptr_ok_bound c st p : ptr_ok c st p -> var_start c <= snd p ->
  fst p = 0 \/ exists bs, lookup (snd p) (strs st) = Some bs /\ zlen bs = fst p.
Proof. intros [H _]. exact H. Qed.

(* permanent strings lie above _temp *)
Definition Jp (c : cfg) (st : state) (p : ptr) : Prop :=
  match tmp st with
  | Some t => 0 < fst p -> var_start c <= snd p -> t < snd p
  | None => True
  end.

(* roots whose strings count as permanent: variables and the saved values of shadowed variables *)
Definition jclass (st : state) (l : loc) : Prop :=
  match l with
  | LScal _ | LArr _ _ => True
  | LStk f k => exists n p, nth_error (nth f (stack st) []) k = Some (OSaveS n p)
  | LTmp k => exists n p, nth_error (tvals st) k = Some (OSaveS n p)
  end.

Definition Jinv (c : cfg) (st : state) : Prop :=
  match tmp st with
  | Some t =>
      (strs st = [] \/ cur st <= t) /\
      forall l, In l (roots st) -> jclass st l ->
                0 < fst (get_loc st l) -> var_start c <= snd (get_loc st l) -> t < snd (get_loc st l)
  | None => True
  end.

Record Inv (c : cfg) (st : state) : Prop := mkInv {
  inv_chain : chain (cur st + 1) (strs st) (top st + 1);
  inv_valid : forall l, In l (roots st) -> valid_loc st l;
  inv_roots : forall l, In l (roots st) -> ptr_ok c st (get_loc st l);
  inv_low : 0 <= scur st /\ 0 <= acur st /\ (strs st = [] \/ var_start c + scur st + acur st <= cur st);
  inv_J : Jinv c st;
  inv_cfg : code_start c <= var_start c
}.

Lemma Inv_bound_ge c st a bs : Inv c st -> lookup a (strs st) = Some bs -> var_start c <= a /\ cur st < a.
Proof.
  intros HI Hl. destruct (inv_low _ _ HI) as (H1 & H2 & [H3|H3]).
  - rewrite H3 in Hl. discriminate.
  - apply (chain_lookup _ _ _ _ _ (inv_chain _ _ HI)) in Hl. lia.
Qed.

(* ---------- everything but the pointer values ---------- *)
Definition okind (o : obj) : obj :=
  match o with OStr _ => OStr (0, 0) | OSaveS n _ => OSaveS n (0, 0) | _ => o end.
Definition skind (v : sval) : sval := match v with SStr _ => SStr (0, 0) | SNum z => SNum z end.

Definition shape (st : state) :=
  (map (fun '(n, v) => (n, skind v)) (scal st),
   map (fun '(n, (d, els)) => (n, (d, length els))) (arrs st),
   map (map okind) (stack st), map okind (tvals st),
   (fns st, active st, totmem st, stksz st, scur st, acur st)).

Lemma map_upsert_same_img {A B} (f : Z * A -> Z * B) k v (l : list (Z * A)) v0 :
  (forall n x, fst (f (n, x)) = n) ->
  lookup k l = Some v0 -> f (k, v) = f (k, v0) -> map f (upsert k v l) = map f l.
Proof.
  intros Hf. induction l as [|[k' v'] l IH]; simpl; intros Hl He; [discriminate|].
  destruct (k =? k') eqn:E; simpl.
  - apply Z.eqb_eq in E; subst. inversion Hl; subst. rewrite He. reflexivity.
  - f_equal. apply IH; assumption.
Qed.

Lemma okind_set o p : okind (set_obj_ptr o p) = okind o.
Proof. destruct o; reflexivity. Qed.

Lemma map_update_nth_same_img {A B} (f : A -> B) n x (l : list A) d :
  f x = f (nth n l d) -> map f (update_nth n x l) = map f l.
Proof.
  revert n. induction l as [|y l IH]; intros [|n] H; simpl in *; auto.
  - rewrite H. reflexivity.
  - f_equal. apply IH, H.
Qed.

Lemma shape_set_loc st l p : valid_loc st l -> shape (set_loc st l p) = shape st.
Proof.
  intros Hv. unfold shape. destruct l as [n|n i|f k|k]; simpl in *.
  - destruct Hv as (p0 & Hp0).
    rewrite (map_upsert_same_img (fun '(n, v) => (n, skind v)) n (SStr p) (scal st) (SStr p0)); auto;
      intros; reflexivity.
  - destruct Hv as (d & els & Hl & Hi). rewrite Hl. simpl.
    rewrite (map_upsert_same_img (fun '(n, (d, els)) => (n, (d, length els))) n (d, update_nth i p els) (arrs st) (d, els)); auto;
      [intros ? [? ?]; reflexivity | rewrite length_update_nth; reflexivity].
  - rewrite (map_update_nth_same_img (map okind) f _ _ []); [reflexivity|].
    apply (map_update_nth_same_img okind k _ _ (ONum 0 0)). apply okind_set.
  - rewrite (map_update_nth_same_img okind k _ _ (ONum 0 0)); [reflexivity|]. apply okind_set.
Qed.
